(* Css/CascadeProofs.v -- the model of Cascade.v meets CascadeSpec.v.

   Structure:
   1. orders: specificity, weights (weight.Less is a total preorder: "<=");
   2. the insertion guard `old.isNone || old.Less(new)` makes every cascaded
      entry the sum of the inserted entries in the monoid "right-biased max"
      (pick), so loops become list concatenations (acts);
   3. a flattened rule with a selector list inserts like its declarations at
      the specificity of the most specific matching selector;
   4. flattening emits declarations in source order (flatten_preserves_order)
      and resolved nested selectors mean what css-nesting says;
   5. blocks of different origin/importance commute, so the implementation's
      sheet order agrees with the specification's order of appearance;
   6. the specification's arg-max over numbered occurrences is that sum. *)
From Verif Require Import Css.Cascade Css.CascadeSpec.
From Coq Require Import List NArith Bool Lia ZifyBool ZifyN ZifyNat FinFun.
Import ListNotations.
Open Scope N_scope.

(* ------------------------------------------------------------------ 1. orders *)

Definition spec_leb (s o : spec3) : bool := spec_less s o || spec_eqb s o.

Lemma spec_eqb_eq s o : spec_eqb s o = true <-> s = o.
Proof.
  destruct s as [[a1 b1] c1], o as [[a2 b2] c2]; unfold spec_eqb.
  rewrite !andb_true_iff, !N.eqb_eq. split.
  - intros [[-> ->] ->]; reflexivity.
  - intros H; inversion H; auto.
Qed.

Lemma spec_less_form s o :
  spec_less s o = let '(a1, b1, c1) := s in let '(a2, b2, c2) := o in
                  (a1 <? a2) || ((a1 =? a2) && ((b1 <? b2) || ((b1 =? b2) && (c1 <? c2)))).
Proof.
  destruct s as [[a1 b1] c1], o as [[a2 b2] c2]; unfold spec_less.
  destruct (a1 <? a2) eqn:E1; [reflexivity|]. destruct (a2 <? a1) eqn:E2; [lia|].
  destruct (b1 <? b2) eqn:E3; [lia|]. destruct (b2 <? b1) eqn:E4; [lia|].
  destruct (c1 <? c2) eqn:E5; lia.
Qed.

Lemma spec_leb_lex s o : spec_leb s o = lex_le s o.
Proof.
  unfold spec_leb. rewrite spec_less_form.
  destruct s as [[a1 b1] c1], o as [[a2 b2] c2]; unfold spec_eqb, lex_le. lia.
Qed.

Lemma lex_le_refl s : lex_le s s = true.
Proof. destruct s as [[a b] c]; unfold lex_le. lia. Qed.

Lemma lex_le_total s o : lex_le s o = true \/ lex_le o s = true.
Proof. destruct s as [[a1 b1] c1], o as [[a2 b2] c2]; unfold lex_le. lia. Qed.

Lemma lex_le_trans s o t : lex_le s o = true -> lex_le o t = true -> lex_le s t = true.
Proof. destruct s as [[a1 b1] c1], o as [[a2 b2] c2], t as [[a3 b3] c3]; unfold lex_le. lia. Qed.

Lemma lex_le_antisym s o : lex_le s o = true -> lex_le o s = true -> s = o.
Proof.
  destruct s as [[a1 b1] c1], o as [[a2 b2] c2]; unfold lex_le. intros H1 H2.
  assert (a1 = a2) by lia. assert (b1 = b2) by lia. assert (c1 = c2) by lia. subst. reflexivity.
Qed.

Lemma lex_le_zero s : lex_le (0, 0, 0) s = true.
Proof. destruct s as [[a b] c]; unfold lex_le. lia. Qed.

Lemma lex_max_zero_r s : lex_max s (0, 0, 0) = s.
Proof.
  unfold lex_max. destruct (lex_le s (0,0,0)) eqn:E; auto.
  symmetry. apply lex_le_antisym; auto using lex_le_zero.
Qed.

Lemma spec_max_lex m n : spec_max m n = lex_max m n.
Proof.
  unfold spec_max, lex_max. rewrite <- spec_leb_lex. unfold spec_leb.
  destruct (spec_less m n) eqn:L; simpl; auto.
  destruct (spec_eqb m n) eqn:E; auto. apply spec_eqb_eq in E. congruence.
Qed.

(* weight.Less as a mathematical relation: lexicographic "<=" on
   (precedence, style attribute flag, specificity) *)
Definition weight_le (a b : weight) : Prop :=
  w_prec a < w_prec b \/
  (w_prec a = w_prec b /\
   ((w_attr a = false /\ w_attr b = true) \/
    (w_attr a = w_attr b /\ lex_le (w_spec a) (w_spec b) = true))).

Lemma weight_less_is_le a b : w_less a b = true <-> weight_le a b.
Proof.
  unfold w_less, weight_le. fold (spec_leb (w_spec a) (w_spec b)). rewrite spec_leb_lex.
  destruct (N.eqb_spec (w_prec a) (w_prec b)) as [E|E]; simpl.
  - destruct (w_attr a), (w_attr b); simpl; split; intros H; auto; try lia; try discriminate;
      try (destruct H as [H|[_ [[H1 H2]|[H1 H2]]]]; try lia; try discriminate; auto).
  - rewrite N.ltb_lt. split; [auto|]. intros [H|[H _]]; [auto|contradiction].
Qed.

Lemma w_less_refl a : w_less a a = true.
Proof. apply weight_less_is_le. right. split; auto. right. split; auto. apply lex_le_refl. Qed.

Lemma w_less_total a b : w_less a b = true \/ w_less b a = true.
Proof.
  rewrite !weight_less_is_le. unfold weight_le.
  destruct (N.lt_trichotomy (w_prec a) (w_prec b)) as [H|[H|H]]; auto.
  destruct (w_attr a) eqn:Ea, (w_attr b) eqn:Eb.
  - destruct (lex_le_total (w_spec a) (w_spec b)); [left|right]; right; split; auto.
  - right. right. split; auto.
  - left. right. split; auto.
  - destruct (lex_le_total (w_spec a) (w_spec b)); [left|right]; right; split; auto.
Qed.

Lemma w_less_trans a b c : w_less a b = true -> w_less b c = true -> w_less a c = true.
Proof.
  rewrite !weight_less_is_le. unfold weight_le.
  intros [H1|[H1 H1']] [H2|[H2 H2']]; try (left; lia).
  right. split; [lia|].
  destruct H1' as [[A1 A2]|[A1 A2]], H2' as [[B1 B2]|[B1 B2]]; try congruence.
  - left. split; congruence.
  - left. split; congruence.
  - right. split; [congruence|]. eapply lex_le_trans; eauto.
Qed.

(* ------------------------------------------------------------------ 2. the pick monoid *)

Definition pick (x y : entry) : entry := if w_less (fst x) (fst y) then y else x.

Definition omerge (a b : option entry) : option entry :=
  match a, b with
  | None, _ => b
  | _, None => a
  | Some x, Some y => Some (pick x y)
  end.

Lemma pick_assoc x y z : pick (pick x y) z = pick x (pick y z).
Proof.
  unfold pick.
  destruct (w_less (fst x) (fst y)) eqn:XY, (w_less (fst y) (fst z)) eqn:YZ; simpl; rewrite ?XY, ?YZ; auto.
  - rewrite (w_less_trans _ _ _ XY YZ). reflexivity.
  - destruct (w_less (fst x) (fst z)) eqn:XZ; auto.
    (* x > y, y > z, but x <= z: impossible *)
    destruct (w_less_total (fst x) (fst y)) as [H|H]; [congruence|].
    destruct (w_less_total (fst y) (fst z)) as [H'|H']; [congruence|].
    pose proof (w_less_trans _ _ _ XZ H'). congruence.
Qed.

Lemma omerge_assoc a b c : omerge (omerge a b) c = omerge a (omerge b c).
Proof. destruct a, b, c; simpl; auto. rewrite pick_assoc. reflexivity. Qed.

Lemma omerge_None_r a : omerge a None = a.
Proof. destruct a; reflexivity. Qed.

Definition opick (a : option entry) (e : entry) : option entry := omerge a (Some e).
Definition sumE (l : list entry) : option entry := fold_left opick l None.

Lemma fold_opick l a : fold_left opick l a = omerge a (sumE l).
Proof.
  unfold sumE. revert a. induction l as [|e l IH]; intros a; cbn [fold_left].
  - rewrite omerge_None_r. reflexivity.
  - rewrite IH. rewrite (IH (opick None e)). unfold opick. rewrite omerge_assoc. reflexivity.
Qed.

Lemma sumE_app l1 l2 : sumE (l1 ++ l2) = omerge (sumE l1) (sumE l2).
Proof. unfold sumE at 1. rewrite fold_left_app. fold (sumE l1). apply fold_opick. Qed.

Lemma sumE_nil : sumE [] = None.
Proof. reflexivity. Qed.

Lemma sumE_one e : sumE [e] = Some e.
Proof. reflexivity. Qed.

Lemma sumE_cons e l : sumE (e :: l) = omerge (Some e) (sumE l).
Proof. change (e :: l) with ([e] ++ l). rewrite sumE_app. reflexivity. Qed.

Lemma sumE_in l e : sumE l = Some e -> In e l.
Proof.
  revert e. induction l as [|x l IH] using rev_ind; intros e; [discriminate|].
  rewrite sumE_app, sumE_one. destruct (sumE l) as [y|] eqn:S; simpl.
  - unfold pick. destruct (w_less (fst y) (fst x)); intros [= <-]; apply in_or_app; simpl; auto.
  - intros [= <-]. apply in_or_app; simpl; auto.
Qed.

Lemma sumE_flat_map {A} (f g : A -> list entry) l :
  (forall a, In a l -> sumE (f a) = sumE (g a)) -> sumE (flat_map f l) = sumE (flat_map g l).
Proof.
  induction l as [|a l IH]; intros H; simpl; auto.
  rewrite !sumE_app, (H a) by (simpl; auto). rewrite IH; auto. intros; apply H; simpl; auto.
Qed.

Lemma sumE_app_congr a a' b b' : sumE a = sumE a' -> sumE b = sumE b' -> sumE (a ++ b) = sumE (a' ++ b').
Proof. intros; rewrite !sumE_app; congruence. Qed.

(* ------------------------------------------------------------------ 2b. loops as concatenations *)

(* f inserts, for every property p, the entries E p (in order) *)
Definition acts (f : cmap -> cmap) (E : N -> list entry) : Prop :=
  forall m p, f m p = omerge (m p) (sumE (E p)).

Lemma acts_id : acts (fun m => m) (fun _ => []).
Proof. intros m p. rewrite sumE_nil, omerge_None_r. reflexivity. Qed.

Lemma acts_comp f g E F : acts f E -> acts g F -> acts (fun m => g (f m)) (fun p => E p ++ F p).
Proof. intros Hf Hg m p. rewrite Hg, Hf, sumE_app, omerge_assoc. reflexivity. Qed.

Lemma acts_ext f E E' : acts f E -> (forall p, E p = E' p) -> acts f E'.
Proof. intros H HE m p. rewrite <- HE. apply H. Qed.

Lemma acts_fold {A} (step : cmap -> A -> cmap) (Ev : A -> N -> list entry) l :
  (forall a, acts (fun m => step m a) (Ev a)) ->
  acts (fun m => fold_left step l m) (fun p => flat_map (fun a => Ev a p) l).
Proof.
  intros H. induction l as [|a l IH]; simpl.
  - apply acts_id.
  - apply (acts_comp (fun m => step m a) (fun m => fold_left step l m)); auto.
Qed.

Lemma precedence_pos o i : 1 <= declaration_precedence o i.
Proof. destruct o, i; cbv; discriminate. Qed.

Definition decl_ev (o : origin) (attr : bool) (sp : spec3) (d : decl) (p : N) : list entry :=
  if d_prop d =? p then [(mkW (declaration_precedence o (d_imp d)) attr sp, d_vid d)] else [].

Lemma is_none_less w we : is_none w = true -> 1 <= w_prec we -> w_less w we = true.
Proof.
  unfold is_none, weight_eqb, w_less. simpl. intros H Hp.
  assert (w_prec w = 0) by lia.
  destruct (N.eqb_spec (w_prec w) (w_prec we)); simpl; lia.
Qed.

Lemma acts_insert o attr sp d : acts (fun m => insert o attr sp m d) (decl_ev o attr sp d).
Proof.
  intros m p. unfold insert, decl_ev, lookup_w.
  set (we := mkW (declaration_precedence o (d_imp d)) attr sp).
  assert (Hwe : 1 <= w_prec we) by apply precedence_pos.
  destruct (N.eqb_spec (d_prop d) p) as [->|Hne].
  - rewrite sumE_one. destruct (m p) as [[w0 v0]|] eqn:Em.
    + simpl. unfold pick; simpl.
      destruct (is_none w0) eqn:Hn; simpl.
      * rewrite (is_none_less _ _ Hn Hwe). unfold set_entry. rewrite N.eqb_refl. reflexivity.
      * destruct (w_less w0 we); [unfold set_entry; rewrite N.eqb_refl; reflexivity|auto].
    + simpl. unfold set_entry. rewrite N.eqb_refl. reflexivity.
  - rewrite sumE_nil, omerge_None_r.
    destruct (is_none _ || w_less _ _); auto.
    unfold set_entry. destruct (N.eqb_spec p (d_prop d)); [congruence|reflexivity].
Qed.

(* ------------------------------------------------------------------ 3. the entries the model inserts *)

Definition forced_spec (forced : option spec3) (s : sel) : spec3 :=
  match forced with Some f => f | None => specificity s end.

Definition rule_ev (o : origin) (forced : option spec3) (k : N) (path : path) (r : frule) (p : N) : list entry :=
  flat_map (fun s => if applies s k path
                     then flat_map (fun d => decl_ev o false (forced_spec forced s) d p) (snd r)
                     else []) (fst r).

Lemma acts_apply_rule o forced k path r :
  acts (fun m => apply_rule o forced k path m r) (rule_ev o forced k path r).
Proof.
  unfold apply_rule, rule_ev.
  apply (acts_fold (fun m s => if applies s k path then fold_left (insert o false (forced_spec forced s)) (snd r) m else m)
                   (fun s p => if applies s k path then flat_map (fun d => decl_ev o false (forced_spec forced s) d p) (snd r) else [])).
  intros s. destruct (applies s k path).
  - apply (acts_fold (insert o false (forced_spec forced s)) (fun d p => decl_ev o false (forced_spec forced s) d p)).
    intros d. apply acts_insert.
  - apply acts_id.
Qed.

Definition sheet_ev (k : N) (path : path) (sh : sheet) (p : N) : list entry :=
  flat_map (fun r => rule_ev (sh_origin sh) (sh_forced sh) k path r p) (sh_rules sh).

Lemma acts_apply_sheet k path sh : acts (fun m => apply_sheet k path m sh) (sheet_ev k path sh).
Proof.
  unfold apply_sheet, sheet_ev.
  apply (acts_fold (apply_rule (sh_origin sh) (sh_forced sh) k path)
                   (fun r p => rule_ev (sh_origin sh) (sh_forced sh) k path r p)).
  intros r. apply acts_apply_rule.
Qed.

Definition attr_ev (d : document) (k : N) (path : path) (p : N) : list entry :=
  match path with
  | [] => []
  | e :: _ =>
      if k =? 0 then
        flat_map (fun dc => decl_ev Author true (1, 0, 0) dc p) (n_style e)
        ++ (if doc_hints d then flat_map (fun dc => decl_ev Author false (0, 0, 0) dc p) (n_hints e) else [])
      else []
  end.

Definition impl_ev (d : document) (k : N) (path : path) (p : N) : list entry :=
  attr_ev d k path p ++ flat_map (fun sh => sheet_ev k path sh p) (all_sheets d).

Lemma attr_pass_ev d k path p : attr_pass d k path p = sumE (attr_ev d k path p).
Proof.
  unfold attr_pass, attr_ev. destruct path as [|e anc]; [reflexivity|].
  destruct (k =? 0); [|reflexivity].
  pose proof (acts_fold (insert Author true (1,0,0)) (fun dc p => decl_ev Author true (1,0,0) dc p) (n_style e)
                (fun dc => acts_insert Author true (1,0,0) dc)) as H1.
  pose proof (acts_fold (insert Author false (0,0,0)) (fun dc p => decl_ev Author false (0,0,0) dc p) (n_hints e)
                (fun dc => acts_insert Author false (0,0,0) dc)) as H2.
  destruct (doc_hints d).
  - rewrite H2, H1, sumE_app. reflexivity.
  - rewrite H1, app_nil_r. reflexivity.
Qed.

Lemma cascade_impl_ev d k path p : cascade_impl d k path p = sumE (impl_ev d k path p).
Proof.
  unfold cascade_impl, impl_ev.
  pose proof (acts_fold (apply_sheet k path) (fun sh p => sheet_ev k path sh p) (all_sheets d)
                (fun sh => acts_apply_sheet k path sh)) as H.
  rewrite H, attr_pass_ev, sumE_app. reflexivity.
Qed.

(* ------------------------------------------------------------------ 4. a selector list inserts at its best matching specificity *)

Definition lift (sp : spec3) (attr : bool) (b : option (N * N)) : option entry :=
  option_map (fun pv => (mkW (fst pv) attr sp, snd pv)) b.

Definition ppick (a : option (N * N)) (x : N * N) : option (N * N) :=
  match a with
  | None => Some x
  | Some y => if fst y <=? fst x then Some x else Some y
  end.

Definition bstep (o : origin) (p : N) (acc : option (N * N)) (d : decl) : option (N * N) :=
  if d_prop d =? p then ppick acc (declaration_precedence o (d_imp d), d_vid d) else acc.

(* the declaration of ds for p with the greatest precedence, the last one on ties *)
Definition bestd (o : origin) (ds : list decl) (p : N) : option (N * N) := fold_left (bstep o p) ds None.

Definition block (o : origin) (attr : bool) (sp : spec3) (ds : list decl) (p : N) : list entry :=
  flat_map (fun d => decl_ev o attr sp d p) ds.

Lemma w_less_same_spec p1 p2 attr sp : w_less (mkW p1 attr sp) (mkW p2 attr sp) = (p1 <=? p2).
Proof.
  unfold w_less; simpl. rewrite eqb_reflx; simpl.
  fold (spec_leb sp sp). rewrite spec_leb_lex, lex_le_refl.
  destruct (N.eqb_spec p1 p2); simpl; lia.
Qed.

Lemma block_sum_gen o attr sp p ds acc :
  fold_left opick (block o attr sp ds p) (lift sp attr acc) = lift sp attr (fold_left (bstep o p) ds acc).
Proof.
  revert acc. induction ds as [|d ds IH]; intros acc; [reflexivity|].
  unfold block in *. cbn [flat_map fold_left]. rewrite fold_left_app.
  assert (H : fold_left opick (decl_ev o attr sp d p) (lift sp attr acc) = lift sp attr (bstep o p acc d)).
  { unfold decl_ev, bstep. destruct (d_prop d =? p); [|reflexivity].
    cbn [fold_left]. destruct acc as [[p0 v0]|]; [|reflexivity].
    unfold opick, lift, ppick. cbn [option_map omerge fst snd]. unfold pick. cbn [fst snd].
    rewrite w_less_same_spec.
    destruct (p0 <=? _); reflexivity. }
  rewrite H. apply IH.
Qed.

Lemma block_sum o attr sp ds p : sumE (block o attr sp ds p) = lift sp attr (bestd o ds p).
Proof. apply (block_sum_gen o attr sp p ds None). Qed.

Lemma lift_merge s1 s2 b : omerge (lift s1 false b) (lift s2 false b) = lift (lex_max s1 s2) false b.
Proof.
  destruct b as [[p v]|]; [|reflexivity]. unfold lift, lex_max; simpl. unfold pick; simpl.
  unfold w_less; simpl. rewrite N.eqb_refl; simpl.
  fold (spec_leb s1 s2). rewrite spec_leb_lex. destruct (lex_le s1 s2); reflexivity.
Qed.

(* specificity the rule has for the element *)
Definition rule_rank (forced : option spec3) (g : list sel) (k : N) (path : path) : spec3 :=
  match forced with
  | Some f => f
  | None => fold_right (fun s acc => if applies s k path then lex_max (specificity s) acc else acc) (0, 0, 0) g
  end.

Definition group_matches (g : list sel) (k : N) (path : path) : bool := existsb (fun s => applies s k path) g.

Lemma rank_no_match g k path :
  group_matches g k path = false ->
  fold_right (fun s acc => if applies s k path then lex_max (specificity s) acc else acc) (0, 0, 0) g = (0, 0, 0).
Proof.
  induction g as [|s g IH]; simpl; auto.
  destruct (applies s k path); simpl; [discriminate|auto].
Qed.

Lemma lex_max_idem s : lex_max s s = s.
Proof. unfold lex_max. destruct (lex_le s s); reflexivity. Qed.

Lemma rule_ev_sum o forced k path g ds p :
  sumE (rule_ev o forced k path (g, ds) p) =
  if group_matches g k path then sumE (block o false (rule_rank forced g k path) ds p) else None.
Proof.
  unfold rule_ev; cbn [fst snd]. fold (block o false).
  induction g as [|s g IH]; [reflexivity|].
  cbn [flat_map]. rewrite sumE_app, IH. unfold group_matches in *. cbn [existsb].
  destruct (applies s k path) eqn:Ms; cbn [orb].
  - fold (block o false (forced_spec forced s) ds p). rewrite block_sum.
    destruct (existsb (fun s0 => applies s0 k path) g) eqn:Eg.
    + rewrite block_sum, lift_merge, block_sum. f_equal.
      unfold rule_rank, forced_spec. destruct forced; [apply lex_max_idem|].
      cbn [fold_right]. rewrite Ms. reflexivity.
    + rewrite omerge_None_r, block_sum. f_equal.
      unfold rule_rank, forced_spec. destruct forced; [reflexivity|].
      cbn [fold_right]. rewrite Ms, (rank_no_match g k path Eg), lex_max_zero_r. reflexivity.
  - rewrite sumE_nil. cbn [omerge].
    destruct (existsb (fun s0 => applies s0 k path) g); [|reflexivity].
    f_equal. unfold rule_rank. destruct forced; [reflexivity|]. cbn [fold_right]. rewrite Ms. reflexivity.
Qed.

(* one (selector list, declaration) pair *)
Definition pair_ev (o : origin) (forced : option spec3) (k : N) (path : path) (p : N) (gd : list sel * decl) : list entry :=
  if group_matches (fst gd) k path then decl_ev o false (rule_rank forced (fst gd) k path) (snd gd) p else [].

Definition pairs (l : list frule) : list (list sel * decl) :=
  flat_map (fun r => map (pair (fst r)) (snd r)) l.

Lemma flat_map_nil {A B} (l : list A) : flat_map (fun _ => @nil B) l = [].
Proof. induction l; simpl; auto. Qed.

Lemma flat_map_flat_map {A B C} (f : B -> list C) (h : A -> list B) l :
  flat_map f (flat_map h l) = flat_map (fun x => flat_map f (h x)) l.
Proof. induction l; simpl; auto. rewrite flat_map_app. congruence. Qed.

Lemma flat_map_map {A B C} (f : B -> list C) (h : A -> B) l :
  flat_map f (map h l) = flat_map (fun x => f (h x)) l.
Proof. induction l; simpl; congruence. Qed.

Lemma rule_ev_pairs o forced k path r p :
  sumE (rule_ev o forced k path r p) = sumE (flat_map (pair_ev o forced k path p) (map (pair (fst r)) (snd r))).
Proof.
  destruct r as [g ds]. rewrite rule_ev_sum. cbn [fst snd]. rewrite flat_map_map.
  unfold pair_ev; cbn [fst snd]. destruct (group_matches g k path).
  - reflexivity.
  - rewrite flat_map_nil. reflexivity.
Qed.

Lemma sheet_ev_pairs k path sh p :
  sumE (sheet_ev k path sh p) = sumE (flat_map (pair_ev (sh_origin sh) (sh_forced sh) k path p) (pairs (sh_rules sh))).
Proof.
  unfold sheet_ev, pairs. rewrite flat_map_flat_map.
  apply sumE_flat_map. intros r _. apply rule_ev_pairs.
Qed.

(* ------------------------------------------------------------------ 5. flattening keeps the source order *)

(* (resolved selector list, declaration) in the order the declarations are written *)
Fixpoint body_pairs (g : list sel) (b : body) : list (list sel * decl) :=
  match b with
  | BNil => []
  | BDecl d rest => (g, d) :: body_pairs g rest
  | BNest pre inner rest => body_pairs (resolve g pre) inner ++ body_pairs g rest
  end.

Lemma pairs_app l1 l2 : pairs (l1 ++ l2) = pairs l1 ++ pairs l2.
Proof. apply flat_map_app. Qed.

Lemma pairs_one g ds : pairs [(g, ds)] = map (pair g) ds.
Proof. unfold pairs; simpl. apply app_nil_r. Qed.

Lemma flatten_body_pairs g b : forall own out,
  pairs (flatten_body g b own out) = pairs out ++ map (pair g) own ++ body_pairs g b.
Proof.
  revert g. induction b as [|d rest IH|pre inner IHi rest IHr]; intros g own out; cbn [flatten_body body_pairs].
  - rewrite app_nil_r. destruct own as [|d own]; cbn [nonempty orb].
    + destruct out; cbn [nonempty negb]; [reflexivity|rewrite app_nil_r; reflexivity].
    + rewrite pairs_app, pairs_one. reflexivity.
  - rewrite IH, map_app, <- !app_assoc. reflexivity.
  - destruct own as [|d own]; cbn [nonempty].
    + rewrite IHr, pairs_app, IHi. cbn [pairs flat_map map app]. rewrite <- !app_assoc. reflexivity.
    + rewrite IHr, !pairs_app, pairs_one, IHi. cbn [pairs flat_map map app]. rewrite <- !app_assoc. reflexivity.
Qed.

Fixpoint rules_pairs (device : N) (rs : rules) (ignore_imports : bool) : list (list sel * decl) :=
  match rs with
  | RNil => []
  | RStyle g b rest => body_pairs (resolve_top g) b ++ rules_pairs device rest true
  | RImport q fetched sh rest =>
      if ignore_imports then rules_pairs device rest ignore_imports
      else if negb (evaluate_media q device) then rules_pairs device rest ignore_imports
      else if fetched then rules_pairs device sh false ++ rules_pairs device rest ignore_imports
      else rules_pairs device rest ignore_imports
  | RMedia q inner rest =>
      if evaluate_media q device
      then rules_pairs device inner true ++ rules_pairs device rest true
      else rules_pairs device rest true
  | ROther rest => rules_pairs device rest true
  end.

Lemma flatten_rules_pairs device rs : forall ig, pairs (flatten_rules device rs ig) = rules_pairs device rs ig.
Proof.
  induction rs as [|g b rest IH|q inner IHi rest IHr|q fetched sh IHs rest IHr|rest IH]; intros ig;
    cbn [flatten_rules rules_pairs].
  - reflexivity.
  - rewrite pairs_app, flatten_body_pairs, IH. reflexivity.
  - destruct (evaluate_media q device); [rewrite pairs_app, IHi, IHr|rewrite IHr]; reflexivity.
  - destruct ig; [apply IHr|]. destruct (evaluate_media q device); cbn [negb]; [|apply IHr].
    destruct fetched; [rewrite pairs_app, IHs, IHr; reflexivity|apply IHr].
  - apply IH.
Qed.

(* --- nested selectors mean what css-nesting says *)

Lemma matches_nil s : matches s [] = false.
Proof. destruct s; reflexivity. Qed.

Lemma smatch_nil amp s : smatch amp s [] = false.
Proof. destruct s; reflexivity. Qed.

Lemma any_suffix_ext f g l : (forall q, f q = g q) -> any_suffix f l = any_suffix g l.
Proof. intros H. induction l; simpl; auto. rewrite H, IHl. reflexivity. Qed.

Lemma up_any amp a anc :
  (fix up (q : path) : bool := match q with [] => false | _ :: r => smatch amp a q || up r end) anc
  = any_suffix (smatch amp a) anc.
Proof. induction anc as [|e anc IH]; [reflexivity|]. cbn [any_suffix]. rewrite <- IH. reflexivity. Qed.

Lemma smatch_desc amp a b e anc :
  smatch amp (SDesc a b) (e :: anc) = smatch amp b (e :: anc) && any_suffix (smatch amp a) anc.
Proof. cbn [smatch]. rewrite up_any. reflexivity. Qed.

Lemma subst_sem amp r : (forall q, amp q = matches r q) ->
  forall s q, smatch amp s q = matches (subst_amp r s) q.
Proof.
  intros Hr. induction s; intros q; destruct q as [|e anc];
    try (rewrite smatch_nil, matches_nil; reflexivity); try reflexivity.
  - cbn [subst_amp]. cbn [smatch]. apply Hr.
  - cbn [subst_amp smatch matches]. rewrite IHs1, IHs2. reflexivity.
  - rewrite smatch_desc. cbn [subst_amp matches]. rewrite IHs2. f_equal. apply any_suffix_ext. auto.
  - cbn [subst_amp smatch matches]. rewrite IHs1, IHs2. reflexivity.
  - cbn [subst_amp smatch matches]. apply IHs.
  - cbn [subst_amp smatch matches]. rewrite IHs1, IHs2. reflexivity.
Qed.

Lemma spec_add_let x y :
  (let '(a1, b1, c1) := x in let '(a2, b2, c2) := y in (a1 + a2, b1 + b2, c1 + c2)) = spec_add x y.
Proof. reflexivity. Qed.

Lemma subst_spec aspec r : aspec = specificity r ->
  forall s, sspec aspec s = specificity (subst_amp r s).
Proof.
  intros Hr. induction s; cbn [sspec subst_amp specificity]; auto;
    try (rewrite IHs1, IHs2; reflexivity).
  - rewrite IHs1, IHs2, spec_max_lex. reflexivity.
  - rewrite IHs. destruct (specificity (subst_amp r s)) as [[a1 b1] c1]. cbn [spec_add]. cbv beta iota.
    rewrite !N.add_0_r. reflexivity.
Qed.

Lemma mentions_has s : mentions_amp s = has_amp s.
Proof. induction s; simpl; congruence. Qed.

Lemma subst_no_amp r s : has_amp s = false -> subst_amp r s = s.
Proof.
  induction s; cbn [has_amp subst_amp]; intros H; auto; try discriminate;
    try (apply orb_false_iff in H; destruct H; rewrite IHs1, IHs2; auto).
  all: rewrite IHs; auto.
Qed.

Lemma subst_implied r s : has_amp s = false -> subst_amp r (implied_amp s) = prepend_desc r s.
Proof.
  induction s; cbn [has_amp implied_amp prepend_desc subst_amp]; intros H; auto; try discriminate.
  - apply orb_false_iff in H. destruct H as [H1 H2]. rewrite (subst_no_amp r _ H1), (subst_no_amp r _ H2). reflexivity.
  - apply orb_false_iff in H. destruct H as [H1 H2]. rewrite IHs1, (subst_no_amp r _ H2); auto.
  - apply orb_false_iff in H. destruct H as [H1 H2]. rewrite IHs1, (subst_no_amp r _ H2); auto.
  - rewrite (subst_no_amp r _ H). reflexivity.
  - apply orb_false_iff in H. destruct H as [H1 H2]. rewrite (subst_no_amp r _ H1), (subst_no_amp r _ H2). reflexivity.
  - rewrite IHs; auto.
Qed.

(* selecting the element itself is plain matching *)
Lemma applies_zero s q : applies s 0 q = matches s q.
Proof.
  destruct s; cbn [applies]; rewrite ?N.eqb_refl; cbn [andb]; try reflexivity.
  rewrite andb_false_r. destruct q; reflexivity.
Qed.

Definition not_pseudo (r : sel) : Prop := forall k q, applies r k q = (k =? 0) && matches r q.

Lemma sapplies_subst amp r : (forall q, amp q = matches r q) -> not_pseudo r ->
  forall s k q, sapplies amp s k q = applies (subst_amp r s) k q.
Proof.
  intros Hr Hnp s k q.
  destruct s; cbn [sapplies subst_amp];
    try (rewrite (subst_sem amp r Hr); reflexivity).
  (* & *) rewrite Hnp, (subst_sem amp r Hr). reflexivity.
Qed.

Definition sel_rel (c : ctx) (s s' : sel) : Prop :=
  (forall k q, sapplies (c_amp c) s k q = applies s' k q) /\ sspec (c_aspec c) s = specificity s'.

Definition grp_rel (c : ctx) (g g' : list sel) : Prop := Forall2 (sel_rel c) g g'.

Lemma grp_rel_matches c g g' k q : grp_rel c g g' -> list_matches c g k q = group_matches g' k q.
Proof.
  unfold list_matches, group_matches. induction 1 as [|s s' g g' [Hm _] _ IH]; simpl; auto.
  rewrite Hm, IH. reflexivity.
Qed.

Lemma grp_rel_rank c g g' k path : grp_rel c g g' -> list_rank c g k path = rule_rank None g' k path.
Proof.
  unfold list_rank, rule_rank. induction 1 as [|s s' g g' [Hm Hs] _ IH]; simpl; auto.
  rewrite Hm, Hs, IH. reflexivity.
Qed.

Lemma or_list_matches g q : matches (or_list g) q = group_matches g 0 q.
Proof.
  unfold group_matches. destruct q as [|e anc].
  { rewrite matches_nil. induction g; simpl; auto. rewrite applies_zero, matches_nil. auto. }
  induction g as [|s g IH]; [reflexivity|].
  destruct g as [|s2 g].
  - simpl. rewrite applies_zero, orb_false_r. reflexivity.
  - change (or_list (s :: s2 :: g)) with (SOr s (or_list (s2 :: g))).
    cbn [matches]. rewrite IH. cbn [existsb]. rewrite !applies_zero. reflexivity.
Qed.

Lemma or_list_spec c g g' : grp_rel c g g' -> list_spec c g = specificity (or_list g').
Proof.
  unfold list_spec. induction 1 as [|s s' g g' [_ Hs] Hg IH]; [reflexivity|].
  cbn [fold_right]. rewrite Hs, IH. destruct Hg as [|s2 s2' g g' ? ?].
  - simpl. apply lex_max_zero_r.
  - change (or_list (s' :: s2' :: g')) with (SOr s' (or_list (s2' :: g'))).
    cbn [specificity]. rewrite spec_max_lex. reflexivity.
Qed.

Lemma parent_is_not_pseudo g : not_pseudo (parent_is g).
Proof. intros k q. reflexivity. Qed.

Lemma resolve_rel c g g' pre :
  grp_rel c g g' -> grp_rel (child_ctx c g) (map relative pre) (resolve g' pre).
Proof.
  intros Hg. unfold grp_rel, resolve.
  assert (Hamp : forall q, c_amp (child_ctx c g) q = matches (parent_is g') q).
  { intros q. cbn [child_ctx c_amp]. rewrite (grp_rel_matches _ _ _ 0 q Hg), <- or_list_matches.
    destruct q; [rewrite !matches_nil; reflexivity|reflexivity]. }
  assert (Hsp : c_aspec (child_ctx c g) = specificity (parent_is g')).
  { cbn [child_ctx c_aspec]. rewrite (or_list_spec _ _ _ Hg). reflexivity. }
  pose proof (parent_is_not_pseudo g') as Hnp.
  induction pre as [|s pre IH]; cbn [map]; constructor; auto.
  unfold relative. rewrite mentions_has. destruct (has_amp s) eqn:Ha; split.
  - apply sapplies_subst; auto.
  - apply subst_spec; auto.
  - intros k q. rewrite (sapplies_subst _ _ Hamp Hnp), subst_implied; auto.
  - rewrite (subst_spec _ _ Hsp), subst_implied; auto.
Qed.

Lemma subst_amp_id s : subst_amp SAmp s = s.
Proof. induction s; cbn [subst_amp]; congruence. Qed.

Lemma top_amp_root q : c_amp top_ctx q = matches SRoot q.
Proof. destruct q as [|e [|e2 r]]; reflexivity. Qed.

(* whatever the selectors, a top-level rule selects what the specification says
   (`&` = the root element) *)
Lemma top_rel_applies g :
  Forall2 (fun s s' => forall k q, sapplies (c_amp top_ctx) s k q = applies s' k q) g (resolve_top g).
Proof.
  unfold resolve_top. induction g as [|s g IH]; cbn [map]; constructor; auto.
  intros k q. apply (sapplies_subst (c_amp top_ctx) SRoot top_amp_root). intros k' q'. reflexivity.
Qed.

(* and has the specification's specificity when it does not use `&` *)
Lemma top_rel g : forallb (fun s => negb (mentions_amp s)) g = true -> grp_rel top_ctx g (resolve_top g).
Proof.
  unfold grp_rel, resolve_top. induction g as [|s g IH]; cbn [forallb map]; intros H; constructor.
  - apply andb_true_iff in H. destruct H as [H _]. rewrite mentions_has in H.
    assert (Hna : has_amp s = false) by (destruct (has_amp s); auto; discriminate).
    split.
    + intros k q. apply (sapplies_subst (c_amp top_ctx) SRoot top_amp_root). intros k' q'. reflexivity.
    + rewrite (subst_no_amp SRoot s Hna).
      rewrite (subst_spec (c_aspec top_ctx) SAmp), subst_amp_id; auto.
  - apply IH. apply andb_true_iff in H. tauto.
Qed.

Definition occs_of_pairs (k : N) (path : path) (l : list (list sel * decl)) : list (decl * spec3) :=
  flat_map (fun gd => if group_matches (fst gd) k path then [(snd gd, rule_rank None (fst gd) k path)] else []) l.

Lemma occs_of_pairs_app k path l1 l2 :
  occs_of_pairs k path (l1 ++ l2) = occs_of_pairs k path l1 ++ occs_of_pairs k path l2.
Proof. apply flat_map_app. Qed.

Lemma body_rel k path b : forall c g g', grp_rel c g g' ->
  body_occs c g b k path = occs_of_pairs k path (body_pairs g' b).
Proof.
  induction b as [|d rest IH|pre inner IHi rest IHr]; intros c g g' Hg; cbn [body_occs body_pairs].
  - reflexivity.
  - change ((g', d) :: body_pairs g' rest) with ([(g', d)] ++ body_pairs g' rest).
    rewrite occs_of_pairs_app, (IH c g g' Hg). f_equal.
    unfold occs_of_pairs; cbn [flat_map fst snd]. rewrite app_nil_r.
    rewrite (grp_rel_matches _ _ _ k path Hg), (grp_rel_rank _ _ _ k path Hg). reflexivity.
  - rewrite occs_of_pairs_app, (IHr c g g' Hg), (IHi _ _ _ (resolve_rel c g g' pre Hg)). reflexivity.
Qed.

(* the declarations of a sheet that apply, as the specification lists them, are
   the flattened ones in the same order *)
Lemma rules_rel k path device rs : forall ig, rules_no_top_amp rs = true ->
  rules_occs device (negb ig) rs k path = occs_of_pairs k path (rules_pairs device rs ig).
Proof.
  induction rs as [|g b rest IH|q inner IHi rest IHr|q fetched sh IHs rest IHr|rest IH]; intros ig Hw;
    cbn [rules_occs rules_pairs rules_no_top_amp] in *.
  - reflexivity.
  - apply andb_true_iff in Hw. destruct Hw as [Hg Hw].
    rewrite occs_of_pairs_app, (body_rel k path b _ _ _ (top_rel g Hg)). f_equal. apply (IH true Hw).
  - apply andb_true_iff in Hw. destruct Hw as [Hi Hw].
    change (media_matches q device) with (evaluate_media q device).
    destruct (evaluate_media q device).
    + rewrite occs_of_pairs_app. f_equal; [apply (IHi true Hi)|apply (IHr true Hw)].
    + apply (IHr true Hw).
  - apply andb_true_iff in Hw. destruct Hw as [Hs Hw].
    change (media_matches q device) with (evaluate_media q device).
    destruct ig; cbn [negb andb]; [apply (IHr true Hw)|].
    destruct (evaluate_media q device); cbn [negb]; [|destruct fetched; apply (IHr false Hw)].
    destruct fetched; cbn [andb]; [|apply (IHr false Hw)].
    rewrite occs_of_pairs_app. f_equal; [apply (IHs false Hs)|apply (IHr false Hw)].
  - apply (IH true Hw).
Qed.

(* ------------------------------------------------------------------ 6. occurrences as entries *)

Definition level_prec (l : level) : N := level_index l + 1.

(* the precedence table of the code is the CSS one *)
Lemma precedence_table_correct o i : declaration_precedence o i = level_prec (level_of o i).
Proof. destruct o, i; reflexivity. Qed.

Lemma precedence_table_order o1 i1 o2 i2 :
  declaration_precedence o1 i1 < declaration_precedence o2 i2 <->
  level_index (level_of o1 i1) < level_index (level_of o2 i2).
Proof. rewrite !precedence_table_correct. unfold level_prec. lia. Qed.

Definition wt (o : occ) : weight :=
  match o_rank o with
  | RHint => mkW (level_prec (o_level o)) false (0, 0, 0)
  | RSel s => mkW (level_prec (o_level o)) false s
  | RAttr => mkW (level_prec (o_level o)) true (1, 0, 0)
  end.

Definition occ_ev (p : N) (o : occ) : list entry := if o_prop o =? p then [(wt o, o_vid o)] else [].
Definition occs_ev (l : list occ) (p : N) : list entry := flat_map (occ_ev p) l.

Lemma occs_ev_app l1 l2 p : occs_ev (l1 ++ l2) p = occs_ev l1 p ++ occs_ev l2 p.
Proof. apply flat_map_app. Qed.

Definition hint_forced (hint : bool) : option spec3 := if hint then Some (0, 0, 0) else None.

Lemma sheet_occs_ev o hint device rs k path p : rules_no_top_amp rs = true ->
  occs_ev (sheet_occs o hint device rs k path) p
  = flat_map (pair_ev o (hint_forced hint) k path p) (rules_pairs device rs false).
Proof.
  intros Hw. unfold occs_ev, sheet_occs.
  pose proof (rules_rel k path device rs false Hw) as Hr. cbn [negb] in Hr. rewrite Hr. unfold occs_of_pairs.
  rewrite flat_map_map, flat_map_flat_map.
  apply flat_map_ext. intros [g d]. unfold pair_ev. cbn [fst snd].
  destruct (group_matches g k path); [|reflexivity].
  cbn [flat_map fst snd]. rewrite app_nil_r.
  unfold occ_ev, decl_ev, wt. cbn [o_prop o_vid o_level o_rank].
  destruct (d_prop d =? p); [|reflexivity].
  rewrite precedence_table_correct. destruct hint; reflexivity.
Qed.

Lemma attr_occs_ev_attr ds p :
  occs_ev (attr_occs RAttr ds) p = flat_map (fun dc => decl_ev Author true (1, 0, 0) dc p) ds.
Proof.
  unfold occs_ev, attr_occs. rewrite flat_map_map. apply flat_map_ext. intros d.
  unfold occ_ev, decl_ev, wt. cbn [o_prop o_vid o_level o_rank].
  rewrite precedence_table_correct. reflexivity.
Qed.

Lemma attr_occs_ev_hint ds p :
  occs_ev (attr_occs RHint ds) p = flat_map (fun dc => decl_ev Author false (0, 0, 0) dc p) ds.
Proof.
  unfold occs_ev, attr_occs. rewrite flat_map_map. apply flat_map_ext. intros d.
  unfold occ_ev, decl_ev, wt. cbn [o_prop o_vid o_level o_rank].
  rewrite precedence_table_correct. reflexivity.
Qed.

(* the entries of one sheet, in the specification's terms *)
Lemma sheet_ev_occs k path o hint device rs p : rules_no_top_amp rs = true ->
  sumE (sheet_ev k path (mkSheet o (hint_forced hint) (flatten_rules device rs false)) p)
  = sumE (occs_ev (sheet_occs o hint device rs k path) p).
Proof.
  intros Hw. rewrite sheet_ev_pairs. cbn [sh_origin sh_forced sh_rules].
  rewrite flatten_rules_pairs, (sheet_occs_ev _ _ _ _ _ _ _ Hw). reflexivity.
Qed.

(* --- blocks of different origin / importance / attribute flag commute *)

Definition osig (P : N -> bool -> Prop) (a : option entry) : Prop :=
  match a with None => True | Some e => P (w_prec (fst e)) (w_attr (fst e)) end.

Lemma osig_sumE P l : Forall (fun e => P (w_prec (fst e)) (w_attr (fst e))) l -> osig P (sumE l).
Proof.
  intros H. destruct (sumE l) as [e|] eqn:E; simpl; auto.
  apply sumE_in in E. rewrite Forall_forall in H. apply (H e E).
Qed.

Lemma osig_merge P a b : osig P a -> osig P b -> osig P (omerge a b).
Proof. destruct a, b; simpl; auto. unfold pick. destruct (w_less _ _); auto. Qed.

Lemma omerge_comm P Q a b :
  osig P a -> osig Q b -> (forall p1 a1 p2 a2, P p1 a1 -> Q p2 a2 -> p1 <> p2 \/ a1 <> a2) ->
  omerge a b = omerge b a.
Proof.
  destruct a as [x|], b as [y|]; simpl; auto. intros Hx Hy Hd. f_equal. unfold pick.
  destruct (Hd _ _ _ _ Hx Hy) as [Hne|Hne].
  - destruct (w_less (fst x) (fst y)) eqn:XY, (w_less (fst y) (fst x)) eqn:YX; auto.
    + apply weight_less_is_le in XY, YX. unfold weight_le in *. lia.
    + destruct (w_less_total (fst x) (fst y)); congruence.
  - destruct (w_less (fst x) (fst y)) eqn:XY, (w_less (fst y) (fst x)) eqn:YX; auto.
    + apply weight_less_is_le in XY, YX. unfold weight_le in *.
      destruct XY as [?|[? [[? ?]|[? ?]]]], YX as [?|[? [[? ?]|[? ?]]]]; try lia; congruence.
    + destruct (w_less_total (fst x) (fst y)); congruence.
Qed.

Definition sigA (p : N) (a : bool) : Prop := a = true.
Definition sigUA (p : N) (a : bool) : Prop := a = false /\ p = 1.
Definition sigUser (p : N) (a : bool) : Prop := a = false /\ (p = 2 \/ p = 5).
Definition sigAuthor (p : N) (a : bool) : Prop := a = false /\ (p = 3 \/ p = 4).
Definition sig_of (o : origin) := match o with UA => sigUA | User => sigUser | Author => sigAuthor end.

Lemma decl_ev_sig_sheet o sp d p :
  Forall (fun e => sig_of o (w_prec (fst e)) (w_attr (fst e))) (decl_ev o false sp d p).
Proof.
  unfold decl_ev. destruct (d_prop d =? p); constructor; auto.
  destruct o, (d_imp d); cbv; auto.
Qed.

Lemma Forall_flat_map {A B} (P : B -> Prop) (f : A -> list B) l :
  (forall a, Forall P (f a)) -> Forall P (flat_map f l).
Proof. intros H. induction l; simpl; auto. apply Forall_app; auto. Qed.

Lemma occs_ev_sig_sheet o hint device rs k path p :
  Forall (fun e => sig_of o (w_prec (fst e)) (w_attr (fst e))) (occs_ev (sheet_occs o hint device rs k path) p).
Proof.
  unfold occs_ev, sheet_occs. rewrite flat_map_map. apply Forall_flat_map. intros [d s].
  unfold occ_ev. cbn [o_prop fst snd]. destruct (d_prop d =? p); constructor; auto.
  unfold wt. cbn [o_rank o_level fst snd].
  destruct hint, o, (d_imp d); cbv; auto.
Qed.

Lemma occs_ev_sig_hint ds p :
  Forall (fun e => sigAuthor (w_prec (fst e)) (w_attr (fst e))) (occs_ev (attr_occs RHint ds) p).
Proof.
  unfold occs_ev, attr_occs. rewrite flat_map_map. apply Forall_flat_map. intros d.
  unfold occ_ev. cbn [o_prop]. destruct (d_prop d =? p); constructor; auto.
  unfold wt. cbn [o_rank o_level]. destruct (d_imp d); cbv; auto.
Qed.

Lemma occs_ev_sig_attr ds p :
  Forall (fun e => sigA (w_prec (fst e)) (w_attr (fst e))) (occs_ev (attr_occs RAttr ds) p).
Proof.
  unfold occs_ev, attr_occs. rewrite flat_map_map. apply Forall_flat_map. intros d.
  unfold occ_ev. cbn [o_prop]. destruct (d_prop d =? p); constructor; auto.
  reflexivity.
Qed.

(* --- the arg-max over numbered occurrences is the sum of the entries *)

Lemma number_from_app {A} (l1 l2 : list A) i :
  number_from i (l1 ++ l2) = number_from i l1 ++ number_from (i + N.of_nat (length l1)) l2.
Proof.
  revert i. induction l1 as [|a l1 IH]; intros i; cbn [app number_from length].
  - f_equal. lia.
  - rewrite IH. do 3 f_equal. lia.
Qed.

Lemma rank_le_total r1 r2 : rank_le r1 r2 = true \/ rank_le r2 r1 = true.
Proof.
  destruct r1 as [|s1|], r2 as [|s2|]; simpl; auto using lex_le_total.
Qed.

Lemma occ_lt_w_less i a n x : i < n ->
  occ_lt (i, a) (n, x) = w_less (wt a) (wt x).
Proof.
  intros Hin. unfold occ_lt. cbn [fst snd].
  assert (Hpos : (i <? n) = true) by lia. rewrite Hpos, andb_true_r.
  assert (Hr : negb (rank_le (o_rank x) (o_rank a)) || (rank_le (o_rank a) (o_rank x) && rank_le (o_rank x) (o_rank a))
               = rank_le (o_rank a) (o_rank x)).
  { destruct (rank_le (o_rank a) (o_rank x)) eqn:H1, (rank_le (o_rank x) (o_rank a)) eqn:H2; simpl; auto.
    destruct (rank_le_total (o_rank a) (o_rank x)); congruence. }
  rewrite Hr. unfold w_less, wt, level_prec.
  destruct (o_rank a) as [|s1|], (o_rank x) as [|s2|]; cbn [w_prec w_attr w_spec rank_le Bool.eqb negb];
    try fold (spec_leb (0,0,0) (0,0,0)); try fold (spec_leb s1 (0,0,0)); try fold (spec_leb (0,0,0) s2);
    try fold (spec_leb s1 s2); try fold (spec_leb (1,0,0) (1,0,0)); rewrite ?spec_leb_lex, ?lex_le_zero, ?lex_le_refl;
    destruct (N.eqb_spec (level_index (o_level a) + 1) (level_index (o_level x) + 1)); simpl; lia.
Qed.

Definition went (w : pocc) : entry := (wt (snd w), o_vid (snd w)).

Lemma winner_snoc l x p :
  winner (number (l ++ [x])) p = better p (winner (number l) p) (N.of_nat (length l), x).
Proof.
  unfold winner, number. rewrite number_from_app, fold_left_app. reflexivity.
Qed.

Lemma winner_sum l p :
  option_map went (winner (number l) p) = sumE (occs_ev l p)
  /\ (forall w, winner (number l) p = Some w -> fst w < N.of_nat (length l)).
Proof.
  induction l as [|x l IH] using rev_ind.
  - split; [reflexivity|discriminate].
  - rewrite winner_snoc, occs_ev_app, sumE_app, app_length. destruct IH as [IH1 IH2].
    rewrite <- IH1. clear IH1.
    assert (Hx : occs_ev [x] p = occ_ev p x) by (unfold occs_ev; cbn [flat_map]; apply app_nil_r).
    rewrite Hx. clear Hx.
    destruct (winner (number l) p) as [[i a]|].
    + specialize (IH2 _ eq_refl). cbn [fst] in IH2.
      unfold better, occ_ev. cbn [snd].
      destruct (o_prop x =? p).
      * rewrite (occ_lt_w_less i a (N.of_nat (length l)) x) by lia.
        rewrite sumE_one. cbn [option_map omerge]. unfold pick, went. cbn [fst snd].
        destruct (w_less (wt a) (wt x)); split; try reflexivity;
          intros w [= <-]; cbn [fst length]; lia.
      * rewrite sumE_nil, omerge_None_r. split; [reflexivity|].
        intros w [= <-]. cbn [fst]. lia.
    + unfold better, occ_ev. cbn [snd]. destruct (o_prop x =? p).
      * rewrite sumE_one. split; [reflexivity|]. intros w [= <-]. cbn [fst length]. lia.
      * split; [reflexivity|discriminate].
Qed.

Lemma winner_vid l p :
  option_map (fun w => o_vid (snd w)) (winner (number l) p) = option_map snd (sumE (occs_ev l p)).
Proof.
  destruct (winner_sum l p) as [H _]. rewrite <- H.
  destruct (winner (number l) p); reflexivity.
Qed.

(* ------------------------------------------------------------------ 7. the theorem *)

Definition sigNA (p : N) (a : bool) : Prop := a = false.

Lemma osig_weaken (P Q : N -> bool -> Prop) a : (forall p b, P p b -> Q p b) -> osig P a -> osig Q a.
Proof. destruct a; simpl; auto. Qed.

Lemma reorder a h u ph au us :
  osig sigA a -> osig sigAuthor h -> osig sigUA u -> osig sigAuthor ph -> osig sigAuthor au -> osig sigUser us ->
  omerge a (omerge h (omerge u (omerge ph (omerge au us))))
  = omerge u (omerge us (omerge (omerge h ph) (omerge au a))).
Proof.
  intros Ha Hh Hu Hph Hau Hus.
  assert (NAh : osig sigNA h) by (apply (osig_weaken sigAuthor); auto; intros ? ? [? _]; auto).
  assert (NAu : osig sigNA u) by (apply (osig_weaken sigUA); auto; intros ? ? [? _]; auto).
  assert (NAph : osig sigNA ph) by (apply (osig_weaken sigAuthor); auto; intros ? ? [? _]; auto).
  assert (NAau : osig sigNA au) by (apply (osig_weaken sigAuthor); auto; intros ? ? [? _]; auto).
  assert (NAus : osig sigNA us) by (apply (osig_weaken sigUser); auto; intros ? ? [? _]; auto).
  (* the style attribute block goes last *)
  rewrite (omerge_comm sigA sigNA a (omerge h (omerge u (omerge ph (omerge au us))))); auto.
  2: { repeat apply osig_merge; auto. }
  2: { unfold sigA, sigNA. intros; right; congruence. }
  (* user agent first *)
  rewrite <- (omerge_assoc h u), (omerge_comm sigAuthor sigUA h u); auto.
  2: { unfold sigAuthor, sigUA. intros ? ? ? ? [_ ?] [_ ?]. left. lia. }
  rewrite (omerge_assoc u h).
  (* user sheets before the author level *)
  assert (E : omerge h (omerge ph (omerge au us)) = omerge us (omerge (omerge h ph) au)).
  { rewrite <- (omerge_assoc h ph), <- (omerge_assoc (omerge h ph) au).
    apply (omerge_comm sigAuthor sigUser); auto.
    - repeat apply osig_merge; auto.
    - unfold sigAuthor, sigUser. intros ? ? ? ? [_ ?] [_ ?]. left. lia. }
  rewrite E, !omerge_assoc. reflexivity.
Qed.

Lemma occs_ev_flat_map {A} (f : A -> list occ) l p :
  occs_ev (flat_map f l) p = flat_map (fun x => occs_ev (f x) p) l.
Proof. unfold occs_ev. apply flat_map_flat_map. Qed.

Lemma authors_sum k path device (F : author_sheet -> bool) authors p :
  forallb (fun a => rules_no_top_amp (a_rules a)) authors = true ->
  sumE (flat_map (fun sh => sheet_ev k path sh p)
         (map (fun r => mkSheet Author None (flatten_rules device r false)) (map a_rules (filter F authors))))
  = sumE (occs_ev (flat_map (fun a => if F a then sheet_occs Author false device (a_rules a) k path else []) authors) p).
Proof.
  induction authors as [|a l IH]; cbn [forallb filter flat_map]; intros Hw; [reflexivity|].
  apply andb_true_iff in Hw. destruct Hw as [Ha Hl]. rewrite occs_ev_app, sumE_app, <- (IH Hl).
  destruct (F a); cbn [map flat_map].
  - rewrite sumE_app. f_equal. apply (sheet_ev_occs k path Author false device (a_rules a) p Ha).
  - reflexivity.
Qed.

Lemma users_sum k path (users : list (N * rules)) p :
  forallb (fun u => rules_no_top_amp (snd u)) users = true ->
  sumE (flat_map (fun sh => sheet_ev k path sh p)
         (map (fun u => mkSheet User None (flatten_rules (fst u) (snd u) false)) users))
  = sumE (occs_ev (flat_map (fun u => sheet_occs User false (fst u) (snd u) k path) users) p).
Proof.
  induction users as [|u l IH]; cbn [forallb map flat_map]; intros Hw; [reflexivity|].
  apply andb_true_iff in Hw. destruct Hw as [Hu Hl].
  rewrite occs_ev_app, !sumE_app, <- (IH Hl). f_equal.
  apply (sheet_ev_occs k path User false (fst u) (snd u) p Hu).
Qed.

Lemma Forall_occs_flat_map {A} (P : entry -> Prop) (f : A -> list occ) l p :
  (forall x, Forall P (occs_ev (f x) p)) -> Forall P (occs_ev (flat_map f l) p).
Proof. intros H. rewrite occs_ev_flat_map. apply Forall_flat_map. auto. Qed.

(* the implementation's entries and the specification's occurrences have the same sum *)
Lemma impl_ev_applicable d k e anc p : doc_no_top_amp d = true ->
  sumE (impl_ev d k (e :: anc) p) = sumE (occs_ev (applicable d k (e :: anc)) p).
Proof.
  intros Hw. unfold doc_no_top_amp in Hw.
  apply andb_true_iff in Hw. destruct Hw as [Hw Hus].
  apply andb_true_iff in Hw. destruct Hw as [Hw Hau].
  apply andb_true_iff in Hw. destruct Hw as [Hua Hph].
  set (a := sumE (occs_ev (if k =? 0 then attr_occs RAttr (n_style e) else []) p)).
  set (h := sumE (occs_ev (if doc_hints d then (if k =? 0 then attr_occs RHint (n_hints e) else []) else []) p)).
  set (u := sumE (occs_ev (sheet_occs UA false (doc_ua_device d) (doc_ua d) k (e :: anc)) p)).
  set (ph := sumE (occs_ev (if doc_hints d then sheet_occs Author true (doc_ph_device d) (doc_ph d) k (e :: anc) else []) p)).
  set (au := sumE (occs_ev (flat_map (fun a => if evaluate_media (a_media a) (doc_device d)
                             then sheet_occs Author false (doc_device d) (a_rules a) k (e :: anc) else []) (doc_authors d)) p)).
  set (us := sumE (occs_ev (flat_map (fun u => sheet_occs User false (fst u) (snd u) k (e :: anc)) (doc_users d)) p)).
  assert (L : sumE (impl_ev d k (e :: anc) p) = omerge a (omerge h (omerge u (omerge ph (omerge au us))))).
  { unfold impl_ev, all_sheets, find_stylesheets.
    rewrite !flat_map_app, !sumE_app.
    assert (A : sumE (attr_ev d k (e :: anc) p) = omerge a h).
    { unfold attr_ev, a, h. destruct (k =? 0).
      - rewrite sumE_app, attr_occs_ev_attr. f_equal.
        destruct (doc_hints d); [rewrite attr_occs_ev_hint|]; reflexivity.
      - destruct (doc_hints d); reflexivity. }
    rewrite A, !omerge_assoc.
    f_equal. f_equal. f_equal; [|f_equal; [|f_equal]].
    - cbn [flat_map]. rewrite app_nil_r.
      apply (sheet_ev_occs k (e :: anc) UA false (doc_ua_device d) (doc_ua d) p Hua).
    - unfold ph. destruct (doc_hints d); [|reflexivity]. cbn [flat_map]. rewrite app_nil_r.
      apply (sheet_ev_occs k (e :: anc) Author true (doc_ph_device d) (doc_ph d) p Hph).
    - apply authors_sum; auto.
    - apply users_sum; auto. }
  assert (R : sumE (occs_ev (applicable d k (e :: anc)) p)
              = omerge u (omerge us (omerge (omerge h ph) (omerge au a)))).
  { unfold applicable. rewrite !occs_ev_app, !sumE_app. fold u us a.
    change (fun a0 => if media_matches (a_media a0) (doc_device d)
                      then sheet_occs Author false (doc_device d) (a_rules a0) k (e :: anc) else [])
      with (fun a0 => if evaluate_media (a_media a0) (doc_device d)
                      then sheet_occs Author false (doc_device d) (a_rules a0) k (e :: anc) else []).
    fold au. do 2 f_equal. f_equal.
    unfold h, ph. destruct (doc_hints d); [rewrite occs_ev_app, sumE_app|]; reflexivity. }
  rewrite L, R. apply reorder.
  - apply osig_sumE. destruct (k =? 0); [apply occs_ev_sig_attr|constructor].
  - apply osig_sumE. destruct (doc_hints d); [|constructor]. destruct (k =? 0); [apply occs_ev_sig_hint|constructor].
  - apply osig_sumE. apply (occs_ev_sig_sheet UA).
  - apply osig_sumE. destruct (doc_hints d); [apply (occs_ev_sig_sheet Author)|constructor].
  - apply osig_sumE. apply Forall_occs_flat_map. intros x.
    destruct (evaluate_media _ _); [apply (occs_ev_sig_sheet Author)|constructor].
  - apply osig_sumE. apply Forall_occs_flat_map. intros x. apply (occs_ev_sig_sheet User).
Qed.

(* main theorem: for every document, element (k = 0) or pseudo-element, and
   property, the model of the implementation returns the value of the
   declaration the specification elects *)
Theorem cascade_impl_spec d k path p : doc_no_top_amp d = true ->
  used d k path p = cascaded d k path p.
Proof.
  intros Hw. unfold used, cascaded. destruct path as [|e anc]; [reflexivity|].
  rewrite winner_vid, <- (impl_ev_applicable d k e anc p Hw), cascade_impl_ev. reflexivity.
Qed.

(* ------------------------------------------------------------------ 8. the cascade order is a strict total order; winner = arg-max *)

Lemma rank_le_trans a b c : rank_le a b = true -> rank_le b c = true -> rank_le a c = true.
Proof.
  destruct a as [|s1|], b as [|s2|], c as [|s3|]; simpl; intros H1 H2; auto; try discriminate.
  - eapply lex_le_trans; eauto using lex_le_zero.
  - eapply lex_le_trans; eauto.
  - eapply lex_le_trans; eauto.
Qed.

Lemma occ_lt_irrefl x : occ_lt x x = false.
Proof.
  unfold occ_lt. pose proof (rank_le_total (o_rank (snd x)) (o_rank (snd x))) as H.
  destruct (rank_le (o_rank (snd x)) (o_rank (snd x))); [lia|]. destruct H; discriminate.
Qed.

Lemma occ_lt_trans x y z : occ_lt x y = true -> occ_lt y z = true -> occ_lt x z = true.
Proof.
  unfold occ_lt.
  set (rx := o_rank (snd x)); set (ry := o_rank (snd y)); set (rz := o_rank (snd z)).
  pose proof (rank_le_trans rx ry rz). pose proof (rank_le_trans rx rz ry).
  pose proof (rank_le_trans ry rx rz). pose proof (rank_le_trans ry rz rx).
  pose proof (rank_le_trans rz rx ry). pose proof (rank_le_trans rz ry rx).
  pose proof (rank_le_total rx ry). pose proof (rank_le_total ry rz). pose proof (rank_le_total rx rz).
  destruct (rank_le rx ry), (rank_le ry rx), (rank_le ry rz), (rank_le rz ry), (rank_le rx rz), (rank_le rz rx);
    try lia; intuition discriminate.
Qed.

Lemma occ_lt_total x y : fst x <> fst y -> occ_lt x y = true \/ occ_lt y x = true.
Proof.
  unfold occ_lt. intros Hne.
  pose proof (rank_le_total (o_rank (snd x)) (o_rank (snd y))).
  destruct (rank_le (o_rank (snd x)) (o_rank (snd y))), (rank_le (o_rank (snd y)) (o_rank (snd x))); try lia;
    intuition discriminate.
Qed.

Lemma occ_lt_asym x y : occ_lt x y = true -> occ_lt y x = false.
Proof.
  intros H. destruct (occ_lt y x) eqn:E; auto.
  pose proof (occ_lt_trans _ _ _ H E) as C. rewrite occ_lt_irrefl in C. discriminate.
Qed.

Lemma winner_app1 l x p : winner (l ++ [x]) p = better p (winner l p) x.
Proof. unfold winner. rewrite fold_left_app. reflexivity. Qed.

Lemma winner_none l p : winner l p = None -> forall x, In x l -> o_prop (snd x) <> p.
Proof.
  induction l as [|y l IH] using rev_ind; [intros _ x []|].
  rewrite winner_app1. unfold better. destruct (N.eqb_spec (o_prop (snd y)) p) as [E|E].
  - destruct (winner l p) as [a|]; [destruct (occ_lt a y)|]; discriminate.
  - intros Hn x Hin. apply in_app_or in Hin. destruct Hin as [Hin|[<-|[]]]; auto.
Qed.

Lemma winner_is_winner l p w : NoDup (map fst l) -> winner l p = Some w -> is_winner l p w.
Proof.
  revert w. induction l as [|y l IH] using rev_ind; intros w Hnd; [discriminate|].
  rewrite map_app in Hnd. cbn [map] in Hnd.
  pose proof (NoDup_remove_1 _ _ _ Hnd) as Hnd'. rewrite app_nil_r in Hnd'.
  assert (Hfresh : forall a, In a l -> fst a <> fst y).
  { intros a Ha E. apply NoDup_remove_2 in Hnd. rewrite app_nil_r in Hnd.
    apply Hnd. rewrite <- E. apply in_map; auto. }
  rewrite winner_app1. unfold better. destruct (N.eqb_spec (o_prop (snd y)) p) as [E|E].
  - destruct (winner l p) as [a|] eqn:W.
    + destruct (IH a Hnd' eq_refl) as [Ha [Hpa Hmax]].
      destruct (occ_lt a y) eqn:Lt; intros [= <-].
      * split; [apply in_or_app; simpl; auto|]. split; auto.
        intros x Hin Hp. apply in_app_or in Hin. destruct Hin as [Hin|[<-|[]]]; auto.
        right. destruct (Hmax x Hin Hp) as [->|Hx]; auto. eapply occ_lt_trans; eauto.
      * split; [apply in_or_app; auto|]. split; auto.
        intros x Hin Hp. apply in_app_or in Hin. destruct Hin as [Hin|[<-|[]]]; auto.
        right. destruct (occ_lt_total y a) as [H|H].
        { intros Heq. apply (Hfresh a Ha). auto. }
        { exact H. }
        { congruence. }
    + intros [= <-]. split; [apply in_or_app; simpl; auto|]. split; auto.
      intros x Hin Hp. apply in_app_or in Hin. destruct Hin as [Hin|[<-|[]]]; auto.
      exfalso. apply (winner_none l p W x Hin Hp).
  - intros Hw. destruct (IH w Hnd' Hw) as [Ha [Hpa Hmax]].
    split; [apply in_or_app; auto|]. split; auto.
    intros x Hin Hp. apply in_app_or in Hin. destruct Hin as [Hin|[<-|[]]]; auto; contradiction.
Qed.

Lemma is_winner_unique l p w w' : is_winner l p w -> is_winner l p w' -> w = w'.
Proof.
  intros [H1 [P1 M1]] [H2 [P2 M2]].
  destruct (M1 w' H2 P2) as [|L1]; auto. destruct (M2 w H1 P1) as [|L2]; auto.
  rewrite (occ_lt_asym _ _ L1) in L2. discriminate.
Qed.

Lemma number_from_fst {A} (l : list A) i : map fst (number_from i l) = map (fun k => i + N.of_nat k) (seq 0 (length l)).
Proof.
  revert i. induction l as [|a l IH]; intros i; [reflexivity|].
  cbn [number_from map length seq]. rewrite IH, <- seq_shift, map_map. cbn [fst]. f_equal; [lia|].
  apply map_ext. intros k. lia.
Qed.

Lemma number_nodup {A} (l : list A) : NoDup (map fst (number l)).
Proof.
  unfold number. rewrite number_from_fst. apply FinFun.Injective_map_NoDup; [|apply seq_NoDup].
  intros a b H. lia.
Qed.

Lemma number_snd {A} (l : list A) i : map snd (number_from i l) = l.
Proof. revert i. induction l; intros; simpl; congruence. Qed.

(* the executable arg-max is the declaration the cascade order elects, and it is unique *)
Theorem winner_correct (l : list occ) p w :
  winner (number l) p = Some w <-> is_winner (number l) p w.
Proof.
  split; [apply winner_is_winner, number_nodup|].
  intros Hw. destruct (winner (number l) p) as [w'|] eqn:W.
  - f_equal. eapply is_winner_unique; eauto. apply winner_is_winner; auto. apply number_nodup.
  - destruct Hw as [Hin [Hp _]]. exfalso. apply (winner_none _ _ W w Hin Hp).
Qed.

Theorem winner_none_iff (l : list occ) p :
  winner (number l) p = None <-> forall o, In o l -> o_prop o <> p.
Proof.
  split.
  - intros W o Hin. rewrite <- (number_snd l 0) in Hin. apply in_map_iff in Hin.
    destruct Hin as [x [<- Hx]]. apply (winner_none _ _ W x Hx).
  - intros H. destruct (winner (number l) p) as [w|] eqn:W; auto.
    apply winner_correct in W. destruct W as [Hin [Hp _]]. exfalso.
    apply (H (snd w)); auto. rewrite <- (number_snd l 0). apply in_map. exact Hin.
Qed.

(* ------------------------------------------------------------------ 9. media / non matching rules *)

(* a non matching @media block, a misplaced or non matching @import contribute nothing *)
Lemma media_filter_flatten device q inner rest ig :
  evaluate_media q device = false ->
  flatten_rules device (RMedia q inner rest) ig = flatten_rules device (RMedia q RNil rest) ig.
Proof. intros H. cbn [flatten_rules]. rewrite H. reflexivity. Qed.

Lemma import_filter_flatten device q fetched sh rest ig :
  ig = true \/ evaluate_media q device = false \/ fetched = false ->
  flatten_rules device (RImport q fetched sh rest) ig = flatten_rules device rest ig.
Proof.
  intros H. cbn [flatten_rules]. destruct ig; auto.
  destruct (evaluate_media q device); cbn [negb]; auto. destruct fetched; auto.
  destruct H as [H|[H|H]]; discriminate.
Qed.

(* a rule none of whose selectors matches the element leaves its cascaded style unchanged *)
Lemma non_matching_rule o forced k path m r :
  group_matches (fst r) k path = false -> forall p, apply_rule o forced k path m r p = m p.
Proof.
  intros H p. rewrite (acts_apply_rule o forced k path r m p).
  destruct r as [g ds]. rewrite rule_ev_sum. cbn [fst] in H. rewrite H. apply omerge_None_r.
Qed.

(* every value the model returns is the value of a declaration that applies *)
Lemma used_applicable d k path p v : doc_no_top_amp d = true ->
  used d k path p = Some v -> exists o, In o (applicable d k path) /\ o_prop o = p /\ o_vid o = v.
Proof.
  intros Hw. rewrite (cascade_impl_spec d k path p Hw). unfold cascaded.
  destruct (winner (number (applicable d k path)) p) as [w|] eqn:W; [|discriminate].
  intros [= <-]. apply winner_correct in W. destruct W as [Hin [Hp _]].
  exists (snd w). repeat split; auto.
  rewrite <- (number_snd (applicable d k path) 0). apply in_map. exact Hin.
Qed.
