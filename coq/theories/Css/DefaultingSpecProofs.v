(* Css/DefaultingSpecProofs.v -- the computer functions of the model (exact instance)
   compute what CSS defines (Css/DefaultingSpec.v): lengths, font-size, font-weight,
   border widths, line-height, display / float. *)
From Verif Require Import Css.Defaulting Css.DefaultingSpec Css.DefaultingTyping Css.DefaultingProofs Css.DefaultingTables
                          Css.DefaultingEquations Css.DefaultingTotal.
From Coq Require Import Lia ZifyBool ZifyNat ZifyN Qfield.
Open Scope N_scope.

Local Infix "==s" := String.eqb (at level 70, no associativity).

(* the unit tests of length_ against the CSS classification, for every uint8 unit *)
Lemma unit_font_rel u : u < 256 ->
  is_font_rel_unit u = (u =? U_Em) || (u =? U_Rem) || uses_metrics u.
Proof.
  intros Hu. apply eqb_prop.
  apply (forall_below (fun u => Bool.eqb (is_font_rel_unit u) ((u =? U_Em) || (u =? U_Rem) || uses_metrics u)) 256);
    [vm_compute; reflexivity|lia].
Qed.

Lemma unit_abs u : u < 256 ->
  match css_px_per u with
  | Some _ => (u =? U_Px) || is_abs_unit u = true
  | None => (u =? U_Px) || is_abs_unit u = false
  end.
Proof.
  intros Hu.
  pose proof (forall_below (fun u => match css_px_per u with
                                     | Some _ => (u =? U_Px) || is_abs_unit u
                                     | None => negb ((u =? U_Px) || is_abs_unit u) end) 256
                ltac:(vm_compute; reflexivity) u ltac:(lia)) as H. cbv beta in H.
  destruct (css_px_per u); [exact H|]. now apply negb_true_iff in H.
Qed.

Lemma Qeq_bool_false_neq a b : Qeq_bool a b = false -> ~ a == b.
Proof. intros H E. apply Qeq_bool_iff in E. congruence. Qed.

(* what the font-size validator lets through besides lengths (css/validation fontSize) *)
Definition font_size_words : list string :=
  (""%string :: "larger"%string :: "smaller"%string :: css_size_names)%list.

Section SpecProofs.
  Variable env : dep -> res value.

  Lemma length_spec v fso fs rfs po s q u :
    v = VDim s q u -> (s = "" \/ s = "auto" \/ s = "content")%string -> uses_metrics u = false -> u < 256 ->
    (exists sr ur, env DRootFs = Ok (VDim sr rfs ur)) ->
    match fso with
    | Some f => (0 <= f)%Q /\ fs = f
    | None => exists sf uf, env (DOwn PFontSize) = Ok (VDim sf fs uf)
    end ->
    exists r, run_pure env (length_ exactQ v fso po) = Ok r /\
              value_eq r (spec_length fs rfs (if po then U_Scalar else U_Px) v).
  Proof.
    intros -> Hs Hm Hu (sr & ur & Hr) Hfs. unfold length_, spec_length.
    destruct Hs as [->|[->| ->]]; cbn [String.eqb Ascii.eqb Bool.eqb orb negb];
      try (eexists; split; [reflexivity|constructor; reflexivity]).
    pose proof (unit_abs u Hu) as Hc. pose proof (unit_font_rel u Hu) as Hfr.
    pose proof (px_per_exact u Hu) as Hpx.
    assert (Hout : forall x, as_pixels (VDim "" x U_Px) po = VDim "" x (if po then U_Scalar else U_Px)) by (destruct po; reflexivity).
    destruct (Qeq_bool q 0) eqn:Eq0.
    { apply Qeq_bool_iff in Eq0. eexists. split; [reflexivity|]. rewrite Hout.
      destruct (css_px_per u); [constructor; rewrite Eq0; ring|].
      destruct (u =? U_Em); [constructor; rewrite Eq0; ring|].
      destruct (u =? U_Rem); constructor; [rewrite Eq0; ring|reflexivity]. }
    destruct (u =? U_Px) eqn:Epx.
    { apply N.eqb_eq in Epx. subst u. eexists. split; [reflexivity|].
      replace (as_pixels (VDim "" q U_Px) po) with (VDim "" q (if po then U_Scalar else U_Px)) by (destruct po; reflexivity).
      cbn. constructor. ring. }
    destruct (is_abs_unit u) eqn:Eabs.
    { eexists. split; [reflexivity|]. rewrite Hout. destruct (css_px_per u) as [r|]; [|cbn in Hc; discriminate].
      constructor. cbn. rewrite Hpx. reflexivity. }
    destruct (css_px_per u) as [r|] eqn:Ecss; [cbn in Hc; discriminate|].
    rewrite Hm, orb_false_r in Hfr. rewrite Hfr.
    destruct (u =? U_Em) eqn:Eem; [|destruct (u =? U_Rem) eqn:Erem]; cbn [orb].
    - assert (Hf : exists f, run_pure env (match fso with
                                            | Some f => if Qlt_bool f 0 then own_fs else Ret f
                                            | None => own_fs end) = Ok f /\ f = fs).
      { destruct fso as [f|].
        - destruct Hfs as [Hf0 ->]. assert (Qlt_bool f 0 = false) as ->.
          { unfold Qlt_bool. apply negb_false_iff. apply Qle_bool_iff. exact Hf0. }
          exists f. split; reflexivity.
        - destruct Hfs as (sf & uf & Hf). exists fs. unfold own_fs. cbn. rewrite Hf. split; reflexivity. }
      destruct Hf as (f & Ef & ->). rewrite (run_pure_bind env _ _ fs Ef).
      eexists. split; [reflexivity|]. rewrite Hout. constructor. reflexivity.
    - assert (Hf : exists f, run_pure env (match fso with
                                            | Some f => if Qlt_bool f 0 then own_fs else Ret f
                                            | None => own_fs end) = Ok f).
      { destruct fso as [f|].
        - destruct Hfs as [Hf0 _]. assert (Qlt_bool f 0 = false) as ->.
          { unfold Qlt_bool. apply negb_false_iff. apply Qle_bool_iff. exact Hf0. }
          eexists. reflexivity.
        - destruct Hfs as (sf & uf & Hf). exists fs. unfold own_fs. cbn. rewrite Hf. reflexivity. }
      destruct Hf as (f & Ef). rewrite (run_pure_bind env _ _ f Ef).
      cbn [run_pure]. rewrite Hr. cbn [run_pure dim_val pbind]. eexists. split; [reflexivity|]. rewrite Hout. constructor. reflexivity.
    - eexists. split; [reflexivity|]. constructor. reflexivity.
  Qed.

  (* ex / ch: the x-height / the advance of "0" of the style's font, scaled by the font size *)
  Lemma length_metric_spec v fso fs xh zw po q u :
    v = VDim "" q u -> uses_metrics u = true ->
    (exists s1 u1, env (DRatio false) = Ok (VDim s1 xh u1)) ->
    (exists s1 u1, env (DRatio true) = Ok (VDim s1 zw u1)) ->
    match fso with
    | Some f => (0 <= f)%Q /\ fs = f
    | None => exists sf uf, env (DOwn PFontSize) = Ok (VDim sf fs uf)
    end ->
    exists r, run_pure env (length_ exactQ v fso po) = Ok r /\
              value_eq r (spec_font_metric_length fs xh zw (if po then U_Scalar else U_Px) v).
  Proof.
    intros -> Hm (sx & ux & Hx) (sz & uz & Hz) Hfs.
    assert (Hout : forall x, as_pixels (VDim "" x U_Px) po = VDim "" x (if po then U_Scalar else U_Px)) by (destruct po; reflexivity).
    assert (Hf : exists f, run_pure env (match fso with
                                          | Some f => if Qlt_bool f 0 then own_fs else Ret f
                                          | None => own_fs end) = Ok f /\ f = fs).
    { destruct fso as [f|].
      - destruct Hfs as [Hf0 ->]. assert (Qlt_bool f 0 = false) as ->.
        { unfold Qlt_bool. apply negb_false_iff. apply Qle_bool_iff. exact Hf0. }
        exists f. split; reflexivity.
      - destruct Hfs as (sf & uf & Hf). exists fs. unfold own_fs. cbn. rewrite Hf. split; reflexivity. }
    destruct Hf as (f & Ef & ->).
    unfold uses_metrics in Hm. apply orb_prop in Hm.
    destruct Hm as [E|E]; apply N.eqb_eq in E; subst u; unfold length_, spec_font_metric_length;
      cbn [String.eqb orb negb N.eqb Pos.eqb U_Ex U_Ch U_Px U_Em U_Rem is_abs_unit is_font_rel_unit mem_N existsb
           U_Pt U_Pc U_In U_Cm U_Mm U_Q];
      (destruct (Qeq_bool q 0) eqn:Eq0;
       [apply Qeq_bool_iff in Eq0; eexists; split; [reflexivity|]; rewrite Hout; constructor; rewrite Eq0; ring|]);
      rewrite (run_pure_bind env _ _ fs Ef); cbn [run_pure]; rewrite ?Hx, ?Hz; cbn [dim_val pbind run_pure];
      (eexists; split; [reflexivity|]); rewrite Hout; constructor; cbn; ring.
  Qed.

  (* find in two tables that agree up to == *)
  Lemma find_gt_compat x : forall l l', Forall2 Qeq l l' ->
    match find (fun k => Qlt_bool x k) l, find (fun k => Qltb x k) l' with
    | Some a, Some b => a == b | None, None => True | _, _ => False end.
  Proof.
    induction 1 as [|a b l l' Hab Hl IH]; cbn; [exact I|].
    unfold Qlt_bool, Qltb.
    assert (Qle_bool a x = Qle_bool b x) as ->.
    { destruct (Qle_bool a x) eqn:E1, (Qle_bool b x) eqn:E2; try reflexivity.
      - apply Qle_bool_iff in E1. rewrite Hab in E1. apply Qle_bool_iff in E1. congruence.
      - apply Qle_bool_iff in E2. rewrite <- Hab in E2. apply Qle_bool_iff in E2. congruence. }
    destruct (negb (Qle_bool b x)); [exact Hab|exact IH].
  Qed.
  Lemma find_lt_compat x : forall l l', Forall2 Qeq l l' ->
    match find (fun k => Qlt_bool k x) l, find (fun k => Qltb k x) l' with
    | Some a, Some b => a == b | None, None => True | _, _ => False end.
  Proof.
    induction 1 as [|a b l l' Hab Hl IH]; cbn; [exact I|].
    unfold Qlt_bool, Qltb.
    assert (Qle_bool x a = Qle_bool x b) as ->.
    { destruct (Qle_bool x a) eqn:E1, (Qle_bool x b) eqn:E2; try reflexivity.
      - apply Qle_bool_iff in E1. rewrite Hab in E1. apply Qle_bool_iff in E1. congruence.
      - apply Qle_bool_iff in E2. rewrite <- Hab in E2. apply Qle_bool_iff in E2. congruence. }
    destruct (negb (Qle_bool x b)); [exact Hab|exact IH].
  Qed.

  Lemma size_tables_agree : Forall2 Qeq (keywords_values exactQ) (css_size_table 16).
  Proof. repeat constructor; vm_compute; reflexivity. Qed.
  Lemma size_tables_agree_rev : Forall2 Qeq (rev (keywords_values exactQ)) (rev (css_size_table 16)).
  Proof. repeat constructor; vm_compute; reflexivity. Qed.

  (* CSS Fonts 3: computed font-size *)
  Lemma font_size_spec (isr : bool) v (pfs rfs : Q) s q u :
    v = VDim s q u ->
    In s font_size_words ->
    uses_metrics u = false -> u < 256 ->
    (if isr then pfs = 16%Q else exists sp up, env (DParent PFontSize) = Ok (VDim sp pfs up)) ->
    (0 <= pfs)%Q ->
    (exists sr ur, env DRootFs = Ok (VDim sr rfs ur)) ->
    exists r, run_pure env (font_size exactQ isr v) = Ok r /\ value_eq r (spec_font_size 16 pfs rfs v).
  Proof.
    intros -> Hs Hm Hu Hp Hp0 Hr.
    assert (Epfs : run_pure env (parent_fs isr) = Ok pfs).
    { unfold parent_fs. destruct isr; [subst pfs; reflexivity|].
      destruct Hp as (sp & up & E). cbn. rewrite E. reflexivity. }
    unfold font_size_words in Hs. cbn [In] in Hs.
    destruct Hs as [<-|[<-|[<-|Hs]]].
    - (* a length, percentage or number *)
      unfold font_size, spec_font_size. cbn [assoc_S find font_size_keywords fst String.eqb Ascii.eqb Bool.eqb css_font_size_ratio].
      rewrite (run_pure_bind env _ _ pfs Epfs). cbn [String.eqb Ascii.eqb Bool.eqb].
      destruct (u =? U_Perc).
      + eexists. split; [reflexivity|]. constructor. cbn. field.
      + apply (length_spec (VDim "" q u) (Some pfs) pfs rfs true "" q u eq_refl (or_introl eq_refl) Hm Hu Hr (conj Hp0 eq_refl)).
    - (* larger *)
      unfold font_size, spec_font_size. cbn [assoc_S find font_size_keywords fst String.eqb Ascii.eqb Bool.eqb css_font_size_ratio].
      rewrite (run_pure_bind env _ _ pfs Epfs). cbn [String.eqb Ascii.eqb Bool.eqb].
      unfold css_larger. pose proof (find_gt_compat pfs _ _ size_tables_agree) as H.
      destruct (find (fun k => Qlt_bool pfs k) (keywords_values exactQ)) as [a|],
               (find (fun k => Qltb pfs k) (css_size_table 16)) as [b|]; try contradiction.
      + eexists. split; [reflexivity|]. constructor. exact H.
      + eexists. split; [reflexivity|]. constructor. cbn. ring.
    - (* smaller *)
      unfold font_size, spec_font_size. cbn [assoc_S find font_size_keywords fst String.eqb Ascii.eqb Bool.eqb css_font_size_ratio].
      rewrite (run_pure_bind env _ _ pfs Epfs). cbn [String.eqb Ascii.eqb Bool.eqb].
      unfold css_smaller. pose proof (find_lt_compat pfs _ _ size_tables_agree_rev) as H.
      destruct (find (fun k => Qlt_bool k pfs) (rev (keywords_values exactQ))) as [a|],
               (find (fun k => Qltb k pfs) (rev (css_size_table 16))) as [b|]; try contradiction.
      + eexists. split; [reflexivity|]. constructor. exact H.
      + eexists. split; [reflexivity|]. constructor. cbn. ring.
    - (* <absolute-size> keywords *)
      unfold css_size_names in Hs. cbn in Hs.
      repeat (destruct Hs as [<-|Hs]; [eexists; split; [reflexivity|constructor; vm_compute; reflexivity]|]).
      contradiction.
  Qed.

  (* CSS Fonts 3: computed font-weight *)
  Lemma font_weight_spec (isr : bool) v (pfw : Z) s i :
    v = VIntStr s i ->
    (if isr then pfw = 400%Z else exists sp, env (DParent PFontWeight) = Ok (VIntStr sp pfw)) ->
    In pfw css_weights ->
    run_pure env (font_weight true isr v) = Ok (spec_font_weight pfw v).
  Proof.
    intros -> Hp Hw. destruct (font_weight_tables pfw Hw) as [Hb Hl].
    assert (Epfw : run_pure env (parent_fw true isr) = Ok pfw).
    { unfold parent_fw. destruct isr; cbn [andb]; [subst pfw; reflexivity|].
      destruct Hp as (sp & E). cbn. rewrite E. reflexivity. }
    unfold font_weight, spec_font_weight.
    destruct (s ==s "normal"); [reflexivity|]. destruct (s ==s "bold"); [reflexivity|].
    destruct (s ==s "bolder"); [rewrite (run_pure_bind env _ _ pfw Epfw); cbn; now rewrite Hb|].
    destruct (s ==s "lighter"); [rewrite (run_pure_bind env _ _ pfw Epfw); cbn; now rewrite Hl|].
    reflexivity.
  Qed.
End SpecProofs.

(* ------------------------------------------------------------------ box properties *)

Section More.
  Variable env : dep -> res value.

  Lemma border_width_spec p v sty (fs rfs : Q) s q u :
    env (DOwn (N.pred p)) = Ok (VStr sty) ->
    v = VDim s q u -> In s [""; "thin"; "medium"; "thick"]%string -> uses_metrics u = false -> u < 256 ->
    (exists sr ur, env DRootFs = Ok (VDim sr rfs ur)) ->
    (exists sf uf, env (DOwn PFontSize) = Ok (VDim sf fs uf)) ->
    exists r, run_pure env (border_width exactQ p v) = Ok r /\ value_eq r (spec_border_width sty fs rfs v).
  Proof.
    intros Hsty -> Hs Hm Hu Hr Hf. unfold border_width, spec_border_width. cbn [run_pure]. rewrite Hsty.
    destruct ((sty ==s "none") || (sty ==s "hidden")).
    { eexists. split; [reflexivity|]. constructor. reflexivity. }
    cbn [In] in Hs. destruct Hs as [<-|[<-|[<-|[<-|[]]]]];
      try (eexists; split; [reflexivity|constructor; vm_compute; reflexivity]).
    cbn [assoc_S find border_width_keywords fst String.eqb Ascii.eqb Bool.eqb css_border_keyword].
    apply (length_spec env (VDim "" q u) None fs rfs true "" q u eq_refl (or_introl eq_refl) Hm Hu Hr Hf).
  Qed.

  Lemma value_eq_dim_inv r s q u : value_eq r (VDim s q u) -> exists q', r = VDim s q' u /\ q' == q.
  Proof. intros H. inversion H; subst. eauto. Qed.

  Lemma line_height_spec v (fs rfs : Q) s q u :
    v = VDim s q u -> (s = "" \/ s = "normal")%string -> uses_metrics u = false -> u < 256 ->
    (exists sr ur, env DRootFs = Ok (VDim sr rfs ur)) ->
    (exists sf uf, env (DOwn PFontSize) = Ok (VDim sf fs uf)) ->
    exists r, run_pure env (line_height exactQ v) = Ok r /\ value_eq r (spec_line_height fs rfs v).
  Proof.
    intros -> Hs Hm Hu Hr Hf. unfold line_height, spec_line_height.
    destruct Hs as [->| ->]; cbn [String.eqb Ascii.eqb Bool.eqb].
    2: { eexists. split; [reflexivity|constructor; reflexivity]. }
    destruct (u =? U_Scalar). { eexists. split; [reflexivity|constructor; reflexivity]. }
    destruct (u =? U_Perc).
    { destruct Hf as (sf & uf & Hf). unfold own_fs. cbn. rewrite Hf. cbn.
      eexists. split; [reflexivity|]. constructor. field. }
    destruct (length_spec env (VDim "" q u) None fs rfs true "" q u eq_refl (or_introl eq_refl) Hm Hu Hr Hf) as (r & Er & Hv).
    rewrite (run_pure_bind env _ _ r Er).
    cbn [spec_length String.eqb negb] in Hv |- *.
    destruct (css_px_per u) as [k|].
    { apply value_eq_dim_inv in Hv. destruct Hv as (q' & -> & Hq). cbn. eexists. split; [reflexivity|]. constructor. exact Hq. }
    destruct (u =? U_Em).
    { apply value_eq_dim_inv in Hv. destruct Hv as (q' & -> & Hq). cbn. eexists. split; [reflexivity|]. constructor. exact Hq. }
    destruct (u =? U_Rem).
    { apply value_eq_dim_inv in Hv. destruct Hv as (q' & -> & Hq). cbn. eexists. split; [reflexivity|]. constructor. exact Hq. }
    destruct (Qeq_bool q 0).
    { apply value_eq_dim_inv in Hv. destruct Hv as (q' & -> & Hq). cbn. eexists. split; [reflexivity|]. constructor. exact Hq. }
    apply value_eq_dim_inv in Hv. destruct Hv as (q' & -> & Hq). cbn. eexists. split; [reflexivity|]. constructor. exact Hq.
  Qed.

  (* bleed: auto against the crop flag of the own `marks` *)
  Lemma bleed_spec v crop cross (fs rfs : Q) s q u :
    env (DOwn PMarks) = Ok (VMarks crop cross) ->
    v = VDim s q u -> (s = "" \/ s = "auto")%string -> uses_metrics u = false -> u < 256 ->
    (exists sr ur, env DRootFs = Ok (VDim sr rfs ur)) ->
    (exists sf uf, env (DOwn PFontSize) = Ok (VDim sf fs uf)) ->
    exists r, run_pure env (bleed exactQ v) = Ok r /\ value_eq r (spec_bleed crop fs rfs v).
  Proof.
    intros Hmk -> Hs Hm Hu Hr Hf. unfold bleed, spec_bleed.
    destruct Hs as [->| ->]; cbn [String.eqb Ascii.eqb Bool.eqb].
    - apply (length_spec env (VDim "" q u) None fs rfs false "" q u eq_refl (or_introl eq_refl) Hm Hu Hr Hf).
    - cbn [run_pure]. rewrite Hmk. destruct crop; (eexists; split; [reflexivity|constructor; vm_compute; reflexivity]).
  Qed.

  Lemma display_spec (isr : bool) v pb ps fl a b c :
    env DSpecPos = Ok (VBoolStr pb ps) -> env DSpecFloat = Ok (VStr fl) -> v = VDisplay a b c ->
    run_pure env (display isr v) =
      Ok (spec_display (negb pb && ((ps ==s "absolute") || (ps ==s "fixed"))) (negb (fl ==s "none")) isr v).
  Proof.
    intros Hp Hf ->. unfold display, spec_display. cbn [run_pure]. rewrite Hf, Hp. cbn [str_of].
    destruct (negb pb && ((ps ==s "absolute") || (ps ==s "fixed")) || negb (fl ==s "none") || isr); [|reflexivity].
    destruct ((a ==s "inline-table") && (b ==s "") && (c ==s "")); [reflexivity|].
    destruct ((b ==s "") && (c ==s "") && String.prefix "table-" a); [reflexivity|].
    destruct (a ==s "inline") eqn:Ea; [|reflexivity].
    apply String.eqb_eq in Ea. subst a. cbn [String.eqb Ascii.eqb Bool.eqb orb].
    destruct ((b ==s "list-item") || (c ==s "list-item")); reflexivity.
  Qed.

  Lemma float_spec v pb ps s :
    env DSpecPos = Ok (VBoolStr pb ps) -> v = VStr s ->
    run_pure env (floating v) = Ok (spec_float ((ps ==s "absolute") || (ps ==s "fixed") || pb) v).
  Proof.
    intros Hp ->. unfold floating, spec_float. cbn [run_pure]. rewrite Hp.
    destruct ((ps ==s "absolute") || (ps ==s "fixed") || pb); reflexivity.
  Qed.
End More.

(* ------------------------------------------------------------------ at the level of `computed` *)

Section ComputedSpecs.
  Variable t : tree.
  Hypothesis WF : wf_tree t = true.
  Notation comp := (computed exactQ true t).

  (* the font size `rem` refers to: the root element's computed font size; on the root
     element itself, the initial value *)
  Lemma cap_rootfs_cases n nd :
    node_at t n = Some nd ->
    cap_rootfs exactQ true t n =
      match n_parent nd with Some _ => comp 0 PFontSize | None => Ok (VDim "" 16 U_Scalar) end.
  Proof.
    intros En. unfold cap_rootfs. rewrite (chain_of_step t WF n nd En).
    destruct (n_parent nd) as [j|] eqn:Ep; [|reflexivity].
    destruct (node_at_parent t WF n nd j En Ep) as [ndj Ej]. rewrite (chain_of_step t WF j ndj Ej).
    assert (exists nd0, node_at t 0 = Some nd0) as [nd0 En0].
    { unfold node_at in *. destruct (nth_error t (N.to_nat 0)) eqn:E'; eauto.
      apply nth_error_None in E'. pose proof (node_at_lt t n nd En). lia. }
    unfold root_fs_pure, computed. rewrite (chain_of_zero t WF nd0 En0). apply root_chain_param.
  Qed.

  (* font-size: em and percentages against the parent's computed font size (the initial
     value on the root), rem against the root's, keywords by the CSS ratios *)
  Theorem font_size_computed n nd v s q u (pfs rfs : Q) :
    node_at t n = Some nd -> n_kind nd = KElem ->
    effective nd PFontSize = Some (CExplicit v) ->
    v = VDim s q u -> In s font_size_words -> uses_metrics u = false -> u < 256 ->
    match n_parent nd with
    | Some j => (exists sp up, comp j PFontSize = Ok (VDim sp pfs up)) /\
                (exists sr ur, comp 0 PFontSize = Ok (VDim sr rfs ur))
    | None => pfs = 16%Q /\ rfs = 16%Q
    end ->
    (0 <= pfs)%Q ->
    exists r, comp n PFontSize = Ok r /\ value_eq r (spec_font_size 16 pfs rfs v).
  Proof.
    intros En Ek Heff Hv Hs Hm Hu Hpar Hp0.
    rewrite (defaulting_equations exactQ t WF n nd PFontSize En Ek eq_refl ltac:(discriminate)).
    unfold defaulted. rewrite Heff. unfold compute_value, compute.
    replace (computer_of PFontSize) with KFontSize by reflexivity.
    assert (modelled (has_metrics nd) KFontSize v = true) as ->
      by (subst v; cbn [modelled]; unfold unit_ok; rewrite Hm; apply orb_true_r).
    rewrite run_pure_resolve.
    apply (font_size_spec (env_with (n_metrics nd) (ctx_env exactQ t n nd PFontSize)) (is_root_node nd) v pfs rfs s q u Hv Hs Hm Hu);
      cbn [env_with]; [| exact Hp0 |].
    - unfold is_root_node, ctx_env, parent_value. cbn [pure_env]. unfold is_root_node.
      destruct (n_parent nd) as [j|]; [apply Hpar|apply Hpar].
    - unfold ctx_env. cbn [pure_env]. rewrite (cap_rootfs_cases n nd En).
      destruct (n_parent nd) as [j|]; [apply Hpar|]. destruct Hpar as [_ ->]. eauto.
  Qed.

  (* font-weight: bolder / lighter against the parent's computed weight (the initial
     weight on the root) by the CSS Fonts 3 table *)
  Theorem font_weight_computed n nd v s i (pfw : Z) :
    node_at t n = Some nd -> n_kind nd = KElem ->
    effective nd PFontWeight = Some (CExplicit v) -> v = VIntStr s i ->
    match n_parent nd with
    | Some j => exists sp, comp j PFontWeight = Ok (VIntStr sp pfw)
    | None => pfw = 400%Z
    end ->
    In pfw css_weights ->
    comp n PFontWeight = Ok (spec_font_weight pfw v).
  Proof.
    intros En Ek Heff Hv Hpar Hw.
    rewrite (defaulting_equations exactQ t WF n nd PFontWeight En Ek eq_refl ltac:(discriminate)).
    unfold defaulted. rewrite Heff. unfold compute_value, compute.
    replace (computer_of PFontWeight) with KFontWeight by reflexivity. cbn [modelled].
    rewrite run_pure_resolve.
    apply (font_weight_spec (env_with (n_metrics nd) (ctx_env exactQ t n nd PFontWeight)) (is_root_node nd) v pfw s i Hv);
      cbn [env_with]; [|exact Hw].
    unfold is_root_node, ctx_env, parent_value. cbn [pure_env]. unfold is_root_node.
    destruct (n_parent nd) as [j|]; exact Hpar.
  Qed.

  (* ... and on a well-typed tree the parent's computed weight is one of 100 .. 900 *)
  Theorem font_weight_computed_wt n nd v s i :
    wt_tree t = true ->
    node_at t n = Some nd -> n_kind nd = KElem ->
    effective nd PFontWeight = Some (CExplicit v) -> v = VIntStr s i ->
    exists pfw,
      In pfw css_weights /\
      match n_parent nd with
      | Some j => exists sp, comp j PFontWeight = Ok (VIntStr sp pfw)
      | None => pfw = 400%Z
      end /\
      comp n PFontWeight = Ok (spec_font_weight pfw v).
  Proof.
    intros WT En Ek Heff Hv.
    assert (Hpar : exists pfw, In pfw css_weights /\
              match n_parent nd with
              | Some j => exists sp, comp j PFontWeight = Ok (VIntStr sp pfw)
              | None => pfw = 400%Z end).
    { destruct (n_parent nd) as [j|] eqn:Ep.
      - pose proof (parent_lt t WF n nd j En Ep) as Hj. pose proof (node_at_lt t n nd En) as Hn.
        destruct (get_total t WT j PFontWeight ltac:(lia) (proj1 (proj2 special_props_valid))) as (w & Ew & Sw).
        destruct (shape_fw _ Sw) as (sp & pfw & -> & Hin). exists pfw. split; [exact Hin|]. eauto.
      - exists 400%Z. split; [vm_compute; tauto|reflexivity]. }
    destruct Hpar as (pfw & Hin & Hp). exists pfw. split; [exact Hin|]. split; [exact Hp|].
    apply (font_weight_computed n nd v s i pfw En Ek Heff Hv Hp Hin).
  Qed.

  (* lengths on the properties computed by `length`: absolute units by the CSS ratios,
     em against the element's own computed font size, rem against the root's *)
  Theorem length_computed n nd p v s q u (fs rfs : Q) :
    node_at t n = Some nd -> n_kind nd = KElem ->
    computer_of p = KLength ->
    effective nd p = Some (CExplicit v) ->
    v = VDim s q u -> (s = "" \/ s = "auto" \/ s = "content")%string -> uses_metrics u = false -> u < 256 ->
    (exists sf uf, comp n PFontSize = Ok (VDim sf fs uf)) ->
    match n_parent nd with
    | Some _ => exists sr ur, comp 0 PFontSize = Ok (VDim sr rfs ur)
    | None => rfs = 16%Q
    end ->
    exists r, comp n p = Ok r /\ value_eq r (spec_length fs rfs U_Px v).
  Proof.
    intros En Ek Hk Heff Hv Hs Hm Hu Hfs Hrfs.
    assert (Hnb : is_base p = false).
    { unfold is_base. rewrite Hk. destruct (N.eqb_spec p PFontSize) as [->|]; [discriminate Hk|reflexivity]. }
    assert (Htd : is_text_decoration p = false).
    { destruct (is_text_decoration p) eqn:E; [|reflexivity].
      unfold is_text_decoration, PTextDecorationLine, PTextDecorationStyle in E.
      assert (p = 111 \/ p = 112 \/ p = 113) as [->|[->| ->]] by lia; discriminate Hk. }
    assert (Hpg : p <> PPage) by (intros ->; discriminate Hk).
    rewrite (defaulting_equations exactQ t WF n nd p En Ek Htd Hpg).
    unfold defaulted. rewrite Heff. unfold compute_value, compute. rewrite Hk.
    assert (modelled (has_metrics nd) KLength v = true) as ->
      by (subst v; cbn [modelled]; unfold unit_ok; rewrite Hm; apply orb_true_r).
    subst v. cbn [dim_only pbind]. rewrite run_pure_resolve.
    apply (length_spec (env_with (n_metrics nd) (ctx_env exactQ t n nd p)) (VDim s q u) None fs rfs false s q u eq_refl Hs Hm Hu);
      cbn [env_with].
    - unfold ctx_env. cbn [pure_env]. rewrite (cap_rootfs_cases n nd En).
      destruct (n_parent nd) as [j|]; [exact Hrfs|]. subst rfs. eauto.
    - unfold ctx_env. cbn [pure_env]. unfold own_env. rewrite Hnb.
      replace (is_base PFontSize) with true by reflexivity. exact Hfs.
  Qed.

  (* line-height at the level of `computed` (CSS 2.1 10.8.1): normal and numbers are kept, a
     percentage becomes the absolute length (that fraction of the element's own computed font
     size), lengths become absolute *)
  Theorem line_height_computed n nd v s q u (fs rfs : Q) :
    node_at t n = Some nd -> n_kind nd = KElem ->
    effective nd PLineHeight = Some (CExplicit v) ->
    v = VDim s q u -> (s = "" \/ s = "normal")%string -> uses_metrics u = false -> u < 256 ->
    (exists sf uf, comp n PFontSize = Ok (VDim sf fs uf)) ->
    match n_parent nd with
    | Some _ => exists sr ur, comp 0 PFontSize = Ok (VDim sr rfs ur)
    | None => rfs = 16%Q
    end ->
    exists r, comp n PLineHeight = Ok r /\ value_eq r (spec_line_height fs rfs v).
  Proof.
    intros En Ek Heff Hv Hs Hm Hu Hfs Hrfs.
    rewrite (defaulting_equations exactQ t WF n nd PLineHeight En Ek eq_refl ltac:(discriminate)).
    unfold defaulted. rewrite Heff. unfold compute_value, compute.
    replace (computer_of PLineHeight) with KLineHeight by reflexivity.
    assert (modelled (has_metrics nd) KLineHeight v = true) as ->
      by (subst v; cbn [modelled]; unfold unit_ok; rewrite Hm; apply orb_true_r).
    rewrite run_pure_resolve.
    apply (line_height_spec (env_with (n_metrics nd) (ctx_env exactQ t n nd PLineHeight)) v fs rfs s q u Hv Hs Hm Hu);
      cbn [env_with].
    - unfold ctx_env. cbn [pure_env]. rewrite (cap_rootfs_cases n nd En).
      destruct (n_parent nd) as [j|]; [exact Hrfs|]. subst rfs. eauto.
    - unfold ctx_env. cbn [pure_env]. unfold own_env.
      replace (is_base PLineHeight) with false by reflexivity.
      replace (is_base PFontSize) with true by reflexivity. exact Hfs.
  Qed.

  (* the percentage case spelled out: the computed value is a length in px, not a factor *)
  Corollary line_height_percent_computed n nd q (fs : Q) :
    node_at t n = Some nd -> n_kind nd = KElem ->
    effective nd PLineHeight = Some (CExplicit (VDim "" q U_Perc)) ->
    (exists sf uf, comp n PFontSize = Ok (VDim sf fs uf)) ->
    (exists sr rfs ur, comp 0 PFontSize = Ok (VDim sr rfs ur)) ->
    exists x, comp n PLineHeight = Ok (VDim "" x U_Px) /\ x == q / 100 * fs.
  Proof.
    intros En Ek Heff Hfs (sr & rfs & ur & Hr).
    destruct (line_height_computed n nd (VDim "" q U_Perc) "" q U_Perc fs
                (match n_parent nd with Some _ => rfs | None => 16%Q end) En Ek Heff eq_refl
                (or_introl eq_refl) eq_refl ltac:(reflexivity) Hfs) as (r & Er & Hv).
    { destruct (n_parent nd); [eauto | reflexivity]. }
    cbn in Hv. apply value_eq_dim_inv in Hv. destruct Hv as (x & -> & Hx). eauto.
  Qed.

  (* ... and what a descendant without declaration of its own inherits is that length,
     whatever its own font size *)
  Corollary line_height_inherited n nd j :
    node_at t n = Some nd -> n_kind nd = KElem ->
    effective nd PLineHeight = None -> n_parent nd = Some j ->
    comp n PLineHeight = comp j PLineHeight.
  Proof.
    intros En Ek Heff Ep.
    rewrite (defaulting_equations exactQ t WF n nd PLineHeight En Ek eq_refl ltac:(discriminate)).
    unfold defaulted. rewrite Heff.
    replace (inherited PLineHeight) with true by reflexivity.
    unfold inherited_value. rewrite Ep. reflexivity.
  Qed.

  (* lengths in ex / ch on the same properties: x-height / advance of "0" of the font the
     element's style selects (recorded metrics), scaled by the element's own computed font
     size -- whatever other elements, documents or units were computed before *)
  Theorem length_metrics_computed n nd p v q u m (fs : Q) :
    node_at t n = Some nd -> n_kind nd = KElem ->
    computer_of p = KLength ->
    effective nd p = Some (CExplicit v) ->
    v = VDim "" q u -> uses_metrics u = true ->
    n_metrics nd = Some m ->
    (exists sf uf, comp n PFontSize = Ok (VDim sf fs uf)) ->
    exists r, comp n p = Ok r /\ value_eq r (spec_font_metric_length fs (m_ex m) (m_ch m) U_Px v).
  Proof.
    intros En Ek Hk Heff Hv Hm Hmt Hfs.
    assert (Hnb : is_base p = false).
    { unfold is_base. rewrite Hk. destruct (N.eqb_spec p PFontSize) as [->|]; [discriminate Hk|reflexivity]. }
    assert (Htd : is_text_decoration p = false).
    { destruct (is_text_decoration p) eqn:E; [|reflexivity].
      unfold is_text_decoration, PTextDecorationLine, PTextDecorationStyle in E.
      assert (p = 111 \/ p = 112 \/ p = 113) as [->|[->| ->]] by lia; discriminate Hk. }
    assert (Hpg : p <> PPage) by (intros ->; discriminate Hk).
    rewrite (defaulting_equations exactQ t WF n nd p En Ek Htd Hpg).
    unfold defaulted. rewrite Heff. unfold compute_value, compute. rewrite Hk.
    assert (modelled (has_metrics nd) KLength v = true) as ->
      by (subst v; cbn [modelled]; unfold unit_ok, has_metrics; rewrite Hmt; reflexivity).
    subst v. cbn [dim_only pbind]. rewrite run_pure_resolve, Hmt.
    apply (length_metric_spec (env_with (Some m) (ctx_env exactQ t n nd p)) (VDim "" q u) None fs (m_ex m) (m_ch m) false q u eq_refl Hm);
      cbn [env_with ratio_value].
    - do 2 eexists; reflexivity.
    - do 2 eexists; reflexivity.
    - unfold ctx_env. cbn [pure_env]. unfold own_env. rewrite Hnb.
      replace (is_base PFontSize) with true by reflexivity. exact Hfs.
  Qed.

  (* bleed-*: with no winning declaration, `initial` or `auto`, the computed value is 6pt =
     8px when the computed `marks` of the same page context has `crop`, else 0 *)
  Theorem bleed_auto_computed n nd p crop cross :
    node_at t n = Some nd -> n_kind nd = KElem ->
    computer_of p = KBleed ->
    (effective nd p = None \/ effective nd p = Some CInitial \/
     effective nd p = Some (CExplicit (VDim "auto" 0 0))) ->
    comp n PMarks = Ok (VMarks crop cross) ->
    exists r, comp n p = Ok r /\ value_eq r (spec_bleed crop 0 0 (VDim "auto" 0 0)).
  Proof.
    intros En Ek Hk Heff Hmk.
    assert (Hv : valid_prop p) by (apply computer_valid; congruence).
    assert (Hnb : is_base p = false).
    { unfold is_base. rewrite Hk. destruct (N.eqb_spec p PFontSize) as [->|]; [discriminate Hk|reflexivity]. }
    assert (Htd : is_text_decoration p = false).
    { destruct (is_text_decoration p) eqn:E; [|reflexivity].
      unfold is_text_decoration, PTextDecorationLine, PTextDecorationStyle in E.
      assert (p = 111 \/ p = 112 \/ p = 113) as [->|[->| ->]] by lia; discriminate Hk. }
    assert (Hpg : p <> PPage) by (intros ->; discriminate Hk).
    pose proof (forall_props (fun p => match computer_of p with
                                       | KBleed => negb (inherited p) && initial_not_computed p &&
                                                   match initial p with Some iv => value_eqb iv (VDim "auto" 0 0) | None => false end
                                       | _ => true end) ltac:(vm_compute; reflexivity) p Hv) as Ht.
    cbv beta in Ht. rewrite Hk in Ht. apply andb_prop in Ht. destruct Ht as [Ht Hini].
    apply andb_prop in Ht. destruct Ht as [Hinh Hinc]. apply negb_true_iff in Hinh.
    assert (Hcv : forall s0 q0 u0, value_eqb (VDim s0 q0 u0) (VDim "auto" 0 0) = true ->
              exists r, compute_value exactQ t n nd p (VDim s0 q0 u0) = Ok r /\
                        value_eq r (spec_bleed crop 0 0 (VDim "auto" 0 0))).
    { intros s0 q0 u0 E. cbn [value_eqb] in E. apply andb_prop in E. destruct E as [E Eu].
      apply andb_prop in E. destruct E as [Es _]. apply String.eqb_eq in Es. apply N.eqb_eq in Eu. subst s0 u0.
      unfold compute_value, compute. rewrite Hk. cbn [modelled]. unfold unit_ok.
      replace (uses_metrics 0) with false by reflexivity. rewrite orb_true_r.
      rewrite run_pure_resolve. unfold bleed. cbn [String.eqb Ascii.eqb Bool.eqb run_pure env_with].
      unfold ctx_env. cbn [pure_env]. unfold own_env. rewrite Hnb.
      replace (is_base PMarks) with true by reflexivity. rewrite Hmk.
      destruct crop; (eexists; split; [reflexivity|constructor; vm_compute; reflexivity]). }
    rewrite (defaulting_equations exactQ t WF n nd p En Ek Htd Hpg). unfold defaulted.
    assert (Hiv : exists r, initial_value exactQ t n nd p = Ok r /\ value_eq r (spec_bleed crop 0 0 (VDim "auto" 0 0))).
    { unfold initial_value. destruct (initial p) as [iv|]; [|discriminate]. rewrite Hinc.
      destruct iv; try discriminate. apply Hcv, Hini. }
    destruct Heff as [->|[->| ->]].
    - rewrite Hinh. exact Hiv.
    - exact Hiv.
    - apply Hcv. reflexivity.
  Qed.

  Corollary bleed_auto_computed_px n nd p crop cross :
    node_at t n = Some nd -> n_kind nd = KElem ->
    computer_of p = KBleed ->
    (effective nd p = None \/ effective nd p = Some CInitial \/
     effective nd p = Some (CExplicit (VDim "auto" 0 0))) ->
    comp n PMarks = Ok (VMarks crop cross) ->
    exists r, comp n p = Ok r /\ value_eq r (VDim "" (if crop then 8 else 0) U_Px).
  Proof.
    intros En Ek Hk He Hm.
    destruct (bleed_auto_computed n nd p crop cross En Ek Hk He Hm) as (r & Er & Hr).
    exists r. split; [exact Er|]. unfold spec_bleed in Hr. cbn [String.eqb Ascii.eqb Bool.eqb] in Hr.
    apply value_eq_dim_inv in Hr. destruct Hr as (q' & -> & Hq). constructor. rewrite Hq.
    destruct crop; vm_compute; reflexivity.
  Qed.
End ComputedSpecs.

(* vertical-align percentages (exact instance): the fraction of the element's own used line
   height; on an element whose font size is 0 the implementation has no strut and answers 0 *)
Lemma valign_percent_spec q fs lh x :
  valign_percent exactQ q fs lh = Some x ->
  (fs == 0 /\ x == 0) \/
  (~ fs == 0 /\ exists y, spec_vertical_align_percent q fs lh = Some y /\ x == y).
Proof.
  unfold valign_percent, spec_vertical_align_percent, spec_used_line_height, cst.
  destruct (Qeq_bool fs 0) eqn:E0.
  - intros [= <-]. left. split; [now apply Qeq_bool_iff | reflexivity].
  - apply Qeq_bool_false_neq in E0. intros H. right. split; [exact E0|].
    destruct lh; try discriminate.
    all: try (destruct (String.eqb _ "normal"); [discriminate|]).
    all: try (destruct (_ =? U_Scalar); injection H as <-; eexists; (split; [reflexivity|]); cbn; field).
Qed.

(* and the implementation leaves the font's own line height (`normal`) alone: outside
   font size 0 the model is undefined exactly where the specification is *)
Lemma valign_percent_defined q fs lh :
  ~ fs == 0 ->
  (valign_percent exactQ q fs lh = None <-> spec_vertical_align_percent q fs lh = None).
Proof.
  intros Hf. unfold valign_percent, spec_vertical_align_percent, spec_used_line_height.
  destruct (Qeq_bool fs 0) eqn:E0; [apply Qeq_bool_iff in E0; contradiction|].
  destruct lh; try tauto.
  all: try (destruct (String.eqb _ "normal"); [tauto|]; destruct (_ =? U_Scalar); split; discriminate).
Qed.
