(* Css/CounterExtendsProofs.v -- resolution of `system: extends`
   (extendsChain / resolveCounter, counters.go:27-87) meets section 3.1.7 of
   CSS Counter Styles 3 as transcribed in Css/CounterSpec.v (`resolved`):
   unknown targets and every participant of a cycle extend decimal.
   Also: the loop terminates on every table (cycles included), bounded by
   the number of styles. *)
From Verif Require Import Base.GoSem Css.Counters Css.CounterSpec Css.CounterAbs Css.CounterProofs
                          Css.CounterTableProofs.
From Coq Require Import List ZArith NArith Bool Lia ZifyBool ZifyNat ZifyN.
Import ListNotations.
Open Scope Z_scope.

Ltac nlia := lia.

(* the style a record extends *)
Definition ext_of (c : table) (n : str) : option str :=
  match lookup c n with
  | Some d => if is_extends d then Some (sy_name (d_system d)) else None
  | None => None
  end.

Lemma ext_target_abs c n : ext_target (abs_table c) n = ext_of c n.
Proof.
  unfold ext_target, abs_table, ext_of, is_extends. destruct (lookup c n) as [d|]; [|reflexivity].
  simpl. destruct (sy_extends (d_system d)); reflexivity.
Qed.

(* consecutive elements are linked by extends; every element is defined *)
Inductive reg_path (c : table) : list str -> Prop :=
| rp_one : forall n, lookup c n <> None -> reg_path c [n]
| rp_cons : forall n m l, ext_of c n = Some m -> reg_path c (m :: l) -> reg_path c (n :: m :: l).

Lemma ext_of_defined c n m : ext_of c n = Some m -> lookup c n <> None.
Proof. unfold ext_of. destruct (lookup c n); discriminate. Qed.

Lemma reg_path_defined c l : reg_path c l -> forall x, In x l -> lookup c x <> None.
Proof.
  induction 1 as [n Hn|n m l He Hp IH]; intros x Hx.
  - destruct Hx as [<-|[]]. assumption.
  - destruct Hx as [<-|Hx]; [eapply ext_of_defined; eassumption|apply IH; assumption].
Qed.

Lemma reg_path_nonempty c l : reg_path c l -> l <> [].
Proof. destruct 1; discriminate. Qed.

Lemma reg_path_snoc c l m :
  reg_path c l -> ext_of c (last l []) = Some m -> lookup c m <> None -> reg_path c (l ++ [m]).
Proof.
  induction 1 as [n Hn|n m' l He Hp IH]; intros Hl Hm.
  - simpl in *. constructor; [assumption|constructor; assumption].
  - change ((n :: m' :: l) ++ [m]) with (n :: m' :: (l ++ [m])).
    constructor; [assumption|]. apply IH; [|assumption]. exact Hl.
Qed.

Lemma reg_path_app_l c l1 l2 : reg_path c (l1 ++ l2) -> l1 <> [] -> reg_path c l1.
Proof.
  revert l2. induction l1 as [|x l1 IH]; intros l2 H Hne; [contradiction|].
  destruct l1 as [|y l1].
  - constructor. eapply reg_path_defined; [exact H|left; reflexivity].
  - simpl in H. inversion H; subst. constructor; [assumption|].
    apply (IH l2); [assumption|discriminate].
Qed.

Lemma reg_path_nth c l : reg_path c l -> forall j, (S j < length l)%nat ->
  ext_of c (nth j l []) = Some (nth (S j) l []).
Proof.
  induction 1 as [n Hn|n m l He Hp IH]; intros j Hj; simpl in Hj; [nlia|].
  destruct j as [|j]; [exact He|]. apply (IH j). simpl. nlia.
Qed.

Lemma ext_iter_add T a b x :
  ext_iter T (a + b) x = match ext_iter T a x with Some y => ext_iter T b y | None => None end.
Proof.
  revert x. induction a as [|a IH]; intros x; simpl; [reflexivity|].
  destruct (ext_target T x); [apply IH|reflexivity].
Qed.

Lemma ext_iter_path c l : reg_path c l -> forall t j, (j + t < length l)%nat ->
  ext_iter (abs_table c) t (nth j l []) = Some (nth (j + t) l []).
Proof.
  intros Hp. induction t as [|t IH]; intros j Hj.
  - rewrite Nat.add_0_r. reflexivity.
  - simpl. rewrite ext_target_abs, (reg_path_nth c l Hp j) by nlia.
    rewrite (IH (S j)) by nlia. f_equal. f_equal. nlia.
Qed.

(* a style on a cycle can be iterated for ever *)
Lemma cycle_total T x k : ext_iter T (S k) x = Some x -> forall t, ext_iter T t x <> None.
Proof.
  intros Hc.
  assert (Hq : forall q, ext_iter T (q * S k) x = Some x).
  { induction q as [|q IH]; [reflexivity|].
    replace (S q * S k)%nat with (S k + q * S k)%nat by nlia.
    rewrite ext_iter_add, Hc. exact IH. }
  intros t Ht. specialize (Hq t).
  replace (t * S k)%nat with (t + t * k)%nat in Hq by nlia.
  rewrite ext_iter_add, Ht in Hq. discriminate.
Qed.

Lemma nth_last_eq {A} (l : list A) d : nth (length l - 1) l d = last l d.
Proof.
  induction l as [|x l IH]; [reflexivity|]. destruct l as [|y l]; [reflexivity|].
  replace (length (x :: y :: l) - 1)%nat with (S (length (y :: l) - 1)) by (simpl; nlia).
  exact IH.
Qed.

(* a path whose last style extends nothing, or an unknown style: nobody is on a cycle *)
Lemma dead_end_no_cycle c l :
  reg_path c l ->
  (ext_of c (last l []) = None \/ exists m, ext_of c (last l []) = Some m /\ lookup c m = None) ->
  forall x, In x l -> ~ in_extends_cycle (abs_table c) x.
Proof.
  intros Hp Hend x Hx [k Hk].
  apply (In_nth _ _ []) in Hx as (j & Hj & <-).
  set (t := (length l - 1 - j)%nat).
  assert (Hlast : ext_iter (abs_table c) t (nth j l []) = Some (last l [])).
  { rewrite (ext_iter_path c l Hp t j) by (unfold t; nlia). f_equal.
    replace (j + t)%nat with (length l - 1)%nat by (unfold t; nlia).
    apply nth_last_eq. }
  pose proof (cycle_total _ _ _ Hk) as Htot.
  destruct Hend as [Hend|(m & Hend & Hm)].
  - apply (Htot (t + 1)%nat). rewrite ext_iter_add, Hlast. simpl. rewrite ext_target_abs, Hend. reflexivity.
  - apply (Htot (t + 2)%nat). rewrite ext_iter_add, Hlast. simpl. rewrite ext_target_abs, Hend.
    rewrite ext_target_abs. unfold ext_of. rewrite Hm. reflexivity.
Qed.

(* a path whose last style extends the i-th one: the i-th is on a cycle, the ones before are not *)
Lemma lasso_cycle c l i :
  reg_path c l -> (i < length l)%nat -> ext_of c (last l []) = Some (nth i l []) ->
  in_extends_cycle (abs_table c) (nth i l []).
Proof.
  intros Hp Hi Hl. exists (length l - 1 - i)%nat.
  replace (S (length l - 1 - i)) with ((length l - 1 - i) + 1)%nat by nlia.
  rewrite ext_iter_add, (ext_iter_path c l Hp) by nlia.
  replace (i + (length l - 1 - i))%nat with (length l - 1)%nat by nlia.
  rewrite nth_last_eq. simpl. rewrite ext_target_abs, Hl. reflexivity.
Qed.

Lemma lasso_no_cycle c l i :
  reg_path c l -> NoDup l -> (i < length l)%nat -> ext_of c (last l []) = Some (nth i l []) ->
  forall j, (j < i)%nat -> ~ in_extends_cycle (abs_table c) (nth j l []).
Proof.
  intros Hp Hnd Hi Hl j Hj [k Hk].
  assert (Horbit : forall t, exists u, (j < u < length l)%nat /\
                    ext_iter (abs_table c) (S t) (nth j l []) = Some (nth u l [])).
  { induction t as [|t (u & Hu & IH)].
    - exists (S j). split; [nlia|]. rewrite (ext_iter_path c l Hp 1 j) by nlia. f_equal. f_equal. nlia.
    - replace (S (S t)) with (S t + 1)%nat by nlia. rewrite ext_iter_add, IH. simpl. rewrite ext_target_abs.
      destruct (Nat.eq_dec u (length l - 1)) as [->|Hne].
      + rewrite nth_last_eq, Hl. exists i. split; [nlia|reflexivity].
      + rewrite (reg_path_nth c l Hp u) by nlia. exists (S u). split; [nlia|reflexivity]. }
  destruct (Horbit k) as (u & Hu & Hk'). rewrite Hk in Hk'. injection Hk' as Hk'.
  apply (NoDup_nth l []) in Hk'; [nlia|assumption|nlia|nlia].
Qed.

Lemma in_firstn {A} (l : list A) n x : In x (firstn n l) -> In x l.
Proof.
  revert n. induction l as [|y l IH]; intros n H; [rewrite firstn_nil in H; exact H|].
  destruct n as [|n]; [contradiction|]. simpl in H. destruct H as [->|H]; [left; reflexivity|right; eauto].
Qed.

Lemma NoDup_snoc {A} (l : list A) x : NoDup l -> ~ In x l -> NoDup (l ++ [x]).
Proof.
  induction l as [|y l IH]; intros Hnd Hx; simpl.
  - constructor; [auto|constructor].
  - inversion Hnd; subst. constructor.
    + intros Hin. apply in_app_or in Hin as [Hin|[<-|[]]]; [contradiction|]. apply Hx. left. reflexivity.
    + apply IH; [assumption|]. intros Hin. apply Hx. right. assumption.
Qed.

Lemma find_index_nth x l i : find_index x l = Some i -> (i < length l)%nat /\ nth i l [] = x.
Proof.
  revert i. induction l as [|y l IH]; intros i H; simpl in H; [discriminate|].
  destruct (str_eqb y x) eqn:E.
  - injection H as <-. apply str_eqb_eq in E. simpl. split; [nlia|assumption].
  - destruct (find_index x l) as [i'|]; [|discriminate]. injection H as <-.
    destruct (IH i' eq_refl). simpl. split; [nlia|assumption].
Qed.

Lemma find_index_none x l : find_index x l = None -> ~ In x l.
Proof.
  induction l as [|y l IH]; intros H; simpl in H; [auto|].
  destruct (str_eqb y x) eqn:E; [discriminate|]. apply str_eqb_neq in E.
  destruct (find_index x l); [discriminate|]. intros [Hy|Hin]; [congruence|apply IH; auto].
Qed.

(* ------------------------------------------------------------------ extendsChain *)

Section Chain.
Variable c : table.
Let T := abs_table c.

(* what the loop returns: the path followed, and how it ended *)
Inductive chain_out : list str -> list str -> Prop :=
| co_base : forall p, reg_path c p -> NoDup p -> ext_of c (last p []) = None -> chain_out p p
| co_unknown : forall p m, reg_path c p -> NoDup p -> ext_of c (last p []) = Some m -> lookup c m = None ->
                           chain_out p (p ++ [s_decimal])
| co_cycle : forall p i, reg_path c p -> NoDup p -> (i < length p)%nat ->
                         ext_of c (last p []) = Some (nth i p []) ->
                         chain_out p (firstn (S i) p ++ [s_decimal]).

Hypothesis Hdec : decimal_ok c.

Lemma decimal_base : ext_of c s_decimal = None /\ lookup c s_decimal <> None.
Proof.
  destruct Hdec as (d & Hl & He & _). unfold ext_of. rewrite Hl, He. split; [reflexivity|discriminate].
Qed.

(* every style of a path whose last element extends something is an extends style *)
Lemma path_all_extends p :
  reg_path c p -> ext_of c (last p []) <> None -> forall x, In x p -> ext_of c x <> None.
Proof.
  induction 1 as [n Hn|n m l He Hp IH]; intros Hl x Hx.
  - destruct Hx as [<-|[]]. exact Hl.
  - destruct Hx as [<-|Hx]; [congruence|]. apply IH; [exact Hl|assumption].
Qed.

Lemma lookup0_lookup n d : lookup c n = Some d -> lookup0 c n = d.
Proof. unfold lookup0. intros ->. reflexivity. Qed.

Lemma last_in {A} (l : list A) d : l <> [] -> In (last l d) l.
Proof.
  intros Hne. rewrite <- nth_last_eq. apply nth_In. destruct l; [contradiction|simpl; nlia].
Qed.

Lemma extends_chain_loop_spec : forall fuel chain,
  reg_path c chain -> NoDup chain -> (length c + 1 <= fuel + length chain)%nat ->
  exists p out, extends_chain_loop fuel c chain = Ok out /\ chain_out p out /\
                (exists ext, p = chain ++ ext).
Proof.
  induction fuel as [|f IH]; intros chain Hp Hnd Hf.
  - exfalso. pose proof (prev_bound c chain Hnd (reg_path_defined c chain Hp)).
    nlia.
  - cbn [extends_chain_loop].
    pose proof (reg_path_defined c chain Hp _ (last_in chain [] (reg_path_nonempty c chain Hp))) as Hdef.
    destruct (lookup c (last chain [])) as [dl|] eqn:El; [|contradiction].
    rewrite (lookup0_lookup _ _ El).
    assert (Hext : ext_of c (last chain []) = if sy_extends (d_system dl) then Some (sy_name (d_system dl)) else None).
    { unfold ext_of, is_extends. rewrite El. reflexivity. }
    destruct (sy_extends (d_system dl)) eqn:Ee; cbn [negb].
    + set (name := sy_name (d_system dl)) in *.
      destruct decimal_base as [Hdb Hdd].
      assert (Hdecrec : exists dec, lookup c s_decimal = Some dec /\ sy_extends (d_system dec) = false).
      { destruct Hdec as (d & Hl & He & _). exists d. split; assumption. }
      destruct Hdecrec as (dec & Hdl & Hde).
      destruct (find_index name chain) as [i|] eqn:Efi.
      * (* cycle *)
        destruct (find_index_nth _ _ _ Efi) as [Hi Hn].
        assert (Hnomem : mem s_decimal (firstn (S i) chain) = false).
        { destruct (mem s_decimal (firstn (S i) chain)) eqn:Em; [|reflexivity]. exfalso.
          apply mem_In in Em. apply in_firstn in Em.
          apply (path_all_extends chain Hp ltac:(rewrite Hext; discriminate) _ Em). exact Hdb. }
        rewrite Hnomem, Hdl, Hde. cbn [negb].
        exists chain, (firstn (S i) chain ++ [s_decimal]). split; [reflexivity|]. split.
        -- apply co_cycle; try assumption. rewrite Hext, Hn. reflexivity.
        -- exists []. rewrite app_nil_r. reflexivity.
      * apply find_index_none in Efi.
        unfold has. destruct (lookup c name) as [dn|] eqn:En.
        -- (* follow the chain *)
           assert (Hp' : reg_path c (chain ++ [name])).
           { apply reg_path_snoc; [assumption|rewrite Hext; reflexivity|rewrite En; discriminate]. }
           assert (Hnd' : NoDup (chain ++ [name])) by (apply NoDup_snoc; assumption).
           destruct (IH (chain ++ [name]) Hp' Hnd') as (p & out & E1 & E2 & (ext & E3)).
           { rewrite app_length. simpl. nlia. }
           exists p, out. split; [exact E1|]. split; [exact E2|].
           exists (name :: ext). rewrite E3, <- app_assoc. reflexivity.
        -- (* unknown style *)
           assert (Hnomem : mem s_decimal chain = false).
           { destruct (mem s_decimal chain) eqn:Em; [|reflexivity]. exfalso.
             apply mem_In in Em.
             apply (path_all_extends chain Hp ltac:(rewrite Hext; discriminate) _ Em). exact Hdb. }
           rewrite Hnomem, Hdl, Hde. cbn [negb].
           exists chain, (chain ++ [s_decimal]). split; [reflexivity|]. split.
           ++ apply (co_unknown chain name); assumption.
           ++ exists []. rewrite app_nil_r. reflexivity.
    + exists chain, chain. split; [reflexivity|]. split.
      * apply co_base; assumption.
      * exists []. rewrite app_nil_r. reflexivity.
Qed.

(* termination on every table: decimal_ok is not needed for that *)
End Chain.

Lemma extends_chain_loop_total c : forall fuel chain,
  NoDup chain -> (forall x, In x chain -> lookup c x <> None) ->
  (length c + 1 <= fuel + length chain)%nat ->
  exists out, extends_chain_loop fuel c chain = Ok out.
Proof.
  induction fuel as [|f IH]; intros chain Hnd Hdef Hf.
  - exfalso. pose proof (prev_bound c chain Hnd Hdef). nlia.
  - cbn [extends_chain_loop].
    destruct (negb (sy_extends (d_system (lookup0 c (last chain []))))); [eauto|].
    set (name := sy_name (d_system (lookup0 c (last chain [])))).
    destruct (find_index name chain) as [i|] eqn:Efi.
    + destruct (mem s_decimal (firstn (S i) chain)); [eauto|].
      destruct (lookup c s_decimal) as [dec|]; [|eauto].
      destruct (negb (sy_extends (d_system dec))); eauto.
    + apply find_index_none in Efi. unfold has.
      destruct (lookup c name) as [dn|] eqn:En.
      * apply IH.
        -- apply NoDup_snoc; assumption.
        -- intros x Hx. apply in_app_or in Hx as [Hx|[<-|[]]]; [apply Hdef; assumption|congruence].
        -- rewrite app_length. simpl. nlia.
      * destruct (mem s_decimal chain); [eauto|].
        destruct (lookup c s_decimal) as [dec|]; [|eauto].
        destruct (negb (sy_extends (d_system dec))); eauto.
Qed.

(* resolveCounter terminates on every table, cycles of extends included *)
Theorem resolve_counter_total c n prev : exists r, resolve_counter c n prev = Ok r.
Proof.
  unfold resolve_counter. destruct (lookup c n) as [d|] eqn:El; [|eauto].
  destruct (mem n prev); [eauto|].
  unfold extends_chain.
  destruct (extends_chain_loop_total c (S (S (length c))) [n]) as [out ->].
  - constructor; [auto|constructor].
  - intros x [<-|[]]. congruence.
  - simpl. nlia.
  - cbn [bind]. eauto.
Qed.

(* ------------------------------------------------------------------ merge and inherit *)

Definition orelse {A} (a b : option A) : option A := match a with Some _ => a | None => b end.

Lemma abs_merge_negative a b :
  sd_negative (abs_def (merge a b)) = orelse (sd_negative (abs_def a)) (sd_negative (abs_def b)).
Proof.
  unfold abs_def, merge, neg_is_zero. cbn [sd_negative d_neg0 d_neg1].
  destruct (ns_is_none (d_neg0 a) && ns_is_none (d_neg1 a)) eqn:E; cbn [orelse]; [reflexivity|].
  rewrite E. reflexivity.
Qed.

Lemma abs_merge_prefix a b :
  sd_prefix (abs_def (merge a b)) = orelse (sd_prefix (abs_def a)) (sd_prefix (abs_def b)).
Proof.
  unfold abs_def, merge, abs_opt_ns. cbn [sd_prefix d_prefix].
  destruct (ns_is_none (d_prefix a)) eqn:E; cbn [orelse]; [reflexivity|]. rewrite E. reflexivity.
Qed.

Lemma abs_merge_suffix a b :
  sd_suffix (abs_def (merge a b)) = orelse (sd_suffix (abs_def a)) (sd_suffix (abs_def b)).
Proof.
  unfold abs_def, merge, abs_opt_ns. cbn [sd_suffix d_suffix].
  destruct (ns_is_none (d_suffix a)) eqn:E; cbn [orelse]; [reflexivity|]. rewrite E. reflexivity.
Qed.

Lemma abs_merge_range a b :
  sd_range (abs_def (merge a b)) = orelse (sd_range (abs_def a)) (sd_range (abs_def b)).
Proof.
  unfold abs_def, merge. cbn [sd_range]. unfold range_is_none at 1. cbn [d_ranges d_range_auto].
  destruct (range_is_none a) eqn:E; cbn [orelse].
  - reflexivity.
  - unfold range_is_none in E. destruct (d_ranges a); [|destruct (d_range_auto a); reflexivity].
    destruct (d_range_auto a); [reflexivity|discriminate].
Qed.

Lemma abs_merge_pad a b :
  sd_pad (abs_def (merge a b)) = orelse (sd_pad (abs_def a)) (sd_pad (abs_def b)).
Proof.
  unfold abs_def, merge. cbn [sd_pad]. unfold pad_is_none at 1. cbn [d_pad_int d_pad_sym].
  destruct (pad_is_none a) eqn:E; cbn [orelse]; [reflexivity|].
  unfold pad_is_none in E. rewrite E. reflexivity.
Qed.

Lemma abs_merge_fallback a b :
  sd_fallback (abs_def (merge a b)) = orelse (sd_fallback (abs_def a)) (sd_fallback (abs_def b)).
Proof.
  unfold abs_def, merge. cbn [sd_fallback d_fallback].
  destruct (d_fallback a); reflexivity.
Qed.

(* set_system only changes the system *)
Lemma abs_set_system_fields a s :
  sd_negative (abs_def (set_system a s)) = sd_negative (abs_def a) /\
  sd_prefix (abs_def (set_system a s)) = sd_prefix (abs_def a) /\
  sd_suffix (abs_def (set_system a s)) = sd_suffix (abs_def a) /\
  sd_range (abs_def (set_system a s)) = sd_range (abs_def a) /\
  sd_pad (abs_def (set_system a s)) = sd_pad (abs_def a) /\
  sd_fallback (abs_def (set_system a s)) = sd_fallback (abs_def a).
Proof. repeat split. Qed.

Lemma dflt_orelse {A} (a b : option A) d : dflt (orelse a b) d = dflt a (dflt b d).
Proof. destruct a; reflexivity. Qed.

(* the system after a step of resolveCounter's loop is the extended one *)
Lemma merge_set_system a b : d_system (merge (set_system a (d_system b)) b) = d_system b.
Proof.
  unfold merge, set_system. cbn [d_system]. destruct (sys_is_zero (d_system b)); reflexivity.
Qed.

Lemma merge_symbols a b : d_symbols a = [] -> d_symbols (merge (set_system a (d_system b)) b) = d_symbols b.
Proof. intros H. unfold merge, set_system. cbn [d_symbols]. rewrite H. reflexivity. Qed.

Lemma merge_additive a b : d_additive a = [] -> d_additive (merge (set_system a (d_system b)) b) = d_additive b.
Proof. intros H. unfold merge, set_system. cbn [d_additive]. rewrite H. reflexivity. Qed.

Definition step (c : table) (cnt : descr) (n : str) : descr :=
  let ext := lookup0 c n in merge (set_system cnt (d_system ext)) ext.

Lemma abs_system_eq a b : d_system a = d_system b -> abs_system a = abs_system b.
Proof. intros H. unfold abs_system, system_triple. rewrite H. reflexivity. Qed.

(* one step: absr of the merged record = inherit own (style of the extended record) *)
Lemma absr_step_base a b :
  d_symbols a = [] -> d_additive a = [] ->
  absr (merge (set_system a (d_system b)) b) = inherit (abs_def a) (absr b).
Proof.
  intros Hs Ha. unfold absr, complete, inherit.
  cbn [rs_system rs_symbols rs_additive rs_negative rs_prefix rs_suffix rs_range rs_pad rs_fallback].
  rewrite (abs_system_eq _ b (merge_set_system a b)).
  rewrite abs_merge_negative, abs_merge_prefix, abs_merge_suffix, abs_merge_range, abs_merge_pad, abs_merge_fallback.
  destruct (abs_set_system_fields a (d_system b)) as (-> & -> & -> & -> & -> & ->).
  rewrite !dflt_orelse.
  f_equal.
  - unfold abs_def. cbn [sd_symbols]. rewrite merge_symbols by assumption. reflexivity.
  - unfold abs_def. cbn [sd_additive]. rewrite merge_additive by assumption. reflexivity.
Qed.

(* inherit of a merged rule = inherit of the first over inherit of the second *)
Lemma inherit_step a b X :
  inherit (abs_def (merge (set_system a (d_system b)) b)) X = inherit (abs_def a) (inherit (abs_def b) X).
Proof.
  unfold inherit.
  cbn [rs_system rs_symbols rs_additive rs_negative rs_prefix rs_suffix rs_range rs_pad rs_fallback].
  rewrite abs_merge_negative, abs_merge_prefix, abs_merge_suffix, abs_merge_range, abs_merge_pad, abs_merge_fallback.
  destruct (abs_set_system_fields a (d_system b)) as (-> & -> & -> & -> & -> & ->).
  rewrite !dflt_orelse. reflexivity.
Qed.

(* ------------------------------------------------------------------ the chain as nested `inherit` *)

Section Resolve.
Variable c : table.
Let T := abs_table c.
Hypothesis Hwf : wf_table c.

Definition own (x : str) : sdef := abs_def (lookup0 c x).
Definition base_style (x : str) : rstyle := absr (lookup0 c x).

Fixpoint nest (q : list str) (r : rstyle) : rstyle :=
  match q with [] => r | x :: q' => inherit (own x) (nest q' r) end.

Lemma nest_app q1 q2 r : nest (q1 ++ q2) r = nest q1 (nest q2 r).
Proof. induction q1 as [|x q1 IH]; simpl; [reflexivity|rewrite IH; reflexivity]. Qed.

Definition no_syms (x : str) : Prop := d_symbols (lookup0 c x) = [] /\ d_additive (lookup0 c x) = [].

Lemma fold_step_abs : forall rest acc,
  rest <> [] -> d_symbols acc = [] -> d_additive acc = [] ->
  (forall x, In x (removelast rest) -> no_syms x) ->
  absr (fold_left (step c) rest acc) =
  inherit (abs_def acc) (nest (removelast rest) (base_style (last rest []))).
Proof.
  induction rest as [|x rest IH]; intros acc Hne Hs Ha Hno; [contradiction|].
  destruct rest as [|y rest].
  - cbn [fold_left last removelast nest]. unfold step, base_style. cbv zeta. apply absr_step_base; assumption.
  - change (fold_left (step c) (x :: y :: rest) acc) with (fold_left (step c) (y :: rest) (step c acc x)).
    assert (Hx : no_syms x) by (apply Hno; simpl; left; reflexivity).
    destruct Hx as [Hxs Hxa].
    rewrite IH.
    + change (removelast (x :: y :: rest)) with (x :: removelast (y :: rest)).
      change (last (x :: y :: rest) []) with (last (y :: rest) []).
      cbn [nest]. unfold step. apply inherit_step.
    + discriminate.
    + unfold step. rewrite merge_symbols by assumption. exact Hxs.
    + unfold step. rewrite merge_additive by assumption. exact Hxa.
    + intros z Hz. apply Hno. change (removelast (x :: y :: rest)) with (x :: removelast (y :: rest)).
      right. exact Hz.
Qed.

Lemma fold_step_fields : forall rest acc,
  rest <> [] -> d_symbols acc = [] -> d_additive acc = [] ->
  (forall x, In x (removelast rest) -> no_syms x) ->
  let r := fold_left (step c) rest acc in
  d_system r = d_system (lookup0 c (last rest [])) /\
  d_symbols r = d_symbols (lookup0 c (last rest [])) /\
  d_additive r = d_additive (lookup0 c (last rest [])).
Proof.
  induction rest as [|x rest IH]; intros acc Hne Hs Ha Hno; [contradiction|].
  destruct rest as [|y rest].
  - cbn [fold_left last]. unfold step. cbv zeta. rewrite merge_set_system, merge_symbols, merge_additive by assumption. auto.
  - change (fold_left (step c) (x :: y :: rest) acc) with (fold_left (step c) (y :: rest) (step c acc x)).
    assert (Hx : no_syms x) by (apply Hno; simpl; left; reflexivity).
    destruct Hx as [Hxs Hxa].
    change (last (x :: y :: rest) []) with (last (y :: rest) []).
    apply IH.
    + discriminate.
    + unfold step. rewrite merge_symbols by assumption. exact Hxs.
    + unfold step. rewrite merge_additive by assumption. exact Hxa.
    + intros z Hz. apply Hno. change (removelast (x :: y :: rest)) with (x :: removelast (y :: rest)).
      right. exact Hz.
Qed.

(* ---- from the shape of the chain to `resolved` *)

Lemma T_own x : lookup c x <> None -> T x = Some (own x).
Proof.
  intros H. unfold T, abs_table, own, lookup0. destruct (lookup c x); [reflexivity|contradiction].
Qed.

Lemma own_system_ext x m : ext_of c x = Some m -> sd_system (own x) = RExtends m.
Proof.
  unfold ext_of, own, lookup0, is_extends. destruct (lookup c x) as [d|]; [|discriminate].
  unfold abs_def. cbn [sd_system]. destruct (sy_extends (d_system d)); [|discriminate].
  intros H. injection H as <-. reflexivity.
Qed.

Lemma own_system_base x : lookup c x <> None -> ext_of c x = None ->
  sd_system (own x) = RSys (abs_system (lookup0 c x)).
Proof.
  unfold ext_of, own, lookup0, is_extends. destruct (lookup c x) as [d|]; [|contradiction].
  intros _. unfold abs_def. cbn [sd_system]. destruct (sy_extends (d_system d)); [discriminate|reflexivity].
Qed.

Lemma resolved_base x : lookup c x <> None -> ext_of c x = None -> resolved T x (base_style x).
Proof.
  intros Hd He. unfold base_style, absr.
  apply (res_base T x (own x)); [apply T_own; assumption|apply own_system_base; assumption].
Qed.

Lemma resolved_along : forall q y r,
  reg_path c (q ++ [y]) -> (forall x, In x q -> ~ in_extends_cycle T x) ->
  resolved T y r -> resolved T (nth 0 (q ++ [y]) []) (nest q r).
Proof.
  induction q as [|x q IH]; intros y r Hp Hnc Hr; [exact Hr|].
  cbn [app nth nest].
  assert (Hq : exists m l, q ++ [y] = m :: l) by (destruct q; simpl; eauto).
  destruct Hq as (m & l & Hq).
  change ((x :: q) ++ [y]) with (x :: (q ++ [y])) in Hp. rewrite Hq in Hp.
  inversion Hp as [|? ? ? He Hp']; subst.
  apply (res_extends T x (own x) m).
  - apply T_own. eapply ext_of_defined; eassumption.
  - apply own_system_ext. assumption.
  - rewrite T_own; [discriminate|]. eapply reg_path_defined; [exact Hp'|left; reflexivity].
  - apply Hnc. left. reflexivity.
  - rewrite <- Hq in Hp'. specialize (IH y r Hp' (fun z Hz => Hnc z (or_intror Hz)) Hr).
    rewrite Hq in IH. exact IH.
Qed.

Lemma decimal_resolved : resolved T n_decimal (base_style s_decimal).
Proof.
  destruct Hwf as [Hd _]. destruct (decimal_base c Hd) as [H1 H2].
  apply resolved_base; assumption.
Qed.

Lemma removelast_snoc {A} (l : list A) x : removelast (l ++ [x]) = l.
Proof. rewrite removelast_app by discriminate. simpl. apply app_nil_r. Qed.
Lemma last_snoc {A} (l : list A) x d : last (l ++ [x]) d = x.
Proof. induction l as [|y l IH]; [reflexivity|]. simpl. destruct (l ++ [x]) eqn:E; [destruct l; discriminate|exact IH]. Qed.

Lemma firstn_S_nth {A} (l : list A) i d : (i < length l)%nat -> firstn (S i) l = firstn i l ++ [nth i l d].
Proof.
  revert i. induction l as [|x l IH]; intros i Hi; simpl in Hi; [nlia|].
  destruct i as [|i]; [reflexivity|]. simpl. f_equal. apply IH. nlia.
Qed.

Lemma nth_firstn_lt {A} (l : list A) i j d : (j < i)%nat -> nth j (firstn i l) d = nth j l d.
Proof.
  revert i j. induction l as [|x l IH]; intros i j Hj; [rewrite firstn_nil; reflexivity|].
  destruct i as [|i]; [nlia|]. destruct j as [|j]; [reflexivity|]. simpl. apply IH. nlia.
Qed.

Lemma chain_out_resolved p out :
  chain_out c p out ->
  resolved T (nth 0 p []) (nest (removelast out) (base_style (last out []))).
Proof.
  destruct Hwf as [Hd Hall].
  intros Hco. destruct Hco as [p Hp Hnd Hl | p m Hp Hnd Hl Hm | p i Hp Hnd Hi Hl].
  - (* base *)
    pose proof (reg_path_nonempty c p Hp) as Hne.
    destruct (exists_last Hne) as (q & y & ->).
    rewrite removelast_snoc, last_snoc in *.
    apply resolved_along; [assumption| |].
    + intros x Hx. apply (dead_end_no_cycle c (q ++ [y]) Hp); [left; rewrite last_snoc; assumption|].
      apply in_or_app. left. assumption.
    + apply resolved_base; [|assumption].
      eapply reg_path_defined; [exact Hp|]. apply in_or_app. right. left. reflexivity.
  - (* unknown target *)
    rewrite removelast_snoc, last_snoc.
    pose proof (reg_path_nonempty c p Hp) as Hne.
    destruct (exists_last Hne) as (q & y & ->).
    rewrite last_snoc in Hl. rewrite nest_app. cbn [nest].
    apply resolved_along; [assumption| |].
    + intros x Hx. apply (dead_end_no_cycle c (q ++ [y]) Hp).
      * right. exists m. rewrite last_snoc. split; assumption.
      * apply in_or_app. left. assumption.
    + apply (res_decimal T y (own y) m).
      * apply T_own. eapply ext_of_defined; eassumption.
      * apply own_system_ext. assumption.
      * left. unfold T, abs_table. rewrite Hm. reflexivity.
      * apply decimal_resolved.
  - (* cycle *)
    rewrite removelast_snoc, last_snoc.
    rewrite (firstn_S_nth p i []) by assumption. rewrite nest_app. cbn [nest].
    assert (Hpre : reg_path c (firstn i p ++ [nth i p []])).
    { rewrite <- (firstn_S_nth p i []) by assumption.
      apply (reg_path_app_l c (firstn (S i) p) (skipn (S i) p)).
      - rewrite firstn_skipn. assumption.
      - destruct p; [simpl in Hi; nlia|discriminate]. }
    assert (H0 : nth 0 p [] = nth 0 (firstn i p ++ [nth i p []]) []).
    { rewrite <- (firstn_S_nth p i []) by assumption. destruct p; [simpl in Hi; nlia|reflexivity]. }
    rewrite H0.
    apply resolved_along; [assumption| |].
    + intros x Hx. apply (In_nth _ _ []) in Hx as (j & Hj & <-).
      rewrite firstn_length in Hj. rewrite nth_firstn_lt by nlia.
      apply (lasso_no_cycle c p i); try assumption. nlia.
    + pose proof (lasso_cycle c p i Hp Hi Hl) as Hcyc.
      assert (Hm' : exists m', ext_of c (nth i p []) = Some m').
      { destruct Hcyc as [k Hk]. simpl in Hk. rewrite ext_target_abs in Hk.
        destruct (ext_of c (nth i p [])) as [m'|]; [eauto|discriminate]. }
      destruct Hm' as [m' Hm'].
      apply (res_decimal T (nth i p []) (own (nth i p [])) m').
      * apply T_own. eapply ext_of_defined; eassumption.
      * apply own_system_ext. assumption.
      * right. exact Hcyc.
      * apply decimal_resolved.
Qed.

End Resolve.

(* ------------------------------------------------------------------ resolveCounter *)

Lemma wfr_fields a b :
  d_system a = d_system b -> d_symbols a = d_symbols b -> d_additive a = d_additive b -> wfr b -> wfr a.
Proof.
  intros Hs Hy Ha (H1 & H2 & H3 & H4).
  unfold wfr, is_extends, known_system, enough_symbols, nonneg_weights, abs_system, system_triple in *.
  rewrite Hs, Hy, Ha. auto.
Qed.

Lemma wf_descr_base d : wf_descr d -> is_extends d = false -> wfr d.
Proof. intros [Hw H] He. rewrite He in H. destruct H. repeat split; assumption. Qed.

Lemma chain_out_parts c p out :
  chain_out c p out -> decimal_ok c ->
  out <> [] /\ (forall x, In x (removelast out) -> ext_of c x <> None) /\
  ext_of c (last out []) = None /\ lookup c (last out []) <> None /\
  nth 0 out [] = nth 0 p [].
Proof.
  intros Hco Hdec. destruct (decimal_base c Hdec) as [Hdb Hdd].
  destruct Hco as [p Hp Hnd Hl | p m Hp Hnd Hl Hm | p i Hp Hnd Hi Hl].
  - split; [apply (reg_path_nonempty c p Hp)|]. split; [|split; [assumption|split; [|reflexivity]]].
    + intros x Hx. apply (In_nth _ _ []) in Hx as (j & Hj & <-).
      pose proof (reg_path_nonempty c p Hp) as Hne.
      destruct (exists_last Hne) as (q & y & ->). rewrite removelast_snoc in *.
      pose proof (reg_path_nth c (q ++ [y]) Hp j) as H. rewrite app_length in H. simpl in H.
      rewrite app_nth1 in H by assumption. rewrite H by lia. discriminate.
    + apply (reg_path_defined c p Hp). apply last_in. apply (reg_path_nonempty c p Hp).
  - rewrite removelast_snoc, last_snoc.
    split; [destruct p; discriminate|]. split; [|split; [assumption|split; [assumption|]]].
    + intros x Hx. apply (path_all_extends c p Hp); [rewrite Hl; discriminate|assumption].
    + pose proof (reg_path_nonempty c p Hp). destruct p; [contradiction|reflexivity].
  - rewrite removelast_snoc, last_snoc.
    split; [destruct p; discriminate|]. split; [|split; [assumption|split; [assumption|]]].
    + intros x Hx. apply in_firstn in Hx.
      apply (path_all_extends c p Hp); [rewrite Hl; discriminate|assumption].
    + destruct p; [simpl in Hi; lia|reflexivity].
Qed.

Theorem resolve_counter_spec c : wf_table c -> forall n d, lookup c n = Some d ->
  exists d', (forall prev, mem n prev = false -> resolve_counter c n prev = Ok (Some d', n :: prev)) /\
             resolved (abs_table c) n (absr d') /\ wfr d' /\ (is_extends d = false -> d' = d).
Proof.
  intros Hwf n d Hl. pose proof Hwf as [Hdec Hall].
  destruct (extends_chain_loop_spec c Hdec (S (S (length c))) [n]) as (p & out & E1 & Hco & (ext & Hpe)).
  { constructor. rewrite Hl. discriminate. }
  { constructor; [auto|constructor]. }
  { simpl. lia. }
  destruct (chain_out_parts c p out Hco Hdec) as (Hne & Hexts & Hlast & Hlastd & H0).
  pose proof (chain_out_resolved c Hwf p out Hco) as Hres.
  assert (Hp0 : nth 0 p [] = n) by (rewrite Hpe; reflexivity).
  rewrite Hp0 in *.
  destruct out as [|x rest]; [contradiction|]. simpl in H0. subst x.
  exists (fold_left (step c) rest d).
  assert (Hrc : forall prev, mem n prev = false ->
            resolve_counter c n prev = Ok (Some (fold_left (step c) rest d), n :: prev)).
  { intros prev Hm. unfold resolve_counter. rewrite Hl, Hm. unfold extends_chain. rewrite E1. reflexivity. }
  split; [exact Hrc|].
  destruct rest as [|y rest].
  - (* the style does not extend *)
    simpl in *. assert (He : is_extends d = false).
    { unfold ext_of in Hlast. rewrite Hl in Hlast. destruct (is_extends d); [discriminate|reflexivity]. }
    split; [|split; [|reflexivity]].
    + unfold base_style, lookup0 in Hres. rewrite Hl in Hres. exact Hres.
    + apply wf_descr_base; [apply (Hall n d Hl)|exact He].
  - (* at least one extended style *)
    assert (Hno : forall x, In x (removelast (n :: y :: rest)) -> no_syms c x).
    { intros x Hx. specialize (Hexts x Hx). unfold ext_of in Hexts. unfold no_syms, lookup0.
      destruct (lookup c x) as [dx|] eqn:Ex; [|contradiction].
      destruct (is_extends dx) eqn:Eex; [|contradiction].
      destruct (Hall x dx Ex) as [_ H]. rewrite Eex in H. exact H. }
    change (removelast (n :: y :: rest)) with (n :: removelast (y :: rest)) in *.
    change (last (n :: y :: rest) []) with (last (y :: rest) []) in *.
    destruct (Hno n (or_introl eq_refl)) as [Hns Hna]. unfold lookup0 in Hns, Hna. rewrite Hl in Hns, Hna.
    assert (Hno' : forall x, In x (removelast (y :: rest)) -> no_syms c x) by (intros x Hx; apply Hno; right; exact Hx).
    split; [|split].
    + rewrite (fold_step_abs c (y :: rest) d ltac:(discriminate) Hns Hna Hno').
      cbn [nest] in Hres.
      assert (Hown : own c n = abs_def d) by (unfold own, lookup0; rewrite Hl; reflexivity).
      rewrite Hown in Hres. exact Hres.
    + destruct (fold_step_fields c (y :: rest) d ltac:(discriminate) Hns Hna Hno') as (F1 & F2 & F3).
      apply (wfr_fields _ (lookup0 c (last (y :: rest) []))); try assumption.
      unfold lookup0. destruct (lookup c (last (y :: rest) [])) as [dl|] eqn:Edl; [|contradiction].
      apply wf_descr_base; [apply (Hall _ _ Edl)|].
      unfold ext_of in Hlast. rewrite Edl in Hlast. destruct (is_extends dl); [discriminate|reflexivity].
    + intros He. exfalso. specialize (Hexts n (or_introl eq_refl)). unfold ext_of in Hexts.
      rewrite Hl, He in Hexts. contradiction.
Qed.
