(* Css/CounterProofs.v -- the model of counters.go (Css/Counters.v) meets
   CSS Counter Styles 3 (Css/CounterSpec.v).  Part 1: the six algorithms. *)
From Verif Require Import Base.GoSem Css.Counters Css.CounterSpec Css.CounterAbs.
From Coq Require Import List ZArith NArith Bool Lia ZifyBool ZifyNat ZifyN.
Import ListNotations.
Open Scope Z_scope.

(* ------------------------------------------------------------------ generic facts *)

Lemma str_eqb_refl : forall a, str_eqb a a = true.
Proof. induction a as [|x a IH]; simpl; [reflexivity|]. rewrite N.eqb_refl, IH. reflexivity. Qed.

Lemma str_eqb_eq : forall a b, str_eqb a b = true <-> a = b.
Proof.
  induction a as [|x a IH]; destruct b as [|y b]; simpl; split; intros H; try discriminate; try reflexivity.
  - apply andb_true_iff in H as [H1 H2]. apply N.eqb_eq in H1. apply IH in H2. congruence.
  - injection H as -> ->. rewrite N.eqb_refl. apply IH. reflexivity.
Qed.

Lemma str_eqb_neq : forall a b, str_eqb a b = false <-> a <> b.
Proof.
  intros a b. destruct (str_eqb a b) eqn:E.
  - apply str_eqb_eq in E. split; [discriminate | congruence].
  - split; [|reflexivity]. intros _ H. apply str_eqb_eq in H. congruence.
Qed.

Lemma zlen_map {A B} (f : A -> B) l : zlen (map f l) = zlen l.
Proof. unfold zlen. rewrite map_length. reflexivity. Qed.

Lemma slen_zlen {A} (l : list A) : slen l = zlen l.
Proof. reflexivity. Qed.

Lemma slen_map {A} (f : A -> sstr) (l : list A) : slen (map f l) = zlen l.
Proof. unfold slen, zlen. rewrite map_length. reflexivity. Qed.

Lemma zlen_nonneg {A} (l : list A) : 0 <= zlen l.
Proof. unfold zlen. lia. Qed.

Lemma zlen_app {A} (a b : list A) : zlen (a ++ b) = zlen a + zlen b.
Proof. unfold zlen. rewrite app_length. lia. Qed.

Lemma srepeat_repeat_str s n : srepeat s n = repeat_str s n.
Proof. induction n; simpl; congruence. Qed.

(* s[i] and the specification's "symbol at index i" *)
Lemma index_sym_at site (syms : list nstr) i :
  0 <= i < zlen syms ->
  exists sy, index site syms i = Ok sy /\ sym_at (map symbol syms) i = Some (symbol sy).
Proof.
  intros Hi. unfold index, sym_at.
  destruct (Z.ltb_spec i 0); [lia|].
  destruct (nth_error syms (Z.to_nat i)) as [sy|] eqn:E.
  - exists sy. split; [reflexivity|]. rewrite nth_error_map, E. reflexivity.
  - apply nth_error_None in E. unfold zlen in Hi. lia.
Qed.

Lemma sym_at_out (syms : list sstr) i : ~ (0 <= i < slen syms) -> sym_at syms i = None.
Proof.
  intros Hi. unfold sym_at. destruct (Z.ltb_spec i 0); [reflexivity|].
  apply nth_error_None. unfold slen in Hi. lia.
Qed.

Lemma go_mod_ok site a b : b <> 0 -> go_mod site a b = Ok (Z.rem a b).
Proof. intros H. unfold go_mod. destruct (Z.eqb_spec b 0); [contradiction|reflexivity]. Qed.

Lemma go_div_ok site a b : b <> 0 -> go_div site a b = Ok (Z.quot a b).
Proof. intros H. unfold go_div. destruct (Z.eqb_spec b 0); [contradiction|reflexivity]. Qed.

Lemma go_repeat_ok site s n : 0 <= n -> go_repeat site s n = Ok (repeat_str s (Z.to_nat n)).
Proof. intros H. unfold go_repeat. destruct (Z.ltb_spec n 0); [lia|reflexivity]. Qed.

(* ((a rem L) + L) rem L  is the mathematical  a mod L *)
Lemma rem_rem_mod a L : 0 < L -> Z.rem (Z.rem a L + L) L = a mod L.
Proof.
  intros HL.
  assert (Hb : Z.abs (Z.rem a L) < Z.abs L) by (apply Z.rem_bound_abs; lia).
  assert (Hq : a = L * Z.quot a L + Z.rem a L) by (apply Z.quot_rem'; lia).
  rewrite Z.rem_mod_nonneg by lia.
  replace (Z.rem a L + L) with (a + (1 - Z.quot a L) * L) by lia.
  apply Z_mod_plus_full.
Qed.

(* ------------------------------------------------------------------ cyclic (3.1.1) *)

Theorem repeating_spec : forall syms v,
  repeating syms v = Ok (cyclic_repr (map symbol syms) v).
Proof.
  intros syms v. unfold repeating, cyclic_repr. rewrite !slen_map.
  destruct (Z.eqb_spec (zlen syms) 0) as [E|E].
  - rewrite sym_at_out; [reflexivity|]. rewrite !slen_map. lia.
  - pose proof (zlen_nonneg syms) as Hn.
    rewrite go_mod_ok by lia. cbn [bind].
    rewrite go_mod_ok by lia. cbn [bind].
    rewrite rem_rem_mod by lia.
    destruct (index_sym_at 284 syms ((v - 1) mod zlen syms)) as (sy & H1 & H2).
    { apply Z.mod_pos_bound. lia. }
    rewrite H1, H2. reflexivity.
Qed.

(* ------------------------------------------------------------------ fixed (3.1.2) *)

Theorem non_repeating_spec : forall syms first v,
  non_repeating syms first v = Ok (fixed_repr first (map symbol syms) v).
Proof.
  intros syms first v. unfold non_repeating, fixed_repr. rewrite !slen_map.
  destruct (Z.leb_spec 0 (v - first)), (Z.ltb_spec (v - first) (zlen syms)),
           (Z.leb_spec first v), (Z.ltb_spec v (first + zlen syms)); cbn [andb]; try lia; try reflexivity.
  destruct (index_sym_at 292 syms (v - first)) as (sy & Hi1 & Hi2); [lia|].
  rewrite Hi1, Hi2. reflexivity.
Qed.

(* ------------------------------------------------------------------ symbolic (3.1.3) *)

Theorem symbolic_spec : forall syms v,
  symbolic syms v = Ok (symbolic_repr (map symbol syms) v).
Proof.
  intros syms v. unfold symbolic, symbolic_repr. rewrite !slen_map.
  pose proof (zlen_nonneg syms) as Hn.
  destruct (Z.ltb_spec v 1); [rewrite orb_true_r; reflexivity|].
  rewrite orb_false_r.
  destruct (Z.eqb_spec (zlen syms) 0) as [E|E].
  - rewrite sym_at_out; [reflexivity|]. rewrite !slen_map. lia.
  - rewrite go_mod_ok, go_div_ok by lia. cbn [bind].
    rewrite Z.rem_mod_nonneg, Z.quot_div_nonneg by lia.
    destruct (index_sym_at 306 syms ((v - 1) mod zlen syms)) as (sy & H1 & H2).
    { apply Z.mod_pos_bound. lia. }
    rewrite H1, H2. cbn [bind].
    assert (Hq : 0 <= (v - 1) / zlen syms) by (apply Z.div_pos; lia).
    rewrite go_repeat_ok by lia. cbn [bind].
    replace (v + zlen syms - 1) with (v - 1 + 1 * zlen syms) by lia.
    rewrite Z.div_add by lia. reflexivity.
Qed.

(* ------------------------------------------------------------------ digit lists *)

Lemma digits_value_app L l d : digits_value L (l ++ [d]) = digits_value L l * L + d.
Proof. unfold digits_value. rewrite fold_left_app. reflexivity. Qed.

Lemma digits_value_nonneg L l : 0 <= L -> Forall (fun d => 0 <= d) l -> 0 <= digits_value L l.
Proof.
  intros HL. induction l as [|d l IH] using rev_ind; intros HF; [unfold digits_value; simpl; lia|].
  apply Forall_app in HF as [HF1 HF2]. inversion HF2; subst.
  rewrite digits_value_app. specialize (IH HF1). nia.
Qed.

Lemma digits_string_app syms off l d :
  digits_string syms off (l ++ [d]) =
  digits_string syms off l ++ match sym_at syms (d - off) with Some s => s | None => [] end.
Proof. unfold digits_string. rewrite map_app, concat_app. simpl. rewrite app_nil_r. reflexivity. Qed.

(* fold_left started from a positive accumulator stays positive *)
Lemma fold_digits_pos L l acc :
  1 <= L -> Forall (fun d => 0 <= d) l -> 1 <= acc ->
  1 <= fold_left (fun a d => a * L + d) l acc.
Proof.
  intros HL. revert acc. induction l as [|d l IH]; intros acc HF Ha; simpl; [lia|].
  inversion HF; subst. apply IH; [assumption|nia].
Qed.

(* ------------------------------------------------------------------ alphabetic (3.1.4) *)

Lemma alphabetic_loop_spec : forall fuel syms L value acc,
  L = zlen syms -> 2 <= L -> 0 <= value -> value < 2 ^ (Z.of_nat fuel - 1) ->
  exists ds, alphabetic_loop fuel syms L value acc = Ok (digits_string (map symbol syms) 1 ds ++ acc) /\
             Forall (fun d => 1 <= d <= L) ds /\ digits_value L ds = value /\ (0 < value -> ds <> []).
Proof.
  induction fuel as [|f IH]; intros syms L value acc HL H2 Hv Hf.
  - exfalso. change (2 ^ (Z.of_nat 0 - 1)) with 0 in Hf. lia.
  - cbn [alphabetic_loop].
    destruct (Z.eqb_spec value 0) as [E|E].
    + exists []. subst value. repeat split; auto. intros; lia.
    + assert (Hpos : 0 < value) by lia.
      rewrite go_mod_ok by lia. cbn [bind].
      rewrite Z.rem_mod_nonneg by lia.
      destruct (index_sym_at 319 syms ((value - 1) mod L)) as (sy & H1 & H2').
      { rewrite <- HL. apply Z.mod_pos_bound. lia. }
      rewrite H1. cbn [bind].
      rewrite go_div_ok by lia. cbn [bind].
      rewrite Z.quot_div_nonneg by lia.
      assert (Hq0 : 0 <= (value - 1) / L) by (apply Z.div_pos; lia).
      assert (Hq1 : (value - 1) / L < 2 ^ (Z.of_nat f - 1)).
      { destruct f as [|f'].
        - simpl in Hf. lia.
        - replace (Z.of_nat (S (S f')) - 1) with (Z.succ (Z.of_nat (S f') - 1)) in Hf by lia.
          rewrite Z.pow_succ_r in Hf by lia.
          apply Z.div_lt_upper_bound; [lia|].
          assert (2 ^ (Z.of_nat (S f') - 1) > 0) by (apply Z.lt_gt, Z.pow_pos_nonneg; lia). nia. }
      destruct (IH syms L ((value - 1) / L) (symbol sy ++ acc) HL H2 Hq0 Hq1) as (ds & E1 & E2 & E3 & E4).
      exists (ds ++ [(value - 1) mod L + 1]).
      rewrite E1. split.
      * rewrite digits_string_app. replace ((value - 1) mod L + 1 - 1) with ((value - 1) mod L) by lia.
        rewrite H2'. rewrite <- app_assoc. reflexivity.
      * split; [|split].
        -- apply Forall_app. split; [assumption|]. constructor; [|constructor].
           pose proof (Z.mod_pos_bound (value - 1) L). lia.
        -- rewrite digits_value_app, E3. pose proof (Z.div_mod (value - 1) L). lia.
        -- intros _ Hnil. apply app_eq_nil in Hnil as [_ Hnil]. discriminate.
Qed.

Lemma digits_fuel_ok value : 0 <= value -> value < 2 ^ (Z.of_nat (digits_fuel value) - 1).
Proof.
  intros Hv. unfold digits_fuel. rewrite Z.abs_eq by lia.
  destruct (Z.eqb_spec value 0) as [->|E].
  - simpl. lia.
  - pose proof (Z.log2_spec value ltac:(lia)) as [_ H].
    pose proof (Z.log2_nonneg value).
    replace (Z.of_nat (S (S (Z.to_nat (Z.log2 value)))) - 1) with (Z.succ (Z.log2 value)) by lia.
    exact H.
Qed.

(* the bijective base-L representation is unique *)
Lemma alphabetic_digits_unique L : 1 <= L -> forall ds ds',
  Forall (fun d => 1 <= d <= L) ds -> Forall (fun d => 1 <= d <= L) ds' ->
  digits_value L ds = digits_value L ds' -> ds = ds'.
Proof.
  intros HL. induction ds as [|d l IH] using rev_ind; intros ds' HF HF' HV.
  - destruct ds' as [|x r] using rev_ind; [reflexivity|].
    apply Forall_app in HF' as [HF1 HF2]. inversion HF2; subst.
    rewrite digits_value_app in HV. unfold digits_value in HV at 1. simpl in HV.
    assert (0 <= digits_value L r).
    { apply digits_value_nonneg; [lia|]. eapply Forall_impl; [|exact HF1]. simpl. intros; lia. }
    nia.
  - destruct ds' as [|d' l' _] using rev_ind.
    + apply Forall_app in HF as [HF1 HF2]. inversion HF2; subst.
      rewrite digits_value_app in HV. unfold digits_value in HV at 2. simpl in HV.
      assert (0 <= digits_value L l).
      { apply digits_value_nonneg; [lia|]. eapply Forall_impl; [|exact HF1]. simpl. intros; lia. }
      nia.
    + apply Forall_app in HF as [HF1 HF2]. inversion HF2; subst.
      apply Forall_app in HF' as [HF1' HF2']. inversion HF2'; subst.
      rewrite !digits_value_app in HV.
      assert (Hd : d = d').
      { assert (Hm : (d - d') mod L = 0).
        { replace (d - d') with (0 + (digits_value L l' - digits_value L l) * L) by lia.
          rewrite Z_mod_plus_full. apply Z.mod_0_l. lia. }
        apply Z.mod_divide in Hm; [|lia]. destruct Hm as [k Hk].
        assert (k = 0) by nia. lia. }
      subst d'. f_equal. apply IH; try assumption. nia.
Qed.

Theorem alphabetic_spec : forall syms v,
  2 <= zlen syms -> 1 <= v ->
  exists ds, alphabetic syms v = Ok (Some (digits_string (map symbol syms) 1 ds)) /\
             alphabetic_digits (zlen syms) v ds.
Proof.
  intros syms v HL Hv. unfold alphabetic.
  destruct (Z.ltb_spec (zlen syms) 2); [lia|]. destruct (Z.ltb_spec v 1); [lia|]. cbn [orb].
  destruct (alphabetic_loop_spec (digits_fuel v) syms (zlen syms) v [] eq_refl HL ltac:(lia)
              (digits_fuel_ok v ltac:(lia))) as (ds & E1 & E2 & E3 & E4).
  exists ds. rewrite E1. cbn [res_map]. rewrite app_nil_r. split; [reflexivity|].
  split; [apply E4; lia|]. split; assumption.
Qed.

(* ------------------------------------------------------------------ numeric (3.1.5) *)

Lemma numeric_loop_spec : forall fuel syms L value acc,
  L = zlen syms -> 2 <= L -> 0 <= value -> value < 2 ^ (Z.of_nat fuel - 1) ->
  exists ds, numeric_loop fuel syms L value acc = Ok (digits_string (map symbol syms) 0 ds ++ acc) /\
             Forall (fun d => 0 <= d < L) ds /\ digits_value L ds = value /\
             (value = 0 -> ds = []) /\
             (0 < value -> ds <> [] /\ hd 0 ds <> 0).
Proof.
  induction fuel as [|f IH]; intros syms L value acc HL H2 Hv Hf.
  - exfalso. change (2 ^ (Z.of_nat 0 - 1)) with 0 in Hf. lia.
  - cbn [numeric_loop].
    destruct (Z.eqb_spec value 0) as [E|E].
    + exists []. subst value. repeat split; auto; intros; lia.
    + assert (Hpos : 0 < value) by lia.
      rewrite go_mod_ok by lia. cbn [bind].
      rewrite Z.rem_mod_nonneg by lia.
      destruct (index_sym_at 338 syms (value mod L)) as (sy & H1 & H2').
      { rewrite <- HL. apply Z.mod_pos_bound. lia. }
      rewrite H1. cbn [bind].
      rewrite go_div_ok by lia. cbn [bind].
      rewrite Z.quot_div_nonneg by lia.
      assert (Hq0 : 0 <= value / L) by (apply Z.div_pos; lia).
      assert (Hq1 : value / L < 2 ^ (Z.of_nat f - 1)).
      { destruct f as [|f'].
        - simpl in Hf. lia.
        - replace (Z.of_nat (S (S f')) - 1) with (Z.succ (Z.of_nat (S f') - 1)) in Hf by lia.
          rewrite Z.pow_succ_r in Hf by lia.
          apply Z.div_lt_upper_bound; [lia|].
          assert (2 ^ (Z.of_nat (S f') - 1) > 0) by (apply Z.lt_gt, Z.pow_pos_nonneg; lia). nia. }
      destruct (IH syms L (value / L) (symbol sy ++ acc) HL H2 Hq0 Hq1) as (ds & E1 & E2 & E3 & E0 & E4).
      exists (ds ++ [value mod L]).
      rewrite E1. split.
      * rewrite digits_string_app. replace (value mod L - 0) with (value mod L) by lia.
        rewrite H2'. rewrite <- app_assoc. reflexivity.
      * split; [|split; [|split]].
        -- apply Forall_app. split; [assumption|]. constructor; [|constructor].
           pose proof (Z.mod_pos_bound value L). lia.
        -- rewrite digits_value_app, E3. pose proof (Z.div_mod value L). lia.
        -- intros; lia.
        -- intros _. split.
           ++ intros Hnil. apply app_eq_nil in Hnil as [_ Hnil]. discriminate.
           ++ destruct (Z.eqb_spec (value / L) 0) as [Eq|Eq].
              ** rewrite (E0 Eq). simpl. pose proof (Z.div_mod value L). lia.
              ** destruct (E4 ltac:(lia)) as [Hne Hhd].
                 destruct ds as [|x r]; [contradiction|]. simpl. simpl in Hhd. exact Hhd.
Qed.

(* positional representations without leading zero are unique *)
Lemma digits_value_pos L ds :
  1 <= L -> Forall (fun d => 0 <= d) ds -> ds <> [] -> hd 0 ds <> 0 -> 1 <= digits_value L ds.
Proof.
  intros HL HF Hne Hhd. destruct ds as [|x r]; [contradiction|].
  inversion HF; subst. simpl in Hhd. unfold digits_value. simpl.
  apply fold_digits_pos; [lia|assumption|lia].
Qed.

Lemma hd_app_ne {A} (d : A) l x : l <> [] -> hd d (l ++ [x]) = hd d l.
Proof. destruct l; [contradiction|reflexivity]. Qed.

Lemma numeric_digits_unique_pos L : 2 <= L -> forall ds ds',
  Forall (fun d => 0 <= d < L) ds -> Forall (fun d => 0 <= d < L) ds' ->
  (ds = [] \/ hd 0 ds <> 0) -> (ds' = [] \/ hd 0 ds' <> 0) ->
  digits_value L ds = digits_value L ds' -> ds = ds'.
Proof.
  intros HL.
  assert (Hnn : forall l, Forall (fun d => 0 <= d < L) l -> Forall (fun d => 0 <= d) l).
  { intros l Hl. eapply Forall_impl; [|exact Hl]. simpl. intros; lia. }
  induction ds as [|d l IH] using rev_ind; intros ds' HF HF' Hc Hc' HV.
  - destruct ds' as [|x r]; [reflexivity|]. exfalso.
    destruct Hc' as [Hc'|Hc']; [discriminate|].
    pose proof (digits_value_pos L (x :: r) ltac:(lia) (Hnn _ HF') ltac:(discriminate) Hc').
    unfold digits_value in HV at 1. simpl in HV. lia.
  - destruct ds' as [|d' l' _] using rev_ind.
    + exfalso. destruct Hc as [Hc|Hc]; [apply app_eq_nil in Hc as [_ Hc]; discriminate|].
      pose proof (digits_value_pos L (l ++ [d]) ltac:(lia) (Hnn _ HF)
                    ltac:(intros Hn; apply app_eq_nil in Hn as [_ Hn]; discriminate) Hc).
      unfold digits_value in HV at 2. simpl in HV. lia.
    + apply Forall_app in HF as [HF1 HF2]. inversion HF2; subst.
      apply Forall_app in HF' as [HF1' HF2']. inversion HF2'; subst.
      rewrite !digits_value_app in HV.
      assert (Hd : d = d').
      { assert (Hm : (d - d') mod L = 0).
        { replace (d - d') with (0 + (digits_value L l' - digits_value L l) * L) by lia.
          rewrite Z_mod_plus_full. apply Z.mod_0_l. lia. }
        apply Z.mod_divide in Hm; [|lia]. destruct Hm as [k Hk].
        assert (k = 0) by nia. lia. }
      subst d'. f_equal. apply IH; try assumption; [| |nia].
      * destruct l as [|y t]; [left; reflexivity|right].
        destruct Hc as [Hc|Hc]; [discriminate|]. exact Hc.
      * destruct l' as [|y t]; [left; reflexivity|right].
        destruct Hc' as [Hc'|Hc']; [discriminate|]. exact Hc'.
Qed.

Theorem numeric_digits_unique L v ds ds' :
  2 <= L -> numeric_digits L v ds -> numeric_digits L v ds' -> ds = ds'.
Proof.
  intros HL (Hne & HF & Hc & HV) (Hne' & HF' & Hc' & HV').
  assert (Hnn : forall l, Forall (fun d => 0 <= d < L) l -> Forall (fun d => 0 <= d) l).
  { intros l Hl. eapply Forall_impl; [|exact Hl]. simpl. intros; lia. }
  destruct Hc as [Hc|Hc], Hc' as [Hc'|Hc'].
  - apply (numeric_digits_unique_pos L HL); auto. congruence.
  - exfalso. subst ds'. unfold digits_value in HV'. simpl in HV'. subst v.
    pose proof (digits_value_pos L ds ltac:(lia) (Hnn _ HF) Hne Hc). lia.
  - exfalso. subst ds. unfold digits_value in HV. simpl in HV. subst v.
    pose proof (digits_value_pos L ds' ltac:(lia) (Hnn _ HF') Hne' Hc'). lia.
  - congruence.
Qed.

Theorem alphabetic_digits_unique' L v ds ds' :
  1 <= L -> alphabetic_digits L v ds -> alphabetic_digits L v ds' -> ds = ds'.
Proof.
  intros HL (_ & HF & HV) (_ & HF' & HV'). apply (alphabetic_digits_unique L HL); auto. congruence.
Qed.

Theorem numeric_spec : forall syms v,
  2 <= zlen syms ->
  exists ds, numeric syms v = Ok (Some (digits_string (map symbol syms) 0 ds)) /\
             numeric_digits (zlen syms) (Z.abs v) ds.
Proof.
  intros syms v HL. unfold numeric.
  destruct (Z.ltb_spec (zlen syms) 2); [lia|].
  destruct (Z.eqb_spec v 0) as [->|Hv].
  - destruct (index_sym_at 332 syms 0) as (sy & H1 & H2); [lia|].
    rewrite H1. cbn [bind]. exists [0]. split.
    + unfold digits_string. simpl. replace (0 - 0) with 0 by lia. rewrite H2, app_nil_r. reflexivity.
    + split; [discriminate|]. split; [constructor; [lia|constructor]|]. split; [right; reflexivity|reflexivity].
  - destruct (numeric_loop_spec (digits_fuel (Z.abs v)) syms (zlen syms) (Z.abs v) [] eq_refl HL ltac:(lia)
                (digits_fuel_ok (Z.abs v) ltac:(lia))) as (ds & E1 & E2 & E3 & _ & E4).
    exists ds. rewrite E1. cbn [res_map]. rewrite app_nil_r. split; [reflexivity|].
    destruct (E4 ltac:(lia)) as [Hne Hhd].
    split; [assumption|]. split; [assumption|]. split; [left; assumption|assumption].
Qed.

(* ------------------------------------------------------------------ additive (3.1.6) *)

Lemma reps_string_zeros ts : reps_string ts (map (fun _ => 0) ts) = [].
Proof. induction ts as [|[w s] t IH]; simpl; [reflexivity|assumption]. Qed.

Lemma additive_loop_spec : forall ts v acc,
  Forall (fun a => 0 <= ad_w a) ts -> 0 < v ->
  additive_loop ts v acc =
  Ok (option_map (fun reps => acc ++ reps_string (abs_tuples ts) reps)
                 (additive_reps (map fst (abs_tuples ts)) v)).
Proof.
  induction ts as [|a ts IH]; intros v acc HF Hv; [reflexivity|].
  inversion HF as [|? ? Hw HF']; subst.
  cbn [additive_loop abs_tuples map additive_reps fst].
  destruct ((ad_w a =? 0) || (v <? ad_w a)) eqn:Eg.
  - rewrite (IH v acc HF' Hv). fold (abs_tuples ts).
    destruct (additive_reps (map fst (abs_tuples ts)) v); cbn [option_map]; [|reflexivity].
    simpl. reflexivity.
  - apply orb_false_iff in Eg as [Eg1 Eg2]. apply Z.eqb_neq in Eg1. apply Z.ltb_ge in Eg2.
    rewrite go_div_ok by lia. cbn [bind]. rewrite Z.quot_div_nonneg by lia.
    assert (Hq : 1 <= v / ad_w a) by (apply Z.div_le_lower_bound; lia).
    rewrite go_repeat_ok by lia. cbn [bind].
    assert (Hm : v - ad_w a * (v / ad_w a) = v mod ad_w a) by (pose proof (Z.div_mod v (ad_w a)); lia).
    pose proof (Z.mod_pos_bound v (ad_w a) ltac:(lia)) as Hb.
    destruct (Z.eqb_spec (v - ad_w a * (v / ad_w a)) 0) as [E0|E0].
    + cbn [option_map]. fold (abs_tuples ts). simpl.
      replace (map (fun _ : Z => 0) (map fst (abs_tuples ts))) with (map (fun _ : Z * sstr => 0) (abs_tuples ts))
        by (rewrite map_map; reflexivity).
      rewrite reps_string_zeros, app_nil_r. reflexivity.
    + assert (Hpos : 0 < v - ad_w a * (v / ad_w a)) by lia.
      rewrite (IH _ _ HF' Hpos). fold (abs_tuples ts).
      destruct (additive_reps (map fst (abs_tuples ts)) (v - ad_w a * (v / ad_w a))); cbn [option_map]; [|reflexivity].
      simpl. rewrite <- app_assoc. reflexivity.
Qed.

Lemma find_abs_tuples ts :
  option_map snd (find (fun t => fst t =? 0) (abs_tuples ts)) =
  match find (fun vs => ad_w vs =? 0) ts with Some vs => Some (symbol (ad_s vs)) | None => None end.
Proof.
  induction ts as [|a ts IH]; [reflexivity|]. simpl.
  destruct (ad_w a =? 0); [reflexivity|exact IH].
Qed.

Theorem additive_spec : forall ts v,
  Forall (fun a => 0 <= ad_w a) ts -> 0 <= v ->
  additive ts v = Ok (additive_repr (abs_tuples ts) v).
Proof.
  intros ts v HF Hv. unfold additive, additive_repr.
  destruct (Z.eqb_spec v 0) as [->|Hv0].
  - rewrite find_abs_tuples. destruct (find _ ts); reflexivity.
  - destruct (Z.ltb_spec v 0); [lia|].
    destruct ts as [|a ts]; [reflexivity|].
    rewrite additive_loop_spec by (assumption || lia).
    destruct (additive_reps _ v); reflexivity.
Qed.

(* the weights of the tuples used sum to the value *)
Fixpoint weighted_sum (ws reps : list Z) : Z :=
  match ws, reps with
  | w :: ws', q :: reps' => w * q + weighted_sum ws' reps'
  | _, _ => 0
  end.

Lemma weighted_sum_zeros ws : weighted_sum ws (map (fun _ => 0) ws) = 0.
Proof. induction ws; simpl; lia. Qed.

Theorem additive_sum : forall ws v reps,
  Forall (fun w => 0 <= w) ws -> 0 < v ->
  additive_reps ws v = Some reps ->
  length reps = length ws /\ Forall (fun q => 0 <= q) reps /\ weighted_sum ws reps = v.
Proof.
  induction ws as [|w ws IH]; intros v reps HF Hv H; [discriminate|].
  inversion HF as [|? ? Hw HF']; subst. cbn [additive_reps] in H.
  destruct ((w =? 0) || (v <? w)) eqn:Eg.
  - destruct (additive_reps ws v) as [r|] eqn:Er; [|discriminate]. injection H as <-.
    destruct (IH v r HF' Hv Er) as (H1 & H2 & H3).
    simpl. repeat split; [lia|constructor; [lia|assumption]|lia].
  - apply orb_false_iff in Eg as [Eg1 Eg2]. apply Z.eqb_neq in Eg1. apply Z.ltb_ge in Eg2.
    assert (Hq : 1 <= v / w) by (apply Z.div_le_lower_bound; lia).
    pose proof (Z.div_mod v w ltac:(lia)) as Hdm.
    pose proof (Z.mod_pos_bound v w ltac:(lia)) as Hb.
    destruct (Z.eqb_spec (v - w * (v / w)) 0) as [E0|E0].
    + injection H as <-. simpl. rewrite map_length, weighted_sum_zeros.
      split; [reflexivity|]. split; [|lia]. constructor; [lia|].
      clear. induction ws; simpl; constructor; [lia|assumption].
    + destruct (additive_reps ws (v - w * (v / w))) as [r|] eqn:Er; [|discriminate]. injection H as <-.
      assert (Hpos : 0 < v - w * (v / w)) by lia.
      destruct (IH _ r HF' Hpos Er) as (H1 & H2 & H3).
      simpl. repeat split; [lia|constructor; [lia|assumption]|lia].
Qed.
