(* Css/CounterProofs.v -- the model of counters.go (Css/Counters.v) meets
   CSS Counter Styles 3 (Css/CounterSpec.v).  Part 1: the six algorithms. *)
From Verif Require Import Base.GoSem Css.Counters Css.CounterSpec.
From Coq Require Import List ZArith NArith Bool Lia ZifyBool ZifyNat ZifyN.
Import ListNotations.
Open Scope Z_scope.

(* ------------------------------------------------------------------ generic facts *)

Lemma str_eqb_refl : forall a, str_eqb a a = true.
Proof. induction a as [|x a IH]; simpl; [reflexivity|]. rewrite N.eqb_refl, IH. reflexivity. Qed.

Lemma str_eqb_eq : forall a b, str_eqb a b = true <-> a = b.
Proof.
  induction a as [|x a IH]; destruct b as [|y b]; simpl; split; intros H; try discriminate; try reflexivity.
  - apply andb_true_iff in H as [H1 H2]. apply N.eqb_eq in H1. apply IH in H2. congruence.
  - injection H as -> ->. rewrite N.eqb_refl. apply IH. reflexivity.
Qed.

Lemma str_eqb_neq : forall a b, str_eqb a b = false <-> a <> b.
Proof.
  intros a b. destruct (str_eqb a b) eqn:E.
  - apply str_eqb_eq in E. split; [discriminate | congruence].
  - split; [|reflexivity]. intros _ H. apply str_eqb_eq in H. congruence.
Qed.

Lemma zlen_map {A B} (f : A -> B) l : zlen (map f l) = zlen l.
Proof. unfold zlen. rewrite map_length. reflexivity. Qed.

Lemma slen_zlen {A} (l : list A) : slen l = zlen l.
Proof. reflexivity. Qed.

Lemma slen_map {A} (f : A -> sstr) (l : list A) : slen (map f l) = zlen l.
Proof. unfold slen, zlen. rewrite map_length. reflexivity. Qed.

Lemma zlen_nonneg {A} (l : list A) : 0 <= zlen l.
Proof. unfold zlen. lia. Qed.

Lemma zlen_app {A} (a b : list A) : zlen (a ++ b) = zlen a + zlen b.
Proof. unfold zlen. rewrite app_length. lia. Qed.

Lemma srepeat_repeat_str s n : srepeat s n = repeat_str s n.
Proof. induction n; simpl; congruence. Qed.

(* s[i] and the specification's "symbol at index i" *)
Lemma index_sym_at site (syms : list nstr) i :
  0 <= i < zlen syms ->
  exists sy, index site syms i = Ok sy /\ sym_at (map symbol syms) i = Some (symbol sy).
Proof.
  intros Hi. unfold index, sym_at.
  destruct (Z.ltb_spec i 0); [lia|].
  destruct (nth_error syms (Z.to_nat i)) as [sy|] eqn:E.
  - exists sy. split; [reflexivity|]. rewrite nth_error_map, E. reflexivity.
  - apply nth_error_None in E. unfold zlen in Hi. lia.
Qed.

Lemma sym_at_out (syms : list sstr) i : ~ (0 <= i < slen syms) -> sym_at syms i = None.
Proof.
  intros Hi. unfold sym_at. destruct (Z.ltb_spec i 0); [reflexivity|].
  apply nth_error_None. unfold slen in Hi. lia.
Qed.

Lemma go_mod_ok site a b : b <> 0 -> go_mod site a b = Ok (Z.rem a b).
Proof. intros H. unfold go_mod. destruct (Z.eqb_spec b 0); [contradiction|reflexivity]. Qed.

Lemma go_div_ok site a b : b <> 0 -> go_div site a b = Ok (Z.quot a b).
Proof. intros H. unfold go_div. destruct (Z.eqb_spec b 0); [contradiction|reflexivity]. Qed.

Lemma go_repeat_ok site s n : 0 <= n -> go_repeat site s n = Ok (repeat_str s (Z.to_nat n)).
Proof. intros H. unfold go_repeat. destruct (Z.ltb_spec n 0); [lia|reflexivity]. Qed.

(* ((a rem L) + L) rem L  is the mathematical  a mod L *)
Lemma rem_rem_mod a L : 0 < L -> Z.rem (Z.rem a L + L) L = a mod L.
Proof.
  intros HL.
  assert (Hb : Z.abs (Z.rem a L) < Z.abs L) by (apply Z.rem_bound_abs; lia).
  assert (Hq : a = L * Z.quot a L + Z.rem a L) by (apply Z.quot_rem'; lia).
  rewrite Z.rem_mod_nonneg by lia.
  replace (Z.rem a L + L) with (a + (1 - Z.quot a L) * L) by lia.
  apply Z_mod_plus_full.
Qed.

(* ------------------------------------------------------------------ cyclic (3.1.1) *)

Theorem repeating_spec : forall syms v,
  repeating syms v = Ok (cyclic_repr (map symbol syms) v).
Proof.
  intros syms v. unfold repeating, cyclic_repr. rewrite !slen_map.
  destruct (Z.eqb_spec (zlen syms) 0) as [E|E].
  - rewrite sym_at_out; [reflexivity|]. rewrite !slen_map. lia.
  - pose proof (zlen_nonneg syms) as Hn.
    rewrite go_mod_ok by lia. cbn [bind].
    rewrite go_mod_ok by lia. cbn [bind].
    rewrite rem_rem_mod by lia.
    destruct (index_sym_at 284 syms ((v - 1) mod zlen syms)) as (sy & H1 & H2).
    { apply Z.mod_pos_bound. lia. }
    rewrite H1, H2. reflexivity.
Qed.

(* ------------------------------------------------------------------ fixed (3.1.2) *)

Theorem non_repeating_spec : forall syms first v,
  non_repeating syms first v = Ok (fixed_repr first (map symbol syms) v).
Proof.
  intros syms first v. unfold non_repeating, fixed_repr. rewrite !slen_map.
  destruct (Z.leb_spec 0 (v - first)), (Z.ltb_spec (v - first) (zlen syms)),
           (Z.leb_spec first v), (Z.ltb_spec v (first + zlen syms)); cbn [andb]; try lia; try reflexivity.
  destruct (index_sym_at 292 syms (v - first)) as (sy & Hi1 & Hi2); [lia|].
  rewrite Hi1, Hi2. reflexivity.
Qed.

(* ------------------------------------------------------------------ symbolic (3.1.3) *)

Theorem symbolic_spec : forall syms v,
  symbolic syms v = Ok (symbolic_repr (map symbol syms) v).
Proof.
  intros syms v. unfold symbolic, symbolic_repr. rewrite !slen_map.
  pose proof (zlen_nonneg syms) as Hn.
  destruct (Z.ltb_spec v 1); [rewrite orb_true_r; reflexivity|].
  rewrite orb_false_r.
  destruct (Z.eqb_spec (zlen syms) 0) as [E|E].
  - rewrite sym_at_out; [reflexivity|]. rewrite !slen_map. lia.
  - rewrite go_mod_ok, go_div_ok by lia. cbn [bind].
    rewrite Z.rem_mod_nonneg, Z.quot_div_nonneg by lia.
    destruct (index_sym_at 306 syms ((v - 1) mod zlen syms)) as (sy & H1 & H2).
    { apply Z.mod_pos_bound. lia. }
    rewrite H1, H2. cbn [bind].
    assert (Hq : 0 <= (v - 1) / zlen syms) by (apply Z.div_pos; lia).
    rewrite go_repeat_ok by lia. cbn [bind].
    replace (v + zlen syms - 1) with (v - 1 + 1 * zlen syms) by lia.
    rewrite Z.div_add by lia. reflexivity.
Qed.

(* ------------------------------------------------------------------ digit lists *)

Lemma digits_value_app L l d : digits_value L (l ++ [d]) = digits_value L l * L + d.
Proof. unfold digits_value. rewrite fold_left_app. reflexivity. Qed.

Lemma digits_value_nonneg L l : 0 <= L -> Forall (fun d => 0 <= d) l -> 0 <= digits_value L l.
Proof.
  intros HL. induction l as [|d l IH] using rev_ind; intros HF; [unfold digits_value; simpl; lia|].
  apply Forall_app in HF as [HF1 HF2]. inversion HF2; subst.
  rewrite digits_value_app. specialize (IH HF1). nia.
Qed.

Lemma digits_string_app syms off l d :
  digits_string syms off (l ++ [d]) =
  digits_string syms off l ++ match sym_at syms (d - off) with Some s => s | None => [] end.
Proof. unfold digits_string. rewrite map_app, concat_app. simpl. rewrite app_nil_r. reflexivity. Qed.

(* fold_left started from a positive accumulator stays positive *)
Lemma fold_digits_pos L l acc :
  1 <= L -> Forall (fun d => 0 <= d) l -> 1 <= acc ->
  1 <= fold_left (fun a d => a * L + d) l acc.
Proof.
  intros HL. revert acc. induction l as [|d l IH]; intros acc HF Ha; simpl; [lia|].
  inversion HF; subst. apply IH; [assumption|nia].
Qed.

(* ------------------------------------------------------------------ alphabetic (3.1.4) *)

Lemma alphabetic_loop_spec : forall fuel syms L value acc,
  L = zlen syms -> 2 <= L -> 0 <= value -> value < 2 ^ (Z.of_nat fuel - 1) ->
  exists ds, alphabetic_loop fuel syms L value acc = Ok (digits_string (map symbol syms) 1 ds ++ acc) /\
             Forall (fun d => 1 <= d <= L) ds /\ digits_value L ds = value /\ (0 < value -> ds <> []).
Proof.
  induction fuel as [|f IH]; intros syms L value acc HL H2 Hv Hf.
  - exfalso. simpl in Hf. rewrite Z.pow_neg_r in Hf by lia. lia.
  - cbn [alphabetic_loop].
    destruct (Z.eqb_spec value 0) as [E|E].
    + exists []. subst value. repeat split; auto. intros; lia.
    + assert (Hpos : 0 < value) by lia.
      rewrite go_mod_ok by lia. cbn [bind].
      rewrite Z.rem_mod_nonneg by lia.
      destruct (index_sym_at 319 syms ((value - 1) mod L)) as (sy & H1 & H2').
      { rewrite <- HL. apply Z.mod_pos_bound. lia. }
      rewrite H1. cbn [bind].
      rewrite go_div_ok by lia. cbn [bind].
      rewrite Z.quot_div_nonneg by lia.
      assert (Hq0 : 0 <= (value - 1) / L) by (apply Z.div_pos; lia).
      assert (Hq1 : (value - 1) / L < 2 ^ (Z.of_nat f - 1)).
      { destruct f as [|f'].
        - simpl in Hf. lia.
        - replace (Z.of_nat (S (S f')) - 1) with (Z.succ (Z.of_nat (S f') - 1)) in Hf by lia.
          rewrite Z.pow_succ_r in Hf by lia.
          apply Z.div_lt_upper_bound; [lia|].
          assert (2 ^ (Z.of_nat (S f') - 1) > 0) by (apply Z.lt_gt, Z.pow_pos_nonneg; lia). nia. }
      destruct (IH syms L ((value - 1) / L) (symbol sy ++ acc) HL H2 Hq0 Hq1) as (ds & E1 & E2 & E3 & E4).
      exists (ds ++ [(value - 1) mod L + 1]).
      rewrite E1. split.
      * rewrite digits_string_app. replace ((value - 1) mod L + 1 - 1) with ((value - 1) mod L) by lia.
        rewrite H2'. rewrite <- app_assoc. reflexivity.
      * split; [|split].
        -- apply Forall_app. split; [assumption|]. constructor; [|constructor].
           pose proof (Z.mod_pos_bound (value - 1) L). lia.
        -- rewrite digits_value_app, E3. pose proof (Z.div_mod (value - 1) L). lia.
        -- intros _ Hnil. apply app_eq_nil in Hnil as [_ Hnil]. discriminate.
Qed.

Lemma digits_fuel_ok value : 0 <= value -> value < 2 ^ (Z.of_nat (digits_fuel value) - 1).
Proof.
  intros Hv. unfold digits_fuel. rewrite Z.abs_eq by lia.
  destruct (Z.eqb_spec value 0) as [->|E].
  - simpl. lia.
  - pose proof (Z.log2_spec value ltac:(lia)) as [_ H].
    pose proof (Z.log2_nonneg value).
    replace (Z.of_nat (S (S (Z.to_nat (Z.log2 value)))) - 1) with (Z.succ (Z.log2 value)) by lia.
    exact H.
Qed.

(* the bijective base-L representation is unique *)
Lemma alphabetic_digits_unique L : 1 <= L -> forall ds ds',
  Forall (fun d => 1 <= d <= L) ds -> Forall (fun d => 1 <= d <= L) ds' ->
  digits_value L ds = digits_value L ds' -> ds = ds'.
Proof.
  intros HL. induction ds as [|d l IH] using rev_ind; intros ds' HF HF' HV.
  - destruct ds' as [|x r] using rev_ind; [reflexivity|].
    apply Forall_app in HF' as [HF1 HF2]. inversion HF2; subst.
    rewrite digits_value_app in HV. unfold digits_value in HV at 1. simpl in HV.
    assert (0 <= digits_value L r).
    { apply digits_value_nonneg; [lia|]. eapply Forall_impl; [|exact HF1]. simpl. intros; lia. }
    nia.
  - destruct ds' as [|d' l' _] using rev_ind.
    + apply Forall_app in HF as [HF1 HF2]. inversion HF2; subst.
      rewrite digits_value_app in HV. unfold digits_value in HV at 2. simpl in HV.
      assert (0 <= digits_value L l).
      { apply digits_value_nonneg; [lia|]. eapply Forall_impl; [|exact HF1]. simpl. intros; lia. }
      nia.
    + apply Forall_app in HF as [HF1 HF2]. inversion HF2; subst.
      apply Forall_app in HF' as [HF1' HF2']. inversion HF2'; subst.
      rewrite !digits_value_app in HV.
      assert (Hd : d = d').
      { assert (Hm : (d - d') mod L = 0).
        { replace (d - d') with (0 + (digits_value L l' - digits_value L l) * L) by lia.
          rewrite Z_mod_plus_full. apply Z.mod_0_l. lia. }
        apply Z.mod_divide in Hm; [|lia]. destruct Hm as [k Hk].
        assert (k = 0) by nia. lia. }
      subst d'. f_equal. apply IH; try assumption. nia.
Qed.

Theorem alphabetic_spec : forall syms v,
  2 <= zlen syms -> 1 <= v ->
  exists ds, alphabetic syms v = Ok (Some (digits_string (map symbol syms) 1 ds)) /\
             alphabetic_digits (zlen syms) v ds.
Proof.
  intros syms v HL Hv. unfold alphabetic.
  destruct (Z.ltb_spec (zlen syms) 2); [lia|]. destruct (Z.ltb_spec v 1); [lia|]. cbn [orb].
  destruct (alphabetic_loop_spec (digits_fuel v) syms (zlen syms) v [] eq_refl HL ltac:(lia)
              (digits_fuel_ok v ltac:(lia))) as (ds & E1 & E2 & E3 & E4).
  exists ds. rewrite E1. cbn [res_map]. rewrite app_nil_r. split; [reflexivity|].
  split; [apply E4; lia|]. split; assumption.
Qed.

(* ------------------------------------------------------------------ numeric (3.1.5) *)

Lemma numeric_loop_spec : forall fuel syms L value acc,
  L = zlen syms -> 2 <= L -> 0 <= value -> value < 2 ^ (Z.of_nat fuel - 1) ->
  exists ds, numeric_loop fuel syms L value acc = Ok (digits_string (map symbol syms) 0 ds ++ acc) /\
             Forall (fun d => 0 <= d < L) ds /\ digits_value L ds = value /\
             (value = 0 -> ds = []) /\
             (0 < value -> ds <> [] /\ hd 0 ds <> 0).
Proof.
  induction fuel as [|f IH]; intros syms L value acc HL H2 Hv Hf.
  - exfalso. simpl in Hf. rewrite Z.pow_neg_r in Hf by lia. lia.
  - cbn [numeric_loop].
    destruct (Z.eqb_spec value 0) as [E|E].
    + exists []. subst value. repeat split; auto; intros; lia.
    + assert (Hpos : 0 < value) by lia.
      rewrite go_mod_ok by lia. cbn [bind].
      rewrite Z.rem_mod_nonneg by lia.
      destruct (index_sym_at 338 syms (value mod L)) as (sy & H1 & H2').
      { rewrite <- HL. apply Z.mod_pos_bound. lia. }
      rewrite H1. cbn [bind].
      rewrite go_div_ok by lia. cbn [bind].
      rewrite Z.quot_div_nonneg by lia.
      assert (Hq0 : 0 <= value / L) by (apply Z.div_pos; lia).
      assert (Hq1 : value / L < 2 ^ (Z.of_nat f - 1)).
      { destruct f as [|f'].
        - simpl in Hf. lia.
        - replace (Z.of_nat (S (S f')) - 1) with (Z.succ (Z.of_nat (S f') - 1)) in Hf by lia.
          rewrite Z.pow_succ_r in Hf by lia.
          apply Z.div_lt_upper_bound; [lia|].
          assert (2 ^ (Z.of_nat (S f') - 1) > 0) by (apply Z.lt_gt, Z.pow_pos_nonneg; lia). nia. }
      destruct (IH syms L (value / L) (symbol sy ++ acc) HL H2 Hq0 Hq1) as (ds & E1 & E2 & E3 & E0 & E4).
      exists (ds ++ [value mod L]).
      rewrite E1. split.
      * rewrite digits_string_app. replace (value mod L - 0) with (value mod L) by lia.
        rewrite H2'. rewrite <- app_assoc. reflexivity.
      * split; [|split; [|split]].
        -- apply Forall_app. split; [assumption|]. constructor; [|constructor].
           pose proof (Z.mod_pos_bound value L). lia.
        -- rewrite digits_value_app, E3. pose proof (Z.div_mod value L). lia.
        -- intros; lia.
        -- intros _. split.
           ++ intros Hnil. apply app_eq_nil in Hnil as [_ Hnil]. discriminate.
           ++ destruct (Z.eqb_spec (value / L) 0) as [Eq|Eq].
              ** rewrite (E0 Eq). simpl. pose proof (Z.div_mod value L). lia.
              ** destruct (E4 ltac:(lia)) as [Hne Hhd].
                 destruct ds as [|x r]; [contradiction|]. simpl. simpl in Hhd. exact Hhd.
Qed.
