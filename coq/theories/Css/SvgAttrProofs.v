(* Css/SvgAttrProofs.v -- totality of the SVG attribute parsers of Css/SvgAttr.v (C07);
   refutation for parsePreserveAspectRatio as found. *)
From Verif Require Import Base.GoSem Base.GoStrings Base.GoStringsProofs Css.SvgAttr.
From Coq Require Import List ZArith NArith Bool Lia ZifyBool ZifyNat ZifyN.
Import ListNotations.
Open Scope Z_scope.

(* ------------------------------------------------------------------ preserveAspectRatio *)
Theorem parse_preserve_aspect_ratio_total s : exists r, parse_preserve_aspect_ratio s = Ok r.
Proof.
  unfold parse_preserve_aspect_ratio, parse_preserve_aspect_ratio_gen.
  pose proof (split_byte_len 32 s) as Hl.
  destruct (index_ok 760 (split_byte 32 s) 0 ltac:(lia)) as [align Ha]. rewrite Ha. cbn [bind].
  destruct (negb (list_eqb align s_none) && (len align >=? 5)) eqn:E.
  - apply andb_prop in E as [_ E].
    rewrite slice_ok by lia. cbn [bind].
    rewrite slice_from_ok by lia. cbn [bind]. eauto.
  - cbn [bind]. eauto.
Qed.

(* the code as found (`||` instead of `&&`) slices a short value: preserveAspectRatio="abc" *)
Theorem parse_preserve_aspect_ratio_unfixed_refuted :
  parse_preserve_aspect_ratio_unfixed [97; 98; 99]%N = Panic 761 /\
  parse_preserve_aspect_ratio_unfixed [] = Panic 761.
Proof. split; reflexivity. Qed.

Example par_mid_slice :
  parse_preserve_aspect_ratio [120; 77; 105; 100; 89; 77; 97; 120; 32; 115; 108; 105; 99; 101]%N  (* "xMidYMax slice" *)
  = Ok (mkPar [109; 105; 100]%N [109; 97; 120]%N false true).
Proof. reflexivity. Qed.
Example par_abc : parse_preserve_aspect_ratio [97; 98; 99]%N = Ok (mkPar s_min s_min false false).
Proof. reflexivity. Qed.

(* ------------------------------------------------------------------ parseURL stripping *)
Lemma url_wrapped_len u :
  has_prefix u s_url_open = true -> has_suffix u s_close = true -> 5 <= len u.
Proof.
  intros Hp Hs.
  destruct u as [|a [|b [|c [|d [|e rest]]]]]; try (cbn in Hp; discriminate).
  - cbn in Hp. repeat rewrite andb_false_r in Hp. discriminate.
  - cbn in Hp. repeat rewrite andb_false_r in Hp. discriminate.
  - cbn in Hp. repeat rewrite andb_false_r in Hp. discriminate.
  - exfalso. cbn in Hp, Hs. lia.
  - rewrite !len_cons. pose proof (len_nonneg rest). lia.
Qed.

Theorem parse_url_strip_total u : exists r, parse_url_strip u = Ok r.
Proof.
  unfold parse_url_strip.
  destruct (has_prefix u s_url_open) eqn:Hp; [|cbn; eauto].
  destruct (has_suffix u s_close) eqn:Hs; [|cbn; eauto]. cbn [andb].
  pose proof (url_wrapped_len u Hp Hs) as H5.
  destruct (slice 763 u 4 (len u - 1)) as [u'| |] eqn:Hu;
    [|rewrite slice_ok in Hu by lia; discriminate|rewrite slice_ok in Hu by lia; discriminate].
  cbn [bind]. apply slice_len in Hu as [Hl _].
  destruct (len u' >=? 2) eqn:E2; [|eauto].
  destruct (index_ok 764 u' 0 ltac:(lia)) as [a Ha]. rewrite Ha. cbn [bind].
  destruct (index_ok 765 u' (len u' - 1) ltac:(lia)) as [b Hb]. rewrite Hb. cbn [bind].
  destruct ((a =? 34) && (b =? 34) || (a =? 39) && (b =? 39))%N; [|eauto].
  rewrite slice_ok by lia. eauto.
Qed.

(* ------------------------------------------------------------------ newPainter *)
Theorem new_painter_total attr : exists r, new_painter attr = Ok r.
Proof.
  unfold new_painter. set (a := trim_space attr).
  destruct (list_eqb a [] || list_eqb a s_none); [eauto|].
  destruct (has_prefix a s_url_open); [|eauto].
  pose proof (index_byte_range a 41) as Hr.
  destruct (index_byte a 41 =? -1) eqn:E; cbn [negb]; [eauto|].
  rewrite slice_to_ok by lia. cbn [bind].
  rewrite slice_from_ok by lia. cbn [bind].
  destruct (parse_url_strip_total (firstn (Z.to_nat (index_byte a 41)) a)) as [u Hu].
  rewrite Hu. cbn [bind]. eauto.
Qed.

(* ------------------------------------------------------------------ parseValue / parseOpacity / parseFontWeight *)
Theorem parse_value_total s : exists r, parse_value s = Ok r.
Proof. unfold parse_value. destruct (list_eqb (trim_space s) []); eauto. Qed.

Lemma find_unit_range s us :
  Forall (fun p => (1 <= fst p <= 11)%N) us -> (1 <= fst (find_unit s us) <= 11)%N.
Proof.
  induction 1 as [|[u suf] us Hu _ IH]; cbn [find_unit]; [cbn; lia|].
  destruct (has_suffix s suf); [cbn in *; lia|exact IH].
Qed.

(* the unit returned is one of the table: indexing toPx / units with it is safe *)
Theorem parse_value_unit s u num : parse_value s = Ok (Some (u, num)) -> (1 <= u <= 11)%N.
Proof.
  unfold parse_value. destruct (list_eqb (trim_space s) []); [discriminate|].
  intros H.
  assert (E : find_unit (trim_space s) unit_suffixes = (u, num)) by congruence.
  pose proof (find_unit_range (trim_space s) unit_suffixes) as Hr.
  rewrite E in Hr. apply Hr.
  unfold unit_suffixes. repeat constructor; cbn; lia.
Qed.

Theorem parse_opacity_total value : exists r, parse_opacity value = Ok r.
Proof.
  unfold parse_opacity. set (v := trim_space value).
  destruct (list_eqb v []); [eauto|].
  destruct (has_suffix v [37%N]) eqn:E; [|eauto].
  apply has_suffix_len in E. cbn [length] in E.
  rewrite slice_to_ok by (unfold len; lia). cbn [bind]. eauto.
Qed.

Theorem parse_font_weight_total s : exists r, parse_font_weight s = Ok r.
Proof.
  unfold parse_font_weight.
  destruct (list_eqb s s_normal); [eauto|]. destruct (list_eqb s s_bold); [eauto|].
  destruct (atoi s); eauto.
Qed.
