(* Css/DeclTok.v -- component values as the declaration pipeline sees them (C08).

   A position-free, value-carrying view of /repo/css/parser/tokenizer.go:37-85
   (the Token implementations).  C08 never looks at positions, and it needs
   the *numeric value* of number tokens (ValueF, a float32, carried here as
   the exact rational), so this is a separate datatype from Css/Token.v (C06's
   representation-preserving AST).  The Go harness prints parser output in
   this form.  Strings are lists of Unicode code points.

   Model file: definitions only. *)
From Coq Require Import List NArith ZArith QArith Bool.
Import ListNotations.

Definition str := list N.

Inductive tok : Type :=
| TIdent (v : str)                          (* Ident: unescaped value, case kept *)
| TLit (v : str)                            (* Literal: delimiter / raw value *)
| TWs                                       (* Whitespace *)
| TComment                                  (* Comment *)
| THash (v : str)
| TStr (v : str)
| TUrl (v : str)
| TNum (v : Q) (is_int : bool)              (* Number: ValueF *)
| TPerc (v : Q) (is_int : bool)             (* Percentage *)
| TDim (v : Q) (is_int : bool) (u : str)    (* Dimension: unit as written (tokenizer.go:617-619 keeps case) *)
| TFunc (name : str) (args : list tok)      (* FunctionBlock: name as written *)
| TBlock (k : N) (args : list tok)          (* 0 = ( ), 1 = [ ], 2 = { } *)
| TOther (k : N).                           (* AtKeyword / UnicodeRange / ParseError: opaque *)

(* ---- strings ---- *)

Fixpoint str_eqb (a b : str) : bool :=
  match a, b with
  | [], [] => true
  | x :: a', y :: b' => N.eqb x y && str_eqb a' b'
  | _, _ => false
  end.

(* utils.AsciiLower, utils/html.go:201-211 (c < 0x7F then unicode.ToLower: only A-Z change) *)
Definition lower_char (c : N) : N :=
  if (N.leb 65 c && N.leb c 90)%bool then (c + 32)%N else c.
Definition ascii_lower (s : str) : str := map lower_char s.

(* strings.HasPrefix *)
Fixpoint has_prefix (p s : str) : bool :=
  match p, s with
  | [], _ => true
  | x :: p', y :: s' => N.eqb x y && has_prefix p' s'
  | _ :: _, [] => false
  end.

(* strings.TrimPrefix *)
Definition trim_prefix (p s : str) : str :=
  if has_prefix p s then skipn (length p) s else s.

Definition dash : N := 45.
Definition is_custom_name (s : str) : bool := has_prefix [dash; dash] s.

(* ---- token predicates ---- *)

Definition is_trivia (t : tok) : bool :=
  match t with TWs | TComment => true | _ => false end.

(* parser.RemoveWhitespace, tokenizer.go:900-908: drops Whitespace and Comment
   tokens of ONE level (nested arguments are untouched) *)
Definition remove_whitespace (l : list tok) : list tok :=
  filter (fun t => negb (is_trivia t)) l.

(* parser.IsLiteral, parser.go:262-265 *)
Definition is_literal (t : tok) (s : str) : bool :=
  match t with TLit v => str_eqb v s | _ => false end.

Definition comma : str := [44%N].

(* structural equality (numbers compared as rationals) *)
Fixpoint tok_eqb (a b : tok) {struct a} : bool :=
  let fix list_eqb (l1 l2 : list tok) {struct l1} : bool :=
    match l1, l2 with
    | [], [] => true
    | x :: r1, y :: r2 => tok_eqb x y && list_eqb r1 r2
    | _, _ => false
    end in
  match a, b with
  | TIdent v, TIdent w | TLit v, TLit w | THash v, THash w | TStr v, TStr w | TUrl v, TUrl w => str_eqb v w
  | TWs, TWs | TComment, TComment => true
  | TNum v i, TNum w j | TPerc v i, TPerc w j => Qeq_bool v w && Bool.eqb i j
  | TDim v i u, TDim w j u' => Qeq_bool v w && Bool.eqb i j && str_eqb u u'
  | TFunc n l1, TFunc m l2 => str_eqb n m && list_eqb l1 l2
  | TBlock k l1, TBlock k' l2 => N.eqb k k' && list_eqb l1 l2
  | TOther k, TOther k' => N.eqb k k'
  | _, _ => false
  end.

Fixpoint toks_eqb (l1 l2 : list tok) : bool :=
  match l1, l2 with
  | [], [] => true
  | x :: r1, y :: r2 => tok_eqb x y && toks_eqb r1 r2
  | _, _ => false
  end.

(* ---- parser.ParseFunction, tokenizer.go:931-965 ----
   Returns (lower-cased name, arguments without whitespace/comments/commas),
   or ([], []) -- Go's ("", nil) -- when the token is not a function, has two
   commas in a row, a trailing comma, or contains a function for which
   ParseFunction itself fails.  A leading comma is accepted (lastIsComma
   starts false). *)
Fixpoint parse_function (t : tok) : str * list tok :=
  match t with
  | TFunc name args =>
      let fix loop (content : list tok) (last_is_comma : bool) (acc : list tok) {struct content}
        : option (list tok) :=
        match content with
        | [] => if last_is_comma then None else Some (rev acc)
        | token :: rest =>
            if is_trivia token then loop rest last_is_comma acc     (* RemoveWhitespace, :936 *)
            else
              let is_comma := is_literal token comma in
              if (last_is_comma && is_comma)%bool then None          (* :945 *)
              else if is_comma then loop rest true acc
              else
                let inner_ok :=
                  match token with
                  | TFunc _ _ => match fst (parse_function token) with [] => false | _ => true end
                  | _ => true
                  end in
                if inner_ok then loop rest false (token :: acc) else None   (* :952-957 *)
        end in
      match loop args false [] with
      | Some arguments => (ascii_lower name, arguments)
      | None => ([], [])
      end
  | _ => ([], [])
  end.

Definition s_var : str := [118; 97; 114]%N.   (* "var" *)

(* validation.HasVar, css/validation/utils.go:309-328 *)
Fixpoint has_var (t : tok) : bool :=
  match t with
  | TFunc _ fargs =>
      let '(name, args) := parse_function t in
      match name with
      | [] => false
      | _ =>
        let is_var_call :=
          (str_eqb name s_var && match args with [] => false | _ => true end)%bool in
        if is_var_call then
          match args with
          | TIdent v :: _ => is_custom_name v
          | _ => false
          end
        else
          (* recurse: the arguments kept by ParseFunction are the non-trivia,
             non-comma members of fargs *)
          (fix any (l : list tok) : bool :=
             match l with
             | [] => false
             | a :: r =>
                 (if (is_trivia a || is_literal a comma)%bool then false else has_var a) || any r
             end) fargs
      end
  | _ => false
  end.

(* ---- the spelling-insensitive projection used by the theorems ----
   lower-cases idents (except dashed idents: custom property names are case
   sensitive), function names and units; drops whitespace and comments at
   every level. *)
Fixpoint proj_tok (t : tok) : tok :=
  match t with
  | TIdent v => if is_custom_name v then TIdent v else TIdent (ascii_lower v)
  | TDim v i u => TDim v i (ascii_lower u)
  | TFunc n args =>
      TFunc (ascii_lower n)
        ((fix go (l : list tok) : list tok :=
            match l with
            | [] => []
            | a :: r => if is_trivia a then go r else proj_tok a :: go r
            end) args)
  | TBlock k args =>
      TBlock k
        ((fix go (l : list tok) : list tok :=
            match l with
            | [] => []
            | a :: r => if is_trivia a then go r else proj_tok a :: go r
            end) args)
  | _ => t
  end.

Fixpoint proj_toks (l : list tok) : list tok :=
  match l with
  | [] => []
  | a :: r => if is_trivia a then proj_toks r else proj_tok a :: proj_toks r
  end.
