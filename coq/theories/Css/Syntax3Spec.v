(* Css/Syntax3Spec.v -- CSS Syntax Module Level 3 as an independent, executable
   transcription: section 3.3 (preprocessing), section 4.3 (tokenization, a
   FLAT token stream) and section 5.4.7-5.4.9 (component values: simple blocks
   and functions built from the flat stream).  Two phases on purpose: the
   implementation is a single recursive pass.

   Text followed: W3C CR Draft 24 December 2021, plus the token types the 2014
   CR (20 February 2014) still had and tinycss2 / this repository keep:
   include/dash/prefix/suffix/substring-match (`~= |= ^= $= *=`), column
   (`||`) and unicode-range (2014 CR 4.3.1 `U`/`u` rule and "consume a
   unicode-range token").  Paragraph numbers below are those of the 2021 text.

   What is recorded beyond the specification's token structure, so that the
   statement can be about everything the implementation returns:
   * numeric tokens keep their *representation* (2014 CR wording) next to the
     type flag; the numeric value is a function of it;
   * "this is a parse error" is recorded where the implementation emits an
     error token: EOF in string / url (flag on the token);
   * `SComment`: 4.3.2 "consume comments" produces no token; the stream marks
     where a comment was consumed (the implementation can keep comments);
     `drop_comments` removes the marks.

   No proofs in this file. *)
From Verif Require Import Css.Token.
From Coq Require Import List NArith ZArith Bool.
Import ListNotations.
Open Scope N_scope.

(* ------------------------------------------------------------------ 3.3 preprocessing *)
(* "Replace any U+000D CR, U+000C FF, or pairs of CR LF by a single U+000A LF.
    Replace any U+0000 NULL or surrogate code points with U+FFFD." *)
Fixpoint preprocess (s : list N) : list N :=
  match s with
  | [] => []
  | c :: r =>
      let one := (if (c =? 13) || (c =? 12) then 10
                  else if (c =? 0) || ((55296 <=? c) && (c <=? 57343)) then 65533
                  else c) in
      match r with
      | d :: r' => if (c =? 13) && (d =? 10) then 10 :: preprocess r' else one :: preprocess r
      | [] => [one]
      end
  end.

(* ------------------------------------------------------------------ 4.2 definitions *)
Definition digit (c : N) := (48 <=? c) && (c <=? 57).
Definition hex_digit (c : N) := digit c || ((65 <=? c) && (c <=? 70)) || ((97 <=? c) && (c <=? 102)).
Definition letter (c : N) := ((65 <=? c) && (c <=? 90)) || ((97 <=? c) && (c <=? 122)).
Definition non_ascii (c : N) := 128 <=? c.
Definition ident_start (c : N) := letter c || non_ascii c || (c =? 95).
Definition ident_char (c : N) := ident_start c || digit c || (c =? 45).
Definition non_printable (c : N) := (c <=? 8) || (c =? 11) || ((14 <=? c) && (c <=? 31)) || (c =? 127).
Definition newline (c : N) := c =? 10.
Definition whitespace (c : N) := newline c || (c =? 9) || (c =? 32).
Definition max_code_point : N := 1114111.
Definition surrogate (c : N) := (55296 <=? c) && (c <=? 57343).

(* ------------------------------------------------------------------ tokens *)
Inductive stoken :=
| SIdent (v : str) | SFunction (v : str) | SAtKeyword (v : str)
| SHash (v : str) (id : bool)
| SString (v : str) (eof : bool) | SBadString
| SUrl (v : str) (eof : bool) | SBadUrl
| SDelim (c : N)
| SNumber (repr : str) (integer : bool)
| SPercentage (repr : str) (integer : bool)
| SDimension (repr : str) (integer : bool) (unit : str)
| SWhitespace | SCDO | SCDC | SColon | SSemicolon | SComma
| SLBracket | SRBracket | SLParen | SRParen | SLBrace | SRBrace
| SMatch (c : N)                 (* 2014 CR: `c=` for c in ~ | ^ $ * *)
| SColumn                        (* 2014 CR: || *)
| SUnicodeRange (range_start range_end : N)   (* 2014 CR *)
| SComment (text : str) (eof : bool).

(* ------------------------------------------------------------------ 4.3.8 - 4.3.10 checks (on the code points given) *)
(* 4.3.8 two code points are a valid escape *)
Definition valid_escape (inp : list N) : bool :=
  match inp with
  | b :: c :: _ => (b =? 92) && negb (newline c)
  | [b] => b =? 92                     (* second code point is EOF, which is not a newline *)
  | [] => false
  end.

(* 4.3.9 three code points would start an ident sequence *)
Definition starts_ident (inp : list N) : bool :=
  match inp with
  | c :: r =>
      if c =? 45 then
        match r with
        | d :: _ => ident_start d || (d =? 45) || valid_escape r
        | [] => false
        end
      else if c =? 92 then valid_escape inp
      else ident_start c
  | [] => false
  end.

(* 4.3.10 three code points would start a number *)
Definition starts_number (inp : list N) : bool :=
  match inp with
  | c :: r =>
      if (c =? 43) || (c =? 45) then
        match r with
        | d :: r' => digit d || ((d =? 46) && match r' with e :: _ => digit e | [] => false end)
        | [] => false
        end
      else if c =? 46 then match r with d :: _ => digit d | [] => false end
      else digit c
  | [] => false
  end.

(* ------------------------------------------------------------------ 4.3.7 consume an escaped code point *)
Fixpoint while_upto (p : N -> bool) (n : nat) (inp : list N) : list N * list N :=
  match n, inp with
  | S n', c :: r => if p c then let '(a, b) := while_upto p n' r in (c :: a, b) else ([], inp)
  | _, _ => ([], inp)
  end.

Fixpoint while_ (p : N -> bool) (inp : list N) : list N * list N :=
  match inp with
  | c :: r => if p c then let '(a, b) := while_ p r in (c :: a, b) else ([], inp)
  | [] => ([], [])
  end.

Definition hex_val (c : N) : N :=
  if digit c then c - 48 else if 97 <=? c then c - 97 + 10 else c - 65 + 10.
Fixpoint hex_number (acc : N) (ds : list N) : N :=
  match ds with [] => acc | d :: r => hex_number (16 * acc + hex_val d) r end.

(* the backslash is already consumed *)
Definition consume_escaped (inp : list N) : N * list N :=
  match inp with
  | [] => (65533, [])                                         (* EOF: parse error, U+FFFD *)
  | c :: r =>
      if hex_digit c then
        let '(ds, r1) := while_upto hex_digit 5 r in          (* no more than 5 further hex digits *)
        let r2 := match r1 with w :: r' => if whitespace w then r' else r1 | [] => [] end in
        let n := hex_number 0 (c :: ds) in
        (if (n =? 0) || surrogate n || (max_code_point <? n) then 65533 else n, r2)
      else (c, r)
  end.

(* ------------------------------------------------------------------ 4.3.11 consume an ident sequence *)
Fixpoint ident_sequence (fuel : nat) (inp : list N) : str * list N :=
  match fuel with
  | O => ([], inp)
  | S f =>
      match inp with
      | c :: r =>
          if ident_char c then let '(v, r') := ident_sequence f r in (c :: v, r')
          else if valid_escape inp then
            let '(e, r1) := consume_escaped r in
            let '(v, r') := ident_sequence f r1 in (e :: v, r')
          else ([], inp)
      | [] => ([], [])
      end
  end.

(* ------------------------------------------------------------------ 4.3.12 consume a number: representation and type *)
Definition consume_number (inp : list N) : str * bool * list N :=
  let '(sign, r0) :=
    match inp with
    | c :: r => if (c =? 43) || (c =? 45) then ([c], r) else ([], inp)
    | [] => ([], [])
    end in
  let '(int_part, r1) := while_ digit r0 in
  let '(frac, r2) :=
    match r1 with
    | p :: d :: r =>
        if (p =? 46) && digit d then let '(ds, r') := while_ digit (d :: r) in (46 :: ds, r') else ([], r1)
    | _ => ([], r1)
    end in
  let '(expo, r3) :=
    match r2 with
    | e :: r =>
        if (e =? 69) || (e =? 101) then
          match r with
          | s :: d :: r' =>
              if ((s =? 43) || (s =? 45)) && digit d then
                let '(ds, r'') := while_ digit (d :: r') in (e :: s :: ds, r'')
              else if digit s then let '(ds, r'') := while_ digit r in (e :: ds, r'')
              else ([], r2)
          | [d] => if digit d then ([e; d], []) else ([], r2)
          | [] => ([], r2)
          end
        else ([], r2)
    | [] => ([], r2)
    end in
  let integer := match frac, expo with [], [] => true | _, _ => false end in
  (sign ++ int_part ++ frac ++ expo, integer, r3).

(* 4.3.3 consume a numeric token *)
Definition consume_numeric (fuel : nat) (inp : list N) : stoken * list N :=
  let '(repr, integer, r) := consume_number inp in
  if starts_ident r then
    let '(unit, r') := ident_sequence fuel r in (SDimension repr integer unit, r')
  else match r with
       | c :: r' => if c =? 37 then (SPercentage repr integer, r') else (SNumber repr integer, r)
       | [] => (SNumber repr integer, r)
       end.

(* ------------------------------------------------------------------ 4.3.5 consume a string token *)
(* the opening quote is consumed; returns (value, outcome, rest):
   outcome 0 = closed, 1 = EOF (parse error, string token), 2 = newline (bad-string, newline not consumed) *)
Fixpoint string_body (fuel : nat) (ending : N) (inp : list N) : str * N * list N :=
  match fuel with
  | O => ([], 1, inp)
  | S f =>
      match inp with
      | [] => ([], 1, [])
      | c :: r =>
          if c =? ending then ([], 0, r)
          else if newline c then ([], 2, inp)
          else if c =? 92 then
            match r with
            | [] => string_body f ending []                   (* next is EOF: do nothing *)
            | d :: r' =>
                if newline d then string_body f ending r'     (* escaped newline: consume it *)
                else let '(e, r1) := consume_escaped r in
                     let '(v, o, r2) := string_body f ending r1 in (e :: v, o, r2)
            end
          else let '(v, o, r2) := string_body f ending r in (c :: v, o, r2)
      end
  end.

Definition consume_string (fuel : nat) (ending : N) (inp : list N) : stoken * list N :=
  let '(v, o, r) := string_body fuel ending inp in
  if o =? 2 then (SBadString, r) else (SString v (o =? 1), r).

(* ------------------------------------------------------------------ 4.3.14 consume the remnants of a bad url *)
Fixpoint bad_url_remnants (fuel : nat) (inp : list N) : list N :=
  match fuel with
  | O => inp
  | S f =>
      match inp with
      | [] => []
      | c :: r =>
          if c =? 41 then r
          else if valid_escape inp then bad_url_remnants f (snd (consume_escaped r))
          else bad_url_remnants f r
      end
  end.

(* ------------------------------------------------------------------ 4.3.6 consume a url token *)
Definition skip_ws (inp : list N) : list N := snd (while_ whitespace inp).

(* after the initial whitespace; returns (Some (value, eof), rest) or (None, rest) for bad-url *)
Fixpoint url_body (fuel : nat) (inp : list N) : option (str * bool) * list N :=
  match fuel with
  | O => (None, inp)
  | S f =>
      match inp with
      | [] => (Some ([], true), [])
      | c :: r =>
          if c =? 41 then (Some ([], false), r)
          else if whitespace c then
            match skip_ws r with
            | [] => (Some ([], true), [])
            | d :: r' => if d =? 41 then (Some ([], false), r') else (None, bad_url_remnants f (d :: r'))
            end
          else if (c =? 34) || (c =? 39) || (c =? 40) || non_printable c then (None, bad_url_remnants f r)
          else if c =? 92 then
            if valid_escape inp then
              let '(e, r1) := consume_escaped r in
              match url_body f r1 with
              | (Some (v, eof), r2) => (Some (e :: v, eof), r2)
              | x => x
              end
            else (None, bad_url_remnants f r)
          else match url_body f r with
               | (Some (v, eof), r2) => (Some (c :: v, eof), r2)
               | x => x
               end
      end
  end.

Definition consume_url (fuel : nat) (inp : list N) : stoken * list N :=
  match url_body fuel (skip_ws inp) with
  | (Some (v, eof), r) => (SUrl v eof, r)
  | (None, r) => (SBadUrl, r)
  end.

(* ------------------------------------------------------------------ 4.3.4 consume an ident-like token *)
Definition lower (c : N) : N := if (65 <=? c) && (c <=? 90) then c + 32 else c.
Definition is_url_name (v : str) : bool :=
  match map lower v with
  | [a; b; c] => (a =? 117) && (b =? 114) && (c =? 108)
  | _ => false
  end.

(* "While the next two input code points are whitespace, consume the next input code point." *)
Fixpoint drop_ws_but_one (inp : list N) : list N :=
  match inp with
  | a :: ((b :: _) as r) => if whitespace a && whitespace b then drop_ws_but_one r else inp
  | _ => inp
  end.

Definition quote (c : N) := (c =? 34) || (c =? 39).

Definition consume_ident_like (fuel : nat) (inp : list N) : stoken * list N :=
  let '(name, r) := ident_sequence fuel inp in
  match r with
  | c :: r1 =>
      if c =? 40 then
        if is_url_name name then
          let r2 := drop_ws_but_one r1 in
          match r2 with
          | a :: b :: _ =>
              if quote a || (whitespace a && quote b) then (SFunction name, r2) else consume_url fuel r2
          | [a] => if quote a then (SFunction name, r2) else consume_url fuel r2
          | [] => consume_url fuel r2
          end
        else (SFunction name, r1)
      else (SIdent name, r)
  | [] => (SIdent name, r)
  end.

(* ------------------------------------------------------------------ 2014 CR: consume a unicode-range token *)
(* `U+` is consumed *)
Definition consume_unicode_range (inp : list N) : stoken * list N :=
  let '(hs, r1) := while_upto hex_digit 6 inp in
  let '(qs, r2) := while_upto (fun c => c =? 63) (6 - length hs) r1 in
  match qs with
  | _ :: _ =>
      (SUnicodeRange (hex_number 0 (hs ++ map (fun _ => 48) qs)) (hex_number 0 (hs ++ map (fun _ => 70) qs)), r2)
  | [] =>
      let start := hex_number 0 hs in
      match r2 with
      | m :: d :: r3 =>
          if (m =? 45) && hex_digit d then
            let '(he, r4) := while_upto hex_digit 6 (d :: r3) in (SUnicodeRange start (hex_number 0 he), r4)
          else (SUnicodeRange start start, r2)
      | _ => (SUnicodeRange start start, r2)
      end
  end.

(* ------------------------------------------------------------------ 4.3.2 comments *)
(* after the opening "/*": text up to the first "*/" (consumed) or EOF *)
Fixpoint comment_body (inp : list N) : str * bool * list N :=
  match inp with
  | [] => ([], true, [])
  | c :: r =>
      if (c =? 42) && (match r with d :: _ => d =? 47 | [] => false end) then ([], false, tl r)
      else let '(t, eof, r') := comment_body r in (c :: t, eof, r')
  end.

(* ------------------------------------------------------------------ 4.3.1 consume a token *)
(* inp is not empty (EOF is handled by the caller) *)
Definition consume_token (fuel : nat) (inp : list N) : stoken * list N :=
  match inp with
  | [] => (SWhitespace, [])
  | c :: r =>
      if (c =? 47) && (match r with d :: _ => d =? 42 | [] => false end) then         (* 4.3.2 *)
        let '(t, eof, r') := comment_body (tl r) in (SComment t eof, r')
      else if whitespace c then (SWhitespace, skip_ws r)
      else if quote c then consume_string fuel c r
      else if c =? 35 then                                                            (* # *)
        if (match r with d :: _ => ident_char d | [] => false end) || valid_escape r then
          let id := starts_ident r in
          let '(v, r') := ident_sequence fuel r in (SHash v id, r')
        else (SDelim c, r)
      else if c =? 40 then (SLParen, r)
      else if c =? 41 then (SRParen, r)
      else if c =? 43 then                                                            (* + *)
        if starts_number inp then consume_numeric fuel inp else (SDelim c, r)
      else if c =? 44 then (SComma, r)
      else if c =? 45 then                                                            (* - *)
        if starts_number inp then consume_numeric fuel inp
        else match r with
             | a :: b :: r' =>
                 if (a =? 45) && (b =? 62) then (SCDC, r')
                 else if starts_ident inp then consume_ident_like fuel inp else (SDelim c, r)
             | _ => if starts_ident inp then consume_ident_like fuel inp else (SDelim c, r)
             end
      else if c =? 46 then                                                            (* . *)
        if starts_number inp then consume_numeric fuel inp else (SDelim c, r)
      else if c =? 58 then (SColon, r)
      else if c =? 59 then (SSemicolon, r)
      else if c =? 60 then                                                            (* < *)
        match r with
        | a :: b :: d :: r' => if (a =? 33) && (b =? 45) && (d =? 45) then (SCDO, r') else (SDelim c, r)
        | _ => (SDelim c, r)
        end
      else if c =? 64 then                                                            (* @ *)
        if starts_ident r then let '(v, r') := ident_sequence fuel r in (SAtKeyword v, r')
        else (SDelim c, r)
      else if c =? 91 then (SLBracket, r)
      else if c =? 92 then                                                            (* \ *)
        if valid_escape inp then consume_ident_like fuel inp else (SDelim c, r)
      else if c =? 93 then (SRBracket, r)
      else if c =? 123 then (SLBrace, r)
      else if c =? 125 then (SRBrace, r)
      else if digit c then consume_numeric fuel inp
      else if (c =? 85) || (c =? 117) then                                            (* U u: 2014 CR *)
        match r with
        | a :: d :: r' =>
            if (a =? 43) && (hex_digit d || (d =? 63)) then consume_unicode_range (d :: r')
            else consume_ident_like fuel inp
        | _ => consume_ident_like fuel inp
        end
      else if ident_start c then consume_ident_like fuel inp
      else if (c =? 36) || (c =? 42) || (c =? 94) || (c =? 126) then                  (* $ * ^ ~ : 2014 CR *)
        match r with
        | a :: r' => if a =? 61 then (SMatch c, r') else (SDelim c, r)
        | [] => (SDelim c, r)
        end
      else if c =? 124 then                                                           (* | : 2014 CR *)
        match r with
        | a :: r' => if a =? 61 then (SMatch c, r') else if a =? 124 then (SColumn, r') else (SDelim c, r)
        | [] => (SDelim c, r)
        end
      else (SDelim c, r)
  end.

(* the token stream of a preprocessed input, up to EOF *)
Fixpoint tokens_from (fuel : nat) (inp : list N) : list stoken :=
  match fuel with
  | O => []
  | S f =>
      match inp with
      | [] => []
      | _ => let '(t, r) := consume_token (length inp) inp in t :: tokens_from f r
      end
  end.

Definition tokens (inp : list N) : list stoken := tokens_from (length inp) inp.

Definition is_comment (t : stoken) : bool := match t with SComment _ _ => true | _ => false end.
Definition drop_comments (l : list stoken) : list stoken := filter (fun t => negb (is_comment t)) l.

(* ------------------------------------------------------------------ 5.4.7 - 5.4.9 component values *)
Inductive cvalue :=
| CVToken (t : stoken)                                   (* a preserved token *)
| CVBlock (open : stoken) (body : list cvalue)           (* simple block; open is [ ( or { *)
| CVFunction (name : str) (body : list cvalue).

Definition stoken_is (a b : stoken) : bool :=
  match a, b with
  | SRBracket, SRBracket | SRParen, SRParen | SRBrace, SRBrace => true
  | _, _ => false
  end.

Definition mirror (t : stoken) : option stoken :=
  match t with
  | SLBracket => Some SRBracket | SLParen => Some SRParen | SLBrace => Some SRBrace
  | _ => None
  end.

(* consume component values until the ending token (consumed) or EOF; `ending = None`: until EOF
   (5.3.10 parse a list of component values).  5.4.8 / 5.4.9: EOF ends a block or function. *)
Fixpoint component_values_until (fuel : nat) (ending : option stoken) (l : list stoken)
  : list cvalue * list stoken :=
  match fuel with
  | O => ([], l)
  | S f =>
      match l with
      | [] => ([], [])
      | t :: r =>
          if (match ending with Some e => stoken_is t e | None => false end) then ([], r)
          else
            (* 5.4.7 consume a component value *)
            let '(v, r1) :=
              match mirror t, t with
              | Some e, _ => let '(body, r') := component_values_until f (Some e) r in (CVBlock t body, r')
              | None, SFunction name => let '(body, r') := component_values_until f (Some SRParen) r in (CVFunction name body, r')
              | None, _ => (CVToken t, r)
              end in
            let '(vs, r2) := component_values_until f ending r1 in (v :: vs, r2)
      end
  end.

Definition component_values (l : list stoken) : list cvalue :=
  fst (component_values_until (S (length l)) None l).

(* ------------------------------------------------------------------ normalisation to the implementation's token type *)
(* The implementation's tokens (Css/Token.v), positions erased, whitespace text
   erased.  Differences that are only a matter of presentation:
   * `: ; ,` and CDO / CDC / match / column tokens are `Literal`s with their text;
   * bad-string / bad-url and a closing bracket with no matching opener are
     `ParseError` tokens; EOF in a string / url adds a `ParseError` after the token;
   * the integer flag of the implementation is "strconv.ParseInt succeeds":
     an integer whose value does not fit in 64 bits is not flagged
     (`fits_int64`). *)
Definition p0 : pos := mkPos 0%Z 0%Z.

Definition digits_val (ds : list N) : N := fold_left (fun a d => 10 * a + (d - 48)) ds 0.
Definition fits_int64 (repr : str) : bool :=
  match repr with
  | c :: ds =>
      if c =? 45 then digits_val ds <=? 9223372036854775808
      else if c =? 43 then digits_val ds <=? 9223372036854775807
      else digits_val repr <=? 9223372036854775807
  | [] => true
  end.
Definition nflag (repr : str) (integer : bool) : bool := integer && fits_int64 repr.

Definition norm_token (t : stoken) : list token :=
  match t with
  | SIdent v => [TIdent p0 v]
  | SFunction v => [TFunction p0 v []]          (* never a component value of its own *)
  | SAtKeyword v => [TAtKeyword p0 v]
  | SHash v id => [THash p0 v id]
  | SString v eof => TString p0 v eof :: (if eof then [TParseError p0 errEofInString] else [])
  | SBadString => [TParseError p0 errBadString]
  | SUrl v eof => TURL p0 v eof :: (if eof then [TParseError p0 errEofInUrl] else [])
  | SBadUrl => [TParseError p0 errBadURL]
  | SDelim c => [TLiteral p0 [c]]
  | SNumber r i => [TNumber p0 r (nflag r i)]
  | SPercentage r i => [TPercentage p0 r (nflag r i)]
  | SDimension r i u => [TDimension p0 r (nflag r i) u]
  | SWhitespace => [TWhitespace p0 []]
  | SCDO => [TLiteral p0 [60; 33; 45; 45]]
  | SCDC => [TLiteral p0 [45; 45; 62]]
  | SColon => [TLiteral p0 [58]]
  | SSemicolon => [TLiteral p0 [59]]
  | SComma => [TLiteral p0 [44]]
  | SLBracket => [TLiteral p0 [91]] | SLParen => [TLiteral p0 [40]] | SLBrace => [TLiteral p0 [123]]   (* never *)
  | SRBracket => [TParseError p0 errB]
  | SRParen => [TParseError p0 errP]
  | SRBrace => [TParseError p0 errC]
  | SMatch c => [TLiteral p0 [c; 61]]
  | SColumn => [TLiteral p0 [124; 124]]
  | SUnicodeRange s e => [TUnicodeRange p0 s e]
  | SComment t _ => [TComment p0 t]
  end.

Fixpoint norm_value (v : cvalue) : list token :=
  match v with
  | CVToken t => norm_token t
  | CVBlock o body =>
      let args := flat_map norm_value body in
      match o with
      | SLBracket => [TSquare p0 args]
      | SLParen => [TParens p0 args]
      | _ => [TCurly p0 args]
      end
  | CVFunction name body => [TFunction p0 name (flat_map norm_value body)]
  end.

Definition norm (l : list cvalue) : list token := flat_map norm_value l.

(* the implementation's result with positions and whitespace text erased *)
Fixpoint erase (t : token) : token :=
  match t with
  | TLiteral _ v => TLiteral p0 v | TParseError _ k => TParseError p0 k
  | TComment _ v => TComment p0 v | TWhitespace _ _ => TWhitespace p0 []
  | TIdent _ v => TIdent p0 v | TAtKeyword _ v => TAtKeyword p0 v
  | THash _ v f => THash p0 v f | TString _ v f => TString p0 v f | TURL _ v f => TURL p0 v f
  | TUnicodeRange _ s e => TUnicodeRange p0 s e
  | TNumber _ v f => TNumber p0 v f | TPercentage _ v f => TPercentage p0 v f
  | TDimension _ v f u => TDimension p0 v f u
  | TParens _ l => TParens p0 (map erase l)
  | TSquare _ l => TSquare p0 (map erase l)
  | TCurly _ l => TCurly p0 (map erase l)
  | TFunction _ n l => TFunction p0 n (map erase l)
  end.

(* the whole specification of Tokenize(css, skipComments), positions aside *)
Definition spec_tokenize (skip : bool) (s : list N) : list token :=
  let ts := tokens (preprocess s) in
  norm (component_values (if skip then drop_comments ts else ts)).
