(* Css/C08Spec.v -- the property text of C08 as independent, declarative
   definitions (not shaped like the code).

   * four-sides shorthands (CSS 2.1 8.3 / 8.4 / 8.5.1-3): 1 to 4 component
     values are assigned to (top, right, bottom, left);
   * spelling variants of a component-value list (CSS Syntax 3: identifiers,
     units and function names are ASCII case-insensitive except custom
     property names; comments and whitespace between component values carry
     no meaning);
   * var() substitution (CSS Variables 1, "substitute a var()"): a reference
     is replaced by the tokens of the custom property, by its fallback when
     the property is not defined, recursively;
   * the dependency order that makes an environment acyclic. *)
From Coq Require Import List NArith ZArith QArith Qround Bool.
From Verif Require Import Css.DeclTok Css.Decl Css.VarSubst.
Import ListNotations.
Close Scope Q_scope.

(* ---- four sides ---- *)

(* `vals` are the component values as written; (t, r, b, l) what CSS assigns *)
Inductive four_sides_assign {A : Type} : list A -> A -> A -> A -> A -> Prop :=
| FS1 a : four_sides_assign [a] a a a a                      (* one value: all four sides *)
| FS2 a b : four_sides_assign [a; b] a b a b                 (* vertical | horizontal *)
| FS3 a b c : four_sides_assign [a; b; c] a b c b            (* top | horizontal | bottom *)
| FS4 a b c d : four_sides_assign [a; b; c; d] a b c d.      (* top right bottom left *)

(* ---- columns (css-multicol-1 3.1-3.3) ----
   column-width = auto | <length [0,inf]>       column-count = auto | <integer [1,inf]>
   columns      = <'column-width'> || <'column-count'>      (omitted values are `auto`)
   `||`: one or both, IN ANY ORDER (css-values-4 2.3).  `auto` belongs to both
   grammars; whichever longhand it is given to, the other one is auto too. *)

Definition kw_is (k : str) (t : tok) : Prop := exists v, t = TIdent v /\ ascii_lower v = k.

(* component value -> the typed value of the longhand *)
Inductive css_col_width : tok -> value -> Prop :=
| CwAuto t : kw_is kw_auto t -> css_col_width t (VKw kw_auto)
| CwZero q i : (q == 0)%Q -> css_col_width (TNum q i) (VDim 0 u_scalar)            (* unitless zero length *)
| CwLen q i u code : (0 <= q)%Q -> assoc (ascii_lower u) length_units = Some code ->
                     css_col_width (TDim q i u) (VDim q code).

Inductive css_col_count : tok -> value -> Prop :=
| CcAuto t : kw_is kw_auto t -> css_col_count t (VKw kw_auto)
| CcInt q : (1 <= q)%Q -> css_col_count (TNum q true) (VInt (Qfloor q)).

(* written value of `columns` -> (column-width, column-count) *)
Inductive columns_means : list tok -> value -> value -> Prop :=
| CmW w vw : css_col_width w vw -> columns_means [w] vw (VKw kw_auto)
| CmC c vc : css_col_count c vc -> columns_means [c] (VKw kw_auto) vc
| CmWC w c vw vc : css_col_width w vw -> css_col_count c vc -> columns_means [w; c] vw vc
| CmCW w c vw vc : css_col_width w vw -> css_col_count c vc -> columns_means [c; w] vw vc.

(* ---- spelling variants ---- *)

Definition same_word (v w : str) : Prop := ascii_lower v = ascii_lower w.

Inductive sv_tok : tok -> tok -> Prop :=
| SvRefl t : sv_tok t t
| SvIdent v w : is_custom_name v = false -> is_custom_name w = false -> same_word v w ->
                sv_tok (TIdent v) (TIdent w)                         (* keyword case *)
| SvDim q i u u' : same_word u u' -> sv_tok (TDim q i u) (TDim q i u')    (* unit case *)
| SvFunc n n' a a' : same_word n n' -> sv_toks a a' -> sv_tok (TFunc n a) (TFunc n' a')
| SvBlock k a a' : sv_toks a a' -> sv_tok (TBlock k a) (TBlock k a')
with sv_toks : list tok -> list tok -> Prop :=
| SvNil : sv_toks [] []
| SvCons t t' r r' : sv_tok t t' -> sv_toks r r' -> sv_toks (t :: r) (t' :: r')
| SvInsL t r r' : is_trivia t = true -> sv_toks r r' -> sv_toks (t :: r) r'   (* whitespace / comment on one side *)
| SvInsR t r r' : is_trivia t = true -> sv_toks r r' -> sv_toks r (t :: r').

Scheme sv_tok_ind2 := Induction for sv_tok Sort Prop
  with sv_toks_ind2 := Induction for sv_toks Sort Prop.

(* ---- var() substitution ---- *)

(* `Subst e t out`: substituting the var() references of component value `t`
   in environment `e` yields the component values `out`.  There is NO rule
   for a reference that is (transitively) cyclic: such a value has no
   substitution -- it is invalid at computed-value time. *)
Inductive Subst (e : env) : tok -> list tok -> Prop :=
| SubPlain t : has_var t = false -> Subst e t [t]
| SubDefined name fargs v rest out :
    has_var (TFunc name fargs) = true -> ascii_lower name = s_var ->
    snd (parse_function (TFunc name fargs)) = TIdent v :: rest ->
    lookup e v <> [] -> SubstL e (lookup e v) out ->
    Subst e (TFunc name fargs) out
| SubFallback name fargs v rest out :
    has_var (TFunc name fargs) = true -> ascii_lower name = s_var ->
    snd (parse_function (TFunc name fargs)) = TIdent v :: rest ->
    lookup e v = [] -> SubstL e (var_fallback fargs) out ->
    Subst e (TFunc name fargs) out
| SubInside name fargs fargs' :
    has_var (TFunc name fargs) = true -> ascii_lower name <> s_var ->
    SubstL e fargs fargs' ->
    Subst e (TFunc name fargs) [TFunc name fargs']
with SubstL (e : env) : list tok -> list tok -> Prop :=
| SubNil : SubstL e [] []
| SubCons t r o1 o2 : Subst e t o1 -> SubstL e r o2 -> SubstL e (t :: r) (o1 ++ o2).

Scheme Subst_ind2 := Induction for Subst Sort Prop
  with SubstL_ind2 := Induction for SubstL Sort Prop.

(* ---- acyclic environments ---- *)

(* every dashed identifier occurring anywhere in a component value *)
Fixpoint names_of (t : tok) : list str :=
  match t with
  | TIdent v => if is_custom_name v then [v] else []
  | TFunc _ args | TBlock _ args =>
      (fix go (l : list tok) : list str :=
         match l with [] => [] | a :: r => names_of a ++ go r end) args
  | _ => []
  end.

Definition names_of_list (l : list tok) : list str := flat_map names_of l.

(* a rank that strictly decreases along every reference *)
Definition acyclic (e : env) : Prop :=
  exists rank : str -> nat,
    forall n, forall m, In m (names_of_list (lookup e n)) -> rank m < rank n.
