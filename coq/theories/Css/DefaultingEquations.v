(* Css/DefaultingEquations.v -- the cache-free semantics `computed` satisfies the
   defaulting equations of CSS Cascade 4 section 7 (element, pseudo-element and page
   styles), the anonymous-box rules, and the propagation rules of text-decoration-* and
   page.  Any arithmetic instance. *)
From Verif Require Import Css.Defaulting Css.DefaultingSpec Css.DefaultingProofs Css.DefaultingTables.
From Coq Require Import Lia ZifyBool ZifyNat ZifyN.
Open Scope N_scope.

Lemma run_pure_ext {A} (env env' : dep -> res value) (pg : prog A) :
  (forall d, env d = env' d) -> run_pure env pg = run_pure env' pg.
Proof.
  intros H. induction pg as [a|s|d k IH]; cbn; try reflexivity.
  rewrite <- (H d). destruct (env d); try reflexivity. apply IH.
Qed.

Lemma elem_pure_ext ar fx nd isr pv ov ov' rf p :
  (forall q, ov q = ov' q) -> elem_pure ar fx nd isr pv ov rf p = elem_pure ar fx nd isr pv ov' rf p.
Proof.
  intros H. unfold elem_pure.
  destruct (run_pure (parent_env isr pv) (cascade_value fx isr nd p)) as [[v save]| |]; try reflexivity. cbn [bind].
  destruct (run_pure (parent_env isr pv) (special isr nd p v)) as [[v' del]| |]; try reflexivity. cbn [bind].
  destruct (save && negb del); [reflexivity|].
  apply run_pure_ext. intros d. destruct d; cbn; auto.
Qed.

Section Equations.
  Variable ar : arith.
  Variable t : tree.
  Hypothesis WF : wf_tree t = true.

  Notation comp := (computed ar true t).

  Definition is_root_node (nd : node) : bool := match n_parent nd with None => true | Some _ => false end.
  Definition parent_value (nd : node) (q : N) : res value :=
    match n_parent nd with Some j => comp j q | None => Panic 8 end.

  (* what the computer function of property p reads on the element's own style *)
  Definition own_env (n p q : N) : res value :=
    if is_base p then OutOfFuel else if is_base q then comp n q else Panic 7.

  Definition ctx_env (n : N) (nd : node) (p : N) : dep -> res value :=
    pure_env (is_root_node nd) (parent_value nd) (own_env n p) (cap_rootfs ar true t n)
             (cap_spec ar true t n PPosition) (cap_spec ar true t n PDisplay) (cap_spec ar true t n PFloat).

  (* the computed value of the specified value v for property p on node n *)
  Definition compute_value (n : N) (nd : node) (p : N) (v : value) : res value :=
    run_pure (ctx_env n nd p) (compute ar true (is_root_node nd) nd p v).

  (* the cascaded declaration once var() has been substituted; a declaration that is
     invalid at computed-value time counts as no declaration *)
  Definition effective (nd : node) (p : N) : option casc :=
    match lookup_decl nd p with
    | Some (CPending PErr) => None
    | Some (CPending (PVal v)) => Some (CExplicit v)
    | Some (CPending PInherit) => Some CInherit
    | Some (CPending PInitial) => Some CInitial
    | x => x
    end.

  Definition initial_value (n : N) (nd : node) (p : N) : res value :=
    match initial p with
    | None => Panic 9
    | Some v => if initial_not_computed p then compute_value n nd p v else Ok v
    end.

  Definition inherited_value (n : N) (nd : node) (p : N) : res value :=
    match n_parent nd with Some j => comp j p | None => initial_value n nd p end.

  Lemma comp_elem n nd p :
    node_at t n = Some nd -> n_kind nd = KElem ->
    let anc := match n_parent nd with Some j => chain_of t j | None => [] end in
    is_last anc = is_root_node nd /\
    comp n p = elem_pure ar true nd (is_root_node nd) (computed_chain ar true t (root_fs_pure ar true t) anc)
                 (own_env n p) (cap_rootfs ar true t n) p.
  Proof.
    intros En Ek anc. destruct (comp_unfold ar true t WF n nd En) as (Ec & Hni & Hc). fold anc in Ec, Hni, Hc.
    assert (Hl : is_last anc = is_root_node nd).
    { subst anc. unfold is_root_node. destruct (n_parent nd) as [j|] eqn:Ep; [|reflexivity].
      destruct (node_at_parent t WF n nd j En Ep) as [ndj Ej]. now rewrite (chain_of_step t WF j ndj Ej). }
    split; [exact Hl|]. rewrite Hc, Ek, Hl. cbv zeta. unfold own_env.
    destruct (is_base p) eqn:Eb.
    - reflexivity.
    - apply elem_pure_ext. intros q. destruct (is_base q) eqn:Eq; [|reflexivity].
      rewrite Hc, Ek, Hl. cbv zeta. now rewrite Eq.
  Qed.

  Lemma special_plain isr nd p v :
    is_text_decoration p = false -> p <> PPage -> special isr nd p v = Ret (v, false).
  Proof.
    intros Htd Hp. unfold special. rewrite Htd. apply N.eqb_neq in Hp. rewrite Hp. reflexivity.
  Qed.

  (* CSS Cascade 4 section 7: the value after defaulting and computation *)
  Definition defaulted (n : N) (nd : node) (p : N) : res value :=
    match effective nd p with
    | None => if inherited p then inherited_value n nd p else initial_value n nd p
    | Some CInherit => inherited_value n nd p
    | Some CInitial => initial_value n nd p
    | Some (CExplicit v) => compute_value n nd p v
    | Some (CPending _) => Panic 7
    end.

  (* for element, pseudo-element and page-context styles *)
  Theorem defaulting_equations n nd p :
    node_at t n = Some nd -> n_kind nd = KElem ->
    is_text_decoration p = false -> p <> PPage ->
    comp n p = defaulted n nd p.
  Proof.
    unfold defaulted.
    intros En Ek Htd Hpage. destruct (comp_elem n nd p En Ek) as [Hl Hc]. rewrite Hc. clear Hc.
    unfold elem_pure.
    set (anc := match n_parent nd with Some j => chain_of t j | None => [] end) in *.
    set (pv := computed_chain ar true t (root_fs_pure ar true t) anc).
    set (envp := parent_env (is_root_node nd) pv).
    set (envc := pure_env _ _ _ _ _ _ _).
    assert (Hcv : forall v, run_pure envc (compute ar true (is_root_node nd) nd p v) = compute_value n nd p v).
    { intros v. unfold compute_value, ctx_env. apply run_pure_ext. intros d. subst envc pv.
      destruct d; cbn [pure_env]; try reflexivity.
      - unfold parent_value. subst anc. destruct (n_parent nd); reflexivity.
      - unfold cap_spec. rewrite En, (chain_of_step t WF n nd En). fold anc. rewrite Hl. reflexivity.
      - unfold cap_spec. rewrite En, (chain_of_step t WF n nd En). fold anc. rewrite Hl. reflexivity.
      - unfold cap_spec. rewrite En, (chain_of_step t WF n nd En). fold anc. rewrite Hl. reflexivity. }
    (* the stages after cascadeValue *)
    assert (Hfin : forall v save,
              (let* vd := run_pure envp (special (is_root_node nd) nd p v) in
               let '(v', del) := vd in
               if save && negb del then Ok v else run_pure envc (compute ar true (is_root_node nd) nd p v'))
              = if save then Ok v else compute_value n nd p v).
    { intros v save. rewrite special_plain by assumption. cbn [run_pure bind].
      destruct save; cbn [andb negb]; [reflexivity|apply Hcv]. }
    assert (Hini : (let* vs := run_pure envp (v <- initial_prog p ;; Ret (v, negb (initial_not_computed p))) in
                    let '(v, save) := vs in
                    let* vd := run_pure envp (special (is_root_node nd) nd p v) in
                    let '(v', del) := vd in
                    if save && negb del then Ok v else run_pure envc (compute ar true (is_root_node nd) nd p v'))
                   = initial_value n nd p).
    { unfold initial_value, initial_prog. destruct (initial p) as [v|]; [|reflexivity].
      cbn [pbind run_pure bind]. rewrite Hfin. destruct (initial_not_computed p); reflexivity. }
    assert (Hinh : forall j, n_parent nd = Some j ->
                   (let* vs := run_pure envp (Fetch (DParent p) (fun v => Ret (v, true))) in
                    let '(v, save) := vs in
                    let* vd := run_pure envp (special (is_root_node nd) nd p v) in
                    let '(v', del) := vd in
                    if save && negb del then Ok v else run_pure envc (compute ar true (is_root_node nd) nd p v'))
                   = comp j p).
    { intros j Ep. cbn [run_pure]. subst envp. cbn [parent_env]. unfold is_root_node at 1. rewrite Ep.
      subst pv anc. rewrite Ep. change (computed_chain ar true t (root_fs_pure ar true t) (chain_of t j) p) with (comp j p).
      destruct (comp j p) as [v| |]; [|reflexivity..]. cbn [run_pure bind].
      fold (is_root_node nd). rewrite special_plain by assumption. reflexivity. }
    unfold cascade_value, effective, inherited_value.
    assert (Hr : is_root_node nd = match n_parent nd with None => true | Some _ => false end) by reflexivity.
    clearbody envp envc. revert Hini Hinh Hfin. destruct (is_root_node nd); intros Hini Hinh Hfin;
      destruct (n_parent nd) as [j|] eqn:Ep; try discriminate;
      destruct (lookup_decl nd p) as [[| |v|[|v| |]]|]; cbv beta iota zeta; cbn [negb andb];
      try (rewrite Hini; reflexivity);
      try (rewrite (Hinh j eq_refl); reflexivity);
      try (cbn [run_pure bind]; rewrite Hfin; reflexivity);
      destruct (inherited p); cbn [andb];
      try (rewrite Hini; reflexivity);
      try (rewrite (Hinh j eq_refl); reflexivity).
  Qed.

  (* text-decoration-* propagation (style.go textDecoration), as a function *)
  Definition td_value (p : N) (v pv : value) (cascaded : bool) : res value :=
    run_pure (fun _ => Panic 7) (text_decoration p v pv cascaded).

  Lemma run_pure_td env p v pv c : run_pure env (text_decoration p v pv c) = td_value p v pv c.
  Proof.
    unfold td_value, text_decoration.
    destruct ((p =? PTextDecorationColor) || (p =? PTextDecorationStyle)); [reflexivity|].
    destruct (p =? PTextDecorationLine); [|reflexivity]. destruct pv, v; reflexivity.
  Qed.

  Lemma run_pure_td_bind {B} env p v pv c (f : value -> B) :
    run_pure env (v' <- text_decoration p v pv c ;; Ret (f v')) = res_map f (td_value p v pv c).
  Proof.
    unfold td_value, text_decoration.
    destruct ((p =? PTextDecorationColor) || (p =? PTextDecorationStyle)); [reflexivity|].
    destruct (p =? PTextDecorationLine); [|reflexivity]. destruct pv, v; reflexivity.
  Qed.

  (* anonymous boxes: inherited properties (and page) from the parent, the rest initial,
     border/outline widths zero (their style is none), text decorations propagated *)
  Theorem anonymous_equations n nd j p :
    node_at t n = Some nd -> n_kind nd = KAnon -> n_parent nd = Some j ->
    comp n p =
      if mem_N p anon_presets then Ok dim_zero_null
      else if inherited p || (p =? PPage) then comp j p
      else match initial p with
           | None => Panic 9
           | Some iv => if is_text_decoration p then let* pv := comp j p in td_value p iv pv false else Ok iv
           end.
  Proof.
    intros En Ek Ep. destruct (comp_unfold ar true t WF n nd En) as (_ & _ & Hc). rewrite Hc, Ek, Ep. clear Hc.
    destruct (node_at_parent t WF n nd j En Ep) as [ndj Ej]. rewrite (chain_of_step t WF j ndj Ej).
    cbn [is_last]. rewrite <- (chain_of_step t WF j ndj Ej).
    unfold anon_pure, anon_value. destruct (mem_N p anon_presets); [reflexivity|].
    change (computed_chain ar true t (root_fs_pure ar true t) (chain_of t j)) with (comp j).
    destruct (inherited p); cbn [orb].
    - cbn. destruct (comp j p); reflexivity.
    - destruct (p =? PPage).
      + cbn. destruct (comp j p); reflexivity.
      + unfold initial_prog. destruct (initial p) as [iv|]; [|destruct (is_text_decoration p); reflexivity].
        destruct (is_text_decoration p); [|reflexivity].
        cbn [pbind run_pure anon_env]. destruct (comp j p) as [pv| |]; [|reflexivity..].
        cbn [bind]. apply run_pure_td.
  Qed.

  (* the two properties that the implementation propagates instead of inheriting:
     text-decoration-* (css-text-decor-3 line decoration, approximated: a TODO in the code
     says so) and page (css-page-3: `auto` takes the parent's used value) *)
  Definition propagate (nd : node) (p : N) (v : value) : res value :=
    if is_text_decoration p then
      match n_parent nd with
      | None => Ok v
      | Some j => let* pv := comp j p in td_value p v pv (is_cascaded nd p)
      end
    else if value_eqb v (VStr "auto") then
      match n_parent nd with
      | None => Ok (VStr "")
      | Some j => let* pv := comp j PPage in match pv with VStr _ => Ok pv | _ => Panic 6 end
      end
    else Ok v.

  Theorem propagated_equations n nd p :
    node_at t n = Some nd -> n_kind nd = KElem ->
    is_text_decoration p = true \/ p = PPage ->
    comp n p = let* v := defaulted n nd p in propagate nd p v.
  Proof.
    intros En Ek Hp.
    assert (Hk : computer_of p = KNone /\ initial_not_computed p = false).
    { destruct Hp as [Hp| ->]; [|split; reflexivity].
      unfold is_text_decoration in Hp.
      assert (p = PTextDecorationLine \/ p = PTextDecorationColor \/ p = PTextDecorationStyle) as [->|[->| ->]]
        by (unfold PTextDecorationLine, PTextDecorationColor, PTextDecorationStyle in *; lia); split; reflexivity. }
    destruct Hk as [Hk Hinc].
    destruct (comp_elem n nd p En Ek) as [Hl Hc]. rewrite Hc. clear Hc.
    unfold elem_pure.
    set (anc := match n_parent nd with Some j => chain_of t j | None => [] end) in *.
    set (pv := computed_chain ar true t (root_fs_pure ar true t) anc).
    set (envp := parent_env (is_root_node nd) pv).
    set (envc := pure_env _ _ _ _ _ _ _).
    assert (Hcv : forall env isr v, run_pure env (compute ar true isr nd p v) = Ok v).
    { intros env isr v. unfold compute. rewrite Hk. reflexivity. }
    assert (Hcv' : forall v, compute_value n nd p v = Ok v) by (intros v; apply Hcv).
    assert (Hspec : forall v save,
              (let* vd := run_pure envp (special (is_root_node nd) nd p v) in
               let '(v', del) := vd in
               if save && negb del then Ok v else run_pure envc (compute ar true (is_root_node nd) nd p v'))
              = propagate nd p v).
    { intros v save. unfold special, propagate. subst envp pv anc. clearbody envc.
      assert (Hr : is_root_node nd = match n_parent nd with None => true | Some _ => false end) by reflexivity.
      destruct (is_text_decoration p) eqn:Etd.
      - destruct (n_parent nd) as [j|] eqn:Ep; rewrite Hr; cbn [negb andb].
        + cbn [run_pure parent_env].
          change (computed_chain ar true t (root_fs_pure ar true t) (chain_of t j) p) with (comp j p).
          destruct (comp j p) as [pv| |]; [|reflexivity..]. cbn [bind].
          rewrite run_pure_td_bind. destruct (td_value p v pv (is_cascaded nd p)); cbn [res_map bind]; try reflexivity.
          rewrite andb_false_r. apply Hcv.
        + assert (p =? PPage = false) as -> by (unfold is_text_decoration in Etd; unfold PPage, PTextDecorationLine, PTextDecorationStyle in *; lia).
          cbn [andb run_pure bind]. destruct save; cbn [andb negb]; [reflexivity|apply Hcv].
      - destruct Hp as [Hp| ->]; [discriminate|]. rewrite N.eqb_refl. cbn [andb].
        destruct (value_eqb v (VStr "auto")).
        + destruct (n_parent nd) as [j|] eqn:Ep; rewrite Hr.
          * cbn [run_pure parent_env].
            change (computed_chain ar true t (root_fs_pure ar true t) (chain_of t j) PPage) with (comp j PPage).
            destruct (comp j PPage) as [[]| |]; cbn [bind run_pure]; try reflexivity.
            rewrite andb_false_r. apply Hcv.
          * cbn [run_pure bind]. rewrite andb_false_r. apply Hcv.
        + cbn [run_pure bind]. destruct save; cbn [andb negb]; [reflexivity|apply Hcv]. }
    assert (Hini : (let* vs := run_pure envp (v <- initial_prog p ;; Ret (v, negb (initial_not_computed p))) in
                    let '(v, save) := vs in
                    let* vd := run_pure envp (special (is_root_node nd) nd p v) in
                    let '(v', del) := vd in
                    if save && negb del then Ok v else run_pure envc (compute ar true (is_root_node nd) nd p v'))
                   = let* v := initial_value n nd p in propagate nd p v).
    { unfold initial_value, initial_prog. destruct (initial p) as [v|]; [|reflexivity].
      cbn [pbind run_pure bind]. rewrite Hspec, Hinc. reflexivity. }
    assert (Hinh : forall j, n_parent nd = Some j ->
                   (let* vs := run_pure envp (Fetch (DParent p) (fun v => Ret (v, true))) in
                    let '(v, save) := vs in
                    let* vd := run_pure envp (special (is_root_node nd) nd p v) in
                    let '(v', del) := vd in
                    if save && negb del then Ok v else run_pure envc (compute ar true (is_root_node nd) nd p v'))
                   = let* v := comp j p in propagate nd p v).
    { intros j Ep. cbn [run_pure]. unfold envp at 1. cbn [parent_env]. unfold is_root_node at 1. rewrite Ep.
      subst pv anc. rewrite Ep. change (computed_chain ar true t (root_fs_pure ar true t) (chain_of t j) p) with (comp j p).
      destruct (comp j p) as [v| |]; [|reflexivity..]. cbn [run_pure bind]. apply Hspec. }
    unfold defaulted, cascade_value, effective, inherited_value.
    assert (Hr : is_root_node nd = match n_parent nd with None => true | Some _ => false end) by reflexivity.
    clearbody envp envc. revert Hini Hinh Hspec. destruct (is_root_node nd); intros Hini Hinh Hspec;
      destruct (n_parent nd) as [j|] eqn:Ep; try discriminate;
      destruct (lookup_decl nd p) as [[| |v|[|v| |]]|]; cbv beta iota zeta; cbn [negb andb];
      try (rewrite Hini; reflexivity);
      try (rewrite (Hinh j eq_refl); reflexivity);
      try (cbn [run_pure bind]; rewrite Hspec, Hcv'; reflexivity);
      destruct (inherited p); cbn [andb];
      try (rewrite Hini; reflexivity);
      try (rewrite (Hinh j eq_refl); reflexivity).
  Qed.
End Equations.
