(* Css/HtmlAttr.v -- model of the HTML integer attribute readers (C07).
   Strings are lists of CODE POINTS (what `for _, r := range s` yields; an
   invalid byte is U+FFFD): strings.TrimSpace is Unicode aware and
   strconv.Atoi only accepts ASCII, so nothing depends on the byte encoding.

   Ported:
     integerAttribute   /repo/html/boxes/boxes_tree.go:396-407
        (colspan / rowspan: boxes_tree.go:419-420, <col span> / <colgroup span>: 372, 393)
     <font size=...>    /repo/html/tree/style.go:803-826   (Panic site 750: size[1:])
     <hr size=...>      /repo/html/tree/style.go:946-953   (strconv.Atoi, value kept on range error)
   NO PROOFS here (Css/HtmlAttrProofs.v). *)
From Verif Require Import Base.GoSem Base.GoStrings.
From Coq Require Import List ZArith NArith Bool.
Import ListNotations.
Open Scope Z_scope.

(* boxes_tree.go:396-407 *)
Definition integer_attribute (attr : list N) (minimum : Z) : res Z :=
  let value := trim_space attr in
  match atoi value with
  | None => Ok 1
  | Some v => Ok (if v <? minimum then minimum else v)
  end.

(* utils.MinInt *)
Definition min_int (a b : Z) : Z := if a <? b then a else b.

(* the CALL SITES of integerAttribute: each one fixes the lower bound handed to the reader and the
   upper clamp applied to its result; the table code (build.go grid, layout/table.go,
   layout/preferred.go tableAndColumnsPreferredWidths) indexes the column grid with these numbers.
     NewTableCellBox        boxes_tree.go:425   Colspan = MinInt(integerAttribute(colspan, 1), 1000)
                            boxes_tree.go:426   Rowspan = MinInt(integerAttribute(rowspan, 0), 65534)
     TableColumnBox.span    boxes_tree.go:397   MinInt(integerAttribute(span, 1), 1000)
     TableColumnGroupBox.span (no children)  boxes_tree.go:373   the same
   A missing attribute reads as "" (utils.HTMLNode.Get). *)
Definition cell_colspan (attr : list N) : res Z :=
  let* v := integer_attribute attr 1 in Ok (min_int v 1000).
Definition cell_rowspan (attr : list N) : res Z :=
  let* v := integer_attribute attr 0 in Ok (min_int v 65534).
Definition column_span (attr : list N) : res Z :=
  let* v := integer_attribute attr 1 in Ok (min_int v 1000).
Definition column_group_span (attr : list N) : res Z :=
  let* v := integer_attribute attr 1 in Ok (min_int v 1000).

(* style.go:803-826: the font-size keyword index in 1..7, or None (warning, attribute ignored).
   Precondition of the Go code: the attribute is not "" (style.go:803). *)
Definition font_size_attr (attr : list N) : res (option Z) :=
  let size := trim_space attr in
  let plus := has_prefix size [43%N] in
  let minus := has_prefix size [45%N] in
  let* size := (if plus || minus
                then let* s := slice_from 750 size 1 in Ok (trim_space s)
                else Ok size) in
  match atoi size with
  | None => Ok None
  | Some i =>
      let i := if plus then wrap64 (i + 3) else if minus then wrap64 (i - 3) else i in
      Ok (Some (Z.max 1 (Z.min 7 i)))
  end.
