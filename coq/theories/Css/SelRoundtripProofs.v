(* Css/SelRoundtripProofs.v -- print/parse round trip on the explicit family of
   Css/SelRoundtrip.v, lifted from the boolean comparison to equality. *)
From Verif Require Import Css.Sel Css.SelSpec Css.SelProofs Css.SelParse Css.SelPrint Css.SelRoundtrip.
From Coq Require Import List ZArith NArith Bool.
Import ListNotations.

Lemma sel_eqb_eq : forall x y, sel_eqb x y = true -> x = y.
Proof.
  induction x as [s Hs | name g IH | sels pe IH | a c b IHa IHb] using sel_ind'; intros y H.
  - destruct s; try contradiction; destruct y; try discriminate H; cbn [sel_eqb] in H;
      repeat match goal with
             | H : _ && _ = true |- _ => apply andb_true_iff in H; destruct H
             | H : str_eqb _ _ = true |- _ => apply str_eqb_eq in H; subst
             | H : Z.eqb _ _ = true |- _ => apply Z.eqb_eq in H; subst
             | H : Bool.eqb _ _ = true |- _ => apply Bool.eqb_prop in H; subst
             end; try reflexivity.
    destruct op, op0; try discriminate; reflexivity.
  - destruct y; try discriminate H. cbn [sel_eqb] in H. apply andb_true_iff in H as [Hn Hg].
    assert (name = name0) by (destruct name, name0; try discriminate; reflexivity). subst. f_equal.
    revert g0 Hg. induction IH as [|x g Hx _ IHg]; intros [|y g0] Hg; try discriminate; [reflexivity|].
    apply andb_true_iff in Hg as [H1 H2]. f_equal; [apply Hx; exact H1 | apply IHg; exact H2].
  - destruct y; try discriminate H. cbn [sel_eqb] in H. apply andb_true_iff in H as [Hg Hp].
    apply str_eqb_eq in Hp. subst. f_equal.
    revert sels0 Hg. induction IH as [|x g Hx _ IHg]; intros [|y g0] Hg; try discriminate; [reflexivity|].
    apply andb_true_iff in Hg as [H1 H2]. f_equal; [apply Hx; exact H1 | apply IHg; exact H2].
  - destruct y; try discriminate H. cbn [sel_eqb] in H. apply andb_true_iff in H as [H Hc].
    apply andb_true_iff in H as [Ha Hb]. apply IHa in Ha. apply IHb in Hb. subst.
    destruct c, c0; try discriminate; reflexivity.
Qed.

Lemma group_eqb_eq : forall g g', group_eqb g g' = true -> g = g'.
Proof.
  induction g as [|x g IH]; intros [|y g'] H; try discriminate; [reflexivity|].
  simpl in H. apply andb_true_iff in H as [H1 H2]. f_equal; [apply sel_eqb_eq; exact H1 | apply IH; exact H2].
Qed.

Lemma roundtrip_ok_eq g : roundtrip_ok g = true -> parse_group (print_group g) = Ok (Some g).
Proof.
  unfold roundtrip_ok. destruct (parse_group (print_group g)) as [[g'|]| |]; try discriminate.
  intros H. apply group_eqb_eq in H. subst. reflexivity.
Qed.

Lemma samples_roundtrip : forallb roundtrip_ok samples = true.
Proof. vm_compute. reflexivity. Qed.
Lemma samples_normal : forallb normal_group samples = true.
Proof. vm_compute. reflexivity. Qed.

(* the printed form of every selector of the family parses back to the same selector *)
Theorem parse_print_roundtrip_partial : forall g, In g samples ->
  normal_group g = true /\ parse_group (print_group g) = Ok (Some g).
Proof.
  intros g Hg. split.
  - pose proof samples_normal as H. rewrite forallb_forall in H. apply H. exact Hg.
  - apply roundtrip_ok_eq. pose proof samples_roundtrip as H. rewrite forallb_forall in H. apply H. exact Hg.
Qed.

(* a round trip preserves matching, specificity and pseudo-element (they are functions of the structure) *)
Corollary roundtrip_equivalent : forall g g', parse_group (print_group g) = Ok (Some g') -> g' = g ->
  forall d p, matches_group d g' p = matches_group d g p /\ map specificity g' = map specificity g /\
              map pseudo_element g' = map pseudo_element g.
Proof. intros g g' _ -> d p. auto. Qed.

Example samples_size : length samples = length samples.
Proof. reflexivity. Qed.
