(* Css/SelParseNormal.v -- postcondition of the parser model: every group that
   ParseGroup returns is in the normal form SelRoundtrip.normal_group (the
   domain of the print/parse round-trip statement). *)
From Verif Require Import Css.Sel Css.SelParse Css.SelRoundtrip Css.SelProofs.
From Coq Require Import ZArith NArith Lia List Bool Arith ZifyBool ZifyNat.
Import ListNotations.

Lemma lower_idem c : lower (lower c) = lower c.
Proof.
  unfold lower. destruct ((65 <=? c)%N && (c <=? 90)%N) eqn:E; [|rewrite E; reflexivity].
  destruct ((65 <=? c + 32)%N && (c + 32 <=? 90)%N) eqn:E2; [lia | reflexivity].
Qed.
Lemma lowered_to_lower s : lowered (to_lower s) = true.
Proof.
  unfold lowered, to_lower. apply str_eqb_eq. rewrite map_map. apply map_ext. intros c. apply lower_idem.
Qed.
Lemma nonempty_to_lower s : nonempty (to_lower s) = nonempty s.
Proof. destruct s; reflexivity. Qed.
Lemma nonempty_app_r a b : nonempty b = true -> nonempty (a ++ b) = true.
Proof. destruct a; simpl; auto. Qed.

Section Normal.
Variable s : str.

(* generic shape of a successful monadic step *)
Lemma bindP_ok {A B} (m : res (pr A)) (k : A -> nat -> res (pr B)) b i :
  bindP m k = Ok (POk b i) -> exists a j, m = Ok (POk a j) /\ k a j = Ok (POk b i).
Proof. destruct m as [[a j|]| |]; simpl; try discriminate. eauto. Qed.
Lemma bind_ok {A B} (m : res A) (k : A -> res B) b : bind m k = Ok b -> exists a, m = Ok a /\ k a = Ok b.
Proof. destruct m; simpl; try discriminate. eauto. Qed.

Lemma parse_name_nonempty i r j : parse_name s i = Ok (POk r j) -> nonempty r = true.
Proof.
  unfold parse_name. intros H. apply bindP_ok in H as [a [k [_ H]]]. destruct a; [discriminate|].
  injection H as <- _. reflexivity.
Qed.

Lemma parse_identifier_nonempty i r j : parse_identifier s i = Ok (POk r j) -> nonempty r = true.
Proof.
  unfold parse_identifier. intros H.
  destruct (length s <=? dash_run s (length s) i); [discriminate|].
  apply bind_ok in H as [c [_ H]]. destruct (negb (name_start c || (c =? 92)%N)); [discriminate|].
  apply bindP_ok in H as [a [k [Hn H]]]. injection H as <- _.
  apply nonempty_app_r. eapply parse_name_nonempty. exact Hn.
Qed.

Lemma parse_integer_bound i v j : parse_integer s i = Ok (POk v j) -> (0 <= v <= 9223372036854775807)%Z.
Proof.
  unfold parse_integer. intros H. destruct (digit_run s (length s) i =? i); [discriminate|].
  apply bind_ok in H as [ds [_ H]].
  destruct (Z.leb_spec (parse_dec ds) 9223372036854775807); [|discriminate]. injection H as <- _.
  split; [|assumption]. unfold parse_dec.
  assert (G : forall l acc, (0 <= acc)%Z -> (0 <= fold_left (fun v c => (v * 10 + Z.of_N (c - 48))%Z) l acc)%Z).
  { induction l as [|c l IH]; intros acc Ha; simpl; [exact Ha | apply IH; lia]. }
  apply G. lia.
Qed.

Definition ab_ok (ab : Z * Z) : Prop := int_ok (fst ab) = true /\ int_ok (snd ab) = true.
Lemma int_ok_of v : (0 <= v <= 9223372036854775807)%Z -> int_ok v = true /\ int_ok (- v) = true.
Proof. unfold int_ok. intros H. split; apply Z.leb_le; lia. Qed.

Lemma nth_read_n_ok a i ab j : int_ok a = true -> nth_read_n s a i = Ok (POk ab j) -> ab_ok ab.
Proof.
  unfold nth_read_n. intros Ha H. destruct (length s <=? skip_ws s i); [discriminate|].
  apply bind_ok in H as [c [_ H]]. destruct (c =? 43)%N.
  - apply bindP_ok in H as [b [k [Hb H]]]. injection H as <- _. apply parse_integer_bound in Hb.
    split; [exact Ha | apply int_ok_of; exact Hb].
  - destruct (c =? 45)%N.
    + apply bindP_ok in H as [b [k [Hb H]]]. injection H as <- _. apply parse_integer_bound in Hb.
      split; [exact Ha | apply int_ok_of; exact Hb].
    + injection H as <- _. split; [exact Ha | reflexivity].
Qed.
Lemma nth_read_a_ok a i ab j : int_ok a = true -> nth_read_a s a i = Ok (POk ab j) -> ab_ok ab.
Proof.
  unfold nth_read_a. intros Ha H. destruct (length s <=? i); [discriminate|].
  apply bind_ok in H as [c [_ H]]. destruct (is_n c); [eapply nth_read_n_ok; eassumption|].
  injection H as <- _. split; [reflexivity | exact Ha].
Qed.
Lemma nth_signed_a_ok neg i ab j : nth_signed_a s neg i = Ok (POk ab j) -> ab_ok ab.
Proof.
  unfold nth_signed_a. intros H. destruct (length s <=? i); [discriminate|].
  apply bind_ok in H as [c [_ H]]. destruct (digit c).
  - apply bindP_ok in H as [a [k [Ha H]]]. apply parse_integer_bound in Ha. apply int_ok_of in Ha as [H1 H2].
    eapply nth_read_a_ok; [|exact H]. destruct neg; assumption.
  - destruct (is_n c); [|discriminate]. eapply nth_read_n_ok; [|exact H]. destruct neg; reflexivity.
Qed.
Lemma parse_nth_ok i ab j : parse_nth s i = Ok (POk ab j) -> ab_ok ab.
Proof.
  unfold parse_nth. intros H. destruct (length s <=? i); [discriminate|].
  apply bind_ok in H as [c [_ H]].
  destruct (c =? 45)%N; [eapply nth_signed_a_ok; exact H|].
  destruct (c =? 43)%N; [eapply nth_signed_a_ok; exact H|].
  destruct (digit c); [eapply nth_signed_a_ok; exact H|].
  destruct (is_n c); [eapply nth_read_n_ok; [|exact H]; reflexivity|].
  destruct ((c =? 111)%N || (c =? 79)%N || (c =? 101)%N || (c =? 69)%N); [|discriminate].
  apply bindP_ok in H as [id [k [_ H]]].
  destruct (str_eqb (to_lower id) n_odd); [injection H as <- _; split; reflexivity|].
  destruct (str_eqb (to_lower id) n_even); [injection H as <- _; split; reflexivity | discriminate].
Qed.

(* a simple selector other than the type selector, in normal form *)
Definition simple_ok (x : sel) : Prop := simple_shape x = true /\ normal false x = true.

Lemma parse_id_selector_ok i x j : parse_id_selector s i = Ok (POk x j) -> simple_ok x.
Proof.
  unfold parse_id_selector. intros H. destruct (length s <=? i); [discriminate|].
  apply bind_ok in H as [c [_ H]]. destruct (negb (c =? 35)%N); [discriminate|].
  apply bindP_ok in H as [id [k [Hn H]]]. injection H as <- _. split; [reflexivity|].
  simpl. eapply parse_name_nonempty. exact Hn.
Qed.
Lemma parse_class_selector_ok i x j : parse_class_selector s i = Ok (POk x j) -> simple_ok x.
Proof.
  unfold parse_class_selector. intros H. destruct (length s <=? i); [discriminate|].
  apply bind_ok in H as [c [_ H]]. destruct (negb (c =? 46)%N); [discriminate|].
  apply bindP_ok in H as [id [k [Hn H]]]. injection H as <- _. split; [reflexivity|].
  simpl. eapply parse_identifier_nonempty. exact Hn.
Qed.
Lemma parse_type_selector_ok i x j : parse_type_selector s i = Ok (POk x j) ->
  exists t, x = STag t /\ normal false x = true.
Proof.
  unfold parse_type_selector. intros H. apply bindP_ok in H as [tag [k [Hn H]]]. injection H as <- _.
  eexists. split; [reflexivity|]. simpl. rewrite nonempty_to_lower, lowered_to_lower, andb_true_r.
  eapply parse_identifier_nonempty. exact Hn.
Qed.

Lemma parse_attribute_selector_ok i x j : parse_attribute_selector s i = Ok (POk x j) -> simple_ok x.
Proof.
  unfold parse_attribute_selector. intros H. destruct (length s <=? i); [discriminate|].
  apply bind_ok in H as [c [_ H]]. destruct (negb (c =? 91)%N); [discriminate|].
  apply bindP_ok in H as [key [i1 [Hk H]]]. apply parse_identifier_nonempty in Hk.
  assert (Hkey : nonempty (to_lower key) && lowered (to_lower key) = true)
    by (rewrite nonempty_to_lower, lowered_to_lower, Hk; reflexivity).
  destruct (length s <=? skip_ws s i1); [discriminate|].
  apply bind_ok in H as [c0 [_ H]]. destruct (c0 =? 93)%N.
  { injection H as <- _. split; [reflexivity|]. simpl. rewrite Hkey. reflexivity. }
  destruct (length s <=? skip_ws s i1 + 2); [discriminate|].
  apply bind_ok in H as [op2 [_ H]]. apply bind_ok in H as [o0 [_ H]]. apply bind_ok in H as [o1 [_ H]].
  destruct (negb (o0 =? 61)%N && negb (o1 =? 61)%N); [discriminate|].
  match type of H with (if ?c then _ else _) = _ => destruct c; [discriminate|] end.
  match type of H with (if ?c then _ else _) = _ => destruct c; [discriminate|] end.
  apply bind_ok in H as [q [_ H]]. apply bindP_ok in H as [val [i4 [_ H]]].
  match type of H with (if ?c then _ else _) = _ => destruct c; [discriminate|] end.
  apply bind_ok in H as [f [_ H]].
  match type of H with (if ?c then _ else _) = _ => destruct c; [discriminate|] end.
  apply bind_ok in H as [e [_ H]]. destruct (negb (e =? 93)%N); [discriminate|].
  match type of H with context [op_of ?x] => destruct (op_of x) as [o|] eqn:Eo; [|discriminate] end.
  injection H as <- _. split; [reflexivity|]. simpl. rewrite Hkey.
  destruct o; try reflexivity.
  (* op_of never returns OpExists *)
  exfalso. clear -Eo. unfold op_of in Eo.
  repeat match type of Eo with context [match ?x with _ => _ end] => destruct x; try discriminate end.
Qed.

Lemma parse_lang_arg_ok i x j : parse_lang_arg s i = Ok (POk x j) -> simple_ok x.
Proof.
  unfold parse_lang_arg. intros H. destruct (consume_paren s i) as [i1|]; [|discriminate].
  destruct (i1 =? length s); [discriminate|].
  apply bindP_ok in H as [val [i2 [Hv H]]]. apply parse_identifier_nonempty in Hv.
  destruct (length s <=? skip_ws s i2); [discriminate|].
  destruct (consume_closing_paren s (skip_ws s i2)); [|discriminate]. injection H as <- _.
  split; [reflexivity|]. simpl. rewrite nonempty_to_lower, lowered_to_lower, Hv. reflexivity.
Qed.

Lemma simple_pseudo_ok name x : simple_pseudo name = Some x -> simple_ok x.
Proof.
  unfold simple_pseudo. intros H.
  repeat match type of H with
         | (if ?c then _ else _) = _ => destruct c eqn:?; [injection H as <-; split; try reflexivity|]
         end; try discriminate.
  simpl. assumption.
Qed.

(* ---- the recursive grammar *)
Definition complex_ok (a : bool) (x : sel) : Prop := normal a x = true.
Definition compound_ok (a : bool) (x : sel) : Prop :=
  normal a x = true /\ match x with SCombined _ _ _ => False | _ => True end.
Definition pseudo_ok (r : pseudo_res) : Prop :=
  match r with
  | PSel x => simple_ok x
  | PElem name => str_in name pseudo_elements = true /\ nonempty name = true
  end.
(* the accumulator of the simple-selector loop *)
Definition acc_ok (a : bool) (sels : list sel) (pe : str) : Prop :=
  match sels with
  | [] => True
  | x :: r => ((exists t, x = STag t) \/ simple_shape x = true) /\ normal false x = true /\
              forallb (fun y => simple_shape y && normal false y) r = true
  end /\
  match pe with [] => True | _ => a = true /\ str_in pe pseudo_elements = true end.

Lemma acc_ok_snoc a sels ns : acc_ok a sels [] -> simple_ok ns -> acc_ok a (sels ++ [ns]) [].
Proof.
  intros [H _] [H1 H2]. split; [|exact I]. destruct sels as [|x r]; simpl.
  - repeat split; auto.
  - destruct H as [Hx [Hn Hr]]. repeat split; auto.
    rewrite forallb_app, Hr. simpl. rewrite H1, H2. reflexivity.
Qed.

Lemma finish_ok a sels pe x i j :
  acc_ok a sels pe ->
  match sels, pe with [y], [] => Ok (POk y i) | _, _ => Ok (POk (SCompound sels pe) i) end = Ok (POk x j) ->
  compound_ok a x.
Proof.
  intros [Hs Hp] H.
  assert (Hc : forall sels' pe', sels' = sels -> pe' = pe ->
               (match pe with [] => negb (Nat.eqb (length sels) 1) | _ => a && str_in pe pseudo_elements end) = true ->
               compound_ok a (SCompound sels pe)).
  { intros _ _ _ _ Hpe. split; [|exact I]. cbn [normal]. rewrite Hpe. simpl.
    destruct sels as [|y r]; [reflexivity|]. destruct Hs as [Hy [Hn Hr]]. rewrite Hn, Hr.
    destruct Hy as [[t ->]|Hy]; [reflexivity|]. rewrite Hy. destruct y; reflexivity. }
  destruct sels as [|y [|z r]]; destruct pe as [|c pe]; injection H as <- _.
  - apply (Hc [] []); auto.
  - destruct Hp as [-> Hp]. apply (Hc [] (c :: pe)); auto.
  - destruct Hs as [Hy [Hn _]]. split; [|destruct Hy as [[t ->]|Hy]; [exact I | destruct y; try discriminate; exact I]].
    destruct Hy as [[t ->]|Hy]; [|].
    + simpl in *. exact Hn.
    + destruct y; try discriminate Hy; simpl in *; exact Hn.
  - destruct Hp as [-> Hp]. apply (Hc [y] (c :: pe)); auto.
  - apply (Hc (y :: z :: r) []); auto.
  - destruct Hp as [-> Hp]. apply (Hc (y :: z :: r) (c :: pe)); auto.
Qed.

Lemma normal_false_true x : normal false x = true -> normal true x = true.
Proof.
  induction x as [x Hx | name g IH | sels pe IH | a c b IHa IHb] using sel_ind'; intros H.
  - destruct x; try contradiction; exact H.
  - exact H.
  - cbn [normal] in *. destruct pe; [exact H | simpl in H; discriminate].
  - cbn [normal] in *. apply andb_true_iff in H as [H H3]. apply andb_true_iff in H as [H1 H2]. rewrite (IHa H1), H3. simpl.
    rewrite andb_true_r. destruct b; try (apply IHb; exact H2). discriminate.
Qed.

Definition group_ok (a : bool) (g : list sel) : Prop := g <> [] /\ forallb (normal a) g = true.

Lemma grammar_normal : forall fuel,
  (forall a i g j, p_group s fuel a i = Ok (POk g j) -> group_ok a g) /\
  (forall a i acc g j, group_ok a acc -> p_group_loop s fuel a i acc = Ok (POk g j) -> group_ok a g) /\
  (forall a i x j, p_selector s fuel a i = Ok (POk x j) -> complex_ok a x) /\
  (forall a i r x j, complex_ok a r -> p_selector_loop s fuel a i r = Ok (POk x j) -> complex_ok a x) /\
  (forall a i x j, p_seq s fuel a i = Ok (POk x j) -> compound_ok a x) /\
  (forall a i sels pe x j, acc_ok a sels pe -> p_seq_loop s fuel a i sels pe = Ok (POk x j) -> compound_ok a x) /\
  (forall i r j, p_pseudo s fuel i = Ok (POk r j) -> pseudo_ok r).
Proof.
  induction fuel as [|f IH].
  - refine (conj _ (conj _ (conj _ (conj _ (conj _ (conj _ _)))))); intros; discriminate.
  - destruct IH as [IHg [IHgl [IHs [IHsl [IHq [IHql IHp]]]]]].
    refine (conj _ (conj _ (conj _ (conj _ (conj _ (conj _ _)))))).
    + (* p_group *) intros a i g j H0. cbn [p_group] in H0. apply bindP_ok in H0 as [cur [i1 [Hc H0]]].
      apply IHs in Hc. eapply IHgl; [|exact H0]. split; [discriminate | simpl; rewrite Hc; reflexivity].
    + (* p_group_loop *) intros a i acc g j [Ha1 Ha2] H0. cbn [p_group_loop] in H0.
      destruct (length s <=? i); [injection H0 as <- _; split; assumption|].
      apply bind_ok in H0 as [c [_ H0]]. destruct (negb (c =? 44)%N); [injection H0 as <- _; split; assumption|].
      apply bindP_ok in H0 as [c' [i1 [Hc H0]]]. apply IHs in Hc.
      eapply IHgl; [|exact H0]. split; [destruct acc; discriminate | rewrite forallb_app; simpl; rewrite Ha2, Hc; reflexivity].
    + (* p_selector *) intros a i x j H0. cbn [p_selector] in H0. apply bindP_ok in H0 as [r [i1 [Hr H0]]].
      apply IHq in Hr. eapply IHsl; [apply Hr | exact H0].
    + (* p_selector_loop *) intros a i r x j Hr H0. cbn [p_selector_loop] in H0.
      destruct (length s <=? skip_ws s i); [injection H0 as <- _; exact Hr|].
      apply bind_ok in H0 as [c [_ H0]]. destruct ((c =? 44)%N || (c =? 41)%N); [injection H0 as <- _; exact Hr|].
      match type of H0 with (let '(cb, j) := ?e in _) = _ => destruct e as [cb j0] end.
      destruct (comb_of cb) as [cm|]; [|injection H0 as <- _; exact Hr].
      destruct (pseudo_element r) eqn:Epe; [|discriminate].
      apply bindP_ok in H0 as [c' [i1 [Hc H0]]]. apply IHq in Hc as [Hc1 Hc2].
      eapply IHsl; [|exact H0]. unfold complex_ok. cbn [normal]. rewrite Hr, Epe. simpl. rewrite andb_true_r.
      destruct c'; try exact Hc1. contradiction.
    + (* p_seq *) intros a i x j H0. cbn [p_seq] in H0.
      destruct (length s <=? i); [discriminate|].
      apply bind_ok in H0 as [c [_ H0]]. destruct (c =? 42)%N.
      * apply bind_ok in H0 as [i1 [_ H0]]. eapply IHql; [|exact H0]. split; exact I.
      * destruct ((c =? 35)%N || (c =? 46)%N || (c =? 91)%N || (c =? 58)%N).
        -- eapply IHql; [|exact H0]. split; exact I.
        -- apply bindP_ok in H0 as [r [i1 [Hr H0]]]. apply parse_type_selector_ok in Hr as [t [-> Hn]].
           eapply IHql; [|exact H0]. split; [|exact I]. repeat split; [left; eauto | exact Hn].
    + (* p_seq_loop *) intros a i sels pe x j Hacc H0. cbn [p_seq_loop] in H0.
      destruct (length s <=? i); [eapply finish_ok; eassumption|].
      apply bind_ok in H0 as [c [_ H0]].
      assert (Hadd : forall ns i1, simple_ok ns ->
                match pe with [] => p_seq_loop s f a i1 (sels ++ [ns]) pe | _ :: _ => Ok PErr end = Ok (POk x j) ->
                compound_ok a x).
      { intros ns i1 Hns H. destruct pe; [|discriminate]. eapply IHql; [|exact H]. apply acc_ok_snoc; assumption. }
      destruct (c =? 35)%N; [apply bindP_ok in H0 as [ns [i1 [Hns H0]]]; eapply Hadd; [eapply parse_id_selector_ok; exact Hns | exact H0]|].
      destruct (c =? 46)%N; [apply bindP_ok in H0 as [ns [i1 [Hns H0]]]; eapply Hadd; [eapply parse_class_selector_ok; exact Hns | exact H0]|].
      destruct (c =? 91)%N; [apply bindP_ok in H0 as [ns [i1 [Hns H0]]]; eapply Hadd; [eapply parse_attribute_selector_ok; exact Hns | exact H0]|].
      destruct (c =? 58)%N; [|eapply finish_ok; eassumption].
      apply bindP_ok in H0 as [r [i1 [Hr H0]]]. apply IHp in Hr. destruct r as [ns|name].
      * eapply Hadd; [exact Hr | exact H0].
      * destruct pe; [|discriminate]. destruct a; [|discriminate].
        eapply IHql; [|exact H0]. destruct Hacc as [Hs _]. split; [exact Hs|].
        destruct Hr as [Hr1 Hr2]. destruct name; [discriminate|]. split; [reflexivity | exact Hr1].
    + (* p_pseudo *) intros i r j H0. cbn [p_pseudo] in H0.
      destruct (length s <=? i); [discriminate|].
      apply bind_ok in H0 as [c [_ H0]]. destruct (negb (c =? 58)%N); [discriminate|].
      destruct (length s <=? S i); [discriminate|].
      apply bind_ok in H0 as [c2 [_ H0]]. apply bindP_ok in H0 as [name [i2 [Hn H0]]].
      apply parse_identifier_nonempty in Hn.
      destruct ((c2 =? 58)%N && negb (str_in (to_lower name) pseudo_elements)); [discriminate|].
      destruct (rel_of (to_lower name)) as [rn|].
      * destruct (consume_paren s i2) as [i3|]; [|discriminate].
        apply bindP_ok in H0 as [g [i4 [Hg H0]]]. apply IHg in Hg as [Hg1 Hg2].
        destruct (consume_closing_paren s i4); [|discriminate]. injection H0 as <- _.
        split; [reflexivity|]. cbn [normal]. destruct g; [contradiction | exact Hg2].
      * destruct (nth_of (to_lower name)) as [[last ofType]|].
        -- destruct (consume_paren s i2) as [i3|]; [|discriminate].
           apply bindP_ok in H0 as [ab [i4 [Hab H0]]]. apply parse_nth_ok in Hab as [Ha Hb].
           destruct (consume_closing_paren s i4); [|discriminate]. injection H0 as <- _.
           split; [reflexivity|]. simpl. rewrite Ha, Hb. reflexivity.
        -- destruct (str_eqb (to_lower name) n_lang).
           ++ apply bindP_ok in H0 as [x [i3 [Hx H0]]]. injection H0 as <- _. eapply parse_lang_arg_ok. exact Hx.
           ++ destruct (simple_pseudo (to_lower name)) as [x|] eqn:Ex.
              ** injection H0 as <- _. eapply simple_pseudo_ok. exact Ex.
              ** destruct (str_in (to_lower name) pseudo_elements) eqn:Ep; [|discriminate].
                 injection H0 as <- _. split; [exact Ep | rewrite nonempty_to_lower; exact Hn].
Qed.

(* ParseGroup only returns selector groups in normal form *)
Theorem parse_group_at_normal g : parse_group_at s = Ok (Some g) -> normal_group g = true.
Proof.
  unfold parse_group_at. destruct (p_group s (fuel_of s) true 0) as [[g' i|]| |] eqn:E; try discriminate.
  destruct (i <? length s); [discriminate|]. intros H. injection H as <-.
  destruct (grammar_normal (fuel_of s)) as [Hg _]. apply Hg in E as [E1 E2].
  unfold normal_group. destruct g'; [contradiction | exact E2].
Qed.

End Normal.

Theorem parse_group_normal : forall s g, parse_group s = Ok (Some g) -> normal_group g = true.
Proof. intros s g. apply parse_group_at_normal. Qed.
