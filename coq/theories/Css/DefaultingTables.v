(* Css/DefaultingTables.v -- finite-domain facts about the tables translated from
   the Go source (Generated/PropTables.v), proved by computation.  They are
   re-checked by `make` whenever the regenerated tables change. *)
From Verif Require Import Css.Defaulting Css.DefaultingSpec.
From Coq Require Import Lia ZifyBool ZifyNat ZifyN.
Open Scope N_scope.

Definition below (k : nat) : list N := map N.of_nat (seq 0 k).

Lemma below_In k p : (N.to_nat p < k)%nat -> In p (below k).
Proof.
  intros H. unfold below. apply in_map_iff. exists (N.to_nat p). split; [lia|].
  apply in_seq. lia.
Qed.

Lemma forall_below (f : N -> bool) k :
  forallb f (below k) = true -> forall p, (N.to_nat p < k)%nat -> f p = true.
Proof. intros H p Hp. rewrite forallb_forall in H. apply H, below_In, Hp. Qed.

Definition valid_prop (p : N) : Prop := 1 <= p /\ p < nb_properties.

Lemma forall_props (f : N -> bool) :
  forallb f (below (N.to_nat nb_properties)) = true -> forall p, valid_prop p -> f p = true.
Proof. intros H p [_ Hp]. apply (forall_below f _ H). lia. Qed.

Definition Qeq_opt (a b : option Q) : bool :=
  match a, b with Some x, Some y => Qeq_bool x y | None, None => true | _, _ => false end.

(* ------------------------------------------------------------------ units *)

(* Unit is a uint8 in the Go code *)
Lemma unit_table_all : forall u, u < 256 -> Qeq_opt (assoc_N lengths_to_pixels u) (css_px_per u) = true.
Proof.
  intros u Hu. apply (forall_below (fun u => Qeq_opt (assoc_N lengths_to_pixels u) (css_px_per u)) 256); [|lia].
  vm_compute. reflexivity.
Qed.

(* 1in = 96px = 72pt = 6pc = 2.54cm = 25.4mm = 101.6q, in the exact instance of the model *)
Lemma unit_identities :
  px_per exactQ U_Px == 1 /\
  px_per exactQ U_In == 96 * px_per exactQ U_Px /\
  px_per exactQ U_In == 72 * px_per exactQ U_Pt /\
  px_per exactQ U_In == 6 * px_per exactQ U_Pc /\
  px_per exactQ U_In == (254 # 100) * px_per exactQ U_Cm /\
  px_per exactQ U_In == (254 # 10) * px_per exactQ U_Mm /\
  px_per exactQ U_In == (1016 # 10) * px_per exactQ U_Q.
Proof. repeat split; vm_compute; reflexivity. Qed.

Lemma px_per_exact u : u < 256 ->
  match css_px_per u with Some r => px_per exactQ u == r | None => px_per exactQ u == 0 end.
Proof.
  intros Hu.
  assert (H : (match css_px_per u with Some r => Qeq_bool (px_per exactQ u) r | None => Qeq_bool (px_per exactQ u) 0 end) = true).
  { apply (forall_below (fun u => match css_px_per u with Some r => Qeq_bool (px_per exactQ u) r | None => Qeq_bool (px_per exactQ u) 0 end) 256); [|lia].
    vm_compute. reflexivity. }
  destruct (css_px_per u); apply Qeq_bool_iff, H.
Qed.

(* ------------------------------------------------------------------ fonts *)

Lemma font_weight_tables : forall w, In w css_weights ->
  fw_table font_weight_bolder w = css_bolder w /\ fw_table font_weight_lighter w = css_lighter w.
Proof.
  assert (H : forallb (fun w => Z.eqb (fw_table font_weight_bolder w) (css_bolder w)
                                && Z.eqb (fw_table font_weight_lighter w) (css_lighter w)) css_weights = true)
    by (vm_compute; reflexivity).
  intros w Hw. rewrite forallb_forall in H. specialize (H w Hw). lia.
Qed.

Lemma font_weight_tables_closed : forall w, In w css_weights ->
  In (css_bolder w) css_weights /\ In (css_lighter w) css_weights.
Proof.
  intros w Hw. cbn in Hw. repeat (destruct Hw as [<-|Hw]; [cbn; tauto|]). contradiction.
Qed.

Lemma font_size_keyword_names : map fst font_size_keywords = css_size_names.
Proof. reflexivity. Qed.

Lemma font_size_keyword_ratios :
  forallb (fun e => match css_font_size_ratio (fst e) with
                    | Some r => Qeq_bool r (fst (snd e) / snd (snd e))
                    | None => false end) font_size_keywords = true.
Proof. vm_compute. reflexivity. Qed.

Lemma initial_font_size : initial PFontSize = Some (VDim "" 16 U_Scalar).
Proof. reflexivity. Qed.
Lemma initial_font_weight : initial PFontWeight = Some (VIntStr "" 400).
Proof. reflexivity. Qed.

Lemma border_width_keywords_spec :
  forallb (fun e => Qeq_opt (css_border_keyword (fst e)) (Some (snd e))) border_width_keywords = true /\
  map fst border_width_keywords = ["medium"; "thick"; "thin"]%string.
Proof. split; vm_compute; reflexivity. Qed.

(* ------------------------------------------------------------------ property tables *)

Lemma initial_defined p : valid_prop p -> exists v, initial p = Some v.
Proof.
  intros Hp.
  pose proof (forall_props (fun p => (p =? 0) || match initial p with Some _ => true | None => false end)
                ltac:(vm_compute; reflexivity) p Hp) as H. cbv beta in H.
  destruct Hp as [H1 _]. destruct (initial p) as [v|]; [eauto|]. rewrite orb_false_r in H. apply N.eqb_eq in H. lia.
Qed.

(* the property list and the two sets, against the lists transcribed from the CSS specifications *)
Lemma inherited_table_spec : forall p, valid_prop p ->
  inherited p = mem_S (prop_name p) css_inherited_names.
Proof.
  intros p Hp.
  pose proof (forall_props (fun p => (p =? 0) || Bool.eqb (inherited p) (mem_S (prop_name p) css_inherited_names))
                ltac:(vm_compute; reflexivity) p Hp) as H. cbv beta in H.
  destruct Hp as [H1 _]. apply orb_prop in H. destruct H as [H|H]; [lia|]. now apply eqb_prop.
Qed.

Lemma inherited_names_are_properties :
  forallb (fun s => negb (prop_id s =? 0)) css_inherited_names = true.
Proof. vm_compute. reflexivity. Qed.

Lemma initial_not_computed_table_spec : forall p, valid_prop p ->
  initial_not_computed p = mem_S (prop_name p) css_context_dependent_initial.
Proof.
  intros p Hp.
  pose proof (forall_props (fun p => (p =? 0) || Bool.eqb (initial_not_computed p) (mem_S (prop_name p) css_context_dependent_initial))
                ltac:(vm_compute; reflexivity) p Hp) as H. cbv beta in H.
  destruct Hp as [H1 _]. apply orb_prop in H. destruct H as [H|H]; [lia|]. now apply eqb_prop.
Qed.

Lemma prop_names_complete : forall p, valid_prop p -> prop_name p <> ""%string /\ prop_id (prop_name p) = p.
Proof.
  intros p Hp.
  pose proof (forall_props (fun p => (p =? 0) || (negb (String.eqb (prop_name p) "") && (prop_id (prop_name p) =? p)))
                ltac:(vm_compute; reflexivity) p Hp) as H. cbv beta in H.
  destruct Hp as [H1 _]. apply orb_prop in H. destruct H as [H|H]; [lia|].
  apply andb_prop in H. destruct H as [Ha Hb]. split; [|lia].
  intros E. rewrite E in Ha. discriminate.
Qed.

(* borderWidth reads the style property as `name - 1`: it is the matching *-style property,
   and has no computer function of its own (it is a base property) *)
Definition style_name (w : string) : string :=
  (String.substring 0 (String.length w - 5) w ++ "style")%string.

Lemma border_style_precedes_width : forall p, valid_prop p ->
  computer_of p = KBorderWidth ->
  prop_name (N.pred p) = style_name (prop_name p) /\ computer_of (N.pred p) = KNone /\ valid_prop (N.pred p).
Proof.
  intros p Hp Hk.
  pose proof (forall_props (fun p => match computer_of p with
                                     | KBorderWidth => String.eqb (prop_name (N.pred p)) (style_name (prop_name p))
                                                       && match computer_of (N.pred p) with KNone => true | _ => false end
                                                       && (2 <=? p)
                                     | _ => true end)
                ltac:(vm_compute; reflexivity) p Hp) as H. cbv beta in H.
  rewrite Hk in H. apply andb_prop in H. destruct H as [H H3]. apply andb_prop in H. destruct H as [H1 H2].
  split; [now apply String.eqb_eq|]. split; [destruct (computer_of (N.pred p)); congruence|].
  destruct Hp. unfold valid_prop. lia.
Qed.

Lemma base_props :
  computer_of PMarks = KNone /\ computer_of PFontSize = KFontSize /\ computer_of PFontWeight = KFontWeight /\
  computer_of PPage = KNone /\ computer_of PTextDecorationLine = KNone /\ computer_of PAnchor = KOther /\
  computer_of PPosition = KNone /\ computer_of PDisplay = KDisplay /\ computer_of PFloat = KFloat.
Proof. repeat split; reflexivity. Qed.

Lemma special_props_valid :
  valid_prop PFontSize /\ valid_prop PFontWeight /\ valid_prop PMarks /\ valid_prop PPage /\
  valid_prop PAnchor /\ valid_prop PPosition /\ valid_prop PDisplay /\ valid_prop PFloat /\
  valid_prop PTextDecorationLine /\ valid_prop PTextDecorationColor /\ valid_prop PTextDecorationStyle.
Proof. unfold valid_prop. repeat split; vm_compute; congruence. Qed.

(* anonymous boxes preset exactly the width properties: their style is the initial `none` *)
Lemma anon_presets_are_widths :
  forallb (fun p => match computer_of p with KBorderWidth => true | _ => false end
                    && match initial (N.pred p) with Some (VStr "none") => true | _ => false end
                    && negb (inherited p)) anon_presets = true.
Proof. vm_compute. reflexivity. Qed.
