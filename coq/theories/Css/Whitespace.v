(* Css/Whitespace.v -- model of /repo/html/boxes/build.go:1634-1694
   ProcessWhitespace: phase I of the CSS white-space processing model, the only
   transformation of document text before layout (apart from text-transform).

     norm_lf        build.go:86, 1646   lineFeedRe  `\r\n?`            -> "\n"
     tab_re         build.go:87, 1654   tabRe       `[\t ]*\n[\t ]*`   -> "\n"
     nl_to_space    build.go:1661       strings.ReplaceAll(text, "\n", " ")
     space_re       build.go:88, 1664   spaceRe     `[\t ]+`           -> " "
     process_text   build.go:1639-1674  one TextBox
     pw / pw_list   build.go:1675-1691  recursion through the inline boxes, threading
                                        followingCollapsibleSpace; a child that is neither
                                        a TextBox nor an InlineBox resets it
     build          build.go:323        elementToBox calls ProcessWhitespace(box, false) for
                                        every element after its children were built, so a text
                                        is processed once per ancestor

   The three regular expressions are replaced by the hand-written scanners
   below; Go's regexp engine is leftmost-first and non-overlapping, which for
   these three patterns gives: `\r\n?` -- every CR, with the LF that follows it
   if any; `[\t ]*\n[\t ]*` -- every LF with all blanks around it (blanks not
   next to a LF are untouched); `[\t ]+` -- every maximal run of blanks.

   Text is a list of code points.  No proofs in this file. *)
From Coq Require Export List NArith Bool.
Export ListNotations.
Local Open Scope N_scope.

Definition rune := N.
Definition SP : rune := 32.
Definition TAB : rune := 9.
Definition LF : rune := 10.
Definition CR : rune := 13.

Definition is_blank (c : rune) : bool := N.eqb c SP || N.eqb c TAB.

Inductive wsmode := WNormal | WNowrap | WPre | WPreWrap | WPreLine.

(* build.go:1648-1650 *)
Definition new_line_collapse (m : wsmode) : bool :=
  match m with WNormal | WNowrap => true | _ => false end.
Definition space_collapse (m : wsmode) : bool :=
  match m with WNormal | WNowrap | WPreLine => true | _ => false end.

(* `\r\n?` -> "\n" *)
Fixpoint norm_lf (l : list rune) : list rune :=
  match l with
  | [] => []
  | c :: r =>
      if N.eqb c CR then
        LF :: match r with
              | c' :: r' => if N.eqb c' LF then norm_lf r' else norm_lf r
              | [] => []
              end
      else c :: norm_lf r
  end.

(* `[\t ]*\n[\t ]*` -> "\n".  pend: blanks read and not yet emitted (they are
   dropped if a LF follows); after_nl: just after a LF, blanks are dropped *)
Fixpoint tab_re_from (pend : list rune) (after_nl : bool) (l : list rune) : list rune :=
  match l with
  | [] => pend
  | c :: r =>
      if N.eqb c LF then LF :: tab_re_from [] true r
      else if is_blank c then
        (if after_nl then tab_re_from [] true r else tab_re_from (pend ++ [c]) false r)
      else pend ++ c :: tab_re_from [] false r
  end.
Definition tab_re (l : list rune) : list rune := tab_re_from [] false l.

Definition nl_to_space (l : list rune) : list rune :=
  map (fun c => if N.eqb c LF then SP else c) l.

(* `[\t ]+` -> " " *)
Fixpoint space_re_from (in_blank : bool) (l : list rune) : list rune :=
  match l with
  | [] => []
  | c :: r =>
      if is_blank c then (if in_blank then space_re_from true r else SP :: space_re_from true r)
      else c :: space_re_from false r
  end.
Definition space_re (l : list rune) : list rune := space_re_from false l.

Definition has_prefix_sp (l : list rune) : bool :=
  match l with c :: _ => N.eqb c SP | [] => false end.
Definition has_suffix_sp (l : list rune) : bool :=
  match rev l with c :: _ => N.eqb c SP | [] => false end.

(* build.go:1639-1674: (new text, followingCollapsibleSpace) *)
Definition process_text (m : wsmode) (following : bool) (text : list rune) : list rune * bool :=
  match text with
  | [] => ([], following)                                   (* 1641-1643 *)
  | _ =>
      let t1 := norm_lf text in
      let t2 := if space_collapse m then tab_re t1 else t1 in
      let t3 := if new_line_collapse m then nl_to_space t2 else t2 in
      if space_collapse m then
        let t4 := space_re t3 in
        (if following && has_prefix_sp t4 then tl t4 else t4, has_suffix_sp t4)
      else (t3, false)
  end.

(* inline-level content of a box: text, inline box, anything else (atomic
   inline, block in inline ...: build.go:1684-1687 resets the flag) *)
Inductive inl :=
| IText (m : wsmode) (t : list rune)
| IBox (ks : list inl)
| IAtom.

(* build.go:1675-1691: the loop over the children of a box; `rec` is
   ProcessWhitespace itself (TextBox / InlineBox children), any other child
   resets the flag *)
Definition pw_list (rec : bool -> inl -> inl * bool) : bool -> list inl -> list inl * bool :=
  fix go (f : bool) (l : list inl) {struct l} : list inl * bool :=
    match l with
    | [] => ([], f)
    | k :: r =>
        match k with
        | IAtom => let '(r', f') := go false r in (IAtom :: r', f')
        | _ => let '(k', f1) := rec f k in
               let '(r', f2) := go f1 r in (k' :: r', f2)
        end
    end.

(* build.go:1638-1693 (no running elements, everything in normal flow) *)
Fixpoint pw (following : bool) (b : inl) {struct b} : inl * bool :=
  match b with
  | IText m t => let '(t', f') := process_text m following t in (IText m t', f')
  | IBox ks => let '(ks', f') := pw_list pw following ks in (IBox ks', f')
  | IAtom => (IAtom, following)
  end.

(* elementToBox: children first, then ProcessWhitespace(box, false) on the element's box *)
Fixpoint build (b : inl) : inl :=
  match b with
  | IBox ks => fst (pw false (IBox (map build ks)))
  | IText m t => IText m t
  | IAtom => IAtom
  end.

(* the texts of a box in document order, with their white-space mode *)
Fixpoint texts (b : inl) : list (wsmode * list rune) :=
  match b with
  | IText m t => [(m, t)]
  | IBox ks => flat_map texts ks
  | IAtom => []
  end.
