(* Css/SelWitness.v -- the two witness inputs of the proved deviations
   (SelProofs.has_relative_refuted, SelProofs.blank_attr_refuted), as data, so
   that the correspondence check can replay them on the implementation.
   No proofs here. *)
From Verif Require Export Css.Sel.
From Coq Require Import List NArith Bool.
Import ListNotations.

Definition t_section : str := [115;101;99;116;105;111;110]%N.
Definition t_div : str := [100;105;118]%N.
Definition t_p : str := [112]%N.
Definition t_title : str := [116;105;116;108;101]%N.
Definition t_head : str := [104;101;97;100]%N.
Definition t_body : str := [98;111;100;121]%N.

(* <section><div><p></p></div></section> as html.Parse builds it, and div:has(section p) at the div *)
Definition w_p := Node TElement t_p [] [].
Definition w_div := Node TElement t_div [] [w_p].
Definition w_doc1 :=
  Node TDocument [] [] [Node TElement s_html [] [Node TElement t_head [] []; Node TElement t_body [] [Node TElement t_section [] [w_div]]]].
Definition w_sel1 := SCompound [STag t_div; SRel RHas [SCombined (STag t_section) CDesc (STag t_p)]] [].
Definition w_path1 : path := [0; 0; 1; 0]%nat.

(* <html title="  ">, and [title^=" "] at the html element *)
Definition w_doc2 :=
  Node TDocument [] [] [Node TElement s_html [Attr t_title [32; 32]%N] [Node TElement t_head [] []; Node TElement t_body [] []]].
Definition w_sel2 := SAttr t_title [32%N] OpPrefix false.
Definition w_path2 : path := [0]%nat.

Fixpoint attrs_eqb (a b : list attr) : bool :=
  match a, b with
  | [], [] => true
  | x :: a', y :: b' => str_eqb (akey x) (akey y) && str_eqb (aval x) (aval y) && attrs_eqb a' b'
  | _, _ => false
  end.
Definition ntype_eqb (a b : ntype) : bool :=
  match a, b with
  | TDocument, TDocument | TElement, TElement | TText, TText | TComment, TComment | TDoctype, TDoctype => true
  | _, _ => false
  end.
Fixpoint node_eqb (a b : node) {struct a} : bool :=
  let 'Node ta da aa ka := a in
  let 'Node tb db ab kb := b in
  ntype_eqb ta tb && str_eqb da db && attrs_eqb aa ab &&
  (fix kids_eqb (l1 l2 : list node) {struct l1} : bool :=
     match l1, l2 with
     | [], [] => true
     | x :: r1, y :: r2 => node_eqb x y && kids_eqb r1 r2
     | _, _ => false
     end) ka kb.
Fixpoint path_eqb (a b : path) : bool :=
  match a, b with
  | [], [] => true
  | x :: a', y :: b' => Nat.eqb x y && path_eqb a' b'
  | _, _ => false
  end.
