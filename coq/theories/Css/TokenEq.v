(* Css/TokenEq.v -- boolean equality on tokens / compounds (used by the
   correspondence checks) and position erasure.  No proofs. *)
From Verif Require Export Css.Token.
From Coq Require Import List NArith ZArith Bool.
Import ListNotations.

Fixpoint nlist_eqb (a b : list N) : bool :=
  match a, b with
  | [], [] => true
  | x :: a', y :: b' => N.eqb x y && nlist_eqb a' b'
  | _, _ => false
  end.

Definition pos_eqb (p q : pos) : bool := Z.eqb (line p) (line q) && Z.eqb (column p) (column q).

Fixpoint token_eqb (a b : token) : bool :=
  let fix list_eqb (l1 l2 : list token) : bool :=
    match l1, l2 with
    | [], [] => true
    | x :: r1, y :: r2 => token_eqb x y && list_eqb r1 r2
    | _, _ => false
    end in
  match a, b with
  | TLiteral p v, TLiteral q w | TComment p v, TComment q w | TWhitespace p v, TWhitespace q w
  | TIdent p v, TIdent q w | TAtKeyword p v, TAtKeyword q w => pos_eqb p q && nlist_eqb v w
  | TParseError p k, TParseError q l => pos_eqb p q && N.eqb k l
  | THash p v f, THash q w g | TString p v f, TString q w g | TURL p v f, TURL q w g
  | TNumber p v f, TNumber q w g | TPercentage p v f, TPercentage q w g =>
      pos_eqb p q && nlist_eqb v w && Bool.eqb f g
  | TUnicodeRange p s e, TUnicodeRange q s' e' => pos_eqb p q && N.eqb s s' && N.eqb e e'
  | TDimension p v f u, TDimension q w g u' => pos_eqb p q && nlist_eqb v w && Bool.eqb f g && nlist_eqb u u'
  | TParens p l, TParens q l' | TSquare p l, TSquare q l' | TCurly p l, TCurly q l' =>
      pos_eqb p q && list_eqb l l'
  | TFunction p n l, TFunction q n' l' => pos_eqb p q && nlist_eqb n n' && list_eqb l l'
  | _, _ => false
  end.

Fixpoint tokens_eqb (l1 l2 : list token) : bool :=
  match l1, l2 with
  | [], [] => true
  | x :: r1, y :: r2 => token_eqb x y && tokens_eqb r1 r2
  | _, _ => false
  end.

Definition compound_eqb (a b : compound) : bool :=
  match a, b with
  | CQualifiedRule p pr c, CQualifiedRule q pr' c' => pos_eqb p q && tokens_eqb pr pr' && tokens_eqb c c'
  | CAtRule p k pr c, CAtRule q k' pr' c' =>
      pos_eqb p q && nlist_eqb k k' && tokens_eqb pr pr' &&
      match c, c' with
      | None, None => true
      | Some x, Some y => tokens_eqb x y
      | _, _ => false
      end
  | CDeclaration p n v i, CDeclaration q n' v' i' => pos_eqb p q && nlist_eqb n n' && tokens_eqb v v' && Bool.eqb i i'
  | CParseError p k, CParseError q k' => pos_eqb p q && N.eqb k k'
  | CWhitespace p v, CWhitespace q w | CComment p v, CComment q w => pos_eqb p q && nlist_eqb v w
  | _, _ => false
  end.

Fixpoint compounds_eqb (l1 l2 : list compound) : bool :=
  match l1, l2 with
  | [], [] => true
  | x :: r1, y :: r2 => compound_eqb x y && compounds_eqb r1 r2
  | _, _ => false
  end.

(* position erasure: every pos becomes (0, 0) *)
Definition pos0 : pos := mkPos 0 0.
Fixpoint erase_pos (t : token) : token :=
  match t with
  | TLiteral _ v => TLiteral pos0 v | TParseError _ k => TParseError pos0 k
  | TComment _ v => TComment pos0 v | TWhitespace _ v => TWhitespace pos0 v
  | TIdent _ v => TIdent pos0 v | TAtKeyword _ v => TAtKeyword pos0 v
  | THash _ v f => THash pos0 v f | TString _ v f => TString pos0 v f | TURL _ v f => TURL pos0 v f
  | TUnicodeRange _ s e => TUnicodeRange pos0 s e
  | TNumber _ v f => TNumber pos0 v f | TPercentage _ v f => TPercentage pos0 v f
  | TDimension _ v f u => TDimension pos0 v f u
  | TParens _ l => TParens pos0 (map erase_pos l)
  | TSquare _ l => TSquare pos0 (map erase_pos l)
  | TCurly _ l => TCurly pos0 (map erase_pos l)
  | TFunction _ n l => TFunction pos0 n (map erase_pos l)
  end.
