(* Css/SerCompoundProofs2.v -- C20, declarations WITHOUT `!important`:
   the bytes written by the model of Declaration.serializeTo tokenize back
   (up to comments / positions) to name, colon, value. *)
From Verif Require Import Css.Ser Css.RetokSpec Css.SerWf Css.SerCompound
  Css.RoundTripList Css.RoundTripSep Css.RoundTripBuild Css.SerCompoundProofs.
From Coq Require Import List NArith Bool Lia String.
Import ListNotations.
Open Scope N_scope.

Definition colon_tok : token := TLiteral p0 [58].

Lemma sep_ident_colon n : separator (Some (TIdent p0 n)) colon_tok = [].
Proof. reflexivity. Qed.

Lemma sep_colon_any t : separator (Some colon_tok) t = separator None t.
Proof.
  unfold separator, colon_tok. cbn [ser_type token_kind kind_string].
  rewrite bad_pair_left_absent by (vm_compute; reflexivity). reflexivity.
Qed.

Lemma decl_tokens_wf n v :
  compound_wf (CDecl n v false) = true -> wf_tokens (compound_tokens (CDecl n v false)) = true.
Proof.
  intros Hw. cbn [compound_wf] in Hw. apply andb_true_iff in Hw as [Hk Hv].
  cbn [compound_tokens]. rewrite app_nil_r.
  cbn [wf_tokens wf_tok]. rewrite Hk, Hv. reflexivity.
Qed.

Lemma ser_decl_tokens n v s :
  compound_wf (CDecl n v false) = true ->
  ser_compound (CDecl n v false) = Ok s -> serialize (compound_tokens (CDecl n v false)) = Ok s.
Proof.
  intros Hw Hs. cbn [compound_tokens]. rewrite app_nil_r.
  cbn [ser_compound] in Hs.
  unfold serialize, serialize_from in *. fold colon_tok.
  cbn [ser_list_with ser_token].
  destruct (serialize_identifier n) as [k| |]; try discriminate Hs. cbn [bind] in *.
  unfold colon_tok at 1. cbn [ser_token bind]. fold colon_tok.
  rewrite (ser_head ser_token (Some colon_tok) None v)
    by (destruct v; [exact I|apply sep_colon_any]).
  destruct (ser_list_with ser_token None v) as [a| |]; try discriminate Hs. cbn [bind] in *.
  rewrite sep_ident_colon, separator_none. cbn [app]. rewrite app_nil_r in Hs. exact Hs.
Qed.

(* serialized declarations without `!important` tokenize back to name, colon, value *)
Theorem decl_tokenizes_back n v s :
  compound_wf (CDecl n v false) = true -> ser_compound (CDecl n v false) = Ok s ->
  norm (tokenize true s) = norm (compound_tokens (CDecl n v false)).
Proof.
  intros Hw Hs. apply roundtrip.
  - now apply decl_tokens_wf.
  - now apply ser_decl_tokens.
Qed.

(* every compound except a declaration carrying `!important` *)
Definition not_important (c : compound) : bool :=
  match c with CDecl _ _ true => false | _ => true end.

Theorem compound_tokenizes_back2 c s :
  not_important c = true -> compound_wf c = true -> ser_compound c = Ok s ->
  norm (tokenize true s) = norm (compound_tokens c).
Proof.
  intros Hc Hw Hs. destruct c as [p b|kw p b|n v [|]]; try discriminate Hc.
  - rewrite <- norm_rule_tokens. now apply compound_tokenizes_back.
  - rewrite <- norm_rule_tokens. now apply compound_tokenizes_back.
  - now apply decl_tokenizes_back.
Qed.

Theorem compound_roundtrip2 c s :
  not_important c = true -> compound_wf c = true ->
  read_back c (norm (compound_tokens c)) = Some (norm_compound c) ->
  ser_compound c = Ok s ->
  read_back c (norm (tokenize true s)) = Some (norm_compound c).
Proof. intros Hc Hw Hp Hs. rewrite (compound_tokenizes_back2 c s Hc Hw Hs). exact Hp. Qed.

(* ------------------------------------------------------------------ declarations WITH `!important` *)
Definition bang_tok : token := TLiteral p0 [33].
Definition imp_tok : token := TIdent p0 (cps "important").

(* the value does not end in a token that fuses with "!" (the delimiter "<") *)
Definition bang_ok (v : list token) : bool :=
  match last_opt None v with Some x => negb (bad_pair (ser_type x) [33]) | None => true end.

Lemma last_opt_snoc prev a e : last_opt prev (a ++ [e]) = Some e.
Proof. unfold last_opt. rewrite fold_left_app. reflexivity. Qed.

Lemma sep_last_bang v : wf_tokens v = true -> bang_ok v = true ->
  separator (last_opt None v) bang_tok = [].
Proof.
  intros Hv Hb. unfold bang_ok in Hb.
  destruct (last_not_backslash v Hv None) as [[_ ->]|(y & E & Hy & Hbs)]; [reflexivity|].
  rewrite E in *. apply negb_true_iff in Hb.
  unfold separator, bang_tok. cbn [ser_type token_kind kind_string].
  rewrite Hb, (not_backslash_type y Hy Hbs). destruct y; reflexivity.
Qed.

Lemma sep_bang_imp : separator (Some bang_tok) imp_tok = [].
Proof. vm_compute. reflexivity. Qed.

Lemma ser_imp_tok : ser_token imp_tok = Ok (cps "important").
Proof. vm_compute. reflexivity. Qed.

Lemma decl_imp_tokens_wf n v :
  compound_wf (CDecl n v true) = true -> wf_tokens (compound_tokens (CDecl n v true)) = true.
Proof.
  intros Hw. cbn [compound_wf] in Hw. apply andb_true_iff in Hw as [Hk Hv].
  cbn [compound_tokens].
  cbn [wf_tokens wf_tok]. rewrite Hk. cbn [andb backslash_ok is_backslash].
  change (wf_tokens (v ++ [bang_tok; imp_tok]) = true).
  apply wf_tokens_app; [exact Hv|vm_compute; reflexivity].
Qed.

Lemma ser_decl_imp_tokens n v s :
  compound_wf (CDecl n v true) = true -> bang_ok v = true ->
  ser_compound (CDecl n v true) = Ok s -> serialize (compound_tokens (CDecl n v true)) = Ok s.
Proof.
  intros Hw Hb Hs. cbn [compound_wf] in Hw. apply andb_true_iff in Hw as [Hk Hv].
  cbn [compound_tokens]. cbn [ser_compound] in Hs.
  unfold serialize, serialize_from in *. fold colon_tok bang_tok imp_tok.
  cbn [ser_list_with ser_token].
  destruct (serialize_identifier n) as [k| |]; try discriminate Hs. cbn [bind] in *.
  unfold colon_tok at 1. cbn [ser_token bind]. fold colon_tok.
  rewrite (ser_head ser_token (Some colon_tok) None (v ++ [bang_tok; imp_tok]))
    by (destruct v; apply sep_colon_any).
  change (v ++ [bang_tok; imp_tok]) with (v ++ [bang_tok] ++ [imp_tok]).
  rewrite app_assoc, ser_snoc, ser_snoc, last_opt_snoc, sep_bang_imp, (sep_last_bang v Hv Hb), ser_imp_tok.
  destruct (ser_list_with ser_token None v) as [a| |]; try discriminate Hs. cbn [bind] in *.
  unfold bang_tok at 1. cbn [ser_token bind].
  rewrite sep_ident_colon, separator_none. cbn [app]. rewrite ?app_nil_r.
  injection Hs as <-. f_equal. f_equal. rewrite <- !app_assoc. reflexivity.
Qed.

Theorem decl_imp_tokenizes_back n v s :
  compound_wf (CDecl n v true) = true -> bang_ok v = true -> ser_compound (CDecl n v true) = Ok s ->
  norm (tokenize true s) = norm (compound_tokens (CDecl n v true)).
Proof.
  intros Hw Hb Hs. apply roundtrip.
  - now apply decl_imp_tokens_wf.
  - now apply ser_decl_imp_tokens.
Qed.

(* every compound; for a declaration carrying `!important` the value must not end
   in a token that fuses with "!" *)
Definition compound_bang_ok (c : compound) : bool :=
  match c with CDecl _ v true => bang_ok v | _ => true end.

Theorem compound_tokenizes_back3 c s :
  compound_bang_ok c = true -> compound_wf c = true -> ser_compound c = Ok s ->
  norm (tokenize true s) = norm (compound_tokens c).
Proof.
  intros Hc Hw Hs. destruct c as [p b|kw p b|n v [|]].
  - now apply compound_tokenizes_back2.
  - now apply compound_tokenizes_back2.
  - now apply decl_imp_tokenizes_back.
  - now apply compound_tokenizes_back2.
Qed.

Theorem compound_roundtrip3 c s :
  compound_bang_ok c = true -> compound_wf c = true ->
  read_back c (norm (compound_tokens c)) = Some (norm_compound c) ->
  ser_compound c = Ok s ->
  read_back c (norm (tokenize true s)) = Some (norm_compound c).
Proof. intros Hc Hw Hp Hs. rewrite (compound_tokenizes_back3 c s Hc Hw Hs). exact Hp. Qed.
