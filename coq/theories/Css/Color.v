(* Css/Color.v -- executable model of /repo/css/parser/colors.go (C06): ParseColorString,
   ParseColor, parseAlpha, parseRgb, parseHsl, hslToRgb, parseCommaSeparated, the hash
   regular expressions and the keyword tables; and of ParseOneComponentValue
   (tokenizer.go:886-897).  NO PROOFS in this file (Css/ColorProofs.v).

   Values.  The implementation computes in float32 (`utils.Fl`) and, inside hslToRgb, in
   float64.  The model is written against a pair of rounding functions (`carith`): with the
   identity (`exactA`) it computes in exact rationals -- the instance the theorems are about
   (CSS Color 3 defines the colours as real numbers) --, with `rnd32` / `rnd64` (`floatA`)
   every float operation of the Go code is one correctly rounded IEEE operation (amd64, no
   FMA fusion, see Base/F32.v): the instance the correspondence compares, component by
   component, with the float32 values returned by the implementation printed as exact
   rationals.

   ValueF of a numeric token = float32(strconv.ParseFloat(repr, 32)) = r32 (repr_value repr);
   numberVal.Int() = int(ValueF) = truncation; IsInt() = the token's integer flag, which the
   tokenizer computed from the REPRESENTATION (strconv.ParseInt succeeds: optional sign and
   decimal digits only, within int64), NOT from the value: "255.0" and "1e2" are not integers.

   Slice indices: args[0..2], args[3:], args[:3], filtered[i+1] are all guarded by the length
   tests modelled here as list patterns; that no index can go out of range is the subject of
   C07 (Css/ColorMq.v, the same code in the Panic monad, `C07_parse_color_total`). *)
From Verif Require Export Base.GoSem Css.Token Css.Tok Css.Parse Css.ColorTables.
From Verif Require Import Base.F32.
From Coq Require Import List NArith ZArith Bool QArith Qround Qabs.
Import ListNotations.
Open Scope N_scope.

Record carith := mkArith { r32 : Q -> Q; r64 : Q -> Q }.
Definition exactA : carith := mkArith (fun q => q) (fun q => q).
Definition floatA : carith := mkArith rnd32 rnd64.

(* Color, colors.go:262-265: Type (ColorInvalid / ColorCurrentColor / ColorRGBA) + RGBA *)
Inductive color : Type :=
| ColorInvalid
| ColorCurrent
| ColorRGBA (r g b a : Q).

Definition Qltb (x y : Q) : bool := negb (Qle_bool y x).
Definition minF (x y : Q) : Q := if Qltb x y then x else y.        (* utils/math.go:21 *)
Definition maxF (x y : Q) : Q := if Qltb y x then x else y.        (* utils/math.go:28 *)

Definition value_f (A : carith) (repr : str) : Q := r32 A (repr_value repr).
(* the components of the tables: utils.Fl(v) / 255. *)
Definition byte_f (A : carith) (n : N) : Q := r32 A (inject_Z (Z.of_N n) / 255).

(* ------------------------------------------------------------------ ParseOneComponentValue, tokenizer.go:886 *)
Definition parse_one_component_value (input : list token) : token :=
  match next_significant input with
  | (None, _) => TParseError (mkPos 1 1) errEmpty
  | (Some first, rest) =>
      match next_significant rest with
      | (Some second, _) => TParseError (token_pos second) errExtraInput
      | (None, _) => first
      end
  end.

(* ------------------------------------------------------------------ parseCommaSeparated, colors.go:455-472 *)
Definition s_comma : str := [44].
(* filtered[1:] read as (separator, argument) pairs: every separator must be a "," literal *)
Fixpoint pcs_pairs (l : list token) : option (list token) :=
  match l with
  | [] => Some []
  | c :: t :: r =>
      if is_literal c s_comma then match pcs_pairs r with Some o => Some (t :: o) | None => None end
      else None
  | [_] => None                                   (* even length: len(filtered)%2 == 1 fails *)
  end.

(* None = nil *)
Definition parse_comma_separated (tokens : list token) : option (list token) :=
  match filter (fun t => negb (is_ws_or_comment t)) tokens with
  | [] => None
  | first :: r => match pcs_pairs r with Some o => Some (first :: o) | None => None end
  end.

(* ------------------------------------------------------------------ arguments *)
(* args[i].(Number) && n.IsInt() *)
Definition as_int_number (t : token) : option str :=
  match t with TNumber _ repr true => Some repr | _ => None end.
Definition as_number (t : token) : option str :=
  match t with TNumber _ repr _ => Some repr | _ => None end.
Definition as_percentage (t : token) : option str :=
  match t with TPercentage _ repr _ => Some repr | _ => None end.

(* parseAlpha, colors.go:354-365 *)
Definition parse_alpha (A : carith) (args : list token) : option Q :=
  match args with
  | [t] => match as_number t with
           | Some repr => Some (minF 1 (maxF 0 (value_f A repr)))
           | None => None
           end
  | _ => None
  end.

(* parseRgb, colors.go:369-390 *)
Definition parse_rgb (A : carith) (args : list token) (alpha : Q) : option color :=
  match args with
  | [a0; a1; a2] =>
      match as_int_number a0, as_int_number a1, as_int_number a2 with
      | Some r, Some g, Some b =>
          Some (ColorRGBA (r32 A (value_f A r / 255)) (r32 A (value_f A g / 255)) (r32 A (value_f A b / 255)) alpha)
      | _, _, _ =>
          match as_percentage a0, as_percentage a1, as_percentage a2 with
          | Some r, Some g, Some b =>
              Some (ColorRGBA (r32 A (value_f A r / 100)) (r32 A (value_f A g / 100)) (r32 A (value_f A b / 100)) alpha)
          | _, _, _ => None
          end
      end
  | _ => None
  end.

(* hueToRgb closure, colors.go:422-439; float64 *)
Definition hue_to_rgb (A : carith) (m1 m2 h : Q) : Q :=
  let h := if Qltb h 0 then r64 A (h + 1) else h in
  let h := if Qltb 1 h then r64 A (h - 1) else h in
  if Qltb (r64 A (h * 6)) 1 then
    r32 A (r64 A (m1 + r64 A (r64 A (r64 A (m2 - m1) * h) * 6)))
  else if Qltb (r64 A (h * 2)) 1 then r32 A m2
  else if Qltb (r64 A (h * 3)) 2 then
    r32 A (r64 A (m1 + r64 A (r64 A (r64 A (m2 - m1) * r64 A (r64 A (2 # 3) - h)) * 6)))
  else r32 A m1.

(* hslToRgb, colors.go:415-449; _hue is an int, saturation / lightness are the ValueF of the percentages *)
Definition hsl_to_rgb (A : carith) (hue_int : Z) (saturation lightness : Q) : Q * Q * Q :=
  let hue := r64 A (r64 A (inject_Z hue_int) / 360) in
  let hue := r64 A (hue - inject_Z (Qfloor hue)) in
  let s := minF 1 (maxF 0 (r32 A (saturation / 100))) in
  let l := minF 1 (maxF 0 (r32 A (lightness / 100))) in
  let m2 := if Qle_bool l (1 # 2) then r32 A (l * r32 A (s + 1))
            else r32 A (r32 A (l + s) - r32 A (l * s)) in
  let m1 := r64 A (r32 A (l * 2) - m2) in
  (hue_to_rgb A m1 m2 (r64 A (hue + r64 A (1 # 3))),
   hue_to_rgb A m1 m2 hue,
   hue_to_rgb A m1 m2 (r64 A (hue - r64 A (1 # 3)))).

(* parseHsl, colors.go:394-407 *)
Definition parse_hsl (A : carith) (args : list token) (alpha : Q) : option color :=
  match args with
  | [a0; a1; a2] =>
      match as_int_number a0, as_percentage a1, as_percentage a2 with
      | Some h, Some s, Some l =>
          let '(r, g, b) := hsl_to_rgb A (q_trunc (value_f A h)) (value_f A s) (value_f A l) in
          Some (ColorRGBA r g b alpha)
      | _, _, _ => None
      end
  | _ => None
  end.

(* ------------------------------------------------------------------ hash colours, colors.go:17-20, 310-319 *)
(* (?i)^([\da-f])([\da-f])([\da-f])$ with multiplier 2, (?i)^([\da-f]{2})([\da-f]{2})([\da-f]{2})$ with 1 *)
Definition hash_groups (v : str) : option (str * str * str) :=
  if forallb is_hex v then
    match v with
    | [a; b; c] => Some ([a; a], [b; b], [c; c])            (* strings.Repeat(match[i], 2) *)
    | [a; b; c; d; e; f] => Some ([a; b], [c; d], [e; f])
    | _ => None
    end
  else None.

Definition hash_color (A : carith) (v : str) : color :=
  match hash_groups v with
  | Some (r, g, b) =>                                        (* mustParseHexa(..) / 255 *)
      ColorRGBA (byte_f A (hex_value r)) (byte_f A (hex_value g)) (byte_f A (hex_value b)) 1
  | None => ColorInvalid
  end.

(* ------------------------------------------------------------------ keywords, colors.go:14-212 *)
Fixpoint assoc {B} (k : str) (l : list (str * B)) : option B :=
  match l with
  | [] => None
  | (k', v) :: r => if str_eqb k k' then Some v else assoc k r
  end.

Definition s_currentcolor : str := [99; 117; 114; 114; 101; 110; 116; 99; 111; 108; 111; 114].
Definition s_transparent : str := [116; 114; 97; 110; 115; 112; 97; 114; 101; 110; 116].

(* ColorKeywords[lower]: init() copies special, then basic, then extended (the later ones overwrite) *)
Definition keyword_color (A : carith) (lower : str) : color :=
  let of_rgb := fun '(r, g, b) => ColorRGBA (byte_f A r) (byte_f A g) (byte_f A b) 1 in
  match assoc lower go_extended with
  | Some c => of_rgb c
  | None =>
      match assoc lower go_basic with
      | Some c => of_rgb c
      | None =>
          if str_eqb lower s_currentcolor then ColorCurrent
          else if str_eqb lower s_transparent then ColorRGBA 0 0 0 0
          else ColorInvalid
      end
  end.

(* ------------------------------------------------------------------ ParseColor, colors.go:299-352 *)
Definition s_rgb : str := [114; 103; 98].
Definition s_rgba : str := [114; 103; 98; 97].
Definition s_hsl : str := [104; 115; 108].
Definition s_hsla : str := [104; 115; 108; 97].

Definition or_invalid (o : option color) : color := match o with Some c => c | None => ColorInvalid end.

(* case "rgba" / "hsla": len(args) < 3 -> invalid; parseAlpha(args[3:]); f(args[:3], alpha) *)
Definition with_alpha (A : carith) (args : list token) (f : list token -> Q -> option color) : color :=
  if (length args <? 3)%nat then ColorInvalid
  else match parse_alpha A (skipn 3 args) with
       | Some alpha => or_invalid (f (firstn 3 args) alpha)
       | None => ColorInvalid
       end.

Definition parse_color (A : carith) (t : token) : color :=
  match t with
  | TIdent _ v => keyword_color A (ascii_lower v)
  | THash _ v _ => hash_color A v
  | TFunction _ name arguments =>
      match parse_comma_separated arguments with
      | None => ColorInvalid                                   (* len(args) == 0 *)
      | Some args =>
          let name := ascii_lower name in
          if str_eqb name s_rgb then or_invalid (parse_rgb A args 1)
          else if str_eqb name s_rgba then with_alpha A args (parse_rgb A)
          else if str_eqb name s_hsl then or_invalid (parse_hsl A args 1)
          else if str_eqb name s_hsla then with_alpha A args (parse_hsl A)
          else ColorInvalid
      end
  | _ => ColorInvalid
  end.

(* ParseColorString, colors.go:286-289 *)
Definition parse_color_string (A : carith) (fx : bool) (s : list N) : res color :=
  let* ts := tokenize fx true s in Ok (parse_color A (parse_one_component_value ts)).

(* ------------------------------------------------------------------ domain of the float instance *)
(* ParseFloat overflows to +-Inf beyond the float32 range, and int(ValueF) of 2^63 (the float32 nearest to the largest
   int64 literals) is implementation-dependent: such inputs are outside the modelled domain (Check: skipped) *)
Definition repr_in_domain (repr : str) : bool :=
  let v := repr_value repr in
  in_range32 v && Qltb (Qabs (rnd32 v)) (inject_Z (2 ^ 63)).

Fixpoint tokens_in_domain (l : list token) : bool :=
  match l with
  | [] => true
  | t :: r =>
      (match t with
       | TNumber _ repr _ | TPercentage _ repr _ => repr_in_domain repr
       | _ => true
       end) && tokens_in_domain r
  end.

Definition color_in_domain (t : token) : bool :=
  match t with
  | TFunction _ _ args => tokens_in_domain args
  | _ => true
  end.
