(* Css/DefaultingCopyProofs.v -- a copied style computes what its source computes.

   `node_at t dst = node_at t src` (the copy is built from the same inputs).  Then
   * the cache-free semantics of the two nodes is the same (dup_computed), and
   * Copy() (DefaultingCopy.copy_style) preserves the invariant of cache transparency:
     what it carries over from the source (cache, root font size) and what it computes
     again (specified position / display / float) equal their cache-free values, so
   * in every well-formed history of constructions, Gets and copies, every Get -- on a
     copy as on any other style -- returns `computed` (copy_transparent_hist), which for
     a copy is `computed` of its source (copy_get_is_source). *)
From Verif Require Import Css.Defaulting Css.DefaultingCopy Css.DefaultingProofs.
From Coq Require Import Lia ZifyBool ZifyNat ZifyN FMapPositive List.
Import ListNotations.
Open Scope N_scope.

Lemma find_cache_update c o k :
  PositiveMap.find k (cache_update c o) =
  match PositiveMap.find k o with Some v => Some v | None => PositiveMap.find k c end.
Proof. unfold cache_update. rewrite PositiveMap.gmap2 by reflexivity. reflexivity. Qed.

Section CopyProofs.
  Variable ar : arith.
  Variable fx : bool.
  Variable t : tree.
  Hypothesis WF : wf_tree t = true.

  Notation comp := (computed ar fx t).
  Notation rfs0 := (root_fs_pure ar fx t).
  Notation cchain := (computed_chain ar fx t rfs0).
  Notation InvN := (InvNode ar fx t).

  Definition anc_of (nd : node) : list N := match n_parent nd with Some j => chain_of t j | None => [] end.

  Lemma dup_cap_rootfs src dst nd :
    node_at t src = Some nd -> node_at t dst = Some nd -> cap_rootfs ar fx t dst = cap_rootfs ar fx t src.
  Proof.
    intros Es Ed. unfold cap_rootfs. rewrite (chain_of_step t WF src nd Es), (chain_of_step t WF dst nd Ed).
    destruct (match n_parent nd with Some j => chain_of t j | None => [] end); reflexivity.
  Qed.

  Lemma dup_cap_spec src dst nd q :
    node_at t src = Some nd -> node_at t dst = Some nd -> cap_spec ar fx t dst q = cap_spec ar fx t src q.
  Proof.
    intros Es Ed. unfold cap_spec. rewrite Es, Ed, (chain_of_step t WF src nd Es), (chain_of_step t WF dst nd Ed).
    reflexivity.
  Qed.

  (* duplicates have the same computed values *)
  Theorem dup_computed src dst nd p :
    node_at t src = Some nd -> node_at t dst = Some nd -> comp dst p = comp src p.
  Proof.
    intros Es Ed.
    destruct (comp_unfold ar fx t WF src nd Es) as (_ & _ & Hs).
    destruct (comp_unfold ar fx t WF dst nd Ed) as (_ & _ & Hd).
    rewrite Hs, Hd, (dup_cap_rootfs src dst nd Es Ed). reflexivity.
  Qed.

  (* a state that is sound for the source is sound for the duplicate *)
  Lemma SInv_dup src dst nd s :
    node_at t src = Some nd -> node_at t dst = Some nd -> SInv ar fx t src s -> SInv ar fx t dst s.
  Proof.
    intros Es Ed (H1 & H2 & H3). split; [|split].
    - intros p v Hf. rewrite (dup_computed src dst nd p Es Ed). exact (H1 p v Hf).
    - intros nd' En' Ek'. rewrite Ed in En'. inversion En'; subst nd'.
      destruct (H2 nd Es Ek') as (A & B & C & D).
      rewrite (dup_cap_rootfs src dst nd Es Ed), !(dup_cap_spec src dst nd _ Es Ed). auto.
    - intros nd' En' Ek'. rewrite Ed in En'. inversion En'; subst nd'. exact (H3 nd Es Ek').
  Qed.

  Lemma src_not_in_chain src dst nd :
    node_at t src = Some nd -> node_at t dst = Some nd -> src <> dst -> ~ In src (chain_of t dst).
  Proof.
    intros Es Ed Hne. destruct (comp_unfold ar fx t WF src nd Es) as (_ & Hni & _).
    rewrite (chain_of_step t WF dst nd Ed). intros [H|H]; [congruence|exact (Hni H)].
  Qed.

  (* the specified position / display / float computed again by newComputedStyle *)
  Lemma spec_ok n nd anc :
    node_at t n = Some nd -> chain_of t n = n :: anc ->
    getter_ok ar fx t (fun st q => get_chain ar fx t anc st q) (cchain anc) (fun m => In m anc) ->
    forall s q, (forall m, In m anc -> InvN s m) ->
      let r := run_st (parent_handler (is_last anc) (fun st q => get_chain ar fx t anc st q)) s
                      (cascade_value fx (is_last anc) nd q) in
      (forall v b, snd r = Ok (v, b) -> agrees (Ok v) (cap_spec ar fx t n q)) /\
      (forall m, In m anc -> InvN (fst r) m) /\ frame (fun m => In m anc) s (fst r).
  Proof.
    intros En Ec Hpar s q Hs r.
    destruct (run_st_ok (parent_handler (is_last anc) (fun st q => get_chain ar fx t anc st q))
                (parent_env (is_last anc) (cchain anc))
                (fun s => (forall m, In m anc -> InvN s m) /\ True)
                (frame (fun m => In m anc)) (frame_refl _) (frame_trans _)
                (parent_handler_ok ar fx t anc _ _ (cchain anc) (fun _ => True) Hpar (fun _ _ _ _ => I))
                (cascade_value fx (is_last anc) nd q) s (conj Hs I)) as (R & [Ia _] & F).
    fold r in R, Ia, F. split; [|split; assumption].
    intros v b Hr w Hw. unfold cap_spec in Hw. rewrite En, Ec in Hw. unfold specified in Hw.
    destruct (run_pure (parent_env (is_last anc) (cchain anc)) (cascade_value fx (is_last anc) nd q)) as [[v1 b1]| |] eqn:Ep;
      try discriminate.
    cbn in Hw. inversion Hw; subst. specialize (R _ eq_refl). rewrite Hr in R. inversion R; subst. reflexivity.
  Qed.

  (* Copy() preserves the invariant *)
  Lemma copy_ok src dst nd st st' :
    node_at t src = Some nd -> node_at t dst = Some nd -> src <> dst ->
    (forall m, In m (chain_of t dst) -> m <> dst -> InvN st m) ->
    InvN st src ->
    copy_style ar fx t st src dst = (st', Ok tt) ->
    (forall m, In m (chain_of t dst) -> InvN st' m) /\ frame (fun m => In m (chain_of t dst)) st st'.
  Proof.
    intros Es Ed Hne HI Hsrc.
    destruct (comp_unfold ar fx t WF dst nd Ed) as (Ec & Hni & _).
    pose proof (src_not_in_chain src dst nd Es Ed Hne) as Hsn.
    set (anc := match n_parent nd with Some j => chain_of t j | None => [] end) in *.
    assert (Hsa : ~ In src anc) by (intros H; apply Hsn; rewrite Ec; right; exact H).
    assert (HIanc : forall m, In m anc -> InvN st m).
    { intros m Hm. apply HI; [rewrite Ec; right; exact Hm|]. intros ->. contradiction. }
    assert (Hpar : getter_ok ar fx t (fun st q => get_chain ar fx t anc st q) (cchain anc) (fun m => In m anc)).
    { subst anc. destruct (n_parent nd) as [j|] eqn:Ep.
      - destruct (node_at_parent t WF dst nd j Ed Ep) as [ndj Ej]. apply (get_ok ar fx t WF j ndj Ej).
      - intros s q H. cbn. split; [apply agrees_refl|]. split; [exact H|apply frame_refl]. }
    unfold copy_style. rewrite Ed, Ec.
    destruct (n_kind nd) eqn:Ek.
    - (* *ComputedStyle *)
      destruct (spec_ok dst nd anc Ed Ec Hpar st PPosition HIanc) as (A2 & I2 & F2).
      destruct (run_st _ st (cascade_value fx (is_last anc) nd PPosition)) as [st2 r2]. cbn [fst snd] in A2, I2, F2.
      destruct r2 as [[pos b2]| |]; try (intros H; discriminate H).
      destruct (spec_ok dst nd anc Ed Ec Hpar st2 PDisplay I2) as (A3 & I3 & F3).
      destruct (run_st _ st2 (cascade_value fx (is_last anc) nd PDisplay)) as [st3 r3]. cbn [fst snd] in A3, I3, F3.
      destruct r3 as [[disp b3]| |]; try (intros H; discriminate H).
      destruct (spec_ok dst nd anc Ed Ec Hpar st3 PFloat I3) as (A4 & I4 & F4).
      destruct (run_st _ st3 (cascade_value fx (is_last anc) nd PFloat)) as [st4 r4]. cbn [fst snd] in A4, I4, F4.
      destruct r4 as [[fl b4]| |]; try (intros H; discriminate H).
      intros H. apply (f_equal fst) in H. cbn [fst] in H. subst st'.
      assert (S4 : style_of st4 src = style_of st src).
      { rewrite (F4 src Hsa), (F3 src Hsa). apply F2, Hsa. }
      rewrite S4. destruct Hsrc as (C1 & C2 & C3). split.
      + intros m [<-|Hm].
        * unfold InvNode. rewrite style_of_add, N.eqb_refl. split; [|split].
          -- cbn [s_cache]. intros q w. rewrite find_cache_update, PositiveMap.gempty.
             destruct (PositiveMap.find (nkey q) (s_cache (style_of st src))) as [v|] eqn:Ef; [|discriminate].
             intros [= <-]. rewrite (dup_computed src dst nd q Es Ed). exact (C1 q v Ef).
          -- intros nd' _ Ek'. cbn [s_rootfs s_pos s_disp s_float].
             destruct (C2 nd Es Ek) as (B1 & _).
             rewrite (dup_cap_rootfs src dst nd Es Ed).
             repeat split; [exact B1|apply (A2 _ _ eq_refl)|apply (A3 _ _ eq_refl)|apply (A4 _ _ eq_refl)].
          -- intros nd' En' Ek'. rewrite Ed in En'. inversion En'; subst. congruence.
        * apply InvNode_add_other; [intros ->; contradiction|apply I4, Hm].
      + intros m Hm. rewrite style_of_add.
        destruct (N.eqb_spec m dst) as [->|]; [exfalso; apply Hm; left; reflexivity|].
        assert (Hm' : ~ In m anc) by (intros Hin; apply Hm; right; exact Hin).
        rewrite (F4 m Hm'), (F3 m Hm'). apply F2, Hm'.
    - (* *AnonymousStyle *)
      pose proof (construct_ok ar fx t WF dst nd st) as Cn.
      destruct (construct ar fx t st dst) as [st1 r1].
      destruct (Cn st1 r1 Ed HI eq_refl) as [Hinv _].
      destruct r1 as [[]| |]; try (intros H; discriminate H).
      destruct (Hinv eq_refl) as [B C]. rewrite Ec in B, C.
      intros H. apply (f_equal fst) in H. cbn [fst] in H. subst st'.
      assert (S1 : style_of st1 src = style_of st src).
      { apply C. rewrite <- Ec. exact Hsn. }
      rewrite S1. destruct Hsrc as (C1 & C2 & C3).
      destruct (B dst (or_introl eq_refl)) as (D1 & D2 & D3). split.
      + intros m [<-|Hm].
        * unfold InvNode. rewrite style_of_add, N.eqb_refl. split; [|split].
          -- cbn [s_cache with_cache]. intros q w. rewrite find_cache_update.
             destruct (PositiveMap.find (nkey q) (s_cache (style_of st src))) as [v|] eqn:Ef.
             ++ intros [= <-]. rewrite (dup_computed src dst nd q Es Ed). exact (C1 q v Ef).
             ++ intros Hq. exact (D1 q w Hq).
          -- intros nd' En' Ek'. rewrite Ed in En'. inversion En'; subst. congruence.
          -- intros nd' _ _ q Hq. cbn [s_cache with_cache]. rewrite find_cache_update.
             rewrite (C3 nd Es Ek q Hq). reflexivity.
        * apply InvNode_add_other; [intros ->; contradiction|apply B; right; exact Hm].
      + intros m Hm. rewrite style_of_add.
        destruct (N.eqb_spec m dst) as [->|]; [exfalso; apply Hm; left; reflexivity|].
        apply C, Hm.
  Qed.

  (* ---------------------------------------------------------------- histories with copies *)

  (* a style is used / copied only after it has been constructed; a copy duplicates its source *)
  Fixpoint xhist_ok (c : list N) (ops : list xop) : Prop :=
    match ops with
    | [] => True
    | XGet n p :: r => In n c /\ xhist_ok c r
    | XConstruct n :: r =>
        (exists nd, node_at t n = Some nd /\ forall j, n_parent nd = Some j -> In j c) /\ xhist_ok (n :: c) r
    | XCopy src dst :: r =>
        (In src c /\ src <> dst /\ exists nd, node_at t src = Some nd /\ node_at t dst = Some nd) /\ xhist_ok (dst :: c) r
    end.

  Definition xsucceed (ops : list xop) (rs : list (res (option value))) : Prop :=
    Forall2 (fun o r => match o with XGet _ _ => True | _ => r = Ok None end) ops rs.

  Definition xgets_agree (ops : list xop) (rs : list (res (option value))) : Prop :=
    Forall2 (fun o r => match o with
                        | XGet n p => agrees r (res_map Some (comp n p))
                        | _ => True
                        end) ops rs.

  Lemma copy_transparent_hist_gen : forall ops c st,
    closed t c -> (forall m, In m c -> InvN st m) -> xhist_ok c ops ->
    xsucceed ops (snd (run_xops ar fx t st ops)) ->
    xgets_agree ops (snd (run_xops ar fx t st ops)).
  Proof.
    induction ops as [|o ops IH]; intros c st Hc HI Hh Hs; cbn [run_xops].
    - constructor.
    - cbn [run_xops] in Hs. destruct o as [n p|n|src dst]; cbn [xstep step] in *.
      + destruct Hh as [Hn Hh]. destruct (Hc n Hn) as (nd & En & _).
        pose proof (get_ok ar fx t WF n nd En st p) as G. unfold get in *.
        destruct (get_chain ar fx t (chain_of t n) st p) as [st' r].
        destruct G as (A & B & C). { intros m Hm. apply HI. apply (closed_chain t WF c Hc n Hn m Hm). }
        cbn [fst snd] in A, B, C.
        assert (HI' : forall m, In m c -> InvN st' m).
        { intros m Hm. destruct (in_dec N.eq_dec m (chain_of t n)) as [Hin|Hnin]; [apply B, Hin|].
          eapply InvNode_same; [apply C, Hnin|apply HI, Hm]. }
        specialize (IH c st' Hc HI' Hh).
        destruct (run_xops ar fx t st' ops) as [st'' xs]. cbn [snd] in *.
        inversion Hs; subst. constructor; [|apply IH; assumption].
        intros a Ha. destruct (comp n p) as [v| |]; cbn in Ha; try discriminate.
        inversion Ha; subst. now rewrite (A v eq_refl).
      + destruct Hh as [(nd & En & Hp) Hh].
        pose proof (fun st' r => construct_ok ar fx t WF n nd st st' r) as Cn.
        destruct (construct ar fx t st n) as [st' r].
        destruct (run_xops ar fx t st' ops) as [st'' xs] eqn:Er. cbn [snd] in *.
        inversion Hs; subst. constructor; [exact I|].
        destruct r as [[]| |]; cbn in H2; try discriminate.
        assert (Hc' : closed t (n :: c)).
        { intros m [<-|Hm].
          - exists nd. split; [exact En|]. intros j Hj. right. apply Hp, Hj.
          - destruct (Hc m Hm) as (ndm & Em & Hpm). exists ndm. split; [exact Em|]. intros j Hj. right. apply Hpm, Hj. }
        assert (Hchain : forall m, In m (chain_of t n) -> m <> n -> In m c).
        { intros m Hm Hne. destruct (closed_chain t WF (n :: c) Hc' n (or_introl eq_refl) m Hm) as [->|H]; [congruence|exact H]. }
        destruct (proj1 (Cn st' (Ok tt) En (fun m Hm Hne => HI m (Hchain m Hm Hne)) eq_refl) eq_refl) as [B C].
        assert (HI' : forall m, In m (n :: c) -> InvN st' m).
        { intros m Hm. destruct (in_dec N.eq_dec m (chain_of t n)) as [Hin|Hnin]; [apply B, Hin|].
          destruct Hm as [<-|Hm].
          - exfalso. apply Hnin. rewrite (chain_of_step t WF n nd En). left. reflexivity.
          - eapply InvNode_same; [apply C, Hnin|apply HI, Hm]. }
        specialize (IH (n :: c) st' Hc' HI' Hh). rewrite Er in IH. apply IH. assumption.
      + destruct Hh as [(Hsrc & Hne & nd & Es & Ed) Hh].
        pose proof (fun st' => copy_ok src dst nd st st' Es Ed Hne) as Cp.
        destruct (copy_style ar fx t st src dst) as [st' r].
        destruct (run_xops ar fx t st' ops) as [st'' xs] eqn:Er. cbn [snd] in *.
        inversion Hs; subst. constructor; [exact I|].
        destruct r as [[]| |]; cbn in H2; try discriminate.
        destruct (Hc src Hsrc) as (nds & Es' & Hps). rewrite Es in Es'. inversion Es'; subst nds.
        assert (Hc' : closed t (dst :: c)).
        { intros m [<-|Hm].
          - exists nd. split; [exact Ed|]. intros j Hj. right. apply Hps, Hj.
          - destruct (Hc m Hm) as (ndm & Em & Hpm). exists ndm. split; [exact Em|]. intros j Hj. right. apply Hpm, Hj. }
        assert (Hchain : forall m, In m (chain_of t dst) -> m <> dst -> In m c).
        { intros m Hm Hne'. destruct (closed_chain t WF (dst :: c) Hc' dst (or_introl eq_refl) m Hm) as [->|H]; [congruence|exact H]. }
        destruct (Cp st' (fun m Hm Hne' => HI m (Hchain m Hm Hne')) (HI src Hsrc) eq_refl) as [B C].
        assert (HI' : forall m, In m (dst :: c) -> InvN st' m).
        { intros m Hm. destruct (in_dec N.eq_dec m (chain_of t dst)) as [Hin|Hnin]; [apply B, Hin|].
          destruct Hm as [<-|Hm].
          - exfalso. apply Hnin. rewrite (chain_of_step t WF dst nd Ed). left. reflexivity.
          - eapply InvNode_same; [apply C, Hnin|apply HI, Hm]. }
        specialize (IH (dst :: c) st' Hc' HI' Hh). rewrite Er in IH. apply IH. assumption.
  Qed.

  (* from the empty state: every Get of a history with copies returns the cache-free value *)
  Theorem copy_transparent_hist ops :
    xhist_ok [] ops ->
    xsucceed ops (snd (run_xops ar fx t empty_styles ops)) ->
    xgets_agree ops (snd (run_xops ar fx t empty_styles ops)).
  Proof.
    intros Hh Hs. apply (copy_transparent_hist_gen ops [] empty_styles); try assumption.
    - intros m [].
    - intros m [].
  Qed.

  Theorem copy_transparent ops :
    xhist_ok [] ops ->
    xsucceed ops (snd (run_xops ar fx t empty_styles ops)) ->
    Forall2 (fun o r => match o with
                        | XGet n p => forall v, comp n p = Ok v -> r = Ok (Some v)
                        | _ => True
                        end) ops (snd (run_xops ar fx t empty_styles ops)).
  Proof.
    intros Hh Hs. pose proof (copy_transparent_hist ops Hh Hs) as H. unfold xgets_agree in H.
    clear Hh Hs. induction H as [|o r l l' Hor _ IH]; constructor; [|exact IH].
    destruct o as [n p|n|a b]; try exact I. intros v Hv. apply (Hor (Some v)). rewrite Hv. reflexivity.
  Qed.
End CopyProofs.
