(* Css/RoundTripList.v -- property C20, list level (flat streams): lexing the
   serialization of a well-formed token list gives back its flat token stream,
   up to the merging of consecutive whitespace tokens. *)
From Coq Require Import String.
From Verif Require Import Css.Ser Css.RetokSpec Css.SerWf Css.SerProofs Css.RoundTripTok Css.RoundTripSep.
From Coq Require Import List NArith Bool Lia ZifyBool ZifyN ZifyNat.
Import ListNotations.
Open Scope N_scope.

(* ------------------------------------------------------------------ runs of the lexer, without fuel *)
Inductive lexes : list N -> list ftok -> Prop :=
| lexes_nil : lexes [] []
| lexes_step s ts k out :
    s <> [] -> lex_step true s = (ts, k) -> (length k < length s)%nat -> lexes k out ->
    lexes s (ts ++ out).

Lemma lexes_lex s out : lexes s out -> forall f, (length s < f)%nat -> lex true f s = out.
Proof.
  induction 1 as [|s ts k out Hne Hstep Hlen _ IH]; intros f Hf.
  - destruct f; reflexivity.
  - destruct f; [lia|]. cbn [lex]. destruct s as [|c s']; [contradiction|].
    rewrite Hstep. rewrite IH by lia. reflexivity.
Qed.

(* ------------------------------------------------------------------ mergews *)
Lemma mergews_cons_cong x a b : mergews a = mergews b -> mergews (x :: a) = mergews (x :: b).
Proof. intros H. destruct x as [t| | |]; cbn [mergews]; rewrite H; reflexivity. Qed.

Lemma mergews_app_cong l a b : mergews a = mergews b -> mergews (l ++ a) = mergews (l ++ b).
Proof. intros H. induction l as [|x l IH]; [exact H|]. cbn [app]. apply mergews_cons_cong, IH. Qed.

Lemma mergews_ws_ws a b o :
  mergews (FTok (TWhitespace p0 (a ++ b)) :: o) =
  mergews (FTok (TWhitespace p0 a) :: FTok (TWhitespace p0 b) :: o).
Proof.
  cbn [mergews]. destruct (mergews o) as [|[t| | |] r']; try reflexivity.
  destruct t; try reflexivity. rewrite app_assoc. reflexivity.
Qed.

(* ------------------------------------------------------------------ sizes, unfolding of nested definitions *)
Fixpoint tsize (t : token) : nat :=
  match t with
  | TParens _ l | TSquare _ l | TCurly _ l | TFunction _ _ l => S (list_sum (map tsize l))
  | _ => 1
  end.
Definition lsize (l : list token) : nat := list_sum (map tsize l).

Lemma tsize_pos t : (1 <= tsize t)%nat.
Proof. destruct t; cbn; lia. Qed.

Lemma wf_seq_eq l :
  (fix wf_seq (l : list token) : bool :=
     match l with
     | [] => true
     | x :: r => wf_tok x && backslash_ok x r && wf_seq r
     end) l = wf_tokens l.
Proof. induction l as [|x r IH]; [reflexivity|]. cbn [wf_tokens]. rewrite <- IH. reflexivity. Qed.

Lemma wf_parens p l : wf_tok (TParens p l) = wf_tokens l.
Proof. cbn [wf_tok]. apply wf_seq_eq. Qed.
Lemma wf_square p l : wf_tok (TSquare p l) = wf_tokens l.
Proof. cbn [wf_tok]. apply wf_seq_eq. Qed.
Lemma wf_curly p l : wf_tok (TCurly p l) = wf_tokens l.
Proof. cbn [wf_tok]. apply wf_seq_eq. Qed.
Lemma wf_function p n l :
  wf_tok (TFunction p n l) = name_val n && wf_tokens l && (negb (is_url_name n) || url_args l).
Proof. cbn [wf_tok]. rewrite wf_seq_eq. reflexivity. Qed.

Lemma serialize_from_cons prev t r :
  serialize_from prev (t :: r) =
  let* a := ser_token t in let* b := serialize_from (Some t) r in Ok (separator prev t ++ a ++ b).
Proof. reflexivity. Qed.

(* ------------------------------------------------------------------ the boundary invariant along a list *)
Definition kclose (k : list N) : Prop := k = [] \/ exists c x, k = c :: x /\ is_close c = true.

Lemma follow_ok_kclose t k : is_backslash t = false -> kclose k -> follow_ok t k = true.
Proof.
  intros Hb [->|(c & x & -> & Hc)]; [apply follow_ok_nil, Hb|apply follow_ok_close; auto].
Qed.

Lemma follow_chain r : forall t k sr,
  wf_tok t = true -> wf_tokens r = true -> backslash_ok t r = true ->
  serialize_from (Some t) r = Ok sr -> kclose k -> follow_ok t (sr ++ k) = true.
Proof.
  induction r as [|t2 r' IH]; intros t k sr Hw Hwr Hbs Hs Hk.
  - cbn in Hs. injection Hs as <-. cbn [app]. apply follow_ok_kclose; auto.
    unfold backslash_ok in Hbs. destruct (is_backslash t); [discriminate|reflexivity].
  - rewrite serialize_from_cons in Hs.
    apply bind_ok in Hs as (a & Ha & Hs). apply bind_ok in Hs as (b & Hb & Hs). injection Hs as <-.
    cbn [wf_tokens] in Hwr. apply andb_true_iff in Hwr as [Hwr Hwr']. apply andb_true_iff in Hwr as [Hw2 Hbs2].
    rewrite <- !app_assoc. apply (sep_ok t t2 r'); auto.
Qed.

(* ------------------------------------------------------------------ whitespace in front of a lexed text *)
Lemma lexes_ws w x o :
  nonempty w = true -> forallb whitespace w = true -> lexes x o ->
  exists o', lexes (w ++ x) o' /\ mergews o' = mergews (FTok (TWhitespace p0 w) :: o).
Proof.
  intros Hn Hw Hx.
  pose proof (lex_whitespace true w x Hn Hw) as Hstep.
  assert (Hne : w ++ x <> []) by (destruct w; [discriminate|discriminate]).
  destruct x as [|c x'].
  - cbn [span fst snd] in Hstep. rewrite !app_nil_r in *.
    exists ([FTok (TWhitespace p0 w)] ++ o). split; [|reflexivity].
    eapply lexes_step; eauto. destruct w; [discriminate|cbn; lia].
  - destruct (whitespace c) eqn:Hc.
    + (* the text itself starts with whitespace: its first token is merged *)
      inversion Hx as [|s ts k out Hne' Hst Hlen Hrest]; subst.
      unfold lex_step in Hst. rewrite Hc in Hst.
      destruct (span whitespace x') as [w2 k2] eqn:Esp. injection Hst as <- <-.
      cbn [span] in Hstep. rewrite Hc, Esp in Hstep. cbn [fst snd] in Hstep.
      exists ([FTok (TWhitespace p0 (w ++ c :: w2))] ++ out). split.
      * eapply lexes_step; eauto. rewrite app_length. cbn [length] in *. lia.
      * cbn [app]. apply mergews_ws_ws.
    + cbn [span] in Hstep. rewrite Hc in Hstep. cbn [fst snd] in Hstep. rewrite app_nil_r in Hstep.
      exists ([FTok (TWhitespace p0 w)] ++ o). split; [|reflexivity].
      eapply lexes_step; eauto. rewrite app_length. destruct w; [discriminate|cbn; lia].
Qed.

(* ------------------------------------------------------------------ brackets, separators, function arguments *)
Lemma lex_open c x : is_open c = true -> lex_step true (c :: x) = ([FOpen c], x).
Proof.
  intros H. assert (Hc : c = 40 \/ c = 91 \/ c = 123) by (unf; lia).
  destruct Hc as [->|[->| ->]]; rewrite punct_chain by (try reflexivity; lia); reflexivity.
Qed.

Lemma lex_close c x : is_close c = true -> lex_step true (c :: x) = ([FClose c], x).
Proof.
  intros H. assert (Hc : c = 41 \/ c = 93 \/ c = 125) by (unf; lia).
  destruct Hc as [->|[->| ->]]; rewrite punct_chain by (try reflexivity; lia); reflexivity.
Qed.

Definition prev_ok (prev : option token) (ts : list token) : Prop :=
  match prev with
  | None => True
  | Some p => wf_tok p = true /\ backslash_ok p ts = true
  end.

Lemma separator_none t : separator None t = [].
Proof. reflexivity. Qed.

Lemma separator_cases prev t r :
  prev_ok prev (t :: r) -> separator prev t = [] \/ separator prev t = [47; 42; 42; 47].
Proof.
  destruct prev as [p|]; [|left; reflexivity]. intros [Hw Hbs]. unfold separator.
  destruct (bad_pair (ser_type p) (ser_type t)); [right; reflexivity|].
  destruct (match p with
            | TIdent _ v => str_eqb (ser_type t) [43] && (str_eqb v [117] || str_eqb v [85])
            | _ => false
            end); [right; reflexivity|].
  unfold backslash_ok in Hbs. destruct (is_backslash p) eqn:Eb.
  - destruct p; try discriminate Eb. cbn [is_backslash] in Eb. destruct v as [|c [|? ?]]; try discriminate Eb.
    apply N.eqb_eq in Eb. subst c. cbn [ser_type]. change (str_eqb [92] [92]) with true. cbn iota.
    unfold newline_ws in Hbs. destruct t; try discriminate Hbs. destruct v as [|c w]; [discriminate|].
    rewrite Hbs. left. reflexivity.
  - rewrite (not_backslash_type p Hw Eb). left. reflexivity.
Qed.

Lemma skip_ws_app w y : forallb whitespace w = true -> skip_ws (w ++ y) = skip_ws y.
Proof.
  induction w as [|c w IH]; intros H; [reflexivity|]. cbn in H. apply andb_true_iff in H as [Hc H].
  cbn [app skip_ws]. rewrite Hc. apply IH, H.
Qed.

Lemma url_args_head args sargs x :
  wf_tokens args = true -> url_args args = true -> serialize_from None args = Ok sargs ->
  head_is 34 (skip_ws (sargs ++ x)) = true.
Proof.
  intros Hw Hu Hs. destruct args as [|t r]; [discriminate|].
  rewrite serialize_from_cons in Hs. apply bind_ok in Hs as (a & Ha & Hs). apply bind_ok in Hs as (b & Hb & Hs).
  injection Hs as <-. rewrite ?separator_none. cbn [app].
  destruct t; try discriminate Hu.
  - (* whitespace, string *)
    destruct r as [|t2 r']; [discriminate|]. destruct t2; try discriminate Hu.
    cbn [wf_tokens] in Hw. apply andb_true_iff in Hw as [Hw _]. apply andb_true_iff in Hw as [Hw _].
    cbn [wf_tok] in Hw. apply andb_true_iff in Hw as [_ Hw].
    cbn in Ha. injection Ha as <-.
    rewrite serialize_from_cons in Hb. apply bind_ok in Hb as (a2 & Ha2 & Hb). apply bind_ok in Hb as (b2 & _ & Hb).
    injection Hb as <-. cbn in Ha2. injection Ha2 as <-.
    rewrite <- !app_assoc. rewrite skip_ws_app by exact Hw. reflexivity.
  - cbn in Ha. injection Ha as <-. reflexivity.
Qed.

(* an error-free function block is closed *)
Lemma last_unclosed_wf n : forall t, (tsize t <= n)%nat -> wf_tok t = true -> last_unclosed t = false.
Proof.
  induction n as [|n IH]; intros t Hn Hw; [pose proof (tsize_pos t); lia|].
  destruct t; try reflexivity; [discriminate|].
  rewrite wf_function in Hw. apply andb_true_iff in Hw as [Hw _]. apply andb_true_iff in Hw as [_ Hw].
  cbn [last_unclosed]. cbn [tsize] in Hn. revert Hn Hw. induction args as [|x r IHr]; intros Hn Hw; [reflexivity|].
  cbn [wf_tokens] in Hw. apply andb_true_iff in Hw as [Hw Hwr]. apply andb_true_iff in Hw as [Hwx _].
  destruct r as [|y r'].
  - apply IH; auto. cbn [map list_sum fold_right] in Hn. lia.
  - apply IHr; auto. cbn [map list_sum fold_right] in *. lia.
Qed.

(* ------------------------------------------------------------------ the list-level theorem on flat streams *)
Lemma lsize_cons t r : lsize (t :: r) = (tsize t + lsize r)%nat.
Proof. reflexivity. Qed.

Lemma lexes_one s ts k o o' :
  s <> [] -> lex_step true s = (ts, k) -> (length k < length s)%nat -> lexes k o ->
  o' = ts ++ o -> lexes s o'.
Proof. intros. subst. eapply lexes_step; eauto. Qed.

Lemma app_length_lt {A} (a x : list A) : a <> [] -> (length x < length (a ++ x))%nat.
Proof. intros H. rewrite app_length. destruct a; [contradiction|cbn; lia]. Qed.

(* a leaf token followed by an already lexed text *)
Lemma leaf_step a x o tk :
  a <> [] -> lex_step true (a ++ x) = ([FTok tk], x) -> lexes x o ->
  exists o', lexes (a ++ x) o' /\ mergews o' = mergews ([FTok tk] ++ o).
Proof.
  intros Ha Hstep Hx. exists ([FTok tk] ++ o). split; [|reflexivity].
  eapply lexes_step; eauto.
  - destruct a; [contradiction|discriminate].
  - apply app_length_lt, Ha.
Qed.

Lemma lex_ser n : forall ts prev k out s,
  (lsize ts <= n)%nat -> wf_tokens ts = true -> prev_ok prev ts ->
  serialize_from prev ts = Ok s -> lexes k out -> kclose k ->
  exists out', lexes (s ++ k) out' /\ mergews out' = mergews (fl ts ++ out).
Proof.
  induction n as [|n IH]; intros ts prev k out s Hn Hw Hp Hs Hk Hc.
  { destruct ts as [|t r]; [|rewrite lsize_cons in Hn; pose proof (tsize_pos t); lia].
    cbn in Hs. injection Hs as <-. exists out. auto. }
  destruct ts as [|t r].
  { cbn in Hs. injection Hs as <-. exists out. auto. }
  rewrite lsize_cons in Hn. pose proof (tsize_pos t) as Htp.
  cbn [wf_tokens] in Hw. apply andb_true_iff in Hw as [Hw Hwr]. apply andb_true_iff in Hw as [Hwt Hbs].
  rewrite serialize_from_cons in Hs.
  apply bind_ok in Hs as (a & Ha & Hs). apply bind_ok in Hs as (b & Hb & Hs). injection Hs as <-.
  (* the rest of the list *)
  destruct (IH r (Some t) k out b ltac:(lia) Hwr (conj Hwt Hbs) Hb Hk Hc) as (out_r & Lr & Mr).
  (* what follows t may follow it *)
  pose proof (follow_chain r t k b Hwt Hwr Hbs Hb Hc) as Hfol.
  (* the token itself *)
  assert (Htok : exists o_t, lexes (a ++ b ++ k) o_t /\ mergews o_t = mergews (fl_tok t ++ out_r)).
  { destruct (ser_head t a Hwt Ha) as (c0 & r0 & Ea & _).
    assert (Hane : a <> []) by (rewrite Ea; discriminate).
    destruct t.
    - (* literal *) cbn in Ha. injection Ha as <-. cbn [wf_tok] in Hwt.
      apply leaf_step; auto. apply (lex_literal true p); auto.
    - discriminate Hwt.
    - (* comment *) cbn in Ha. injection Ha as <-. cbn [wf_tok] in Hwt. unfold comment_ok in Hwt.
      apply andb_true_iff in Hwt as [Hce _]. apply negb_true_iff in Hce.
      exists out_r. split; [|reflexivity].
      change (cps "/*"%string) with [47; 42]. change (cps "*/"%string) with [42; 47].
      replace ((47 :: 42 :: v ++ [42; 47]) ++ b ++ k) with ([47; 42] ++ v ++ [42; 47] ++ (b ++ k))
        by (cbn [app]; rewrite <- app_assoc; reflexivity).
      eapply (lexes_one _ [] (b ++ k)); eauto.
      + discriminate.
      + apply (lex_comment v (b ++ k) Hce).
      + rewrite !app_length. cbn [length]. lia.
    - (* whitespace *) cbn in Ha. injection Ha as <-. cbn [wf_tok] in Hwt.
      apply andb_true_iff in Hwt as [Hne Hws]. apply lexes_ws; auto.
    - (* ident *) cbn [ser_token] in Ha. apply leaf_step; auto. apply (lex_ident true p); auto.
    - (* at-keyword *) cbn [ser_token] in Ha. apply bind_ok in Ha as (s' & Hs' & Ha). injection Ha as <-.
      apply leaf_step; auto. cbn [app]. apply (lex_at_keyword true p); auto.
    - (* hash *) cbn [ser_token] in Ha. cbn [wf_tok] in Hwt. apply andb_true_iff in Hwt as [Hv Hid].
      destruct is_id.
      + apply bind_ok in Ha as (s' & Hs' & Ha). injection Ha as <-.
        apply leaf_step; auto. cbn [app]. apply (lex_hash_id true p); auto.
      + injection Ha as <-. apply leaf_step; auto. cbn [app]. apply (lex_hash_nonid true p); auto.
    - (* string *) cbn [wf_tok] in Hwt. apply andb_true_iff in Hwt as [He _]. apply negb_true_iff in He. subst err.
      cbn in Ha. injection Ha as <-. apply leaf_step; auto.
      cbn [app]. rewrite <- app_assoc. cbn [app]. apply lex_string.
    - (* url *) cbn [wf_tok] in Hwt. apply andb_true_iff in Hwt as [He Hv]. apply negb_true_iff in He. subst err.
      cbn [ser_token] in Ha. injection Ha as <-. apply leaf_step; auto.
      match goal with |- lex_step true ?x = _ =>
        replace x with ([117; 114; 108; 40] ++ serialize_url v ++ 41 :: (b ++ k))
          by (cbn [app]; rewrite <- ?app_assoc; reflexivity) end.
      apply (lex_url true v (b ++ k) Hv).
    - (* unicode-range *) cbn [wf_tok] in Hwt. apply andb_true_iff in Hwt as [H1 H2].
      apply leaf_step; auto. apply (lex_urange true p); auto.
    - (* number *) cbn [wf_tok] in Hwt. apply andb_true_iff in Hwt as [Hr Hi]. apply eqb_prop in Hi. subst is_int.
      cbn in Ha. injection Ha as <-. apply leaf_step; auto. apply (lex_number true p _ (repr_is_int repr)); auto.
    - (* percentage *) cbn [wf_tok] in Hwt. apply andb_true_iff in Hwt as [Hr Hi]. apply eqb_prop in Hi. subst is_int.
      cbn in Ha. injection Ha as <-. apply leaf_step; auto. rewrite <- app_assoc. cbn [app].
      apply lex_percentage; auto.
    - (* dimension *) cbn [wf_tok] in Hwt. apply andb_true_iff in Hwt as [Hwt Hu]. apply andb_true_iff in Hwt as [Hr Hi].
      apply eqb_prop in Hi. subst is_int.
      apply leaf_step; auto. apply (lex_dimension true p repr (repr_is_int repr) unit); auto.
    - (* ( ) *) rewrite wf_parens in Hwt. cbn [ser_token] in Ha. apply bind_ok in Ha as (sa & Hsa & Ha). injection Ha as <-.
      assert (Lc : lexes (41 :: b ++ k) ([FClose 41] ++ out_r)).
      { eapply lexes_step; eauto; [discriminate|apply lex_close; reflexivity|cbn; lia]. }
      destruct (IH args None (41 :: b ++ k) _ sa ltac:(cbn [tsize] in Hn; unfold lsize; lia) Hwt I Hsa Lc)
        as (oa & La & Ma). { right. eexists _, _. split; reflexivity. }
      exists ([FOpen 40] ++ oa). split.
      + replace ((40 :: sa ++ [41]) ++ b ++ k) with (40 :: sa ++ 41 :: b ++ k)
          by (cbn [app]; rewrite <- app_assoc; reflexivity).
        eapply lexes_step; eauto; [discriminate|apply lex_open; reflexivity|cbn; lia].
      + cbn [app fl_tok]. cbn [mergews]. f_equal. rewrite Ma. rewrite <- app_assoc. reflexivity.
    - (* [ ] *) rewrite wf_square in Hwt. cbn [ser_token] in Ha. apply bind_ok in Ha as (sa & Hsa & Ha). injection Ha as <-.
      assert (Lc : lexes (93 :: b ++ k) ([FClose 93] ++ out_r)).
      { eapply lexes_step; eauto; [discriminate|apply lex_close; reflexivity|cbn; lia]. }
      destruct (IH args None (93 :: b ++ k) _ sa ltac:(cbn [tsize] in Hn; unfold lsize; lia) Hwt I Hsa Lc)
        as (oa & La & Ma). { right. eexists _, _. split; reflexivity. }
      exists ([FOpen 91] ++ oa). split.
      + replace ((91 :: sa ++ [93]) ++ b ++ k) with (91 :: sa ++ 93 :: b ++ k)
          by (cbn [app]; rewrite <- app_assoc; reflexivity).
        eapply lexes_step; eauto; [discriminate|apply lex_open; reflexivity|cbn; lia].
      + cbn [app fl_tok]. cbn [mergews]. f_equal. rewrite Ma. rewrite <- app_assoc. reflexivity.
    - (* { } *) rewrite wf_curly in Hwt. cbn [ser_token] in Ha. apply bind_ok in Ha as (sa & Hsa & Ha). injection Ha as <-.
      assert (Lc : lexes (125 :: b ++ k) ([FClose 125] ++ out_r)).
      { eapply lexes_step; eauto; [discriminate|apply lex_close; reflexivity|cbn; lia]. }
      destruct (IH args None (125 :: b ++ k) _ sa ltac:(cbn [tsize] in Hn; unfold lsize; lia) Hwt I Hsa Lc)
        as (oa & La & Ma). { right. eexists _, _. split; reflexivity. }
      exists ([FOpen 123] ++ oa). split.
      + replace ((123 :: sa ++ [125]) ++ b ++ k) with (123 :: sa ++ 125 :: b ++ k)
          by (cbn [app]; rewrite <- app_assoc; reflexivity).
        eapply lexes_step; eauto; [discriminate|apply lex_open; reflexivity|cbn; lia].
      + cbn [app fl_tok]. cbn [mergews]. f_equal. rewrite Ma. rewrite <- app_assoc. reflexivity.
    - (* function *)
      pose proof (last_unclosed_wf _ _ (le_n _) Hwt) as Hlu.
      rewrite wf_function in Hwt. apply andb_true_iff in Hwt as [Hwt Hurl]. apply andb_true_iff in Hwt as [Hname Hwa].
      cbn [ser_token] in Ha. apply bind_ok in Ha as (sn & Hsn & Ha). apply bind_ok in Ha as (sa & Hsa & Ha).
      rewrite Hlu in Ha. injection Ha as <-.
      assert (Lc : lexes (41 :: b ++ k) ([FClose 41] ++ out_r)).
      { eapply lexes_step; eauto; [discriminate|apply lex_close; reflexivity|cbn; lia]. }
      destruct (IH args None (41 :: b ++ k) _ sa ltac:(cbn [tsize] in Hn; unfold lsize; lia) Hwa I Hsa Lc)
        as (oa & La & Ma). { right. eexists _, _. split; reflexivity. }
      exists ([FFun name] ++ oa). split.
      + replace ((sn ++ 40 :: sa ++ [41]) ++ b ++ k) with (sn ++ 40 :: sa ++ 41 :: b ++ k)
          by (rewrite <- !app_assoc; cbn [app]; rewrite <- !app_assoc; reflexivity).
        eapply lexes_step; eauto.
        * destruct (ident_head _ _ Hsn) as (c1 & r1 & -> & _). discriminate.
        * apply lex_function_open; auto. intros Hu. rewrite Hu in Hurl. cbn [negb orb] in Hurl.
          apply (url_args_head args sa); auto.
        * repeat (rewrite ?app_length; cbn [length]). lia.
      + cbn [app fl_tok]. cbn [mergews]. f_equal. rewrite Ma. rewrite <- app_assoc. reflexivity. }
  destruct Htok as (o_t & Lt & Mt).
  (* the separator *)
  exists o_t. split.
  - rewrite <- !app_assoc.
    destruct (separator_cases prev t r Hp) as [-> | ->]; [exact Lt|].
    refine (lexes_one _ [] (a ++ b ++ k) o_t o_t _ (lex_separator _) _ Lt eq_refl).
    + discriminate.
    + cbn [app length]. lia.
  - rewrite Mt. unfold fl. cbn [flat_map]. rewrite <- app_assoc. apply mergews_app_cong, Mr.
Qed.
