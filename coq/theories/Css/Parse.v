(* Css/Parse.v -- executable model of /repo/css/parser/parser.go (declarations,
   !important, at-rules, qualified rules, the list parsers) and nth.go
   (ParseNth).  NO PROOFS in this file.

   `*TokensIter` is represented by the list of remaining tokens; a consumer
   returns what it produced and the remaining tokens.  `fxp` selects the code
   as found (false) or as repaired by our fix commits (true), see [FIX 5]. *)
From Verif Require Export Base.GoSem Css.Token Css.Tok.
From Verif Require Import Base.F32.
From Coq Require Import List NArith ZArith Bool QArith.
Import ListNotations.
Open Scope N_scope.

Definition site_nth_ident0 : N := 1055.   (* nth.go:55 ident[0] *)
Definition site_nth_value0 : N := 1105.   (* nth.go:105 / :113 number.Value[0:1] *)

(* ------------------------------------------------------------------ iterator helpers (tokenizer.go:849-878) *)
Definition is_ws_or_comment (t : token) : bool :=
  match t with TWhitespace _ _ | TComment _ _ => true | _ => false end.

(* NextSignificant *)
Fixpoint next_significant (l : list token) : option token * list token :=
  match l with
  | [] => (None, [])
  | t :: r => if is_ws_or_comment t then next_significant r else (Some t, r)
  end.

(* IsLiteral, parser.go:262 *)
Definition is_literal (t : token) (s : str) : bool :=
  match t with TLiteral _ v => str_eqb v s | _ => false end.
Definition is_curly (t : token) : bool := match t with TCurly _ _ => true | _ => false end.

Definition s_semicolon : str := [59].
Definition s_colon : str := [58].
Definition s_bang : str := [33].
Definition s_rbrace : str := [125].
Definition s_important : str := [105; 109; 112; 111; 114; 116; 97; 110; 116].

(* consumeRemnants, parser.go:63 (its effect on the iterator is never observed
   afterwards by any caller; kept for fidelity) *)
Fixpoint consume_remnants (nested : bool) (l : list token) : list token :=
  match l with
  | [] => []
  | t :: r =>
      if is_literal t s_semicolon then r
      else if nested && is_literal t s_rbrace then r
      else consume_remnants nested r
  end.

(* ------------------------------------------------------------------ parseDeclaration, parser.go:78-162 *)
Inductive dstate := SValue | SImportant | SBang.

Record dacc := mkD {
  d_state : dstate;
  d_bang : nat;          (* bangPosition *)
  d_cnw : bool;          (* containsNonWhitespace *)
  d_csb : bool;          (* containsSimpleBlock *)
}.

Definition decl_step (fxp : bool) (a : dacc) (i : nat) (t : token) : dacc :=
  let st := d_state a in
  let bang_ok := match st with SValue => true | SImportant | SBang => fxp (* [FIX 5] a bang in any state *) end in
  if bang_ok && is_literal t s_bang then mkD SBang i (d_cnw a) (d_csb a)              (* :120 *)
  else if (match st with SBang => true | _ => false end)
          && (match t with TIdent _ v => str_eqb (ascii_lower v) s_important | _ => false end)
       then mkD SImportant (d_bang a) (d_cnw a) (d_csb a)                              (* :123 *)
  else match t with
       | TWhitespace _ _ | TComment _ _ => a                                           (* :127 *)
       | TCurly _ _ =>                                                                 (* :129 *)
           if d_cnw a then mkD SValue (d_bang a) true true
           else mkD SValue (d_bang a) true (d_csb a)
       | _ => mkD SValue (d_bang a) true (d_csb a)                                     (* :136 *)
       end.

Fixpoint decl_loop (fxp : bool) (a : dacc) (i : nat) (l : list token) : dacc :=
  match l with
  | [] => a
  | t :: r => decl_loop fxp (decl_step fxp a i t) (S i) r
  end.

(* [FIX 6] (repaired code, parser.go:138-156) the {} rule is evaluated on the final value
   (after "!important" was cut off): a {} block and more than one significant token.
   As found (fxp = false): incremental flags that miss a token FOLLOWING the block
   ("a: {} x") and do not count a "!" / "important" met in the bang state ("a: ! {}"). *)
Definition significant_count (value : list token) : nat :=
  length (filter (fun t => negb (is_ws_or_comment t)) value).
Definition block_rule (value : list token) : bool :=
  existsb is_curly value && (1 <? significant_count value)%nat.

Definition parse_declaration (fxp : bool) (first : token) (tokens : list token) (nested : bool) : compound :=
  match first with
  | TIdent npos name =>
      match next_significant tokens with
      | (None, _) => CParseError (token_pos first) errInvalid                           (* :89 *)
      | (Some colon, rest) =>
          if negb (is_literal colon s_colon) then CParseError (token_pos colon) errInvalid   (* :96 *)
          else
            let a := decl_loop fxp (mkD SValue 0 false false) 0 rest in
            let imp := match d_state a with SImportant => true | _ => false end in
            let value := if imp then firstn (d_bang a) rest else rest in               (* :145 *)
            if (if fxp then block_rule value else d_csb a && d_cnw a)
            then CParseError (token_pos colon) errInvalid                              (* :155 *)
            else CDeclaration npos name value imp
      end
  | _ => CParseError (token_pos first) errInvalid                                       (* :80 *)
  end.

(* ParseOneDeclaration, parser.go:54 *)
Definition parse_one_declaration (fxp : bool) (input : list token) : compound :=
  match next_significant input with
  | (None, _) => CParseError (mkPos 1 1) errEmpty
  | (Some first, rest) => parse_declaration fxp first rest false
  end.

(* ------------------------------------------------------------------ consumeDeclarationInList, parser.go:165 *)
(* tokens up to the first ";" (excluded), and what follows it *)
Fixpoint split_semicolon (l : list token) : list token * list token :=
  match l with
  | [] => ([], [])
  | t :: r =>
      if is_literal t s_semicolon then ([], r)
      else let '(a, b) := split_semicolon r in (t :: a, b)
  end.

Definition consume_declaration_in_list (fxp : bool) (first : token) (tokens : list token)
  : compound * list token :=
  let '(decl_tokens, rest) := split_semicolon tokens in
  (parse_declaration fxp first decl_tokens false, rest).

(* ------------------------------------------------------------------ consumeAtRule, parser.go:269 *)
(* returns prelude, content (None = nil), rest *)
Fixpoint at_rule_loop (l : list token) : list token * option (list token) * list token :=
  match l with
  | [] => ([], None, [])
  | t :: r =>
      match t with
      | TCurly _ args => ([], Some args, r)
      | _ =>
          if is_literal t s_semicolon then ([], None, r)
          else let '(p, c, r') := at_rule_loop r in (t :: p, c, r')
      end
  end.

Definition consume_at_rule (p : pos) (kw : str) (tokens : list token) : compound * list token :=
  let '(prelude, content, rest) := at_rule_loop tokens in
  (CAtRule p kw prelude content, rest).

(* ------------------------------------------------------------------ consumeQualifiedRule, parser.go:318 *)
Inductive qr_result :=
| QRBlock (prelude : list token) (content : list token) (rest : list token)
| QRStop (t : token) (rest : list token)      (* stop token reached *)
| QREof (prelude : list token).               (* EOF reached *)

Fixpoint qualified_loop (stop : bool) (l : list token) : qr_result :=
  match l with
  | [] => QREof []
  | t :: r =>
      if stop && is_literal t s_semicolon then QRStop t r                              (* :335 *)
      else match t with
           | TCurly _ args => QRBlock [] args r                                        (* :339 *)
           | _ => match qualified_loop stop r with
                  | QRBlock p c r' => QRBlock (t :: p) c r'
                  | QREof p => QREof (t :: p)
                  | x => x
                  end
           end
  end.

Definition consume_qualified_rule (first : token) (tokens : list token) (stop : bool)
  : compound * list token :=
  if stop && is_literal first s_semicolon then (CParseError (token_pos first) errInvalid, tokens)   (* :319 *)
  else match first with
       | TCurly _ args => (CQualifiedRule (token_pos first) [] args, tokens)           (* :327 *)
       | _ =>
           match qualified_loop stop tokens with
           | QRBlock p c r => (CQualifiedRule (token_pos first) (first :: p) c, r)
           | QRStop t r => (CParseError (token_pos t) errInvalid, r)
           | QREof p => (CParseError (token_pos (last p first)) errInvalid, [])        (* :349 prelude[len-1] *)
           end
       end.

(* consumeRule, parser.go:300 *)
Definition consume_rule (first : token) (tokens : list token) : compound * list token :=
  match first with
  | TAtKeyword p kw => consume_at_rule p kw tokens
  | _ => consume_qualified_rule first tokens false
  end.

(* ------------------------------------------------------------------ consumeBlocksContent, parser.go:361 *)
(* declaration tokens, the ";" if one ended them, rest *)
Fixpoint blocks_split (l : list token) : list token * list token * list token :=
  match l with
  | [] => ([], [], [])
  | t :: r =>
      if is_literal t s_semicolon then ([], [t], r)
      else if is_curly t then ([t], [], r)
      else let '(a, s, b) := blocks_split r in (t :: a, s, b)
  end.

Definition consume_blocks_content (fxp : bool) (first : token) (tokens : list token)
  : compound * list token :=
  let '(decl_tokens, semi, rest) :=
    if negb (is_literal first s_semicolon) && negb (is_curly first) then blocks_split tokens
    else ([], [], tokens) in
  match parse_declaration fxp first decl_tokens true with
  | CDeclaration p n v i => (CDeclaration p n v i, rest)
  | _ =>
      (* :380 `tokens = NewIter(...)` rebinds the LOCAL pointer: the caller's iterator
         stays where the declaration scan stopped *)
      (fst (consume_qualified_rule first (decl_tokens ++ semi ++ rest) true), rest)
  end.

(* ------------------------------------------------------------------ the list parsers *)
Definition tok_compound (t : token) : compound :=
  match t with
  | TWhitespace p v => CWhitespace p v
  | TComment p v => CComment p v
  | TParseError p k => CParseError p k
  | _ => CParseError (token_pos t) 0
  end.

Definition is_ws (t : token) := match t with TWhitespace _ _ => true | _ => false end.
Definition is_comment (t : token) := match t with TComment _ _ => true | _ => false end.

(* generic loop: `consume first rest` is called on every token that is not
   whitespace / comment / skipped literal *)
Fixpoint list_loop (fuel : nat) (keep_ws keep_comments : bool) (skip_lit : str -> bool)
         (consume : token -> list token -> compound * list token) (l : list token)
  : res (list compound) :=
  match fuel with
  | O => OutOfFuel
  | S f =>
      match l with
      | [] => Ok []
      | t :: r =>
          if is_ws t then
            let* out := list_loop f keep_ws keep_comments skip_lit consume r in
            Ok (if keep_ws then tok_compound t :: out else out)
          else if is_comment t then
            let* out := list_loop f keep_ws keep_comments skip_lit consume r in
            Ok (if keep_comments then tok_compound t :: out else out)
          else if (match t with TLiteral _ v => skip_lit v | _ => false end) then
            list_loop f keep_ws keep_comments skip_lit consume r
          else
            let '(c, r') := consume t r in
            let* out := list_loop f keep_ws keep_comments skip_lit consume r' in
            Ok (c :: out)
      end
  end.

Definition with_at (f : token -> list token -> compound * list token) (t : token) (r : list token) :=
  match t with
  | TAtKeyword p kw => consume_at_rule p kw r
  | _ => f t r
  end.

(* ParseBlocksContents, parser.go:186 (comments always kept) *)
Definition parse_blocks_contents (fxp : bool) (input : list token) (skip_ws : bool) : res (list compound) :=
  list_loop (S (length input)) (negb skip_ws) true (fun v => str_eqb v s_semicolon)
            (with_at (consume_blocks_content fxp)) input.

(* ParseDeclarationList, parser.go:226 *)
Definition parse_declaration_list (fxp : bool) (input : list token) (skip_comments skip_ws : bool)
  : res (list compound) :=
  list_loop (S (length input)) (negb skip_ws) (negb skip_comments) (fun v => str_eqb v s_semicolon)
            (with_at (consume_declaration_in_list fxp)) input.

(* ParseRuleList, parser.go:394 *)
Definition parse_rule_list (input : list token) (skip_comments skip_ws : bool) : res (list compound) :=
  list_loop (S (length input)) (negb skip_ws) (negb skip_comments) (fun _ => false) consume_rule input.

(* ParseStylesheet, parser.go:421 *)
Definition parse_stylesheet (input : list token) (skip_comments skip_ws : bool) : res (list compound) :=
  list_loop (S (length input)) (negb skip_ws) (negb skip_comments)
            (fun v => str_eqb v s_cdo || str_eqb v s_cdc) consume_rule input.

(* the ...String / ...Bytes entry points *)
Definition parse_stylesheet_bytes (fx : bool) (s : list N) (skip_comments skip_ws : bool) :=
  let* ts := tokenize fx skip_comments s in parse_stylesheet ts skip_comments skip_ws.
Definition parse_blocks_contents_string (fx : bool) (s : list N) :=
  let* ts := tokenize fx false s in parse_blocks_contents fx ts false.
Definition parse_declaration_list_string (fx : bool) (s : list N) (skip_comments skip_ws : bool) :=
  let* ts := tokenize fx skip_comments s in parse_declaration_list fx ts skip_comments skip_ws.

(* ------------------------------------------------------------------ nth.go *)
(* numberVal.Int(): int(ValueF), ValueF = float32(ParseFloat(repr, 32)) *)
Definition q_trunc (q : Q) : Z := Z.quot (Qnum q) (Zpos (Qden q)).
Definition num_int (repr : str) : Z := q_trunc (rnd32 (repr_value repr)).

(* matchInt, nth.go:84: ^n(-[0-9]+)$ then strconv.Atoi *)
Definition match_int (s : str) : option Z :=
  match s with
  | c0 :: c1 :: d =>
      if (c0 =? 110) && (c1 =? 45) then
        match d with
        | [] => None
        | _ => if forallb is_digit d then repr_int (45 :: d) else None
        end
      else None
  | _ => None
  end.

Definition parse_end (tokens : list token) (a b : Z) : option (Z * Z) :=
  match next_significant tokens with
  | (None, _) => Some (a, b)
  | _ => None
  end.

Definition sign_first (site : N) (repr : str) : res bool :=
  let* c := index site repr 0 in Ok ((c =? 45) || (c =? 43)).

Definition parse_signless_b (tokens : list token) (a bsign : Z) : res (option (Z * Z)) :=
  match next_significant tokens with
  | (Some (TNumber _ repr true), rest) =>
      let* sg := sign_first site_nth_value0 repr in
      if negb sg then Ok (parse_end rest a (bsign * num_int repr)%Z) else Ok None
  | _ => Ok None
  end.

Definition parse_b (tokens : list token) (a : Z) : res (option (Z * Z)) :=
  match next_significant tokens with
  | (None, _) => Ok (Some (a, 0%Z))
  | (Some t, rest) =>
      if is_literal t [43] then parse_signless_b rest a 1
      else if is_literal t [45] then parse_signless_b rest a (-1)
      else match t with
           | TNumber _ repr true =>
               let* sg := sign_first site_nth_value0 repr in
               if sg then Ok (parse_end rest a (num_int repr)) else Ok None
           | _ => Ok None
           end
  end.

Definition s_n : str := [110].
Definition s_n_dash : str := [110; 45].
Definition s_dash_n : str := [45; 110].
Definition s_dash_n_dash : str := [45; 110; 45].
Definition s_even : str := [101; 118; 101; 110].
Definition s_odd : str := [111; 100; 100].

Definition parse_nth (input : list token) : res (option (Z * Z)) :=
  match next_significant input with
  | (None, _) => Ok None
  | (Some t, rest) =>
      match t with
      | TNumber _ repr true => Ok (parse_end rest 0 (num_int repr))
      | TDimension _ repr true unit =>
          let u := ascii_lower unit in
          if str_eqb u s_n then parse_b rest (num_int repr)
          else if str_eqb u s_n_dash then parse_signless_b rest (num_int repr) (-1)
          else match match_int u with
               | Some b => Ok (parse_end rest (num_int repr) b)
               | None => Ok None
               end
      | TIdent _ v =>
          let ident := ascii_lower v in
          if str_eqb ident s_even then Ok (parse_end rest 2 0)
          else if str_eqb ident s_odd then Ok (parse_end rest 2 1)
          else if str_eqb ident s_n then parse_b rest 1
          else if str_eqb ident s_dash_n then parse_b rest (-1)
          else if str_eqb ident s_n_dash then parse_signless_b rest 1 (-1)
          else if str_eqb ident s_dash_n_dash then parse_signless_b rest (-1) (-1)
          else
            let* c0 := index site_nth_ident0 ident 0 in                     (* nth.go:55 *)
            if c0 =? 45 then
              match match_int (tl ident) with
              | Some b => Ok (parse_end rest (-1) b)
              | None => Ok None
              end
            else match match_int ident with
                 | Some b => Ok (parse_end rest 1 b)
                 | None => Ok None
                 end
      | TLiteral _ v =>
          if str_eqb v [43] then
            match rest with                                                   (* tokens.Next(), nth.go:66 *)
            | TIdent _ iv :: rest' =>
                let ident := ascii_lower iv in
                if str_eqb ident s_n then parse_b rest' 1
                else if str_eqb ident s_n_dash then parse_signless_b rest' 1 (-1)
                else match match_int ident with
                     | Some b => Ok (parse_end rest' 1 b)
                     | None => Ok None
                     end
            | _ => Ok None
            end
          else Ok None
      | _ => Ok None
      end
  end.

Definition parse_nth_string (fx : bool) (s : list N) : res (option (Z * Z)) :=
  let* ts := tokenize fx true s in parse_nth ts.
