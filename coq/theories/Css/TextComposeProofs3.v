(* A whitespace run (code points 9, 10, 32; any positive length) in front of one of the
   one-code-point tokens of Css/TextComposeProofs2.v is exactly one whitespace token:
   the run is consumed maximally and the tokenizer resumes at the next code point.
   Uses the fuel irrelevance of tokens_from (Css/BlocksProofs.v). *)
From Verif Require Import Base.GoSem Css.Token Css.Tok Css.TokProofs Css.SpecProofs Css.BlocksProofs.
From Verif Require Import Css.Syntax3Spec Css.TextComposeProofs Css.TextComposeProofs2.
From Coq Require Import List NArith ZArith Bool Lia.
Import ListNotations.
Open Scope N_scope.

Definition ws3_list : list N := [9; 10; 32].
Definition ws3 (c : N) : bool := existsb (N.eqb c) ws3_list.

Lemma ws3_cases : forall c, ws3 c = true -> In c ws3_list.
Proof.
  intros c H. unfold ws3 in H. apply existsb_exists in H.
  destruct H as [x [Hin Hx]]. apply N.eqb_eq in Hx. subst x. exact Hin.
Qed.

Ltac each3 H c tac :=
  unfold ws3_list in H; cbn [In] in H;
  repeat (destruct H as [H|H]; [subst c; tac|]); try contradiction.

Lemma preprocess_ws3 : forall c s, ws3 c = true ->
  Syntax3Spec.preprocess (c :: s) = c :: Syntax3Spec.preprocess s.
Proof. intros c s H. apply ws3_cases in H. each3 H c ltac:(destruct s; reflexivity). Qed.

Lemma consume_token_ws3 : forall fuel c r, ws3 c = true ->
  Syntax3Spec.consume_token fuel (c :: r) = (SWhitespace, Syntax3Spec.skip_ws r).
Proof. intros fuel c r H. apply ws3_cases in H. each3 H c ltac:(destruct r; reflexivity). Qed.

Lemma skip_ws_ws3 : forall c r, ws3 c = true ->
  Syntax3Spec.skip_ws (c :: r) = Syntax3Spec.skip_ws r.
Proof. intros c r H. rewrite skip_ws_cons. apply ws3_cases in H. each3 H c ltac:(reflexivity). Qed.

Lemma skip_ws_simple2 : forall c r, simple2 c = true -> Syntax3Spec.skip_ws (c :: r) = c :: r.
Proof. intros c r H. rewrite skip_ws_cons. apply simple2_cases in H. each2 H c ltac:(reflexivity). Qed.

Lemma skip_ws_run : forall ws c r, forallb ws3 ws = true -> simple2 c = true ->
  Syntax3Spec.skip_ws (ws ++ c :: r) = c :: r.
Proof.
  induction ws as [|w ws IH]; intros c r Hw Hc.
  - apply skip_ws_simple2; exact Hc.
  - cbn [forallb] in Hw. apply andb_true_iff in Hw. destruct Hw as [H1 H2].
    cbn [app]. rewrite (skip_ws_ws3 w _ H1). apply IH; assumption.
Qed.

Lemma preprocess_run : forall ws c s, forallb ws3 ws = true -> simple2 c = true ->
  Syntax3Spec.preprocess (ws ++ c :: s) = ws ++ c :: Syntax3Spec.preprocess s.
Proof.
  induction ws as [|w ws IH]; intros c s Hw Hc.
  - apply preprocess_simple2; exact Hc.
  - cbn [forallb] in Hw. apply andb_true_iff in Hw. destruct Hw as [H1 H2].
    cbn [app]. rewrite (preprocess_ws3 w _ H1), (IH c s H2 Hc). reflexivity.
Qed.

Lemma component_values_ws : forall l,
  component_values (SWhitespace :: l) = CVToken SWhitespace :: component_values l.
Proof.
  intros l. unfold component_values. cbn [length].
  remember (S (length l)) as n eqn:Hn.
  cbn [component_values_until mirror stoken_is].
  destruct (component_values_until n None l) as [vs r2]. reflexivity.
Qed.

Theorem spec_tokenize_ws_run_head : forall (w : N) (ws : list N) (c : N) (s : list N),
  forallb ws3 (w :: ws) = true -> simple2 c = true -> scalars ((w :: ws) ++ c :: s) ->
  spec_tokenize false ((w :: ws) ++ c :: s) = TWhitespace p0 [] :: spec_tokenize false (c :: s).
Proof.
  intros w ws c s Hw Hc Hs.
  assert (Hg : good (Syntax3Spec.preprocess ((w :: ws) ++ c :: s))).
  { rewrite <- (preprocess_spec _ Hs). split; [apply preprocess_scalars; exact Hs|apply preprocess_nonul]. }
  unfold spec_tokenize.
  rewrite (preprocess_run (w :: ws) c s Hw Hc) in *.
  rewrite (preprocess_simple2 c s Hc).
  cbn [forallb] in Hw. apply andb_true_iff in Hw. destruct Hw as [H1 H2].
  cbn [app] in *.
  rewrite (tokens_cons w _ Hg), (consume_token_ws3 _ w _ H1). cbn [fst snd].
  rewrite (skip_ws_run ws c _ H2 Hc), component_values_ws. reflexivity.
Qed.

(* ------------------------------------------------------------------ the class with whitespace runs *)
Definition cls3 (c : N) : bool := simple2 c || ws3 c.
(* s1: only simple2 code points and whitespace 9/10/32, not ending in whitespace *)
Definition ok3 (s1 : list N) : bool := forallb cls3 s1 && negb (ws3 (last s1 59)).

Lemma scalars_tl : forall c l, scalars (c :: l) -> scalars l.
Proof. intros c l H. inversion H; assumption. Qed.

Lemma good_pre : forall s, scalars s -> good (Syntax3Spec.preprocess s).
Proof.
  intros s Hs. rewrite <- (preprocess_spec _ Hs).
  split; [apply preprocess_scalars; exact Hs|apply preprocess_nonul].
Qed.

Lemma ws_ws_head : forall w d t, ws3 w = true -> ws3 d = true -> scalars (w :: d :: t) ->
  spec_tokenize false (w :: d :: t) = spec_tokenize false (d :: t).
Proof.
  intros w d t Hw Hd Hs.
  pose proof (good_pre _ Hs) as Hg.
  pose proof (good_pre _ (scalars_tl _ _ Hs)) as Hg'.
  unfold spec_tokenize.
  rewrite (preprocess_ws3 w _ Hw) in *. rewrite (preprocess_ws3 d _ Hd) in *.
  rewrite (tokens_cons w _ Hg), (consume_token_ws3 _ w _ Hw). cbn [fst snd].
  rewrite (skip_ws_ws3 d _ Hd).
  rewrite (tokens_cons d _ Hg'), (consume_token_ws3 _ d _ Hd). cbn [fst snd]. reflexivity.
Qed.

Lemma cls3_prefix : forall s1, forallb cls3 s1 = true ->
  exists pre, forall x rest, simple2 x = true -> scalars (s1 ++ x :: rest) ->
    spec_tokenize false (s1 ++ x :: rest) = pre ++ spec_tokenize false (x :: rest).
Proof.
  induction s1 as [|c s1 IH]; intros H.
  - exists []. intros; reflexivity.
  - cbn [forallb] in H. apply andb_true_iff in H. destruct H as [Hc Hs1].
    destruct (IH Hs1) as [pre Hpre].
    unfold cls3 in Hc. apply orb_true_iff in Hc. destruct Hc as [Hc|Hc].
    + exists (norm_token (tok2 c) ++ pre). intros x rest Hx Hsc. cbn [app].
      rewrite (spec_tokenize_simple2_head c _ Hc), (Hpre x rest Hx (scalars_tl _ _ Hsc)), app_assoc.
      reflexivity.
    + assert (Hc1 : forallb ws3 [c] = true) by (cbn [forallb]; rewrite Hc; reflexivity).
      destruct s1 as [|d s1].
      * exists [TWhitespace p0 []]. intros x rest Hx Hsc.
        exact (spec_tokenize_ws_run_head c [] x rest Hc1 Hx Hsc).
      * cbn [forallb] in Hs1. apply andb_true_iff in Hs1. destruct Hs1 as [Hd Hs1].
        unfold cls3 in Hd. apply orb_true_iff in Hd. destruct Hd as [Hd|Hd].
        -- exists (TWhitespace p0 [] :: pre). intros x rest Hx Hsc. cbn [app] in *.
           rewrite <- (Hpre x rest Hx (scalars_tl _ _ Hsc)).
           exact (spec_tokenize_ws_run_head c [] d (s1 ++ x :: rest) Hc1 Hd Hsc).
        -- exists pre. intros x rest Hx Hsc. cbn [app] in *.
           rewrite <- (Hpre x rest Hx (scalars_tl _ _ Hsc)).
           exact (ws_ws_head c d _ Hc Hd Hsc).
Qed.

Theorem text_compositional_ws : forall s1 s2 : list N,
  ok3 s1 = true -> scalars (s1 ++ 59 :: s2) ->
  spec_tokenize false (s1 ++ 59 :: s2) =
    spec_tokenize false s1 ++ TLiteral p0 [59] :: spec_tokenize false s2.
Proof.
  intros s1 s2 Hok Hsc.
  destruct s1 as [|a l] eqn:E0.
  - exact (spec_tokenize_semicolon_head s2).
  - rewrite <- E0 in *. assert (Hne : s1 <> []) by (rewrite E0; discriminate).
    destruct (exists_last Hne) as [s1' [x E]]. rewrite E in *. clear E E0 Hne.
    unfold ok3 in Hok. apply andb_true_iff in Hok. destruct Hok as [Hall Hlast].
    rewrite forallb_app in Hall. apply andb_true_iff in Hall. destruct Hall as [H1 Hx].
    cbn [forallb] in Hx. rewrite andb_true_r in Hx.
    rewrite last_last in Hlast. apply negb_true_iff in Hlast.
    unfold cls3 in Hx. rewrite Hlast, orb_false_r in Hx.
    destruct (cls3_prefix s1' H1) as [pre Hpre].
    rewrite <- app_assoc in *. cbn [app] in *.
    rewrite (Hpre x (59 :: s2) Hx Hsc).
    assert (Hsc1 : scalars (s1' ++ [x])).
    { unfold scalars in *. apply Forall_app in Hsc. destruct Hsc as [Ha Hb].
      apply Forall_app. split; [exact Ha|]. inversion Hb; subst. constructor; [assumption|constructor]. }
    rewrite (Hpre x [] Hx Hsc1).
    rewrite (spec_tokenize_simple2_head x _ Hx), spec_tokenize_semicolon_head.
    rewrite (spec_tokenize_simple2_head x [] Hx).
    change (spec_tokenize false []) with (@nil token). rewrite app_nil_r, <- app_assoc. reflexivity.
Qed.

Example ok3_example : ok3 [32; 10; 125; 9; 58; 32; 32; 44; 10; 59] = true.
Proof. reflexivity. Qed.
