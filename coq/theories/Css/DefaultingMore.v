(* C04 final round: unbounded algebraic laws of the relative font-weight spec
   (CSS Fonts 3 bolder/lighter), for every integer weight. *)
From Coq Require Import ZArith Lia List.
From Verif Require Import Css.DefaultingSpec.
Import ListNotations.
Local Open Scope Z_scope.

Lemma css_bolder_monotone : forall a b : Z, a <= b -> css_bolder a <= css_bolder b.
Proof.
  intros a b Hab. unfold css_bolder.
  destruct (a <? 400) eqn:Ha1; destruct (b <? 400) eqn:Hb1;
  destruct (a <? 600) eqn:Ha2; destruct (b <? 600) eqn:Hb2; lia.
Qed.

Lemma css_lighter_monotone : forall a b : Z, a <= b -> css_lighter a <= css_lighter b.
Proof.
  intros a b Hab. unfold css_lighter.
  destruct (a <? 600) eqn:Ha1; destruct (b <? 600) eqn:Hb1;
  destruct (a <? 800) eqn:Ha2; destruct (b <? 800) eqn:Hb2; lia.
Qed.

(* bolder never makes lighter, lighter never makes bolder, results are CSS weights *)
Lemma css_relative_weight_bounds : forall w : Z, 100 <= w <= 900 ->
  w <= css_bolder w <= 900 /\ 100 <= css_lighter w <= w /\
  In (css_bolder w) css_weights /\ In (css_lighter w) css_weights.
Proof.
  intros w Hw. unfold css_bolder, css_lighter, css_weights.
  destruct (w <? 400) eqn:H4; destruct (w <? 600) eqn:H6; destruct (w <? 800) eqn:H8;
  cbn [In]; repeat split; try lia; auto 12.
Qed.

(* saturation: applying bolder three times reaches 900, lighter three times reaches 100 *)
Lemma css_relative_weight_saturates : forall w : Z,
  css_bolder (css_bolder (css_bolder w)) = 900 /\ css_lighter (css_lighter (css_lighter w)) = 100.
Proof.
  intros w. unfold css_bolder, css_lighter.
  destruct (w <? 400) eqn:H4; destruct (w <? 600) eqn:H6; destruct (w <? 800) eqn:H8;
  cbn; split; try reflexivity; lia.
Qed.
