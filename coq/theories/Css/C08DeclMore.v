(* C08, final round: the names produced by the four-sides expander. *)
From Coq Require Import List NArith Bool Lia.
From Verif Require Import Base.GoSem Css.DeclTok Css.Decl.
Import ListNotations.

Lemma vns_name : forall known validate n toks req p,
  validate_non_shorthand known validate n toks req = Some p -> np_name p = n.
Proof.
  intros known validate n toks req p H. unfold validate_non_shorthand in H.
  repeat match type of H with
         | context [if ?c then _ else _] => destruct c
         | context [match ?c with Some _ => _ | None => _ end] => destruct c
         end; inversion H; reflexivity.
Qed.

Lemma map_opt_vns_names : forall known validate l ps,
  map_opt (fun nt => validate_non_shorthand known validate (fst nt) [snd nt] true) l = Some ps ->
  map np_name ps = map fst l.
Proof.
  intros known validate l. induction l as [|a r IH]; intros ps H; cbn [map_opt] in H.
  - inversion H. reflexivity.
  - destruct (validate_non_shorthand known validate (fst a) [snd a] true) as [b|] eqn:Hb; [|discriminate].
    destruct (map_opt _ r) as [bs|] eqn:Hr; [|discriminate].
    inversion H; subst ps. cbn [map]. rewrite (IH bs eq_refl). apply vns_name in Hb. rewrite Hb. reflexivity.
Qed.

(* Whatever the value (1-4 components, var() or not), a successful expansion of a box shorthand yields
   exactly its four longhands, in top/right/bottom/left order: never a name outside the set, never fewer. *)
Lemma four_sides_names : forall known validate name tokens props,
  expand_four_sides known validate name tokens = Some props ->
  map np_name props = four_names name.
Proof.
  intros known validate name tokens props H. unfold expand_four_sides, find_var in H.
  destruct (existsb has_var tokens).
  - cbv iota in H. injection H as H. rewrite <- H. unfold four_names, side_suffixes. cbn [map np_name]. reflexivity.
  - destruct (_ && _)%bool; [discriminate|].
    destruct tokens as [|a [|b [|c [|d [|e r]]]]]; try discriminate;
      apply map_opt_vns_names in H; rewrite H; unfold four_names, side_suffixes; cbn [map combine fst]; reflexivity.
Qed.

Lemma four_sides_length : forall known validate name tokens props,
  expand_four_sides known validate name tokens = Some props -> length props = 4.
Proof.
  intros known validate name tokens props H. apply four_sides_names in H.
  apply (f_equal (@length _)) in H. rewrite map_length in H. rewrite H.
  unfold four_names, side_suffixes. rewrite map_length. reflexivity.
Qed.
