(* Css/SelRoundtripGeneral5.v -- general round trip, part 5: compounds. *)
From Verif Require Import Css.Sel Css.SelParse Css.SelPrint Css.SelRoundtrip Css.SelProofs
  Css.SelRoundtripGeneral Css.SelRoundtripGeneral2 Css.SelRoundtripGeneral3 Css.SelRoundtripGeneral4.
From Coq Require Import ZArith NArith Lia List Bool Arith ZifyBool ZifyNat ZifyN.
Import ListNotations.

(* what may follow a compound / a complex selector *)
Definition cend (r : str) : bool :=
  match r with [] => true | c :: _ => ((c =? 32) || (c =? 44) || (c =? 41))%N end.
Definition send (r : str) : bool :=
  match r with [] => true | c :: _ => ((c =? 44) || (c =? 41))%N end.
Lemma cend_delim r : cend r = true -> delim r = true.
Proof. destruct r; [reflexivity|]. cbn [cend delim]. lia. Qed.
Lemma send_cend r : send r = true -> cend r = true.
Proof. destruct r; [reflexivity|]. cbn [cend send]. lia. Qed.

(* first byte of a simple selector / of a compound *)
Definition shead (h : N) : bool := ((h =? 35) || (h =? 46) || (h =? 91) || (h =? 58))%N.
Definition chead (h : N) : bool := id_start h || shead h || (h =? 42)%N.
Lemma shead_delim h t : shead h = true -> delim (h :: t) = true.
Proof. unfold shead. cbn [delim]. lia. Qed.

Lemma simple_head x : simple_shape x = true -> normal false x = true ->
  exists h t, print_sel x = h :: t /\ shead h = true.
Proof.
  destruct x as [tg|c|i|k v op ic|n g|a b l ot|ot| | | | |l| | | |v|sl pe|x1 c x2]; try discriminate; intros _ Hn;
    cbn [print_sel]; try (eexists; eexists; split; [reflexivity|reflexivity]).
  - destruct ((a =? 0)%Z && (b =? 1)%Z); destruct l; eexists; eexists; (split; [reflexivity|reflexivity]).
  - cbn [normal] in Hn. destruct v as [|c name]; [discriminate|].
    destruct (N.eqb_spec c 58) as [->|Hc]; [eauto|].
    destruct c as [|p]; [discriminate|]. do 6 (destruct p as [p|p|]; try discriminate); congruence.
Qed.

Section Compound.
Variable s : str.
Local Notation len := (length s).

Definition simple_ok (y : sel) : Prop :=
  simple_shape y = true /\ normal false y = true /\ simple_step s y.

Lemma delim_concat l r : Forall simple_ok l -> delim r = true ->
  delim (concat (map print_sel l) ++ r) = true.
Proof.
  intros Hl Hr. destruct l as [|y l]; [exact Hr|]. inversion Hl as [|? ? [Hs [Hn _]] _]; subst.
  destruct (simple_head y Hs Hn) as [h [t [E Hh]]]. cbn [map concat]. rewrite E. cbn [app].
  apply shead_delim. exact Hh.
Qed.

Lemma seq_steps : forall l f a i sels r, Forall simple_ok l ->
  skipn i s = concat (map print_sel l) ++ r -> delim r = true ->
  3 * length (skipn i s) + 2 <= f ->
  exists f', 3 * length r + 2 <= f' /\
    p_seq_loop s f a i sels [] =
    p_seq_loop s f' a (i + length (concat (map print_sel l))) (sels ++ l) [].
Proof.
  induction l as [|y l IH]; intros f a i sels r Hl H Hd Hf.
  - exists f. cbn [map concat app length] in *. rewrite H in Hf. rewrite app_nil_r, Nat.add_0_r. auto.
  - inversion Hl as [|? ? Hy Hl']; subst. destruct Hy as [Hs [Hn Hstep]].
    destruct (simple_head y Hs Hn) as [h [t [E Hh]]].
    cbn [map concat] in *. rewrite <- app_assoc in H.
    destruct f as [|f]; [lia|].
    rewrite (Hstep f a i sels _ H (delim_concat l r Hl' Hd) Hf).
    pose proof (rest_app _ _ _ _ H) as H2.
    assert (Ly : 1 <= length (print_sel y)) by (rewrite E; simpl; lia).
    destruct (IH f a (i + length (print_sel y)) (sels ++ [y]) r Hl' H2 Hd) as [f' [Hf' Eq]].
    { rewrite H2. rewrite H in Hf. rewrite app_length in Hf. lia. }
    exists f'. split; [exact Hf'|]. rewrite Eq, <- app_assoc. cbn [app]. rewrite app_length.
    f_equal. lia.
Qed.
Lemma cend_stops r : cend r = true -> stops r = true.
Proof. intros H. apply delim_stops, cend_delim, H. Qed.

Lemma seq_loop_finish f a i sels pe r : skipn i s = r -> cend r = true ->
  p_seq_loop s (S f) a i sels pe = seq_finish sels pe i.
Proof.
  intros H Hc. cbn [p_seq_loop]. destruct r as [|c r].
  - rewrite (leb_nil _ _ H). reflexivity.
  - rewrite (leb_rest _ _ _ _ H), (at_rest _ _ _ _ _ H). cbn [bind]. cbn [cend] in Hc.
    replace (c =? 35)%N with false by lia. replace (c =? 46)%N with false by lia.
    replace (c =? 91)%N with false by lia. replace (c =? 58)%N with false by lia. reflexivity.
Qed.

Lemma pe_facts pe : str_in pe pseudo_elements = true ->
  plain pe = true /\ to_lower pe = pe /\ rel_of pe = None /\ nth_of pe = None /\
  str_eqb pe n_lang = false /\ simple_pseudo pe = None.
Proof.
  intros H. unfold str_in in H. apply existsb_exists in H as [n [Hin Hn]]. apply str_eqb_eq in Hn. subst n.
  cbn [pseudo_elements In] in Hin.
  repeat (destruct Hin as [<-|Hin]; [vm_compute; repeat split; reflexivity|]). contradiction.
Qed.

Lemma seq_pe f i sels pe r : str_in pe pseudo_elements = true ->
  skipn i s = 58%N :: 58%N :: pe ++ r -> cend r = true ->
  p_seq_loop s (S (S (S f))) true i sels [] = seq_finish sels pe (S (S i) + length pe).
Proof.
  intros Hpe H Hc. destruct (pe_facts pe Hpe) as [Hp [Hl [Hr [Hn [Hg Hs]]]]].
  rewrite (p_seq_loop_colon _ _ _ _ _ _ H).
  rewrite (p_pseudo_pe s (S f) i pe r Hp H (cend_stops _ Hc)).
  unfold pseudo_k. rewrite Hl, Hpe, Hr, Hn, Hg, Hs. cbn [negb andb bindP].
  pose proof (rest_S _ _ _ _ (rest_S _ _ _ _ H)) as H2. apply rest_app in H2.
  apply (seq_loop_finish _ _ _ _ _ r H2 Hc).
Qed.
Definition pe_text (pe : str) : str := match pe with [] => [] | _ => [58%N; 58%N] ++ pe end.

Lemma seq_loop_all l pe f a i sels r : Forall simple_ok l ->
  (pe = [] \/ (a = true /\ str_in pe pseudo_elements = true)) ->
  skipn i s = concat (map print_sel l) ++ pe_text pe ++ r -> cend r = true ->
  3 * length (skipn i s) + 2 <= f ->
  p_seq_loop s f a i sels [] =
  seq_finish (sels ++ l) pe (i + length (concat (map print_sel l) ++ pe_text pe)).
Proof.
  intros Hl Hpe H Hc Hf.
  assert (Hd : delim (pe_text pe ++ r) = true).
  { destruct pe; [apply cend_delim; exact Hc|reflexivity]. }
  destruct (seq_steps l f a i sels _ Hl H Hd Hf) as [f' [Hf' Eq]]. rewrite Eq.
  pose proof (rest_app _ _ _ _ H) as H2. rewrite app_length.
  destruct Hpe as [-> | [-> Hpe]].
  - cbn [pe_text app length] in *. destruct f' as [|f']; [lia|]. rewrite Nat.add_0_r.
    apply (seq_loop_finish _ _ _ _ _ r H2 Hc).
  - destruct pe as [|p0 pe]; [discriminate|]. cbn [pe_text app] in H2, Hf' |- *. cbn [length] in Hf'.
    destruct f' as [|[|[|f']]]; try lia.
    rewrite (seq_pe f' _ (sels ++ l) (p0 :: pe) r Hpe H2 Hc). f_equal. cbn [length]. lia.
Qed.

Lemma p_seq_shead f a i h r : skipn i s = h :: r -> shead h = true ->
  p_seq s (S f) a i = p_seq_loop s f a i [] [].
Proof.
  intros H Hh. cbn [p_seq]. rewrite (leb_rest _ _ _ _ H), (at_rest _ _ _ _ _ H). cbn [bind].
  unfold shead in Hh. replace (h =? 42)%N with false by lia.
  replace ((h =? 35)%N || (h =? 46)%N || (h =? 91)%N || (h =? 58)%N) with true by lia. reflexivity.
Qed.
Lemma p_seq_ident f a i h r : skipn i s = h :: r -> id_start h = true ->
  p_seq s (S f) a i = bindP (parse_type_selector s i) (fun x i => p_seq_loop s f a i [x] []).
Proof.
  intros H Hh. cbn [p_seq]. rewrite (leb_rest _ _ _ _ H), (at_rest _ _ _ _ _ H). cbn [bind].
  unfold id_start, name_start in Hh. replace (h =? 42)%N with false by lia.
  replace ((h =? 35)%N || (h =? 46)%N || (h =? 91)%N || (h =? 58)%N) with false by lia. reflexivity.
Qed.
Lemma p_seq_star f a i r : skipn i s = 42%N :: r -> cend r = true ->
  p_seq s (S f) a i = p_seq_loop s f a (S i) [] [].
Proof.
  intros H Hc. pose proof (rest_S _ _ _ _ H) as H1.
  cbn [p_seq]. rewrite (leb_rest _ _ _ _ H), (at_rest _ _ _ _ _ H). cbn [bind].
  change (42 =? 42)%N with true. cbv iota.
  destruct (S i + 2 <? len) eqn:E; [|reflexivity].
  apply Nat.ltb_lt in E. pose proof (rest_len s (S i)) as L. rewrite H1 in L.
  destruct r as [|c0 [|c1 r]]; cbn [length] in L; try lia.
  rewrite (slice_rest' s _ (S i) _ [c0; c1] r) by (auto; simpl; lia). cbn [bind].
  cbn [cend] in Hc. cbn [str_eqb]. replace (c0 =? 124)%N with false by lia. reflexivity.
Qed.
Lemma delim_body l pe r : Forall simple_ok l -> cend r = true ->
  delim (concat (map print_sel l) ++ pe_text pe ++ r) = true.
Proof.
  intros Hl Hc. apply delim_concat; [exact Hl|]. destruct pe; [apply cend_delim; exact Hc|reflexivity].
Qed.

Lemma comp_tagged t l pe f a i r : nonempty t = true -> lowered t = true -> Forall simple_ok l ->
  (pe = [] \/ (a = true /\ str_in pe pseudo_elements = true)) ->
  skipn i s = escape_identifier t ++ concat (map print_sel l) ++ pe_text pe ++ r -> cend r = true ->
  3 * length (skipn i s) + 3 <= f ->
  p_seq s f a i = seq_finish (STag t :: l) pe
    (i + length (escape_identifier t ++ concat (map print_sel l) ++ pe_text pe)).
Proof.
  intros Ht Hlow Hl Hpe H Hc Hf.
  assert (Ht' : t <> []) by (destruct t; [discriminate|congruence]).
  destruct (escid_head t Ht') as [h [tt [Eh Hh]]].
  pose proof H as H'. rewrite Eh in H'. cbn [app] in H'.
  destruct f as [|f]; [lia|]. rewrite (p_seq_ident _ _ _ _ _ H' Hh).
  unfold parse_type_selector.
  rewrite (parse_identifier_escid s i t _ H (delim_stops _ (delim_body l pe r Hl Hc)) Ht'). cbn [bindP].
  unfold lowered in Hlow. apply str_eqb_eq in Hlow. rewrite Hlow.
  pose proof (rest_app _ _ _ _ H) as H2.
  rewrite (seq_loop_all l pe f a _ [STag t] r Hl Hpe H2 Hc).
  - f_equal. rewrite !app_length. lia.
  - rewrite H2. rewrite H, app_length in Hf. lia.
Qed.

Lemma comp_untagged l pe f a i r : Forall simple_ok l -> (l <> [] \/ pe <> []) ->
  (pe = [] \/ (a = true /\ str_in pe pseudo_elements = true)) ->
  skipn i s = concat (map print_sel l) ++ pe_text pe ++ r -> cend r = true ->
  3 * length (skipn i s) + 3 <= f ->
  p_seq s f a i = seq_finish l pe (i + length (concat (map print_sel l) ++ pe_text pe)).
Proof.
  intros Hl Hne Hpe H Hc Hf.
  assert (Hh : exists h tt, skipn i s = h :: tt /\ shead h = true).
  { destruct l as [|y l].
    - destruct pe as [|p0 pe]; [destruct Hne; congruence|]. cbn in H. eauto.
    - inversion Hl as [|? ? [Hs [Hn _]] _]; subst. destruct (simple_head y Hs Hn) as [h [tt [E Hh]]].
      cbn [map concat] in H. rewrite E in H. cbn [app] in H. eauto. }
  destruct Hh as [h [tt [H' Hh]]].
  destruct f as [|f]; [lia|]. rewrite (p_seq_shead _ _ _ _ _ H' Hh).
  rewrite (seq_loop_all l pe f a i [] r Hl Hpe H Hc) by lia. reflexivity.
Qed.
Definition comp_ok (c : sel) : Prop := forall f a i r, normal a c = true ->
  skipn i s = print_sel c ++ r -> cend r = true -> 3 * length (skipn i s) + 3 <= f ->
  p_seq s f a i = Ok (POk c (i + length (print_sel c))).

Lemma comp_ok_tag t : comp_ok (STag t).
Proof.
  intros f a i r Hn H Hc Hf. cbn [normal] in Hn. apply andb_prop in Hn as [Ht Hl]. cbn [print_sel] in *.
  rewrite (comp_tagged t [] [] f a i r Ht Hl (Forall_nil _) (or_introl eq_refl) H Hc Hf).
  cbn [map concat pe_text app seq_finish]. rewrite app_nil_r. reflexivity.
Qed.

Lemma comp_ok_simple x : simple_ok x -> comp_ok x.
Proof.
  intros Hx f a i r Hn H Hc Hf.
  assert (H' : skipn i s = concat (map print_sel [x]) ++ pe_text [] ++ r).
  { cbn [map concat pe_text app]. rewrite app_nil_r. exact H. }
  assert (Hl : Forall simple_ok [x]) by (constructor; [exact Hx|constructor]).
  assert (Hne : [x] <> [] \/ @nil N <> []) by (left; discriminate).
  assert (Hpe : @nil N = [] \/ (a = true /\ str_in [] pseudo_elements = true)) by (left; reflexivity).
  pose proof (comp_untagged [x] [] f a i r Hl Hne Hpe H' Hc Hf) as E. rewrite E.
  cbn [map concat pe_text app seq_finish]. rewrite !app_nil_r. reflexivity.
Qed.

Definition step_ih (y : sel) : Prop := simple_shape y = true -> normal false y = true -> simple_step s y.

Lemma simple_ok_of_forallb rr : Forall step_ih rr ->
  forallb (fun y => simple_shape y && normal false y) rr = true -> Forall simple_ok rr.
Proof.
  induction 1 as [|y rr Hy _ IH]; intros Hb; [constructor|]. cbn [forallb] in Hb.
  apply andb_prop in Hb as [Hy2 Hb]. apply andb_prop in Hy2 as [Hs Hn].
  constructor; [exact (conj Hs (conj Hn (Hy Hs Hn)))|exact (IH Hb)].
Qed.
Lemma comp_ok_compound sels pe : Forall step_ih sels -> comp_ok (SCompound sels pe).
Proof.
  intros IH f a i r Hn H Hc Hf. cbn [normal] in Hn. apply andb_prop in Hn as [N1 N2].
  assert (Hpe : pe = [] \/ (a = true /\ str_in pe pseudo_elements = true)).
  { destruct pe; [left; reflexivity|right]. apply andb_prop in N1. exact N1. }
  destruct sels as [|x rr].
  - destruct pe as [|p0 pe].
    + cbn [print_sel app] in *. destruct f as [|f]; [lia|]. rewrite (p_seq_star _ _ _ _ H Hc).
      rewrite H in Hf. cbn [length] in Hf. destruct f as [|f]; [lia|].
      rewrite (seq_loop_finish _ _ _ _ _ r (rest_S _ _ _ _ H) Hc). cbn [seq_finish length]. do 2 f_equal. lia.
    + assert (Hne : @nil sel <> [] \/ p0 :: pe <> []) by (right; discriminate).
      pose proof (comp_untagged [] (p0 :: pe) f a i r (Forall_nil _) Hne Hpe) as E.
      cbn [map concat app] in E. cbn [print_sel map concat app] in H |- *.
      rewrite (E H Hc Hf). reflexivity.
  - apply andb_prop in N2 as [N2 N3]. apply andb_prop in N2 as [N2 Nx].
    pose proof (simple_ok_of_forallb rr (Forall_inv_tail IH) N3) as Hrr.
    assert (PE : print_sel (SCompound (x :: rr) pe) = print_sel x ++ concat (map print_sel rr) ++ pe_text pe).
    { cbn [print_sel map concat]. rewrite <- app_assoc. reflexivity. }
    rewrite PE in *. rewrite <- !app_assoc in H.
    assert (FIN : forall j, seq_finish (x :: rr) pe j = Ok (POk (SCompound (x :: rr) pe) j)).
    { intros j. destruct rr; [|reflexivity]. destruct pe; [discriminate N1|reflexivity]. }
    destruct x as [t| | | | | | | | | | | | | | | | |]; cbn [simple_shape] in N2; try discriminate N2.
    1:{ cbn [normal] in Nx. apply andb_prop in Nx as [Ht Hl]. cbn [print_sel] in *.
      rewrite (comp_tagged t rr pe f a i r Ht Hl Hrr Hpe H Hc Hf). apply FIN. }
    all: match goal with |- context [print_sel ?y ++ _] =>
      assert (Hy : simple_ok y) by (split; [reflexivity|split; [exact Nx|exact (Forall_inv IH eq_refl Nx)]]);
      assert (Hne : y :: rr <> [] \/ pe <> []) by (left; discriminate);
      pose proof (comp_untagged (y :: rr) pe f a i r (Forall_cons _ Hy Hrr) Hne Hpe) as E;
      cbn [map concat] in E; rewrite <- !app_assoc in E; rewrite (E H Hc Hf); apply FIN end.
Qed.
End Compound.
