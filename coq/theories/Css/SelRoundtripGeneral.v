(* Css/SelRoundtripGeneral.v -- general round trip, part 1: tokens.
   Printing a name / identifier / string with the escaping of serialize.go and
   reading it back with parseName / parseIdentifier / parseString gives the same
   bytes, for every byte list, in front of any suffix the token cannot absorb.
   The parser is index based: a position i is described by `skipn i s`. *)
From Verif Require Import Css.Sel Css.SelParse Css.SelPrint.
From Coq Require Import ZArith NArith Lia List Bool Arith ZifyBool ZifyNat ZifyN.
Import ListNotations.

(* a suffix a name cannot absorb *)
Definition stops (suf : str) : bool :=
  match suf with [] => true | c :: _ => negb (name_char c) && negb (N.eqb c 92) end.
Definition esc1 (c : N) : str :=
  if (c <? 32)%N then hex_escape c else if (c =? 127)%N || special_char c then [92%N; c] else [c].
Lemma escape_cons c x : escape (c :: x) = esc1 c ++ escape x.
Proof. reflexivity. Qed.

Lemma esc1_len c : 1 <= length (esc1 c).
Proof.
  unfold esc1, hex_escape, hex_of_byte.
  destruct (c <? 32)%N; [destruct (c <? 16)%N; simpl; lia|].
  destruct ((c =? 127)%N || special_char c); simpl; lia.
Qed.
Lemma escape_len x : length x <= length (escape x).
Proof.
  induction x as [|c x IH]; [simpl; lia|]. rewrite escape_cons, app_length.
  pose proof (esc1_len c). simpl. lia.
Qed.
Definition id_start (h : N) : bool := (name_start h || N.eqb h 92) && negb (N.eqb h 45).
Lemma esc1_head c : digit c = false -> exists h r, esc1 c = h :: r /\ id_start h = true.
Proof.
  intros D. unfold esc1. destruct (N.ltb_spec c 32).
  - unfold hex_escape. cbn. eauto.
  - destruct ((c =? 127)%N || special_char c) eqn:E; [cbn; eauto|].
    exists c, []. split; [reflexivity|]. unfold special_char in E. unfold digit in D. unfold id_start, name_start. lia.
Qed.
Lemma escid_cons c x : escape_identifier (c :: x) =
  (if digit c then hex_escape c else esc1 c) ++ escape x.
Proof. unfold escape_identifier, digit. destruct ((48 <=? c) && (c <=? 57))%N; reflexivity. Qed.
Lemma escid_head x : x <> [] -> exists h r, escape_identifier x = h :: r /\ id_start h = true.
Proof.
  destruct x as [|c x]; [congruence|]. intros _. rewrite escid_cons. destruct (digit c) eqn:D.
  - unfold hex_escape. cbn. eauto.
  - destruct (esc1_head c D) as [h [r [E Hh]]]. rewrite E. cbn. eauto.
Qed.
Lemma escid_len x : length x <= length (escape_identifier x).
Proof.
  destruct x as [|c x]; [simpl; lia|]. rewrite escid_cons, app_length.
  pose proof (escape_len x). pose proof (esc1_len c).
  destruct (digit c); [unfold hex_escape; cbn [length app]; simpl; lia|simpl; lia].
Qed.

Definition estr1 (c : N) : str :=
  if (c =? 34)%N || (c =? 92)%N then [92%N; c]
  else if (c =? 10)%N || (c =? 13)%N || (c =? 12)%N then hex_escape c else [c].
Lemma escstr_cons c x : escape_string (c :: x) = estr1 c ++ escape_string x.
Proof. reflexivity. Qed.
Lemma estr1_len c : 1 <= length (estr1 c).
Proof.
  unfold estr1, hex_escape, hex_of_byte. destruct ((c =? 34)%N || (c =? 92)%N); [simpl; lia|].
  destruct ((c =? 10)%N || (c =? 13)%N || (c =? 12)%N); [destruct (c <? 16)%N|]; simpl; lia.
Qed.
Lemma escstr_len x : length x <= length (escape_string x).
Proof.
  induction x as [|c x IH]; [simpl; lia|]. rewrite escstr_cons, app_length.
  pose proof (estr1_len c). simpl. lia.
Qed.

Section Tok.
Variable s : str.
Local Notation len := (length s).

Lemma rest_nth i c r : skipn i s = c :: r -> nth_error s i = Some c.
Proof.
  intros H. rewrite <- (firstn_skipn i s) at 1. rewrite H.
  assert (Hl : length (firstn i s) = i).
  { apply firstn_length_le. destruct (Nat.le_gt_cases i len) as [|Hgt]; [assumption|].
    rewrite skipn_all2 in H by lia. discriminate. }
  rewrite nth_error_app2 by lia. rewrite Hl, Nat.sub_diag. reflexivity.
Qed.
Lemma rest_lt i c r : skipn i s = c :: r -> i < len.
Proof. intros H. apply rest_nth in H. apply nth_error_Some. congruence. Qed.
Lemma rest_nil i : skipn i s = [] -> len <= i.
Proof. intros H. pose proof (skipn_length i s) as L. rewrite H in L. simpl in L. lia. Qed.
Lemma rest_add i k : skipn (i + k) s = skipn k (skipn i s).
Proof.
  generalize s. induction i as [|i' IH]; intros l; [reflexivity|].
  destruct l; simpl; [destruct k; reflexivity|apply IH].
Qed.
Lemma rest_S i c r : skipn i s = c :: r -> skipn (S i) s = r.
Proof. intros H. replace (S i) with (i + 1) by lia. rewrite rest_add, H. reflexivity. Qed.
Lemma rest_app i a r : skipn i s = a ++ r -> skipn (i + length a) s = r.
Proof. intros H. rewrite rest_add, H. clear H. induction a; simpl; auto. Qed.
Lemma rest_len i : length (skipn i s) = len - i.
Proof. apply skipn_length. Qed.

Lemma at_rest site i c r : skipn i s = c :: r -> at_ s site i = Ok c.
Proof. intros H. unfold at_. rewrite (rest_nth _ _ _ H). reflexivity. Qed.
Lemma peek_rest i c r f : skipn i s = c :: r -> peek s i f = f c.
Proof. intros H. unfold peek. rewrite (rest_nth _ _ _ H). reflexivity. Qed.
Lemma peek_nil i f : skipn i s = [] -> peek s i f = false.
Proof.
  intros H. unfold peek. apply rest_nil in H.
  destruct (nth_error s i) eqn:E; [|reflexivity].
  assert (i < len) by (apply nth_error_Some; congruence). lia.
Qed.
Lemma slice_rest site i a r : i <= len -> skipn i s = a ++ r -> slice s site i (i + length a) = Ok a.
Proof.
  intros Hi H. unfold slice. pose proof (rest_len i) as L. rewrite H, app_length in L.
  assert (E : (i <=? i + length a) && (i + length a <=? len) = true).
  { apply andb_true_intro; split; apply Nat.leb_le; lia. }
  rewrite E, H. replace (i + length a - i) with (length a + 0) by lia.
  rewrite firstn_app_2. simpl. rewrite app_nil_r. reflexivity.
Qed.
Lemma slice_rest' site i j a r : i <= len -> skipn i s = a ++ r -> j = i + length a -> slice s site i j = Ok a.
Proof. intros Hi H ->. apply slice_rest with (r := r); assumption. Qed.
Lemma ltb_rest i c r : skipn i s = c :: r -> (i <? len) = true.
Proof. intros H. apply Nat.ltb_lt. exact (rest_lt _ _ _ H). Qed.
Lemma leb_rest i c r : skipn i s = c :: r -> (len <=? i) = false.
Proof. intros H. apply Nat.leb_gt. exact (rest_lt _ _ _ H). Qed.
Lemma leb_nil i : skipn i s = [] -> (len <=? i) = true.
Proof. intros H. apply Nat.leb_le. exact (rest_nil _ H). Qed.
Lemma ltb_nil i : skipn i s = [] -> (i <? len) = false.
Proof. intros H. apply Nat.ltb_ge. exact (rest_nil _ H). Qed.

Lemma parse_escape_lit i c r : skipn i s = 92%N :: c :: r ->
  (N.eqb c 13 || N.eqb c 10 || N.eqb c 12) = false -> hex_digit c = false ->
  parse_escape s i = Ok (POk [c] (i + 2)).
Proof.
  intros H Hn Hh. pose proof (rest_len i) as L. rewrite H in L. simpl in L.
  pose proof (rest_S _ _ _ H) as H1. pose proof (rest_lt _ _ _ H1) as Hlt.
  unfold parse_escape. replace (len <? i + 2) with false by (symmetry; apply Nat.ltb_ge; lia).
  rewrite (at_rest _ _ _ _ H). cbn [bind]. rewrite N.eqb_refl. cbn [negb].
  replace (i + 1) with (S i) by lia. rewrite (at_rest _ _ _ _ H1). cbn [bind].
  rewrite Hn, Hh. change (S i + 1) with (S i + length [c]).
  rewrite (slice_rest _ (S i) [c] r) by (auto; lia). reflexivity.
Qed.

Lemma parse_escape_hex1 i h1 r : skipn i s = 92%N :: h1 :: 32%N :: r -> hex_digit h1 = true ->
  parse_escape s i = Ok (POk (utf8_encode (hex_val h1)) (i + 3)).
Proof.
  intros H Hh. pose proof (rest_len i) as L. rewrite H in L. simpl in L.
  pose proof (rest_S _ _ _ H) as H1. pose proof (rest_S _ _ _ H1) as H2.
  pose proof (rest_lt _ _ _ H1) as Hlt.
  assert (Hn : (N.eqb h1 13 || N.eqb h1 10 || N.eqb h1 12) = false) by (unfold hex_digit, digit in Hh; lia).
  unfold parse_escape. replace (len <? i + 2) with false by (symmetry; apply Nat.ltb_ge; lia).
  rewrite (at_rest _ _ _ _ H). cbn [bind]. rewrite N.eqb_refl. cbn [negb].
  replace (i + 1) with (S i) by lia. rewrite (at_rest _ _ _ _ H1). cbn [bind].
  rewrite Hn, Hh. cbn [hex_run]. rewrite (peek_rest _ _ _ _ H1), Hh, (peek_rest _ _ _ _ H2).
  change (hex_digit 32) with false. cbv iota.
  rewrite (slice_rest' _ (S i) _ [h1] (32%N :: r)) by (auto; simpl; lia). cbn [bind].
  rewrite (ltb_rest _ _ _ H2), (at_rest _ _ _ _ H2). cbn.
  do 2 f_equal. lia.
Qed.
Lemma parse_escape_hex2 i h1 h2 r : skipn i s = 92%N :: h1 :: h2 :: 32%N :: r ->
  hex_digit h1 = true -> hex_digit h2 = true ->
  parse_escape s i = Ok (POk (utf8_encode (hex_val h1 * 16 + hex_val h2)) (i + 4)).
Proof.
  intros H Hh Hh2. pose proof (rest_len i) as L. rewrite H in L. simpl in L.
  pose proof (rest_S _ _ _ H) as H1. pose proof (rest_S _ _ _ H1) as H2.
  pose proof (rest_S _ _ _ H2) as H3. pose proof (rest_lt _ _ _ H1) as Hlt.
  assert (Hn : (N.eqb h1 13 || N.eqb h1 10 || N.eqb h1 12) = false) by (unfold hex_digit, digit in Hh; lia).
  unfold parse_escape. replace (len <? i + 2) with false by (symmetry; apply Nat.ltb_ge; lia).
  rewrite (at_rest _ _ _ _ H). cbn [bind]. rewrite N.eqb_refl. cbn [negb].
  replace (i + 1) with (S i) by lia. rewrite (at_rest _ _ _ _ H1). cbn [bind].
  rewrite Hn, Hh. cbn [hex_run]. rewrite (peek_rest _ _ _ _ H1), Hh, (peek_rest _ _ _ _ H2), Hh2,
    (peek_rest _ _ _ _ H3).
  change (hex_digit 32) with false. cbv iota.
  rewrite (slice_rest' _ (S i) _ [h1; h2] (32%N :: r)) by (auto; simpl; lia). cbn [bind].
  rewrite (ltb_rest _ _ _ H3), (at_rest _ _ _ _ H3). cbn.
  do 2 f_equal. lia.
Qed.

Lemma hex_char_ok d : (d < 16)%N -> hex_digit (hex_char d) = true /\ hex_val (hex_char d) = d.
Proof.
  intros Hd. unfold hex_char. destruct (N.ltb_spec d 10).
  - unfold hex_digit, hex_val, digit. split; [lia|].
    replace ((48 <=? 48 + d) && (48 + d <=? 57))%N with true by lia. lia.
  - unfold hex_digit, hex_val, digit. split; [lia|].
    replace ((48 <=? 87 + d) && (87 + d <=? 57))%N with false by lia.
    replace (97 <=? 87 + d)%N with true by lia. lia.
Qed.

Lemma parse_escape_hexesc i c r : skipn i s = hex_escape c ++ r -> (c < 128)%N ->
  parse_escape s i = Ok (POk [c] (i + length (hex_escape c))).
Proof.
  intros H Hc. unfold hex_escape, hex_of_byte in *. destruct (N.ltb_spec c 16) as [Hlt|Hge].
  - destruct (hex_char_ok c Hlt) as [A B]. cbn in H. rewrite (parse_escape_hex1 _ _ _ H A), B.
    unfold utf8_encode. replace (c <? 128)%N with true by lia. reflexivity.
  - assert (H1 : (c / 16 < 16)%N) by (apply N.div_lt_upper_bound; lia).
    assert (H2 : (c mod 16 < 16)%N) by (apply N.mod_lt; lia).
    destruct (hex_char_ok _ H1) as [A B]. destruct (hex_char_ok _ H2) as [A2 B2]. cbn in H.
    rewrite (parse_escape_hex2 _ _ _ _ H A A2), B, B2.
    replace (c / 16 * 16 + c mod 16)%N with c by (rewrite (N.div_mod c 16) at 1; lia).
    unfold utf8_encode. replace (c <? 128)%N with true by lia. reflexivity.
Qed.
Lemma name_loop_esc1 n i acc c r : skipn i s = esc1 c ++ r ->
  name_loop s (S n) i acc = name_loop s n (i + length (esc1 c)) (acc ++ [c]).
Proof.
  intros H. unfold esc1 in *. destruct (N.ltb_spec c 32) as [Hlt|Hge].
  - assert (H' : exists r', skipn i s = 92%N :: r') by (unfold hex_escape in H; cbn in H; eauto).
    destruct H' as [r' H']. cbn [name_loop]. rewrite (ltb_rest _ _ _ H'), (at_rest _ _ _ _ H'). cbn [bind].
    change (name_char 92) with false. cbv iota. change (92 =? 92)%N with true. cbv iota.
    rewrite (parse_escape_hexesc _ _ _ H) by lia. reflexivity.
  - destruct ((c =? 127)%N || special_char c) eqn:E.
    + cbn [name_loop]. cbn [app] in H. rewrite (ltb_rest _ _ _ H), (at_rest _ _ _ _ H). cbn [bind].
      change (name_char 92) with false. cbv iota. change (92 =? 92)%N with true. cbv iota.
      rewrite (parse_escape_lit _ _ _ H); [reflexivity|lia|].
      unfold special_char in E. unfold hex_digit, digit. lia.
    + cbn [name_loop]. cbn [app] in H. rewrite (ltb_rest _ _ _ H), (at_rest _ _ _ _ H). cbn [bind].
      replace (name_char c) with true.
      * replace (i + length [c]) with (S i) by (simpl; lia). reflexivity.
      * unfold special_char in E. unfold name_char, name_start, digit. lia.
Qed.

Lemma name_loop_stop n i acc suf : skipn i s = suf -> stops suf = true ->
  name_loop s (S n) i acc = Ok (POk acc i).
Proof.
  intros H Hs. cbn [name_loop]. destruct suf as [|c r].
  - rewrite (ltb_nil _ H). reflexivity.
  - rewrite (ltb_rest _ _ _ H), (at_rest _ _ _ _ H). cbn [bind]. cbn [stops] in Hs.
    destruct (name_char c); [discriminate|]. destruct (c =? 92)%N; [discriminate|]. reflexivity.
Qed.

Lemma name_loop_escape : forall x n i acc suf, skipn i s = escape x ++ suf -> stops suf = true ->
  length x < n -> name_loop s n i acc = Ok (POk (acc ++ x) (i + length (escape x))).
Proof.
  induction x as [|c x IH]; intros n i acc suf H Hs Hn.
  - destruct n; [simpl in Hn; lia|]. cbn in H. rewrite (name_loop_stop _ _ _ _ H Hs).
    rewrite app_nil_r. cbn. do 2 f_equal. lia.
  - destruct n; [simpl in Hn; lia|]. rewrite escape_cons, <- app_assoc in H.
    rewrite (name_loop_esc1 _ _ _ _ _ H).
    rewrite (IH n _ _ suf); [| apply rest_app; exact H | exact Hs | simpl in Hn; lia].
    rewrite <- app_assoc. cbn [app]. rewrite escape_cons, app_length. do 2 f_equal. lia.
Qed.
Lemma rest_bound i a r : skipn i s = a ++ r -> length a <= len.
Proof. intros H. pose proof (rest_len i) as L. rewrite H, app_length in L. lia. Qed.

(* parseName reads back escape x (the text after '#') *)
Lemma parse_name_escape i x suf : skipn i s = escape x ++ suf -> stops suf = true -> x <> [] ->
  parse_name s i = Ok (POk x (i + length (escape x))).
Proof.
  intros H Hs Hx. unfold parse_name.
  rewrite (name_loop_escape x (S len) i [] suf H Hs).
  - cbn. destruct x; [congruence|reflexivity].
  - pose proof (rest_bound _ _ _ H). pose proof (escape_len x). lia.
Qed.

Lemma name_loop_escid x n i acc suf : skipn i s = escape_identifier x ++ suf -> stops suf = true ->
  x <> [] -> length x < n ->
  name_loop s n i acc = Ok (POk (acc ++ x) (i + length (escape_identifier x))).
Proof.
  intros H Hs Hx Hn. destruct x as [|c x]; [congruence|]. rewrite escid_cons in *.
  destruct (digit c) eqn:D.
  - destruct n; [simpl in Hn; lia|]. rewrite <- app_assoc in H.
    assert (H' : exists r', skipn i s = 92%N :: r') by (unfold hex_escape in H; cbn in H; eauto).
    destruct H' as [r' H']. cbn [name_loop]. rewrite (ltb_rest _ _ _ H'), (at_rest _ _ _ _ H'). cbn [bind].
    change (name_char 92) with false. cbv iota. change (92 =? 92)%N with true. cbv iota.
    rewrite (parse_escape_hexesc _ _ _ H) by (unfold digit in D; lia). cbn [bindP].
    rewrite (name_loop_escape x n _ _ suf); [| apply rest_app; exact H | exact Hs | simpl in Hn; lia].
    rewrite <- app_assoc, app_length. cbn [app]. do 2 f_equal. lia.
  - change (esc1 c ++ escape x) with (escape (c :: x)) in *.
    apply name_loop_escape with (suf := suf); assumption.
Qed.

Lemma dash_run_no n i c r : skipn i s = c :: r -> (c =? 45)%N = false -> dash_run s n i = i.
Proof.
  intros H Hc. destruct n; [reflexivity|]. cbn [dash_run]. unfold peek_is.
  rewrite (peek_rest _ _ _ _ H). rewrite N.eqb_sym, Hc. reflexivity.
Qed.

(* parseIdentifier reads back escape_identifier x *)
Lemma parse_identifier_escid i x suf : skipn i s = escape_identifier x ++ suf -> stops suf = true ->
  x <> [] -> parse_identifier s i = Ok (POk x (i + length (escape_identifier x))).
Proof.
  intros H Hs Hx. destruct (escid_head x Hx) as [h [r [E Hh]]].
  assert (H' : skipn i s = h :: r ++ suf) by (rewrite H, E; reflexivity).
  unfold id_start in Hh. unfold parse_identifier.
  rewrite (dash_run_no _ _ _ _ H') by lia.
  rewrite (leb_rest _ _ _ H'), (at_rest _ _ _ _ H'). cbn [bind].
  replace (name_start h || (h =? 92)%N) with true by lia. cbn [negb].
  unfold parse_name. rewrite (name_loop_escid x (S len) i [] suf H Hs Hx).
  - rewrite Nat.sub_diag. cbn. destruct x; [congruence|reflexivity].
  - pose proof (rest_bound _ _ _ H). pose proof (escid_len x). lia.
Qed.
Lemma string_loop_bs n i acc c r v k : skipn i s = 92%N :: c :: r ->
  (N.eqb c 13 || N.eqb c 10 || N.eqb c 12) = false ->
  parse_escape s i = Ok (POk v k) ->
  string_loop s (S n) 34 i acc = string_loop s n 34 k (acc ++ v).
Proof.
  intros H Hn He. pose proof (rest_S _ _ _ H) as H1. cbn [string_loop].
  rewrite (ltb_rest _ _ _ H), (at_rest _ _ _ _ H). cbn [bind]. change (92 =? 92)%N with true. cbv iota.
  rewrite (ltb_rest _ _ _ H1), (at_rest _ _ _ _ H1). cbn [bind].
  destruct (c =? 13)%N; [discriminate|]. cbn [orb] in Hn |- *. rewrite Hn. cbn [bind].
  rewrite He. reflexivity.
Qed.

Lemma string_loop_estr1 n i acc c r : skipn i s = estr1 c ++ r ->
  string_loop s (S n) 34 i acc = string_loop s n 34 (i + length (estr1 c)) (acc ++ [c]).
Proof.
  intros H. unfold estr1 in *. destruct ((c =? 34)%N || (c =? 92)%N) eqn:E1.
  - cbn [app] in H. apply (string_loop_bs _ _ _ _ _ _ _ H); [lia|].
    apply (parse_escape_lit _ _ _ H); [lia|unfold hex_digit, digit; lia].
  - destruct ((c =? 10)%N || (c =? 13)%N || (c =? 12)%N) eqn:E2.
    + assert (Hc : c = 10%N \/ c = 13%N \/ c = 12%N) by lia.
      destruct Hc as [-> | [-> | ->]]; cbn in H |- *;
        (eapply string_loop_bs; [exact H | reflexivity | rewrite (parse_escape_hex1 _ _ _ H) by reflexivity; reflexivity]).
    + cbn [app] in H. cbn [string_loop]. rewrite (ltb_rest _ _ _ H), (at_rest _ _ _ _ H). cbn [bind].
      replace (c =? 92)%N with false by lia. replace (c =? 34)%N with false by lia.
      replace ((c =? 13)%N || (c =? 10)%N || (c =? 12)%N) with false by lia.
      replace (i + length [c]) with (S i) by (simpl; lia). reflexivity.
Qed.

Lemma string_loop_escstr : forall x n i acc suf, skipn i s = escape_string x ++ 34%N :: suf ->
  length x < n -> string_loop s n 34 i acc = Ok (POk (acc ++ x) (i + length (escape_string x))).
Proof.
  induction x as [|c x IH]; intros n i acc suf H Hn.
  - destruct n; [simpl in Hn; lia|]. cbn in H. cbn [string_loop].
    rewrite (ltb_rest _ _ _ H), (at_rest _ _ _ _ H). cbn. rewrite app_nil_r. do 2 f_equal. lia.
  - destruct n; [simpl in Hn; lia|]. rewrite escstr_cons, <- app_assoc in H.
    rewrite (string_loop_estr1 _ _ _ _ _ H).
    rewrite (IH n _ _ suf); [| apply rest_app; exact H | simpl in Hn; lia].
    rewrite <- app_assoc. cbn [app]. rewrite escstr_cons, app_length. do 2 f_equal. lia.
Qed.

(* parseString reads back "escape_string x" *)
Lemma parse_string_escstr i x suf : skipn i s = 34%N :: escape_string x ++ 34%N :: suf ->
  parse_string s i = Ok (POk x (i + length (escape_string x) + 2)).
Proof.
  intros H. pose proof (rest_S _ _ _ H) as H1. pose proof (rest_app _ _ _ H1) as H2.
  pose proof (rest_bound _ _ _ H1) as B. pose proof (escstr_len x) as B2.
  pose proof (rest_lt _ _ _ H) as L0. pose proof (rest_lt _ _ _ H2) as L2.
  unfold parse_string. replace (len <? i + 2) with false by (symmetry; apply Nat.ltb_ge; lia).
  rewrite (at_rest _ _ _ _ H). cbn [bind].
  rewrite (string_loop_escstr x (S len) (S i) [] suf H1) by lia. cbn [bindP app].
  rewrite (leb_rest _ _ _ H2). do 2 f_equal. lia.
Qed.
End Tok.
