(* Css/SvgAttr.v -- model of the SVG attribute parsers of /repo/svg that are not
   part of the number / path / transform scanner (that one is C18's) (C07).

   Ported (file svg/parser.go unless noted):
     parsePreserveAspectRatio  340-352   BYTES   sites 760 aspectRatio[0], 761 align[1:4], 762 align[5:]
     parseURL (the url(...) stripping, before net/url.Parse)  223-233  BYTES
                                         sites 763 url_[4:len-1], 764 url_[0], 765 url_[len-1], 766 url_[1:len-1]
     newPainter  svg/paint.go:30-52      CODE POINTS  sites 767 attr[:i], 768 attr[i+1:]
     parseValue  71-90                   CODE POINTS  (unit table `units`, 41)
     parseOpacity 199-211                CODE POINTS  site 769 value[:len(value)-1]
     parseFontWeight 371-383, parseOrientation 356-368
   strconv.ParseFloat and net/url.Parse are library code: the models return the
   string handed to them.  NO PROOFS here (Css/SvgAttrProofs.v). *)
From Verif Require Import Base.GoSem Base.GoStrings.
From Coq Require Import List ZArith NArith Bool.
Import ListNotations.
Open Scope Z_scope.

(* ------------------------------------------------------------------ preserveAspectRatio *)
Record par := mkPar { par_x : list N; par_y : list N; par_none : bool; par_slice : bool }.
Definition s_min : list N := [109; 105; 110]%N.
Definition s_none : list N := [110; 111; 110; 101]%N.
Definition s_slice : list N := [115; 108; 105; 99; 101]%N.

(* `guarded` = the repaired condition `align != "none" && len(align) >= 5`;
   the code as found had `||`.  strings.ToLower is modelled by ASCII lower-casing:
   the x / y fields are only meaningful (and only compared) for ASCII input. *)
Definition parse_preserve_aspect_ratio_gen (guarded : bool) (s : list N) : res par :=
  let aspect := split_byte 32 s in
  let* align := index 760 aspect 0 in
  let is_none := list_eqb align s_none in
  let cond := if guarded then negb is_none && (len align >=? 5) else negb is_none || (len align >=? 5) in
  let* xy := (if cond
              then let* x := slice 761 align 1 4 in
                   let* y := slice_from 762 align 5 in
                   Ok (ascii_lower x, ascii_lower y)
              else Ok (s_min, s_min)) in
  let slice_ := (len aspect >=? 2) &&
                match nth_error aspect 1 with Some a1 => list_eqb a1 s_slice | None => false end in
  Ok (mkPar (fst xy) (snd xy) is_none slice_).
Definition parse_preserve_aspect_ratio := parse_preserve_aspect_ratio_gen true.
Definition parse_preserve_aspect_ratio_unfixed := parse_preserve_aspect_ratio_gen false.

(* ------------------------------------------------------------------ parseURL: url(...) stripping *)
Definition s_url_open : list N := [117; 114; 108; 40]%N.   (* "url(" *)
Definition s_close : list N := [41]%N.                      (* ")" *)

(* returns the string handed to net/url.Parse *)
Definition parse_url_strip (u : list N) : res (list N) :=
  if has_prefix u s_url_open && has_suffix u s_close then
    let* u := slice 763 u 4 (len u - 1) in
    if len u >=? 2 then
      let* a := index 764 u 0 in
      let* b := index 765 u (len u - 1) in
      if ((a =? 34) && (b =? 34) || (a =? 39) && (b =? 39))%N
      then slice 766 u 1 (len u - 1)
      else Ok u
    else Ok u
  else Ok u.

(* ------------------------------------------------------------------ newPainter *)
Inductive painter :=
| PaintNone                                   (* "" or "none": painter{} *)
| PaintErr                                    (* "url(" without ")" : error value *)
| PaintRef (url_arg color : list N)           (* url(...) reference: argument of parseURLFragment, rest parsed as a colour *)
| PaintColor (color : list N).

Definition new_painter (attr : list N) : res painter :=
  let attr := trim_space attr in
  if list_eqb attr [] || list_eqb attr s_none then Ok PaintNone
  else if has_prefix attr s_url_open then
    let i := index_byte attr 41 in
    if negb (i =? -1) then
      let* u := slice_to 767 attr i in
      let* rest := slice_from 768 attr (i + 1) in
      let* u' := parse_url_strip u in
      Ok (PaintRef u' rest)
    else Ok PaintErr
  else Ok (PaintColor attr).

(* ------------------------------------------------------------------ parseValue *)
(* units table, parser.go:41, in index order (index 0 is skipped by the loop) *)
Definition unit_suffixes : list (N * list N) :=
  [ (1, [112; 120]); (2, [99; 109]); (3, [109; 109]); (4, [112; 116]); (5, [105; 110]);
    (6, [81]); (7, [112; 99]); (8, [37]); (9, [101; 109]); (10, [114; 101; 109]); (11, [101; 120]) ]%N.

Fixpoint find_unit (s : list N) (us : list (N * list N)) : N * list N :=
  match us with
  | [] => (1%N, s)                                       (* Px, s unchanged *)
  | (u, suf) :: r =>
      if has_suffix s suf then (u, trim_space (trim_suffix s suf)) else find_unit s r
  end.

(* (unit, string handed to strconv.ParseFloat); None = the empty value Value{} *)
Definition parse_value (s : list N) : res (option (N * list N)) :=
  let s := trim_space s in
  if list_eqb s [] then Ok None else Ok (Some (find_unit s unit_suffixes)).

(* ------------------------------------------------------------------ parseOpacity *)
(* (is a percentage, string handed to ParseFloat); None = default 1 *)
Definition parse_opacity (value : list N) : res (option (bool * list N)) :=
  let value := trim_space value in
  if list_eqb value [] then Ok None
  else if has_suffix value [37%N] then
    let* v := slice_to 769 value (len value - 1) in
    Ok (Some (true, trim_space v))
  else Ok (Some (false, value)).

(* ------------------------------------------------------------------ parseFontWeight *)
Definition s_normal : list N := [110; 111; 114; 109; 97; 108]%N.
Definition s_bold : list N := [98; 111; 108; 100]%N.
Definition parse_font_weight (s : list N) : res Z :=
  if list_eqb s s_normal then Ok 400
  else if list_eqb s s_bold then Ok 700
  else match atoi s with None => Ok 400 | Some v => Ok v end.
