(* Css/SelRoundtrip.v -- printing a parsed selector and parsing it again.

   `normal_group` characterises the selectors the parser produces (what String()
   is ever applied to); the round-trip statement is
       forall g, normal_group g = true -> parse_group (print_group g) = Ok (Some g).
   It is proved here for an explicit family of selectors (every simple selector
   over small alphabets that exercise each escaping rule, every compound of up to
   two of them with an optional type selector and pseudo-element, every
   combinator, :is/:not/:has/:haschild of lists) by evaluation; the general
   statement is kept in Properties/C05.v and checked by the tie on every parsed
   selector of every run (Check/C05.v code 10). *)
From Verif Require Import Css.Sel Css.SelParse Css.SelPrint.
From Coq Require Import List ZArith NArith Bool.
Import ListNotations.

Fixpoint sel_eqb (x y : sel) {struct x} : bool :=
  let fix list_eqb (l1 l2 : list sel) {struct l1} : bool :=
    match l1, l2 with
    | [], [] => true
    | a :: r1, b :: r2 => sel_eqb a b && list_eqb r1 r2
    | _, _ => false
    end in
  match x, y with
  | STag a, STag b | SClass a, SClass b | SId a, SId b | SLang a, SLang b | SNever a, SNever b => str_eqb a b
  | SAttr k v o i, SAttr k' v' o' i' =>
      str_eqb k k' && str_eqb v v' && Bool.eqb i i' &&
      match o, o' with
      | OpExists, OpExists | OpEq, OpEq | OpNe, OpNe | OpIncludes, OpIncludes | OpDash, OpDash
      | OpPrefix, OpPrefix | OpSuffix, OpSuffix | OpSubstr, OpSubstr => true
      | _, _ => false
      end
  | SRel n g, SRel n' g' =>
      match n, n' with RIs, RIs | RNot, RNot | RHas, RHas | RHasChild, RHasChild => true | _, _ => false end
      && list_eqb g g'
  | SNth a b l t, SNth a' b' l' t' => Z.eqb a a' && Z.eqb b b' && Bool.eqb l l' && Bool.eqb t t'
  | SOnly t, SOnly t' => Bool.eqb t t'
  | SInput, SInput | SEmpty, SEmpty | SRoot, SRoot | SLink, SLink
  | SEnabled, SEnabled | SDisabled, SDisabled | SChecked, SChecked => true
  | SCompound l pe, SCompound l' pe' => list_eqb l l' && str_eqb pe pe'
  | SCombined a c b, SCombined a' c' b' =>
      sel_eqb a a' && sel_eqb b b' &&
      match c, c' with CDesc, CDesc | CChild, CChild | CAdj, CAdj | CSib, CSib => true | _, _ => false end
  | _, _ => false
  end.
Fixpoint group_eqb (l1 l2 : list sel) : bool :=
  match l1, l2 with
  | [], [] => true
  | a :: r1, b :: r2 => sel_eqb a b && group_eqb r1 r2
  | _, _ => false
  end.

(* ---- the shape of parser results (what String() is applied to) *)
Definition nonempty (s : str) : bool := match s with [] => false | _ => true end.
Definition lowered (s : str) : bool := str_eqb (to_lower s) s.
Definition int_ok (z : Z) : bool := (Z.abs z <=? 9223372036854775807)%Z.
Definition simple_shape (s : sel) : bool :=
  match s with STag _ | SCompound _ _ | SCombined _ _ _ => false | _ => true end.

(* allow_pe: pseudo-elements are accepted (false inside :is/:not/:has) *)
Fixpoint normal (allow_pe : bool) (s : sel) {struct s} : bool :=
  match s with
  | STag t => nonempty t && lowered t
  | SClass c => nonempty c
  | SId i => nonempty i
  | SAttr k v op ic =>
      nonempty k && lowered k &&
      match op with OpExists => negb (nonempty v) && negb ic | _ => true end
  | SRel _ g => match g with [] => false | _ => forallb (normal false) g end
  | SNth a b _ _ => int_ok a && int_ok b
  | SOnly _ | SInput | SEmpty | SRoot | SLink | SEnabled | SDisabled | SChecked => true
  | SLang l => nonempty l && lowered l
  | SNever v => match v with 58%N :: name => str_in name never_names | _ => false end
  | SCompound sels pe =>
      (* a lone simple selector without pseudo-element is not wrapped (parser.go:826) *)
      (match pe with [] => negb (Nat.eqb (length sels) 1) | _ => allow_pe && str_in pe pseudo_elements end) &&
      match sels with
      | [] => true
      | x :: r => (match x with STag _ => true | _ => simple_shape x end) && normal false x &&
                  forallb (fun y => simple_shape y && normal false y) r
      end
  | SCombined a _ b =>
      (* left-nested chain of compounds (parser.go:870) *)
      (* ... whose pseudo-element, if any, is on the last compound (parser.go:866) *)
      normal allow_pe a && match b with SCombined _ _ _ => false | _ => normal allow_pe b end &&
      match pseudo_element a with [] => true | _ => false end
  end.
Definition normal_group (g : list sel) : bool :=
  match g with [] => false | _ => forallb (normal true) g end.

Definition roundtrip_ok (g : list sel) : bool :=
  match parse_group (print_group g) with
  | Ok (Some g') => group_eqb g g'
  | _ => false
  end.

(* ---- the explicit family *)
Local Open Scope N_scope.
Definition names : list str :=
  [ [97]; [100;105;118]; [49;97]; [97;46;98]; [45]; [45;49]; [97;32;98]; [1]; [127]; [195;169]; [65];
    [45;45;120]; [48]; [97;92;98]; [10;97]; [102;102] ]%N.
Definition lower_names : list str := filter lowered names.
Definition vals : list str :=
  [ []; [97]; [97;34;98]; [92]; [97;10;98]; [32]; [39]; [13;10]; [12;102]; [49] ]%N.
Definition ops : list attr_op := [OpEq; OpNe; OpIncludes; OpDash; OpPrefix; OpSuffix; OpSubstr].
Definition ints : list Z := [-2; -1; 0; 1; 2; 13]%Z.
Definition bools : list bool := [false; true].

Definition simples : list sel :=
  map SClass names ++ map SId names ++
  flat_map (fun k => SAttr k [] OpExists false ::
              flat_map (fun o => flat_map (fun v => [SAttr k v o false; SAttr k v o true]) vals) ops)
           [ [97]; [49;97]; [100;97;116;97;45;120] ]%N ++
  flat_map (fun a => flat_map (fun b => flat_map (fun l => map (SNth a b l) bools) bools) ints) ints ++
  [SOnly false; SOnly true; SInput; SEmpty; SRoot; SLink; SEnabled; SDisabled; SChecked] ++
  map SLang lower_names ++ map (fun n => SNever (58%N :: n)) never_names.

(* a reduced list, for combinations *)
Definition few : list sel :=
  [ SClass [97]; SClass [49;97]; SId [97;46;98]; SId [1]; SAttr [97] [97;34;98] OpPrefix true;
    SAttr [97] [] OpExists false; SNth (-2)%Z 1%Z true false; SNth 0%Z 1%Z false true; SNth 2%Z 0%Z false false;
    SEmpty; SLang [49;97]; SNever [58;104;111;118;101;114]; SOnly true ]%N.
Definition tags : list sel := map STag lower_names.
Definition pes : list str := [ []; [98;101;102;111;114;101]; [102;105;114;115;116;45;108;105;110;101] ]%N.

Definition wrap (sels : list sel) (pe : str) : sel :=
  match sels, pe with [x], [] => x | _, _ => SCompound sels pe end.
Definition compounds : list sel :=
  tags ++ simples ++
  flat_map (fun t => map (fun x => SCompound [t; x] []) simples) (firstn 3%nat tags) ++
  flat_map (fun x => map (fun y => SCompound [x; y] []) few) simples ++
  flat_map (fun x => map (fun y => SCompound [x; y] []) simples) few ++
  flat_map (fun x => flat_map (fun y => map (fun z => SCompound [x; y; z] [102;105;114;115;116;45;108;105;110;101]) few) few) (firstn 4%nat tags) ++
  flat_map (fun pe => wrap [] pe :: map (fun x => wrap [x] pe) (tags ++ few) ++
                      flat_map (fun t => map (fun x => wrap [t; x] pe) few) (firstn 2%nat tags)) pes.
Definition few_compounds : list sel :=
  [ STag [100;105;118]; SCompound [] []; SClass [49;97]; SCompound [STag [97]; SId [1]] [];
    SNth (-1)%Z 2%Z false false; SCompound [SEmpty; SAttr [97] [92] OpEq true] []; SLang [102;102] ]%N.
Definition combs : list comb := [CDesc; CChild; CAdj; CSib].
Definition complexes : list sel :=
  flat_map (fun a => flat_map (fun c => map (SCombined a c) few_compounds) combs) few_compounds ++
  flat_map (fun c1 => flat_map (fun c2 =>
     [SCombined (SCombined (STag [97]) c1 (SClass [49;97])) c2 (SCompound [] [98;101;102;111;114;101]);
      SCombined (SCombined (STag [97]) c1 (SCompound [] [])) c2 (SCompound [SId [97]] [98;101;102;111;114;101])]) combs) combs.
Definition rels : list sel :=
  flat_map (fun name =>
     map (fun x => SRel name [x]) (few_compounds ++ firstn 12%nat complexes) ++
     flat_map (fun x => map (fun y => SRel name [x; y]) few_compounds) few_compounds ++
     [SRel name [SRel RNot [SRel RIs [STag [97]; SClass [49;97]]]; SCombined (SId [1]) CAdj (SRel name [SEmpty])]])
    [RIs; RNot; RHas; RHasChild].

Definition samples : list (list sel) :=
  map (fun x => [x]) (compounds ++ complexes ++ rels ++ map (fun r => SCompound [STag [97]; r] []) rels) ++
  flat_map (fun x => map (fun y => [x; y]) few_compounds) few_compounds ++
  [ [SClass [49]; SCombined (STag [97]) CDesc (SClass [49]); SCompound [] [98;101;102;111;114;101]] ]%N.
