(* Css/DeclSpec.v -- CSS Syntax 3 section 5.4.6 "consume a declaration", on the
   component values that follow the declaration's name, and section 6 <an+b>.
   Independent, executable transcription; no proofs.

   "While the next input token is a <whitespace-token>, consume the next input
   token.  If the next input token is anything other than a <colon-token>, this is
   a parse error.  Return nothing.  Otherwise, consume the next input token. [...]
   As long as the next input token is anything other than an <EOF-token>, consume a
   component value and append it to the declaration's value.  If the last two
   non-<whitespace-token>s in the declaration's value are a <delim-token> with the
   value "!" followed by an <ident-token> with a value that is an ASCII
   case-insensitive match for "important", remove them from the declaration's value
   and set the declaration's important flag to true."

   Presentation choices of the implementation that are part of the statement:
   comments kept as tokens count as whitespace; "remove them" also removes the
   whitespace/comments between and after the two tokens (the value is what
   precedes the "!"); leading whitespace after the colon is kept in the value. *)
From Verif Require Import Css.Token.
From Coq Require Import List NArith ZArith Bool.
Import ListNotations.
Open Scope N_scope.

Definition wsc (t : token) : bool :=
  match t with TWhitespace _ _ | TComment _ _ => true | _ => false end.

Fixpoint drop_wsc (l : list token) : list token :=
  match l with
  | t :: r => if wsc t then drop_wsc r else l
  | [] => []
  end.

Definition delim_is (t : token) (c : N) : bool :=
  match t with
  | TLiteral _ [d] => d =? c
  | _ => false
  end.

Definition lower_ascii (c : N) : N := if (65 <=? c) && (c <=? 90) then c + 32 else c.
Fixpoint codes_eqb (a b : list N) : bool :=
  match a, b with
  | [], [] => true
  | x :: a', y :: b' => (x =? y) && codes_eqb a' b'
  | _, _ => false
  end.
(* "important" *)
Definition important_word : list N := [105; 109; 112; 111; 114; 116; 97; 110; 116].
Definition ident_is_important (t : token) : bool :=
  match t with
  | TIdent _ v => codes_eqb (map lower_ascii v) important_word
  | _ => false
  end.

(* value and important flag *)
Definition spec_important (value : list token) : list token * bool :=
  match drop_wsc (rev value) with
  | i :: r1 =>
      if ident_is_important i then
        match drop_wsc r1 with
        | b :: r2 => if delim_is b 33 then (rev r2, true) else (value, false)
        | [] => (value, false)
        end
      else (value, false)
  | [] => (value, false)
  end.

Inductive decl_result :=
| DOk (name : str) (value : list token) (important : bool)
| DError.

(* `first` is the first non-whitespace token, `rest` what follows it *)
Definition spec_declaration (first : token) (rest : list token) : decl_result :=
  match first with
  | TIdent _ name =>
      match drop_wsc rest with
      | c :: value =>
          if delim_is c 58 then let '(v, imp) := spec_important value in DOk name v imp
          else DError
      | [] => DError
      end
  | _ => DError
  end.

(* ------------------------------------------------------------------ the {} rule of the css-syntax draft
   (Editor's Draft, "consume a declaration", after the removal of "!important"):
   "if decl's value contains a top-level simple block with an associated token of
   <{-token>, and also contains any other non-<whitespace-token> value, return
   nothing.  (That is, a top-level {}-block is only allowed as the entire value of
   a non-custom property.)"   Custom properties are not distinguished by the
   implementation (a TODO of parser.go): the rule is applied to every name. *)
Definition is_curly_block (t : token) : bool :=
  match t with TCurly _ _ => true | _ => false end.

(* the value without its first {} block; None when it has none *)
Fixpoint remove_first_block (l : list token) : option (list token) :=
  match l with
  | [] => None
  | t :: r =>
      if is_curly_block t then Some r
      else match remove_first_block r with Some o => Some (t :: o) | None => None end
  end.

(* "contains a {} block and also any other non-whitespace value" *)
Definition block_not_alone (value : list token) : bool :=
  match remove_first_block value with
  | Some others => negb (forallb wsc others)
  | None => false
  end.

Definition spec_declaration_draft (first : token) (rest : list token) : decl_result :=
  match spec_declaration first rest with
  | DOk name v imp => if block_not_alone v then DError else DOk name v imp
  | DError => DError
  end.
