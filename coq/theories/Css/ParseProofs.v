(* Css/ParseProofs.v -- properties of the rule / declaration parsers (model Css/Parse.v):
   totality, and "error recovery is exact": a declaration (valid or not) ends
   exactly at its `;`, a rule exactly at its {} block, whatever precedes and
   follows (compositionality of the list parsers). *)
From Verif Require Import Base.GoSem Css.Token Css.Tok Css.Parse.
From Coq Require Import List NArith ZArith Bool Lia ZifyBool ZifyNat ZifyN.
Import ListNotations.
Open Scope N_scope.

(* ------------------------------------------------------------------ the generic loop *)
Section Loop.
  Variables (kw kc : bool) (sl : str -> bool) (C : token -> list token -> compound * list token).
  Hypothesis Hlen : forall t r, (length (snd (C t r)) <= length r)%nat.

  Notation loop f l := (list_loop f kw kc sl C l).

  Lemma loop_ok_irrel : forall n l f1 f2, (length l <= n)%nat -> (length l < f1)%nat -> (length l < f2)%nat ->
    exists o, loop f1 l = Ok o /\ loop f2 l = Ok o.
  Proof.
    induction n as [|n IH]; intros l f1 f2 Hn H1 H2.
    - destruct l; [|simpl in Hn; lia]. destruct f1; [lia|]. destruct f2; [lia|]. exists []. split; reflexivity.
    - destruct f1 as [|f1]; [lia|]. destruct f2 as [|f2]; [lia|].
      destruct l as [|t r]; [exists []; split; reflexivity|].
      simpl in Hn, H1, H2. cbn [list_loop].
      destruct (is_ws t).
      { destruct (IH r f1 f2) as (o & E1 & E2); try lia. rewrite E1, E2. simpl. eauto. }
      destruct (is_comment t).
      { destruct (IH r f1 f2) as (o & E1 & E2); try lia. rewrite E1, E2. simpl. eauto. }
      destruct (match t with TLiteral _ v => sl v | _ => false end).
      { apply IH; lia. }
      pose proof (Hlen t r) as Hl. destruct (C t r) as [c r']. cbn [snd] in Hl.
      destruct (IH r' f1 f2) as (o & E1 & E2); try lia. rewrite E1, E2. simpl. eauto.
  Qed.

  Lemma loop_ok f l : (length l < f)%nat -> exists o, loop f l = Ok o.
  Proof. intros H. destruct (loop_ok_irrel (length l) l f f (le_n _) H H) as (o & E & _). eauto. Qed.

  Lemma loop_irrel f1 f2 l o : (length l < f1)%nat -> (length l < f2)%nat -> loop f1 l = Ok o -> loop f2 l = Ok o.
  Proof.
    intros H1 H2 E. destruct (loop_ok_irrel (length l) l f1 f2 (le_n _) H1 H2) as (o' & E1 & E2).
    rewrite E in E1. inversion E1; subst. exact E2.
  Qed.

  (* --- a separator that is skipped by the loop (the ";" of declaration lists) --- *)
  Section Semi.
    Variable semi : token.
    Hypothesis semi_skipped :
      is_ws semi = false /\ is_comment semi = false /\
      match semi with TLiteral _ v => sl v | _ => false end = true.
    (* the consumer stops at the separator: either it had already stopped inside r, or it
       stops exactly there *)
    Hypothesis semi_local : forall t r b,
      (C t (r ++ semi :: b) = (fst (C t r), b) /\ snd (C t r) = []) \/
      C t (r ++ semi :: b) = (fst (C t r), snd (C t r) ++ semi :: b).

    Lemma loop_semi : forall n a b f fa fb, (length a <= n)%nat ->
      (length (a ++ semi :: b) < f)%nat -> (length a < fa)%nat -> (length b < fb)%nat ->
      exists oa ob, loop fa a = Ok oa /\ loop fb b = Ok ob /\ loop f (a ++ semi :: b) = Ok (oa ++ ob).
    Proof.
      destruct semi_skipped as (Hs1 & Hs2 & Hs3).
      induction n as [|n IH]; intros a b f fa fb Hn Hf Hfa Hfb.
      - destruct a; [|simpl in Hn; lia]. destruct fa; [lia|].
        destruct (loop_ok fb b Hfb) as [ob Eb]. exists [], ob. split; [reflexivity|]. split; [exact Eb|].
        destruct f as [|f]; [lia|]. cbn [app list_loop]. rewrite Hs1, Hs2, Hs3.
        eapply loop_irrel; [exact Hfb| |exact Eb]. simpl in Hf. lia.
      - destruct a as [|t r].
        { destruct fa; [lia|].
          destruct (loop_ok fb b Hfb) as [ob Eb]. exists [], ob. split; [reflexivity|]. split; [exact Eb|].
          destruct f as [|f]; [lia|]. cbn [app list_loop]. rewrite Hs1, Hs2, Hs3.
          eapply loop_irrel; [exact Hfb| |exact Eb]. simpl in Hf. lia. }
        destruct f as [|f]; [lia|]. destruct fa as [|fa]; [lia|].
        simpl in Hn, Hf, Hfa. cbn [app list_loop].
        destruct (is_ws t).
        { destruct (IH r b f fa fb) as (oa & ob & E1 & E2 & E3); try lia.
          rewrite E1, E3. simpl. exists (if kw then tok_compound t :: oa else oa), ob.
          split; [reflexivity|]. split; [exact E2|]. destruct kw; reflexivity. }
        destruct (is_comment t).
        { destruct (IH r b f fa fb) as (oa & ob & E1 & E2 & E3); try lia.
          rewrite E1, E3. simpl. exists (if kc then tok_compound t :: oa else oa), ob.
          split; [reflexivity|]. split; [exact E2|]. destruct kc; reflexivity. }
        destruct (match t with TLiteral _ v => sl v | _ => false end).
        { apply IH; lia. }
        pose proof (Hlen t r) as Hl.
        destruct (semi_local t r b) as [[E Hnil]|E]; rewrite E; destruct (C t r) as [c r'] eqn:Ec; cbn [fst snd] in *.
        + subst r'. destruct (loop_ok fb b Hfb) as [ob Eb].
          rewrite (loop_irrel fb f b ob Hfb) by (try exact Eb; rewrite app_length in Hf; simpl in Hf; lia).
          destruct fa; [lia|]. simpl. exists [c], ob. repeat split. exact Eb.
        + destruct (IH r' b f fa fb) as (oa & ob & E1 & E2 & E3); try lia.
          { rewrite app_length in *. simpl in *. lia. }
          rewrite E1, E3. simpl. exists (c :: oa), ob. repeat split. exact E2.
    Qed.
  End Semi.

  (* --- a separator that ends a construct and belongs to it (the {} block of rule lists) --- *)
  Section Block.
    Variable blk : token.
    Hypothesis blk_plain :
      is_ws blk = false /\ is_comment blk = false /\
      match blk with TLiteral _ v => sl v | _ => false end = false.
    Hypothesis blk_head : forall b, C blk b = (fst (C blk []), b) /\ snd (C blk []) = [].
    Hypothesis blk_local : forall t r b,
      (C t (r ++ blk :: b) = (fst (C t (r ++ [blk])), b) /\ snd (C t (r ++ [blk])) = []) \/
      (exists s, C t (r ++ blk :: b) = (fst (C t (r ++ [blk])), s ++ blk :: b) /\
                 snd (C t (r ++ [blk])) = s ++ [blk]).

    Lemma loop_block : forall n a b f fa fb, (length a <= n)%nat ->
      (length (a ++ blk :: b) < f)%nat -> (length (a ++ [blk]) < fa)%nat -> (length b < fb)%nat ->
      exists oa ob, loop fa (a ++ [blk]) = Ok oa /\ loop fb b = Ok ob /\ loop f (a ++ blk :: b) = Ok (oa ++ ob).
    Proof.
      destruct blk_plain as (Hs1 & Hs2 & Hs3).
      assert (Base : forall b f fa fb, (length (blk :: b) < f)%nat -> (length [blk] < fa)%nat -> (length b < fb)%nat ->
        exists oa ob, loop fa [blk] = Ok oa /\ loop fb b = Ok ob /\ loop f (blk :: b) = Ok (oa ++ ob)).
      { intros b f fa fb Hf Hfa Hfb.
        destruct (loop_ok fb b Hfb) as [ob Eb].
        destruct f as [|f]; [lia|]. destruct fa as [|fa]; [lia|]. cbn [list_loop]. rewrite Hs1, Hs2, Hs3.
        destruct (blk_head b) as [E1 E2]. rewrite E1.
        destruct (C blk []) as [c r0] eqn:Ec. cbn [fst snd] in *. subst r0.
        rewrite (loop_irrel fb f b ob Hfb) by (try exact Eb; simpl in Hf; lia).
        simpl in Hfa. destruct fa; [lia|]. simpl. exists [c], ob. repeat split. exact Eb. }
      induction n as [|n IH]; intros a b f fa fb Hn Hf Hfa Hfb.
      - destruct a; [|simpl in Hn; lia]. apply Base; assumption.
      - destruct a as [|t r]; [apply Base; assumption|].
        destruct f as [|f]; [lia|]. destruct fa as [|fa]; [lia|].
        simpl in Hn, Hf, Hfa. cbn [app list_loop].
        destruct (is_ws t).
        { destruct (IH r b f fa fb) as (oa & ob & E1 & E2 & E3); try lia.
          rewrite E1, E3. simpl. exists (if kw then tok_compound t :: oa else oa), ob.
          split; [reflexivity|]. split; [exact E2|]. destruct kw; reflexivity. }
        destruct (is_comment t).
        { destruct (IH r b f fa fb) as (oa & ob & E1 & E2 & E3); try lia.
          rewrite E1, E3. simpl. exists (if kc then tok_compound t :: oa else oa), ob.
          split; [reflexivity|]. split; [exact E2|]. destruct kc; reflexivity. }
        destruct (match t with TLiteral _ v => sl v | _ => false end).
        { apply IH; lia. }
        pose proof (Hlen t (r ++ [blk])) as Hl.
        destruct (blk_local t r b) as [[E Hnil]|(s & E & Hs)]; rewrite E;
          destruct (C t (r ++ [blk])) as [c r'] eqn:Ec; cbn [fst snd] in *.
        + subst r'. destruct (loop_ok fb b Hfb) as [ob Eb].
          rewrite (loop_irrel fb f b ob Hfb) by (try exact Eb; rewrite app_length in Hf; simpl in Hf; lia).
          destruct fa; [rewrite app_length in Hfa; simpl in Hfa; lia|]. simpl. exists [c], ob. repeat split. exact Eb.
        + subst r'. rewrite !app_length in *. simpl in *.
          destruct (IH s b f fa fb) as (oa & ob & E1 & E2 & E3); try (rewrite ?app_length; simpl; lia).
          rewrite E1, E3. simpl. exists (c :: oa), ob. repeat split. exact E2.
    Qed.
  End Block.

  (* --- a separator that ends a construct and belongs to it, and that is skipped when it
         comes first (the ";" of ParseBlocksContents: an invalid declaration's error is
         reported AT its ";", so the ";" belongs to the item) --- *)
  Section SepSkipped.
    Variable sep : token.
    Hypothesis sep_skipped :
      is_ws sep = false /\ is_comment sep = false /\
      match sep with TLiteral _ v => sl v | _ => false end = true.
    Hypothesis sep_local : forall t r b,
      (C t (r ++ sep :: b) = (fst (C t (r ++ [sep])), b) /\ snd (C t (r ++ [sep])) = []) \/
      (exists s, C t (r ++ sep :: b) = (fst (C t (r ++ [sep])), s ++ sep :: b) /\
                 snd (C t (r ++ [sep])) = s ++ [sep]).

    Lemma loop_sep_skipped : forall n a b f fa fb, (length a <= n)%nat ->
      (length (a ++ sep :: b) < f)%nat -> (length (a ++ [sep]) < fa)%nat -> (length b < fb)%nat ->
      exists oa ob, loop fa (a ++ [sep]) = Ok oa /\ loop fb b = Ok ob /\ loop f (a ++ sep :: b) = Ok (oa ++ ob).
    Proof.
      destruct sep_skipped as (Hs1 & Hs2 & Hs3).
      assert (Base : forall b f fa fb, (length (sep :: b) < f)%nat -> (length [sep] < fa)%nat -> (length b < fb)%nat ->
        exists oa ob, loop fa [sep] = Ok oa /\ loop fb b = Ok ob /\ loop f (sep :: b) = Ok (oa ++ ob)).
      { intros b f fa fb Hf Hfa Hfb.
        destruct (loop_ok fb b Hfb) as [ob Eb].
        destruct f as [|f]; [lia|]. destruct fa as [|fa]; [lia|]. cbn [list_loop]. rewrite Hs1, Hs2, Hs3.
        simpl in Hfa. destruct fa; [lia|]. exists [], ob. split; [reflexivity|]. split; [exact Eb|].
        eapply loop_irrel; [exact Hfb| |exact Eb]. simpl in Hf. lia. }
      induction n as [|n IH]; intros a b f fa fb Hn Hf Hfa Hfb.
      - destruct a; [|simpl in Hn; lia]. apply Base; assumption.
      - destruct a as [|t r]; [apply Base; assumption|].
        destruct f as [|f]; [lia|]. destruct fa as [|fa]; [lia|].
        simpl in Hn, Hf, Hfa. cbn [app list_loop].
        destruct (is_ws t).
        { destruct (IH r b f fa fb) as (oa & ob & E1 & E2 & E3); try lia.
          rewrite E1, E3. simpl. exists (if kw then tok_compound t :: oa else oa), ob.
          split; [reflexivity|]. split; [exact E2|]. destruct kw; reflexivity. }
        destruct (is_comment t).
        { destruct (IH r b f fa fb) as (oa & ob & E1 & E2 & E3); try lia.
          rewrite E1, E3. simpl. exists (if kc then tok_compound t :: oa else oa), ob.
          split; [reflexivity|]. split; [exact E2|]. destruct kc; reflexivity. }
        destruct (match t with TLiteral _ v => sl v | _ => false end).
        { apply IH; lia. }
        pose proof (Hlen t (r ++ [sep])) as Hl.
        destruct (sep_local t r b) as [[E Hnil]|(s & E & Hs)]; rewrite E;
          destruct (C t (r ++ [sep])) as [c r'] eqn:Ec; cbn [fst snd] in *.
        + subst r'. destruct (loop_ok fb b Hfb) as [ob Eb].
          rewrite (loop_irrel fb f b ob Hfb) by (try exact Eb; rewrite app_length in Hf; simpl in Hf; lia).
          destruct fa; [rewrite app_length in Hfa; simpl in Hfa; lia|]. simpl. exists [c], ob. repeat split. exact Eb.
        + subst r'. rewrite !app_length in *. simpl in *.
          destruct (IH s b f fa fb) as (oa & ob & E1 & E2 & E3); try (rewrite ?app_length; simpl; lia).
          rewrite E1, E3. simpl. exists (c :: oa), ob. repeat split. exact E2.
    Qed.
  End SepSkipped.
End Loop.

(* ------------------------------------------------------------------ the consumers stop where they should *)
Lemma split_semicolon_length l : (length (snd (split_semicolon l)) <= length l)%nat.
Proof.
  induction l as [|t r IH]; simpl; [lia|]. destruct (is_literal t s_semicolon); simpl; [lia|].
  destruct (split_semicolon r); simpl in *. lia.
Qed.

Lemma split_semicolon_app semi r b : is_literal semi s_semicolon = true ->
  (split_semicolon (r ++ semi :: b) = (fst (split_semicolon r), b) /\ snd (split_semicolon r) = []) \/
  split_semicolon (r ++ semi :: b) = (fst (split_semicolon r), snd (split_semicolon r) ++ semi :: b).
Proof.
  intros Hs. induction r as [|t r IH]; cbn [app split_semicolon].
  - rewrite Hs. left; split; reflexivity.
  - destruct (is_literal t s_semicolon); [right; reflexivity|].
    destruct (split_semicolon r) as [x y]. cbn [fst snd] in *.
    destruct IH as [[E1 E2]|E1]; rewrite E1; [left|right]; auto.
Qed.

Lemma at_rule_loop_length l : (length (snd (at_rule_loop l)) <= length l)%nat.
Proof.
  induction l as [|t r IH]; simpl; [lia|].
  destruct t; simpl; try lia;
    try (destruct (at_rule_loop r) as [[x y] z]; simpl in *; lia).
  destruct (str_eqb v s_semicolon); simpl; [lia|]. destruct (at_rule_loop r) as [[x y] z]; simpl in *; lia.
Qed.

Definition arl_fst (l : list token) := fst (at_rule_loop l).

Lemma at_rule_loop_app semi r b : is_literal semi s_semicolon = true ->
  (at_rule_loop (r ++ semi :: b) = (fst (at_rule_loop r), b) /\ snd (at_rule_loop r) = []) \/
  at_rule_loop (r ++ semi :: b) = (fst (at_rule_loop r), snd (at_rule_loop r) ++ semi :: b).
Proof.
  intros Hs.
  assert (Hsemi : at_rule_loop (semi :: b) = ([], None, b)).
  { destruct semi; try discriminate. simpl in Hs. simpl. rewrite Hs. reflexivity. }
  induction r as [|t r IH].
  - cbn [app]. rewrite Hsemi. left; split; reflexivity.
  - cbn [app].
    assert (Hcons : forall l, at_rule_loop (t :: l) =
              match t with
              | TCurly _ args => ([], Some args, l)
              | _ => if is_literal t s_semicolon then ([], None, l)
                     else let '(p, c, r') := at_rule_loop l in (t :: p, c, r')
              end) by (intros l; destruct t; reflexivity).
    rewrite !Hcons.
    destruct t.
    1: { cbn [is_literal]. destruct (str_eqb v s_semicolon); [right; reflexivity|].
         destruct (at_rule_loop r) as [[x y] z]; cbn [fst snd] in *.
         destruct IH as [[E1 E2]|E1]; rewrite E1; [left|right]; auto. }
    all: try (right; reflexivity).
    all: cbn [is_literal]; destruct (at_rule_loop r) as [[x y] z]; cbn [fst snd] in *;
         destruct IH as [[E1 E2]|E1]; rewrite E1; [left|right]; auto.
Qed.

Definition decl_consumer (fxp : bool) := with_at (consume_declaration_in_list fxp).

Lemma decl_consumer_length fxp t r : (length (snd (decl_consumer fxp t r)) <= length r)%nat.
Proof.
  unfold decl_consumer, with_at, consume_at_rule, consume_declaration_in_list.
  pose proof (at_rule_loop_length r). pose proof (split_semicolon_length r).
  destruct t; try (destruct (split_semicolon r); simpl in *; lia).
  destruct (at_rule_loop r) as [[x y] z]. simpl in *. lia.
Qed.

Lemma decl_consumer_local fxp semi t r b : is_literal semi s_semicolon = true ->
  (decl_consumer fxp t (r ++ semi :: b) = (fst (decl_consumer fxp t r), b) /\ snd (decl_consumer fxp t r) = []) \/
  decl_consumer fxp t (r ++ semi :: b) = (fst (decl_consumer fxp t r), snd (decl_consumer fxp t r) ++ semi :: b).
Proof.
  intros Hs. unfold decl_consumer, with_at, consume_at_rule, consume_declaration_in_list.
  pose proof (split_semicolon_app semi r b Hs) as X1. pose proof (at_rule_loop_app semi r b Hs) as X2.
  destruct t;
    try (destruct (split_semicolon r) as [x y]; cbn [fst snd] in *;
         destruct X1 as [[E1 E2]|E1]; rewrite E1; [left; subst y|right]; auto).
  destruct (at_rule_loop r) as [[x y] z]; cbn [fst snd] in *.
  destruct X2 as [[E1 E2]|E1]; rewrite E1; [left; subst z|right]; auto.
Qed.

(* ------------------------------------------------------------------ decl_list_compositional *)
Theorem decl_list_compositional : forall fxp (skip_comments skip_ws : bool) (a b : list token) (p : pos),
  exists oa ob,
    parse_declaration_list fxp a skip_comments skip_ws = Ok oa /\
    parse_declaration_list fxp b skip_comments skip_ws = Ok ob /\
    parse_declaration_list fxp (a ++ TLiteral p s_semicolon :: b) skip_comments skip_ws = Ok (oa ++ ob).
Proof.
  intros fxp sc sw a b p. unfold parse_declaration_list.
  apply (loop_semi (negb sw) (negb sc) (fun v => str_eqb v s_semicolon) (with_at (consume_declaration_in_list fxp))
           (decl_consumer_length fxp) (TLiteral p s_semicolon)) with (n := length a); try lia.
  - repeat split.
  - intros t r b0. apply (decl_consumer_local fxp (TLiteral p s_semicolon) t r b0). reflexivity.
Qed.

Theorem parse_declaration_list_total : forall fxp l sc sw, exists o, parse_declaration_list fxp l sc sw = Ok o.
Proof.
  intros. unfold parse_declaration_list. apply loop_ok; [apply decl_consumer_length|lia].
Qed.

(* ------------------------------------------------------------------ rule lists: a rule ends exactly at its {} block *)
Lemma qualified_loop_rest stop l :
  match qualified_loop stop l with
  | QRBlock _ _ r | QRStop _ r => (length r <= length l)%nat
  | QREof _ => True
  end.
Proof.
  induction l as [|t r IH]; cbn [qualified_loop]; [exact I|].
  destruct (stop && is_literal t s_semicolon); [simpl; lia|].
  destruct t; try (destruct (qualified_loop stop r); simpl in *; lia).
Qed.

Lemma consume_rule_length t r : (length (snd (consume_rule t r)) <= length r)%nat.
Proof.
  unfold consume_rule, consume_at_rule, consume_qualified_rule.
  pose proof (at_rule_loop_length r). pose proof (qualified_loop_rest false r).
  destruct t; cbn [andb];
    try (destruct (qualified_loop false r); simpl in *; lia);
    try (destruct (at_rule_loop r) as [[x y] z]; simpl in *; lia).
Qed.

Lemma at_rule_loop_block p0 args r b :
  (at_rule_loop (r ++ TCurly p0 args :: b) = (fst (at_rule_loop (r ++ [TCurly p0 args])), b) /\
   snd (at_rule_loop (r ++ [TCurly p0 args])) = []) \/
  (exists s, at_rule_loop (r ++ TCurly p0 args :: b) = (fst (at_rule_loop (r ++ [TCurly p0 args])), s ++ TCurly p0 args :: b) /\
             snd (at_rule_loop (r ++ [TCurly p0 args])) = s ++ [TCurly p0 args]).
Proof.
  induction r as [|t r IH]; cbn [app].
  - left. split; reflexivity.
  - assert (Hcons : forall l, at_rule_loop (t :: l) =
              match t with
              | TCurly _ a => ([], Some a, l)
              | _ => if is_literal t s_semicolon then ([], None, l)
                     else let '(p, c, r') := at_rule_loop l in (t :: p, c, r')
              end) by (intros l; destruct t; reflexivity).
    rewrite !Hcons.
    assert (Hstep : (let '(p, c, r') := at_rule_loop (r ++ TCurly p0 args :: b) in (t :: p, c, r')) =
                    (fst (let '(p, c, r') := at_rule_loop (r ++ [TCurly p0 args]) in (t :: p, c, r')), b) /\
                    snd (let '(p, c, r') := at_rule_loop (r ++ [TCurly p0 args]) in (t :: p, c, r')) = [] \/
                    (exists s, (let '(p, c, r') := at_rule_loop (r ++ TCurly p0 args :: b) in (t :: p, c, r')) =
                      (fst (let '(p, c, r') := at_rule_loop (r ++ [TCurly p0 args]) in (t :: p, c, r')), s ++ TCurly p0 args :: b) /\
                      snd (let '(p, c, r') := at_rule_loop (r ++ [TCurly p0 args]) in (t :: p, c, r')) = s ++ [TCurly p0 args])).
    { destruct (at_rule_loop (r ++ [TCurly p0 args])) as [[x y] z]; cbn [fst snd] in *.
      destruct IH as [[E1 E2]|(s & E1 & E2)]; rewrite E1; [left|right; exists s]; auto. }
    destruct t; cbn [is_literal]; try exact Hstep.
    + destruct (str_eqb v s_semicolon); [|exact Hstep]. right. exists r. split; reflexivity.
    + right. exists r. split; reflexivity.
Qed.

Lemma qualified_loop_block p0 args r b :
  exists P c,
  (qualified_loop false (r ++ TCurly p0 args :: b) = QRBlock P c b /\
   qualified_loop false (r ++ [TCurly p0 args]) = QRBlock P c []) \/
  (exists s, qualified_loop false (r ++ TCurly p0 args :: b) = QRBlock P c (s ++ TCurly p0 args :: b) /\
             qualified_loop false (r ++ [TCurly p0 args]) = QRBlock P c (s ++ [TCurly p0 args])).
Proof.
  induction r as [|t r IH]; cbn [app qualified_loop andb].
  - exists [], args. left; split; reflexivity.
  - destruct IH as (P & c & IH).
    assert (Hn : is_curly t = false ->
      exists P' c', (qualified_loop false (t :: r ++ TCurly p0 args :: b) = QRBlock P' c' b /\
                     qualified_loop false (t :: r ++ [TCurly p0 args]) = QRBlock P' c' []) \/
        (exists s, qualified_loop false (t :: r ++ TCurly p0 args :: b) = QRBlock P' c' (s ++ TCurly p0 args :: b) /\
                   qualified_loop false (t :: r ++ [TCurly p0 args]) = QRBlock P' c' (s ++ [TCurly p0 args]))).
    { intros Hc. exists (t :: P), c.
      assert (Hcons : forall l, qualified_loop false (t :: l) =
                match qualified_loop false l with
                | QRBlock p c r' => QRBlock (t :: p) c r'
                | QREof p => QREof (t :: p)
                | x => x
                end) by (intros l; destruct t; try reflexivity; discriminate).
      rewrite !Hcons.
      destruct IH as [[E1 E2]|(s & E1 & E2)]; rewrite E1, E2; [left|right; exists s]; split; reflexivity. }
    destruct t; try (apply Hn; reflexivity).
    eexists [], _. right. exists r. split; reflexivity.
Qed.

Lemma consume_rule_block p0 args t r b :
  (consume_rule t (r ++ TCurly p0 args :: b) = (fst (consume_rule t (r ++ [TCurly p0 args])), b) /\
   snd (consume_rule t (r ++ [TCurly p0 args])) = []) \/
  (exists s, consume_rule t (r ++ TCurly p0 args :: b) = (fst (consume_rule t (r ++ [TCurly p0 args])), s ++ TCurly p0 args :: b) /\
             snd (consume_rule t (r ++ [TCurly p0 args])) = s ++ [TCurly p0 args]).
Proof.
  unfold consume_rule, consume_at_rule, consume_qualified_rule.
  pose proof (at_rule_loop_block p0 args r b) as X1.
  destruct (qualified_loop_block p0 args r b) as (P & c & X2).
  destruct t; cbn [andb];
    try (destruct X2 as [[E1 E2]|(s & E1 & E2)]; rewrite E1, E2; [left|right; exists s]; split; reflexivity).
  - destruct (at_rule_loop (r ++ [TCurly p0 args])) as [[x y] z]; cbn [fst snd] in *.
    destruct X1 as [[E1 E2]|(s & E1 & E2)]; rewrite E1; [left; subst z|right; exists s; subst z]; auto.
  - right. exists r. split; reflexivity.
Qed.

Theorem rule_list_compositional : forall (skip_comments skip_ws : bool) (a b : list token) (p : pos) (args : list token),
  exists oa ob,
    parse_rule_list (a ++ [TCurly p args]) skip_comments skip_ws = Ok oa /\
    parse_rule_list b skip_comments skip_ws = Ok ob /\
    parse_rule_list (a ++ TCurly p args :: b) skip_comments skip_ws = Ok (oa ++ ob).
Proof.
  intros sc sw a b p args. unfold parse_rule_list.
  apply (loop_block (negb sw) (negb sc) (fun _ => false) consume_rule consume_rule_length (TCurly p args))
    with (n := length a); try lia.
  - repeat split.
  - intros b0. split; reflexivity.
  - intros t r b0. apply consume_rule_block.
Qed.

Theorem stylesheet_compositional : forall (skip_comments skip_ws : bool) (a b : list token) (p : pos) (args : list token),
  exists oa ob,
    parse_stylesheet (a ++ [TCurly p args]) skip_comments skip_ws = Ok oa /\
    parse_stylesheet b skip_comments skip_ws = Ok ob /\
    parse_stylesheet (a ++ TCurly p args :: b) skip_comments skip_ws = Ok (oa ++ ob).
Proof.
  intros sc sw a b p args. unfold parse_stylesheet.
  apply (loop_block (negb sw) (negb sc) (fun v => str_eqb v s_cdo || str_eqb v s_cdc) consume_rule consume_rule_length (TCurly p args))
    with (n := length a); try lia.
  - repeat split.
  - intros b0. split; reflexivity.
  - intros t r b0. apply consume_rule_block.
Qed.

Theorem parse_rule_list_total : forall l sc sw, exists o, parse_rule_list l sc sw = Ok o.
Proof. intros. unfold parse_rule_list. apply loop_ok; [apply consume_rule_length|lia]. Qed.

Theorem parse_stylesheet_total : forall l sc sw, exists o, parse_stylesheet l sc sw = Ok o.
Proof. intros. unfold parse_stylesheet. apply loop_ok; [apply consume_rule_length|lia]. Qed.
