(* Css/NthProofs.v -- ParseNth (model Css/Parse.v) recognises exactly the <an+b>
   microsyntax of CSS Syntax 3 section 6 (Css/NthSpec.v). *)
From Verif Require Import Base.GoSem Css.Token Css.Tok Css.Parse Css.DeclSpec Css.NthSpec Css.DeclProofs.
From Coq Require Import List NArith ZArith Bool Lia ZifyBool ZifyNat ZifyN.
Import ListNotations.
Open Scope N_scope.

Arguments N.eqb : simpl never.
Arguments N.mul : simpl never.
Arguments N.add : simpl never.
Arguments N.sub : simpl never.

(* tokens as the tokenizer produces them: identifiers and number representations are not empty *)
Definition wf_tok (t : token) : Prop :=
  match t with
  | TIdent _ v => v <> []
  | TNumber _ r _ => r <> []
  | _ => True
  end.

Lemma drop_wsc_wf l : Forall wf_tok l -> Forall wf_tok (drop_wsc l).
Proof. induction 1; simpl; [constructor|]. destruct (wsc x); [assumption|constructor; assumption]. Qed.

Lemma sig_tokens_drop l :
  sig_tokens l = match drop_wsc l with t :: r => t :: sig_tokens r | [] => [] end.
Proof.
  induction l as [|t r IH]; [reflexivity|]. unfold sig_tokens in *. simpl.
  destruct (wsc t) eqn:E; simpl; [exact IH|reflexivity].
Qed.

Lemma parse_end_spec rest a b : parse_end rest a b = if no_more rest then Some (a, b) else None.
Proof.
  unfold parse_end, no_more. rewrite next_significant_spec, sig_tokens_drop.
  destruct (drop_wsc rest); reflexivity.
Qed.

Lemma sign_first_spec site r : r <> [] -> sign_first site r = Ok (signed r).
Proof.
  intros H. destruct r as [|c r']; [congruence|]. unfold sign_first, index. simpl.
  f_equal. apply orb_comm.
Qed.

Lemma str_is_spec v s : str_eqb (ascii_lower v) s = str_is v s.
Proof. unfold str_is, lower_str, ascii_lower. rewrite str_eqb_codes. reflexivity. Qed.

Lemma digits_value_dec d : Z.of_N (digits_value d) = dec_value d.
Proof.
  unfold dec_value, digits_value. f_equal. generalize 0. induction d as [|c d IH]; intros acc; [reflexivity|].
  cbn [fold_left]. rewrite IH. f_equal. lia.
Qed.

Lemma match_int_spec u : match_int u = ndashdigit u.
Proof.
  unfold match_int, ndashdigit. destruct u as [|c0 [|c1 d]]; try reflexivity.
  destruct ((c0 =? 110) && (c1 =? 45)) eqn:E; [|simpl; reflexivity].
  cbn [andb]. destruct d as [|d0 d]; [reflexivity|].
  cbn [length Nat.eqb negb andb].
  change (forallb is_digit (d0 :: d)) with (forallb is_digit_cp (d0 :: d)).
  destruct (forallb is_digit_cp (d0 :: d)) eqn:Ef; [|reflexivity].
  unfold repr_int. change (N.eqb 45 45) with true. cbv match.
  change (forallb is_digit (d0 :: d)) with (forallb is_digit_cp (d0 :: d)). rewrite Ef.
  rewrite digits_value_dec. cbn [andb].
  set (v := dec_value (d0 :: d)).
  assert (Hv : (0 <= v)%Z) by (subst v; unfold dec_value; lia).
  destruct (v <=? 9223372036854775808)%Z eqn:El.
  - replace ((-9223372036854775808 <=? - v)%Z && (- v <=? 9223372036854775807)%Z) with true by lia. reflexivity.
  - replace ((-9223372036854775808 <=? - v)%Z && (- v <=? 9223372036854775807)%Z) with false by lia. reflexivity.
Qed.

Lemma parse_signless_b_spec rest a : Forall wf_tok rest ->
  parse_signless_b rest a (-1) = Ok (spec_tail num_int a AfterNDash rest).
Proof.
  intros Hwf. unfold parse_signless_b, spec_tail. rewrite next_significant_spec, sig_tokens_drop.
  pose proof (drop_wsc_wf _ Hwf) as Hd.
  destruct (drop_wsc rest) as [|t r]; [reflexivity|].
  inversion Hd; subst.
  destruct t; try (destruct (sig_tokens r); reflexivity).
  destruct is_int; [|destruct (sig_tokens r); reflexivity].
  rewrite sign_first_spec by assumption. cbn [bind].
  rewrite parse_end_spec. unfold no_more.
  destruct (signed repr); destruct (sig_tokens r); try reflexivity;
  try (cbn [negb]; f_equal; f_equal; f_equal; lia).
Qed.

Lemma parse_signless_b_pos rest a : Forall wf_tok rest ->
  parse_signless_b rest a 1 =
  Ok (match sig_tokens rest with
      | [TNumber _ r2 true] => if signed r2 then None else Some (a, num_int r2)
      | _ => None end).
Proof.
  intros Hwf. unfold parse_signless_b. rewrite next_significant_spec, sig_tokens_drop.
  pose proof (drop_wsc_wf _ Hwf) as Hd.
  destruct (drop_wsc rest) as [|t r]; [reflexivity|].
  inversion Hd; subst.
  destruct t; try (destruct (sig_tokens r); reflexivity).
  destruct is_int; [|destruct (sig_tokens r); reflexivity].
  rewrite sign_first_spec by assumption. cbn [bind].
  rewrite parse_end_spec. unfold no_more.
  destruct (signed repr); destruct (sig_tokens r); try reflexivity;
  try (cbn [negb]; f_equal; f_equal; f_equal; lia).
Qed.

Lemma parse_signless_b_neg' rest a : Forall wf_tok rest ->
  parse_signless_b rest a (-1) =
  Ok (match sig_tokens rest with
      | [TNumber _ r2 true] => if signed r2 then None else Some (a, (- num_int r2)%Z)
      | _ => None end).
Proof.
  intros Hwf. rewrite parse_signless_b_spec by assumption. unfold spec_tail.
  destruct (sig_tokens rest) as [|t [|t2 l]]; try reflexivity;
    destruct t; try reflexivity; destruct is_int; reflexivity.
Qed.

Lemma drop_wsc_tail_wf t r l : Forall wf_tok l -> drop_wsc l = t :: r -> Forall wf_tok r.
Proof. intros H E. apply drop_wsc_wf in H. rewrite E in H. inversion H; assumption. Qed.

Ltac finish_sig r :=
  destruct (sig_tokens r) as [|?x [|?y ?l]]; try reflexivity;
  try (match goal with x : token |- _ => destruct x end; try reflexivity;
       try (match goal with i : bool |- _ => destruct i end; try reflexivity;
            match goal with |- context [signed ?rp] => destruct (signed rp) end; reflexivity)).

Lemma parse_b_spec rest a : Forall wf_tok rest ->
  parse_b rest a = Ok (spec_tail num_int a AfterN rest).
Proof.
  intros Hwf. unfold parse_b, spec_tail. rewrite next_significant_spec. rewrite sig_tokens_drop.
  pose proof (drop_wsc_wf _ Hwf) as Hd.
  destruct (drop_wsc rest) as [|t r] eqn:Ed; [reflexivity|].
  inversion Hd as [|? ? Ht Hr]; subst.
  destruct t; cbn [is_literal];
    try (destruct (sig_tokens r) as [|x [|y l]]; reflexivity).
  - (* literal *)
    destruct (str_eqb v [43]) eqn:Ep.
    { rewrite parse_signless_b_pos by assumption.
      assert (v = [43]).
      { destruct v as [|c [|d v]]; simpl in Ep; try discriminate; try lia. f_equal. lia. }
      subst v. finish_sig r. }
    destruct (str_eqb v [45]) eqn:Em.
    { rewrite parse_signless_b_neg' by assumption.
      assert (v = [45]).
      { destruct v as [|c [|d v]]; simpl in Em; try discriminate; try lia. f_equal. lia. }
      subst v. finish_sig r. }
    destruct v as [|c [|d v]].
    + destruct (sig_tokens r) as [|x [|y l]]; reflexivity.
    + assert (c =? 43 = false) by (simpl in Ep; lia). assert (c =? 45 = false) by (simpl in Em; lia).
      destruct (sig_tokens r) as [|x [|y l]]; try reflexivity; [|destruct x; try reflexivity; destruct is_int; reflexivity].
      destruct x; try reflexivity. destruct is_int; [|reflexivity].
      destruct (signed repr); [reflexivity|]. rewrite H, H0. reflexivity.
    + destruct (sig_tokens r) as [|x [|y l]]; reflexivity.
  - (* number *)
    destruct is_int; [|destruct (sig_tokens r) as [|x [|y l]]; reflexivity].
    rewrite sign_first_spec by assumption. cbn [bind]. rewrite parse_end_spec. unfold no_more.
    destruct (signed repr); destruct (sig_tokens r) as [|x l]; try reflexivity.
Qed.

(* nth_spec: on token lists as the tokenizer produces them, ParseNth = the <an+b> grammar *)
Theorem nth_spec : forall ts, Forall wf_tok ts -> parse_nth ts = Ok (spec_anb num_int ts).
Proof.
  intros ts Hwf. unfold parse_nth, spec_anb. rewrite next_significant_spec.
  unfold Parse.s_n, Parse.s_n_dash, Parse.s_dash_n, Parse.s_dash_n_dash, Parse.s_even, Parse.s_odd,
         NthSpec.s_n, s_ndash, s_dashn, s_dashndash, NthSpec.s_even, NthSpec.s_odd.
  pose proof (drop_wsc_wf _ Hwf) as Hd.
  destruct (drop_wsc ts) as [|t rest] eqn:Ed; [reflexivity|].
  inversion Hd as [|? ? Ht Hr]; subst.
  destruct t; try reflexivity.
  - (* literal: '+' directly followed by an ident *)
    destruct v as [|c [|d v]]; try reflexivity.
    + simpl str_eqb. rewrite andb_true_r.
      destruct (c =? 43) eqn:Ec; cbn [negb].
      * destruct rest as [|t2 rest']; [reflexivity|]. destruct t2; try reflexivity.
        inversion Hr; subst.
        rewrite !str_is_spec.
        destruct (str_is v [110]); [apply parse_b_spec; assumption|].
        destruct (str_is v [110; 45]); [apply parse_signless_b_spec; assumption|].
        rewrite match_int_spec. change (ascii_lower v) with (lower_str v).
        destruct (ndashdigit (lower_str v)); [|reflexivity]. rewrite parse_end_spec. reflexivity.
      * destruct rest as [|t2 rest']; [reflexivity|]. destruct t2; reflexivity.
    + simpl str_eqb. rewrite andb_false_r. destruct rest as [|t2 rest']; [reflexivity|]. destruct t2; reflexivity.
  - (* ident *)
    rewrite !str_is_spec.
    destruct (str_is v [101; 118; 101; 110]); [rewrite parse_end_spec; reflexivity|].
    destruct (str_is v [111; 100; 100]); [rewrite parse_end_spec; reflexivity|].
    destruct (str_is v [110]); [apply parse_b_spec; assumption|].
    destruct (str_is v [45; 110]); [apply parse_b_spec; assumption|].
    destruct (str_is v [110; 45]); [apply parse_signless_b_spec; assumption|].
    destruct (str_is v [45; 110; 45]); [apply parse_signless_b_spec; assumption|].
    change (ascii_lower v) with (lower_str v). simpl in Ht.
    destruct (lower_str v) as [|c0 v'] eqn:El.
    { destruct v; [congruence|discriminate]. }
    unfold index. cbn [Z.ltb Z.compare Z.to_nat nth_error bind tl].
    destruct (c0 =? 45).
    + rewrite match_int_spec. destruct (ndashdigit v'); [|reflexivity]. rewrite parse_end_spec. reflexivity.
    + rewrite match_int_spec. destruct (ndashdigit (c0 :: v')); [|reflexivity]. rewrite parse_end_spec. reflexivity.
  - (* number *)
    destruct is_int; [|reflexivity]. rewrite parse_end_spec. reflexivity.
  - (* dimension *)
    destruct is_int; [|reflexivity].
    rewrite !str_is_spec.
    destruct (str_is unit [110]); [apply parse_b_spec; assumption|].
    destruct (str_is unit [110; 45]); [apply parse_signless_b_spec; assumption|].
    rewrite match_int_spec. change (ascii_lower unit) with (lower_str unit).
    destruct (ndashdigit (lower_str unit)); [|reflexivity]. rewrite parse_end_spec. reflexivity.
Qed.

Theorem parse_nth_total : forall ts, Forall wf_tok ts -> exists o, parse_nth ts = Ok o.
Proof. intros ts H. rewrite nth_spec by assumption. eauto. Qed.

(* without the well-formedness of identifiers the code panics: ident[0] on "" (nth.go:55) *)
Lemma parse_nth_empty_ident_panics : parse_nth [TIdent (mkPos 1 1) []] = Panic site_nth_ident0.
Proof. reflexivity. Qed.

(* ------------------------------------------------------------------ the tokenizer produces well-formed tokens *)
From Verif Require Import Css.TokProofs.

Lemma lex1_wf skip f endc p c r lx : lex1 true skip f endc p (c :: r) = Ok lx ->
  match lx with LTok ts _ | LReturn ts _ => Forall wf_tok ts | _ => True end.
Proof.
  unfold lex1. intros H.
  destruct (is_space c).
  { destruct (span is_space r). inversion H; subst. repeat constructor. }
  destruct (if (c =? 85) || (c =? 117) then try_consume_unicode_range p (c :: r) else None) as [[t r']|] eqn:Eu.
  { inversion H; subst. constructor; [|constructor].
    destruct ((c =? 85) || (c =? 117)); [|discriminate].
    unfold try_consume_unicode_range in Eu. destruct r as [|c1 [|c2 r2]]; try discriminate.
    destruct ((c1 =? 43) && _); [|discriminate].
    destruct (consume_unicode_range (c2 :: r2)) as [[[s e]|] r3]; inversion Eu; exact I. }
  destruct (has_prefix s_cdc (c :: r)); [inversion H; subst; repeat constructor|].
  destruct (is_ident_start true (c :: r)) as [ids| |] eqn:Ei; try discriminate. cbn [bind] in H.
  destruct ids.
  { apply is_ident_start_true_progress in Ei. unfold lex_ident_like in H.
    destruct (consume_ident f (c :: r)) as [[value r1]| |] eqn:Ec; try discriminate. cbn [bind] in H.
    apply (consume_ident_progress _ _ _ _ _ Ei) in Ec as [_ Hne].
    destruct r1 as [|c1 r2]; [inversion H; subst; repeat constructor; exact Hne|].
    destruct (c1 =? 40); [|inversion H; subst; repeat constructor; exact Hne].
    destruct (str_eqb (ascii_lower value) s_url && url_is_unquoted r2); [|inversion H; subst; exact I].
    destruct (consume_url true f p r2) as [[[v e] r3]| |] eqn:Eu2; try discriminate. cbn [bind] in H.
    inversion H; subst. unfold consume_url in Eu2.
    (* url / error tokens only *)
    assert (Hv : match v with Some (TURL _ _ _) | None => True | _ => False end /\
                 match e with Some (TParseError _ _) | None => True | _ => False end).
    { revert Eu2. generalize (skip_spaces r2). intros l.
      assert (Hb : forall rr, (let* r' := bad_url_remnants true f rr in Ok (@None token, Some (TParseError p errBadURL), r')) = Ok (v, e, r3) ->
                   match v with Some (TURL _ _ _) | None => True | _ => False end /\
                   match e with Some (TParseError _ _) | None => True | _ => False end).
      { intros rr X. destruct (bad_url_remnants true f rr); try discriminate. inversion X; subst. split; exact I. }
      assert (Ht : forall vv rr,
                   match skip_spaces rr with
                   | [] => Ok (Some (TURL p vv true), Some (TParseError p errEofInUrl), [])
                   | c0 :: r' => if c0 =? 41 then Ok (Some (TURL p vv false), None, r')
                                 else let* r'0 := bad_url_remnants true f (c0 :: r') in
                                      Ok (None, Some (TParseError p errBadURL), r'0)
                   end = Ok (v, e, r3) ->
                   match v with Some (TURL _ _ _) | None => True | _ => False end /\
                   match e with Some (TParseError _ _) | None => True | _ => False end).
      { intros vv rr X. destruct (skip_spaces rr) as [|c0 r'].
        - inversion X; subst; split; exact I.
        - destruct (c0 =? 41); [inversion X; subst; split; exact I|]. eapply Hb; exact X. }
      destruct l as [|c0 l']; [intros X; inversion X; subst; split; exact I|].
      destruct ((c0 =? 34) || (c0 =? 39)).
      - destruct (consume_quoted_string f (c0 :: l')) as [[[[vq aq] eq] rq]| |]; try discriminate. cbn [bind].
        destruct (negb (eq =? 0)); [apply Hb|apply Ht].
      - destruct (c0 =? 41); [intros X; inversion X; subst; split; exact I|].
        destruct (url_loop true f (c0 :: l')) as [x| |]; try discriminate. cbn [bind].
        destruct x; try (intros X; inversion X; subst; split; exact I); [apply Ht|apply Hb]. }
    destruct Hv as [Hv He].
    destruct v as [tv|]; destruct e as [te|]; simpl; repeat constructor;
      try (destruct tv; try contradiction; exact I); try (destruct te; try contradiction; exact I). }
  destruct (try_consume_number true f p (c :: r)) as [[[t r']|]| |] eqn:En; try discriminate; cbn [bind] in H.
  { inversion H; subst. constructor; [|constructor].
    unfold try_consume_number in En.
    destruct (scan_number (c :: r)) as [[repr r1]|] eqn:Es; [|discriminate].
    apply scan_number_split in Es as [_ Hne].
    destruct (match r1 with [] => Ok false | _ :: _ => is_ident_start true r1 end) as [b| |]; try discriminate.
    cbn [bind] in En. destruct b.
    - destruct (consume_ident f r1) as [[u r2]| |]; try discriminate. inversion En; exact I.
    - destruct r1 as [|c1 r2]; [inversion En; exact Hne|].
      destruct (c1 =? 37); inversion En; [exact I|exact Hne]. }
  unfold lex1_punct in H.
  destruct (c =? 64).
  { destruct (match r with [] => Ok false | _ :: _ => is_ident_start true r end) as [b| |]; try discriminate.
    cbn [bind] in H. destruct b; [|inversion H; subst; repeat constructor].
    destruct (consume_ident f r) as [[v r']| |]; try discriminate. inversion H; subst. repeat constructor. }
  destruct (c =? 35).
  { destruct (try_consume_hash true f p r) as [[[t r']|]| |] eqn:Eh; try discriminate; cbn [bind] in H;
      inversion H; subst; repeat constructor.
    unfold try_consume_hash in Eh. destruct r as [|d r0]; [discriminate|].
    match type of Eh with (if ?b then _ else _) = _ => destruct b end; [|discriminate].
    destruct (is_ident_start true (d :: r0)); try discriminate. cbn [bind] in Eh.
    destruct (consume_ident f (d :: r0)) as [[v r2]| |]; try discriminate. inversion Eh; exact I. }
  destruct (c =? 123); [inversion H; exact I|].
  destruct (c =? 91); [inversion H; exact I|].
  destruct (c =? 40); [inversion H; exact I|].
  destruct (c =? 0); [inversion H; exact I|].
  destruct (c =? endc); [inversion H; exact I|].
  destruct ((c =? 125) || (c =? 93) || (c =? 41)); [inversion H; subst; repeat constructor|].
  destruct ((c =? 39) || (c =? 34)).
  { destruct (consume_quoted_string f (c :: r)) as [[[[v a] e] r']| |]; try discriminate. cbn [bind] in H.
    inversion H; subst. destruct a; destruct (negb (e =? 0)); repeat constructor. }
  destruct (has_prefix [47; 42] (c :: r)).
  { destruct (find_comment_end (tl r)) as [[txt r']|]; inversion H; subst; destruct skip; repeat constructor. }
  destruct (consume_delim p (c :: r)) as [[t r']| |] eqn:Ed; try discriminate. cbn [bind] in H. inversion H; subst.
  constructor; [|constructor]. unfold consume_delim in Ed.
  destruct (index site_delim (c :: r) 0); try discriminate. cbn [bind] in Ed.
  destruct (has_prefix s_cdo (c :: r)); [inversion Ed; exact I|].
  destruct (has_prefix [124; 124] (c :: r)); [inversion Ed; exact I|].
  match type of Ed with (if ?b then _ else _) = _ => destruct b end.
  - destruct (has_prefix [61] (tl (c :: r))); inversion Ed; exact I.
  - inversion Ed; exact I.
Qed.

Lemma cvl_wf skip : forall f endc st out st',
  consume_value_list true skip f endc st = Ok (out, st') -> Forall wf_tok out.
Proof.
  induction f as [|f IH]; intros endc st out st' H; [discriminate|].
  cbn [consume_value_list] in H.
  destruct (l_rest st) as [|c r]; [inversion H; constructor|].
  destruct (update_line st) as [p st1].
  destruct (lex1 true skip f endc p (c :: r)) as [lx| |] eqn:El; try discriminate. cbn [bind] in H.
  apply lex1_wf in El.
  destruct lx as [ts r'|o r'|r'|ts r'|].
  - destruct (consume_value_list true skip f endc (set_rest st1 r')) as [[o2 st3]| |] eqn:E2; try discriminate.
    inversion H; subst. apply Forall_app; split; [exact El|eapply IH; exact E2].
  - destruct (consume_value_list true skip f (close_of o) (set_rest st1 r')) as [[args st2]| |]; try discriminate.
    cbn [bind] in H.
    destruct (consume_value_list true skip f endc st2) as [[o2 st3]| |] eqn:E2; try discriminate.
    inversion H; subst. constructor; [destruct o; exact I|eapply IH; exact E2].
  - inversion H; constructor.
  - inversion H; subst. exact El.
  - eapply IH; exact H.
Qed.

Theorem tokenize_wf : forall skip s ts, tokenize true skip s = Ok ts -> Forall wf_tok ts.
Proof.
  intros skip s ts H. unfold tokenize, tokenize_pre in H.
  destruct (consume_value_list true skip _ 0 _) as [[out st']| |] eqn:E; try discriminate.
  inversion H; subst. eapply cvl_wf; exact E.
Qed.

(* ParseNth(Tokenize(css)) never panics, and is the <an+b> grammar *)
Theorem parse_nth_string_spec : forall s,
  exists ts, tokenize true true s = Ok ts /\ parse_nth_string true s = Ok (spec_anb num_int ts).
Proof.
  intros s. destruct (tokenize_total true s) as [ts E]. exists ts. split; [exact E|].
  unfold parse_nth_string. rewrite E. cbn [bind]. apply nth_spec. eapply tokenize_wf; exact E.
Qed.

(* ------------------------------------------------------------------ numberVal.Int() is exact below 2^24 *)
From Verif Require Import Base.F32.
From Coq Require Import QArith Qreduction.
Section IntExact.
Open Scope Z_scope.
Lemma div_rne_1 a : 0 <= a -> div_rne a 1 = a.
Proof.
  intros H. unfold div_rne. rewrite Z.div_1_r, Z.mod_1_r. simpl. reflexivity.
Qed.

Lemma flog2_int z : 0 < z -> flog2 z 1 = Z.log2 z.
Proof.
  intros H. unfold flog2. change (Z.log2 1) with 0. rewrite Z.sub_0_r.
  pose proof (Z.log2_nonneg z). destruct (0 <=? Z.log2 z) eqn:E; [|lia].
  pose proof (Z.log2_spec z H) as [H1 H2].
  destruct (1 * 2 ^ Z.log2 z <=? z) eqn:E2; lia.
Qed.

Lemma rnd32_int z : 0 < z < 2 ^ 24 -> (rnd32 (inject_Z z) == inject_Z z)%Q.
Proof.
  intros [H0 H1]. unfold rnd32, rnd. simpl Qnum. simpl Qden.
  destruct z as [|p|p]; try lia.
  rewrite Qred_correct.
  unfold rnd_pos. rewrite flog2_int by lia.
  set (k := Z.log2 (Z.pos p)).
  assert (Hk : 0 <= k <= 23).
  { subst k. split; [apply Z.log2_nonneg|]. apply Z.log2_lt_pow2 in H1; lia. }
  replace (Z.max (k - (24 - 1)) (-149)) with (k - 23) by lia.
  destruct (0 <=? k - 23) eqn:E.
  - assert (k = 23) by lia. replace (k - 23) with 0 by lia.
    change (1 * 2 ^ 0) with 1. change (2 ^ 0) with 1. rewrite div_rne_1 by lia. rewrite Z.mul_1_r. reflexivity.
  - rewrite div_rne_1 by (apply Z.mul_nonneg_nonneg; [lia|apply Z.pow_nonneg; lia]).
    unfold Qeq. cbn [Qnum Qden inject_Z].
    assert (Hp : 0 < 2 ^ (- (k - 23))) by (apply Z.pow_pos_nonneg; lia).
    rewrite Z2Pos.id by exact Hp. ring.
Qed.

Lemma rnd32_int_all z : - 2 ^ 24 < z < 2 ^ 24 -> (rnd32 (inject_Z z) == inject_Z z)%Q.
Proof.
  intros H. destruct z as [|p|p].
  - reflexivity.
  - apply rnd32_int. lia.
  - assert (H' : 0 < Z.pos p < 2 ^ 24) by lia. apply rnd32_int in H'.
    unfold rnd32, rnd in *. cbn [Qnum Qden inject_Z] in *.
    rewrite Qred_correct in *. change (- Z.neg p) with (Z.pos p).
    rewrite H'. reflexivity.
Qed.

Lemma q_trunc_int q z : (q == inject_Z z)%Q -> q_trunc q = z.
Proof.
  unfold Qeq, q_trunc. cbn [Qnum Qden inject_Z]. intros H. rewrite Z.mul_1_r in H. rewrite H.
  apply Z.quot_mul. discriminate.
Qed.
End IntExact.

Lemma span_all_digits d : forallb is_digit d = true -> span is_digit d = (d, []).
Proof.
  induction d as [|c d IH]; [reflexivity|]. simpl. intros H. apply andb_prop in H as [H1 H2].
  rewrite H1, (IH H2). reflexivity.
Qed.

Lemma repr_value_int repr z : repr_int repr = Some z -> repr_value repr = inject_Z z.
Proof.
  unfold repr_int, repr_value.
  set (sd := match repr with
             | c :: r => if c =? 45 then (true, r) else if c =? 43 then (false, r) else (false, repr)
             | [] => (false, repr) end).
  destruct sd as [neg d]. destruct d as [|d0 d]; [discriminate|].
  destruct (forallb is_digit (d0 :: d)) eqn:Ef; [|discriminate].
  rewrite (span_all_digits _ Ef). cbv match. rewrite app_nil_r. cbn [length].
  set (v := Z.of_N (digits_value (d0 :: d))).
  destruct ((-9223372036854775808 <=? (if neg then - v else v))%Z && _); [|discriminate].
  intros H. inversion H; subst z. change (0 - Z.of_nat 0)%Z with 0%Z. cbv match.
  change (0 <=? 0)%Z with true. cbv match. change (10 ^ 0)%Z with 1%Z. rewrite Z.mul_1_r.
  destruct neg; reflexivity.
Qed.

(* the value ParseNth attributes to an <integer> / dimension is its mathematical value below 2^24 *)
Theorem num_int_exact : forall repr z, repr_int repr = Some z -> (- 2 ^ 24 < z < 2 ^ 24)%Z -> num_int repr = z.
Proof.
  intros repr z Hr Hz. unfold num_int. apply q_trunc_int.
  rewrite (repr_value_int _ _ Hr). apply rnd32_int_all. exact Hz.
Qed.
