(* Css/DefaultingTotal.v -- Get is total: on a well-typed tree (declared values have the Go
   type their validator produces, font sizes are not negative, recorded oracle results have
   the type of a computed value) every node has a computed value for every property:
   no nil dereference, no failed type assertion, no infinite recursion.  Exact instance
   of the arithmetic; model of the code after the fixes (fixed = true). *)
From Verif Require Import Css.Defaulting Css.DefaultingSpec Css.DefaultingTyping Css.DefaultingProofs Css.DefaultingTables Css.DefaultingEquations.
From Coq Require Import Lia ZifyBool ZifyNat ZifyN Qabs.
Open Scope N_scope.

(* table facts *)
Lemma initial_shape : forall p, valid_prop p ->
  match initial p with Some v => shape_ok p v = true | None => False end.
Proof.
  intros p Hp.
  pose proof (forall_props (fun p => (p =? 0) || match initial p with Some v => shape_ok p v | None => false end)
                ltac:(vm_compute; reflexivity) p Hp) as H. cbv beta in H.
  destruct Hp as [H1 _]. apply orb_prop in H. destruct H as [H|H]; [lia|].
  destruct (initial p); [exact H|discriminate].
Qed.

Lemma initial_not_computed_wt : forall p, valid_prop p -> initial_not_computed p = true ->
  match initial p with
  | Some v => wt_in p v = true /\
              match computer_of p with KNone => shape_ok p v = true | k => modelled false k v = true end
  | None => False end.
Proof.
  intros p Hp Hinc.
  pose proof (forall_props (fun p => negb (initial_not_computed p) ||
                 match initial p with
                 | Some v => wt_in p v && match computer_of p with KNone => shape_ok p v | k => modelled false k v end
                 | None => false end)
                ltac:(vm_compute; reflexivity) p Hp) as H. cbv beta in H.
  rewrite Hinc in H. cbn in H. destruct (initial p) as [v|]; [|discriminate].
  apply andb_prop in H. destruct H as [H1 H2]. split; [exact H1|].
  destruct (computer_of p); exact H2.
Qed.

Lemma weight_mem i : existsb (Z.eqb i) css_weights = true -> In i css_weights.
Proof. intros H. apply existsb_exists in H. destruct H as (x & Hx & E). apply Z.eqb_eq in E. now subst. Qed.
Lemma mem_weight i : In i css_weights -> existsb (Z.eqb i) css_weights = true.
Proof. intros H. apply existsb_exists. exists i. split; [exact H|apply Z.eqb_refl]. Qed.

Lemma preset_shape : forallb (fun p => shape_ok p dim_zero_null) anon_presets = true.
Proof. vm_compute. reflexivity. Qed.

(* ------------------------------------------------------------------ computer functions are total *)

Lemma Qle_bool_true a b : Qle_bool a b = true -> (a <= b)%Q.
Proof. apply Qle_bool_iff. Qed.

Lemma px_per_nonneg u : (0 <= px_per exactQ u)%Q.
Proof.
  unfold px_per. destruct (assoc_N lengths_to_pixels u) as [q|] eqn:E; [|apply Qle_refl].
  unfold assoc_N in E. destruct (find _ lengths_to_pixels) as [e|] eqn:Ef; [|discriminate]. inversion E; subst.
  apply find_some in Ef. destruct Ef as [Hin _].
  assert (H : forallb (fun e => Qle_bool 0 (cst exactQ (snd e))) lengths_to_pixels = true) by (vm_compute; reflexivity).
  rewrite forallb_forall in H. apply Qle_bool_true, (H e Hin).
Qed.

Lemma computer_valid q : computer_of q <> KNone -> valid_prop q.
Proof.
  unfold computer_of, assoc_N. destruct (find (fun e => fst e =? q) computer_list) as [e|] eqn:Ef; [|congruence].
  intros _. apply find_some in Ef. destruct Ef as [Hin Hq]. apply N.eqb_eq in Hq. subst q.
  assert (H : forallb (fun e => (1 <=? fst e) && (fst e <? nb_properties)) computer_list = true) by (vm_compute; reflexivity).
  rewrite forallb_forall in H. specialize (H e Hin). unfold valid_prop. lia.
Qed.


Definition oknn (r : res value) : Prop := exists s q u, r = Ok (VDim s q u) /\ (0 <= q)%Q.

(* text.CharacterRatio gives a ratio (not negative) for both units *)
Definition ratios_ok (env : dep -> res value) : Prop := forall b, oknn (env (DRatio b)).

(* the environment `compute` runs the computer functions in: DRatio answered from the
   recorded metrics (resolve_ratio), everything else by env *)
Definition env_with (m : option metrics) (env : dep -> res value) (d : dep) : res value :=
  match d with
  | DRatio ch => match m with Some mm => Ok (ratio_value mm ch) | None => Panic 7 end
  | _ => env d
  end.

Lemma run_pure_resolve {A} env m (pg : prog A) :
  run_pure env (resolve_ratio m pg) = run_pure (env_with m env) pg.
Proof.
  induction pg as [a|s|d k IH]; cbn [resolve_ratio run_pure]; try reflexivity.
  destruct d; cbn [run_pure env_with];
    try (match goal with |- context [env ?d] => destruct (env d) end; [apply IH|reflexivity..]).
  destruct m as [mm|]; [apply IH|reflexivity].
Qed.

Lemma modelled_mono hm k v : modelled false k v = true -> modelled hm k v = true.
Proof.
  assert (U : forall u, unit_ok false u = true -> unit_ok hm u = true).
  { intros u H. unfold unit_ok in *. cbn [orb] in H. rewrite H. apply orb_true_r. }
  destruct k; cbn [modelled]; try (intros H; exact H); destruct v; try (intros H; exact H).
  - apply U.
  - apply U.
  - apply U.
  - apply U.
  - apply U.
  - apply U.
  - apply U.
  - apply U.
  - apply U.
  - intros H. apply orb_prop in H. destruct H as [H|H]; [rewrite H; reflexivity|].
    apply andb_prop in H. destruct H as [H1 H2]. rewrite H1, (U _ H2). apply orb_true_r.
  - apply U.
  - intros H. apply andb_prop in H. destruct H as [H1 H2]. now rewrite (U _ H1), (U _ H2).
Qed.

Lemma unit_ok_disj nd env u :
  wt_metrics nd = true -> unit_ok (has_metrics nd) u = true ->
  uses_metrics u = false \/ ratios_ok (env_with (n_metrics nd) env).
Proof.
  unfold wt_metrics, has_metrics, unit_ok. intros Hw H. destruct (n_metrics nd) as [m|].
  - right. apply andb_prop in Hw. destruct Hw as [H1 H2]. intros b. cbn [env_with]. unfold ratio_value.
    do 3 eexists. split; [reflexivity|]. destruct b; apply Qle_bool_iff; assumption.
  - left. cbn [orb] in H. now apply negb_true_iff in H.
Qed.

Section ComputersTotal.
  Variable env : dep -> res value.
  Variable isr : bool.

  Definition nonneg_dim (v : value) : Prop := exists s q u, v = VDim s q u /\ (0 <= q)%Q.

  Ltac qnn := repeat (apply Qmult_le_0_compat || apply Qle_refl || assumption || apply px_per_nonneg).

  Lemma length_total v fso po :
    oknn (env DRootFs) ->
    match fso with Some f => (0 <= f)%Q | None => oknn (env (DOwn PFontSize)) end ->
    match v with
    | VInfPx => True
    | VDim _ _ u => uses_metrics u = false \/ ratios_ok env
    | _ => False
    end ->
    exists r, run_pure env (length_ exactQ v fso po) = Ok r /\
      match v with
      | VDim s q u => exists s' q' u', r = VDim s' q' u' /\ ((0 <= q)%Q -> (0 <= q')%Q)
      | _ => r = VInfPx
      end.
  Proof.
    intros (sr & rf & ur & Hr & Hrf) Hfs Hv. destruct v as [s q u| | | | | | | | | |]; try contradiction.
    2: { eexists. split; reflexivity. }
    unfold length_.
    destruct ((s ==s "auto") || (s ==s "content")).
    { eexists. split; [reflexivity|]. eauto 6. }
    destruct (Qeq_bool q 0).
    { eexists. split; [reflexivity|]. destruct po; cbn; do 3 eexists; (split; [reflexivity|intros _; apply Qle_refl]). }
    destruct (u =? U_Px).
    { eexists. split; [reflexivity|]. destruct po; cbn; eauto 6. }
    destruct (is_abs_unit u).
    { eexists. split; [reflexivity|]. destruct po; cbn; do 3 eexists; (split; [reflexivity|intros Hq; cbn; qnn]). }
    destruct (is_font_rel_unit u) eqn:Efr; [|eexists; split; [reflexivity|eauto 6]].
    assert (Hfsz : exists f, run_pure env (match fso with
                                            | Some f => if Qlt_bool f 0 then own_fs else Ret f
                                            | None => own_fs end) = Ok f /\ (0 <= f)%Q).
    { destruct fso as [f|].
      - assert (Qlt_bool f 0 = false) as ->.
        { unfold Qlt_bool. apply negb_false_iff. apply Qle_bool_iff. exact Hfs. }
        exists f. split; [reflexivity|exact Hfs].
      - destruct Hfs as (s1 & f & u1 & Hf & Hf0). exists f. unfold own_fs. cbn. rewrite Hf. cbn. split; [reflexivity|exact Hf0]. }
    destruct Hfsz as (f & Ef & Hf0).
    assert (Hrun : forall (k : Q -> prog value),
               run_pure env (fsz <- (match fso with Some f => if Qlt_bool f 0 then own_fs else Ret f | None => own_fs end) ;; k fsz)
               = run_pure env (k f)).
    { intros k. clear - Ef. revert Ef.
      generalize (match fso with Some f0 => if Qlt_bool f0 0 then own_fs else Ret f0 | None => own_fs end).
      intros pg. induction pg as [a|s|d kk IH]; cbn; intros E; try discriminate.
      - now inversion E.
      - destruct (env d); try discriminate. now apply IH. }
    rewrite Hrun.
    destruct (u =? U_Em) eqn:Eem.
    { eexists. split; [reflexivity|]. destruct po; cbn; do 3 eexists; (split; [reflexivity|intros Hq; cbn; qnn]). }
    destruct (u =? U_Rem) eqn:Erem.
    { cbn. rewrite Hr. cbn. eexists. split; [reflexivity|].
      destruct po; cbn; do 3 eexists; (split; [reflexivity|intros Hq; cbn; qnn]). }
    destruct Hv as [Hv|Hrat].
    { exfalso. unfold uses_metrics in Hv. unfold is_font_rel_unit, mem_N in Efr. cbn [existsb] in Efr. lia. }
    destruct (Hrat (u =? U_Ch)) as (s1 & rt & u1 & Ert & Hrt0).
    cbn [run_pure]. rewrite Ert. cbn [dim_val pbind run_pure]. eexists. split; [reflexivity|].
    destruct po; cbn; do 3 eexists; (split; [reflexivity|intros Hq; cbn; qnn]).
  Qed.

  Lemma run_pure_bind {A B} (m : prog A) (f : A -> prog B) a :
    run_pure env m = Ok a -> run_pure env (pbind m f) = run_pure env (f a).
  Proof.
    induction m as [x|x|d k IH]; cbn; intros E; try discriminate.
    - now inversion E.
    - destruct (env d); try discriminate. now apply IH.
  Qed.

  Hypothesis Hpfs : isr = false -> oknn (env (DParent PFontSize)).
  Hypothesis Hrfs : oknn (env DRootFs).

  Lemma parent_fs_total : exists f, run_pure env (parent_fs isr) = Ok f /\ (0 <= f)%Q.
  Proof.
    unfold parent_fs. destruct isr eqn:Er.
    - exists initial_fs. split; [reflexivity|]. vm_compute. discriminate.
    - destruct (Hpfs eq_refl) as (s & q & u & E & Hq). exists q. cbn. rewrite E. cbn. split; [reflexivity|exact Hq].
  Qed.

  Lemma keyword_values_nonneg : forall k, In k (keywords_values exactQ) -> (0 <= k)%Q.
  Proof.
    assert (H : forallb (fun k => Qle_bool 0 k) (keywords_values exactQ) = true) by (vm_compute; reflexivity).
    intros k Hk. rewrite forallb_forall in H. apply Qle_bool_true, H, Hk.
  Qed.

  Lemma keyword_value_nonneg s ab : assoc_S font_size_keywords s = Some ab -> (0 <= fs_keyword_value exactQ ab)%Q.
  Proof.
    intros E. apply keyword_values_nonneg. unfold keywords_values. apply in_map_iff.
    unfold assoc_S in E. destruct (find _ font_size_keywords) as [e|] eqn:Ef; [|discriminate]. inversion E; subst.
    exists e. split; [reflexivity|]. apply find_some in Ef. apply Ef.
  Qed.

  Lemma font_size_total v :
    match v with VDim _ q u => (0 <= q)%Q /\ (uses_metrics u = false \/ ratios_ok env) | _ => False end ->
    exists r, run_pure env (font_size exactQ isr v) = Ok r /\ nonneg_dim r.
  Proof.
    destruct v as [s q u| | | | | | | | | |]; try contradiction. intros [Hq Hu]. unfold font_size.
    destruct (assoc_S font_size_keywords s) as [ab|] eqn:Ek.
    { eexists. split; [reflexivity|]. do 3 eexists. split; [reflexivity|]. eapply keyword_value_nonneg, Ek. }
    destruct parent_fs_total as (pfs & Ep & Hp0). rewrite (run_pure_bind _ _ pfs Ep).
    destruct (s ==s "larger").
    { destruct (find (fun k => Qlt_bool pfs k) (keywords_values exactQ)) as [k|] eqn:Ef.
      - eexists. split; [reflexivity|]. do 3 eexists. split; [reflexivity|].
        apply keyword_values_nonneg. apply find_some in Ef. apply Ef.
      - eexists. split; [reflexivity|]. do 3 eexists. split; [reflexivity|]. cbn. qnn; vm_compute; discriminate. }
    destruct (s ==s "smaller").
    { destruct (find (fun k => Qlt_bool k pfs) (rev (keywords_values exactQ))) as [k|] eqn:Ef.
      - eexists. split; [reflexivity|]. do 3 eexists. split; [reflexivity|].
        apply keyword_values_nonneg. apply find_some in Ef. apply in_rev. apply Ef.
      - eexists. split; [reflexivity|]. do 3 eexists. split; [reflexivity|]. cbn. qnn; vm_compute; discriminate. }
    destruct (u =? U_Perc).
    { eexists. split; [reflexivity|]. do 3 eexists. split; [reflexivity|]. cbn. unfold Qdiv. qnn. vm_compute. discriminate. }
    destruct (length_total (VDim s q u) (Some pfs) true Hrfs Hp0 Hu) as (r & Er & s' & q' & u' & -> & Hq').
    exists (VDim s' q' u'). split; [exact Er|]. do 3 eexists. split; [reflexivity|apply Hq', Hq].
  Qed.
End ComputersTotal.

Section ComputeTotal.
  Variable env0 : dep -> res value.
  Variable isr : bool.
  Variable nd : node.
  Hypothesis Hwm : wt_metrics nd = true.

  (* the environment once `compute` has resolved the DRatio reads *)
  Let env := env_with (n_metrics nd) env0.

  Variable p : N.
  Hypothesis Hpfs : isr = false -> oknn (env (DParent PFontSize)).
  Hypothesis Hpfw : isr = false -> exists s i, env (DParent PFontWeight) = Ok (VIntStr s i) /\ In i css_weights.
  Hypothesis Hrfs : oknn (env DRootFs).
  Hypothesis Hpos : exists v, env DSpecPos = Ok v.
  Hypothesis Hflo : exists v, env DSpecFloat = Ok v.
  Hypothesis Hown : is_base p = false ->
    oknn (env (DOwn PFontSize)) /\ (exists a b, env (DOwn PMarks) = Ok (VMarks a b)) /\
    (computer_of p = KBorderWidth -> exists s, env (DOwn (N.pred p)) = Ok (VStr s)).

  Lemma HU u : unit_ok (has_metrics nd) u = true -> uses_metrics u = false \/ ratios_ok env.
  Proof. apply unit_ok_disj, Hwm. Qed.

  Lemma shape_trivial r :
    match computer_of p with KNone | KOther | KFontSize | KFontWeight => False | _ => True end ->
    shape_ok p r = true.
  Proof.
    intros Hk. unfold shape_ok.
    destruct (N.eqb_spec p PFontSize) as [->|_]; [exfalso; revert Hk; vm_compute; tauto|].
    destruct (N.eqb_spec p PFontWeight) as [->|_]; [exfalso; revert Hk; vm_compute; tauto|].
    destruct (is_style_prop p) eqn:Es.
    { exfalso. unfold is_style_prop in Es. destruct (computer_of (N.succ p)) eqn:Ec; try discriminate.
      assert (Hv : valid_prop (N.succ p)) by (apply computer_valid; congruence).
      destruct (border_style_precedes_width (N.succ p) Hv Ec) as (_ & Hn & _).
      rewrite N.pred_succ in Hn. rewrite Hn in Hk. exact Hk. }
    destruct (N.eqb_spec p PMarks) as [->|_]; [exfalso; revert Hk; vm_compute; tauto|].
    destruct (N.eqb_spec p PPage) as [->|_]; [exfalso; revert Hk; vm_compute; tauto|].
    destruct (N.eqb_spec p PTextDecorationLine) as [->|_]; [exfalso; revert Hk; vm_compute; tauto|].
    destruct (N.eqb_spec p PAnchor) as [->|_]; [exfalso; revert Hk; vm_compute; tauto|].
    reflexivity.
  Qed.

  Lemma nonbase_kind : match computer_of p with KNone | KFontSize => True | _ => is_base p = false end.
  Proof.
    unfold is_base. destruct (N.eqb_spec p PFontSize) as [->|Hne]; [vm_compute; exact I|].
    destruct (computer_of p); try exact I; reflexivity.
  Qed.

  Lemma compute_total v :
    wt_decl nd p v = true ->
    exists r, run_pure env0 (compute exactQ true isr nd p v) = Ok r /\ shape_ok p r = true.
  Proof.
    unfold wt_decl. intros Hwt. apply andb_prop in Hwt. destruct Hwt as [Hin Hsh].
    unfold compute. pose proof nonbase_kind as Hnb. pose proof (fun r => shape_trivial r) as Htriv.
    unfold wt_in in Hin.
    destruct (computer_of p) eqn:Ek.
    - (* KNone *) cbn. eexists. split; [reflexivity|exact Hsh].
    - (* KLength *)
      destruct (modelled (has_metrics nd) KLength v) eqn:Em; [|destruct (lookup_oracle nd p); eexists; (split; [reflexivity|exact Hsh])].
      rewrite run_pure_resolve. fold env.
      destruct (Hown Hnb) as (Hfs & _ & _).
      destruct v as [s q u| | | | | | | | | |]; try discriminate; cbn [dim_only pbind].
      + cbn [modelled] in Em. apply HU in Em.
        destruct (length_total env (VDim s q u) None false Hrfs Hfs Em) as (r & Er & _). exists r. split; [exact Er|apply Htriv; exact I].
      + destruct (length_total env VInfPx None false Hrfs Hfs I) as (r & Er & _). exists r. split; [exact Er|apply Htriv; exact I].
    - (* KBleed *)
      destruct (modelled (has_metrics nd) KBleed v) eqn:Em; [|destruct (lookup_oracle nd p); eexists; (split; [reflexivity|exact Hsh])].
      rewrite run_pure_resolve. fold env.
      destruct (Hown Hnb) as (Hfs & (ma & mb & Hm) & _).
      destruct v as [s q u| | | | | | | | | |]; try discriminate; unfold bleed.
      + destruct (s ==s "auto").
        * cbn [run_pure]. rewrite Hm. destruct ma; eexists; (split; [reflexivity|apply Htriv; exact I]).
        * cbn [modelled] in Em. apply HU in Em.
          destruct (length_total env (VDim s q u) None false Hrfs Hfs Em) as (r & Er & _). exists r. split; [exact Er|apply Htriv; exact I].
      + destruct (length_total env VInfPx None false Hrfs Hfs I) as (r & Er & _). exists r. split; [exact Er|apply Htriv; exact I].
    - (* KPixelLength *)
      destruct (modelled (has_metrics nd) KPixelLength v) eqn:Em; [|destruct (lookup_oracle nd p); eexists; (split; [reflexivity|exact Hsh])].
      rewrite run_pure_resolve. fold env.
      destruct (Hown Hnb) as (Hfs & _ & _).
      destruct v as [s q u| | | | | | | | | |]; try discriminate; unfold pixel_length.
      destruct (s ==s "normal"); [eexists; split; [reflexivity|apply Htriv; exact I]|].
      cbn [modelled] in Em. apply HU in Em.
      destruct (length_total env (VDim s q u) None true Hrfs Hfs Em) as (r & Er & _). exists r. split; [exact Er|apply Htriv; exact I].
    - (* KBorderWidth *)
      destruct (modelled (has_metrics nd) KBorderWidth v) eqn:Em; [|destruct (lookup_oracle nd p); eexists; (split; [reflexivity|exact Hsh])].
      rewrite run_pure_resolve. fold env.
      destruct (Hown Hnb) as (Hfs & _ & Hst). destruct (Hst eq_refl) as (sty & Hsty).
      destruct v as [s q u| | | | | | | | | |]; try discriminate; unfold border_width. cbn [run_pure]. rewrite Hsty.
      destruct ((sty ==s "none") || (sty ==s "hidden")); [eexists; split; [reflexivity|apply Htriv; exact I]|].
      destruct (assoc_S border_width_keywords s); [eexists; split; [reflexivity|apply Htriv; exact I]|].
      cbn [modelled] in Em. apply HU in Em.
      destruct (length_total env (VDim s q u) None true Hrfs Hfs Em) as (r & Er & _). exists r. split; [exact Er|apply Htriv; exact I].
    - (* KColumnWidth *)
      destruct (modelled (has_metrics nd) KColumnWidth v) eqn:Em; [|destruct (lookup_oracle nd p); eexists; (split; [reflexivity|exact Hsh])].
      rewrite run_pure_resolve. fold env.
      destruct (Hown Hnb) as (Hfs & _ & _).
      destruct v as [s q u| | | | | | | | | |]; try discriminate; cbn [dim_only pbind].
      + cbn [modelled] in Em. apply HU in Em.
        destruct (length_total env (VDim s q u) None false Hrfs Hfs Em) as (r & Er & _). exists r. split; [exact Er|apply Htriv; exact I].
      + destruct (length_total env VInfPx None false Hrfs Hfs I) as (r & Er & _). exists r. split; [exact Er|apply Htriv; exact I].
    - (* KGap *)
      destruct (modelled (has_metrics nd) KGap v) eqn:Em; [|destruct (lookup_oracle nd p); eexists; (split; [reflexivity|exact Hsh])].
      rewrite run_pure_resolve. fold env.
      destruct (Hown Hnb) as (Hfs & _ & _).
      destruct v as [s q u| | | | | | | | | |]; try discriminate; unfold gap.
      + destruct (s ==s "normal"); [eexists; split; [reflexivity|apply Htriv; exact I]|].
        cbn [modelled] in Em. apply HU in Em.
        destruct (length_total env (VDim s q u) None false Hrfs Hfs Em) as (r & Er & _). exists r. split; [exact Er|apply Htriv; exact I].
      + destruct (length_total env VInfPx None false Hrfs Hfs I) as (r & Er & _). exists r. split; [exact Er|apply Htriv; exact I].
    - (* KBreak *)
      cbn [modelled]. rewrite run_pure_resolve.
      destruct v; try discriminate. unfold break_. destruct (s ==s "always"); eexists; (split; [reflexivity|apply Htriv; exact I]).
    - (* KDisplay *)
      cbn [modelled]. rewrite run_pure_resolve. fold env.
      destruct v; try discriminate. unfold display. cbn [run_pure].
      destruct Hflo as (fl & ->). destruct Hpos as (pos & ->).
      destruct (match pos with VBoolStr pb ps => (pb, ps) | _ => (false, ""%string) end) as [pb ps].
      repeat (match goal with |- context [if ?c then _ else _] => destruct c end);
        eexists; (split; [reflexivity|apply Htriv; exact I]).
    - (* KFloat *)
      cbn [modelled]. rewrite run_pure_resolve. fold env.
      destruct v; try discriminate. unfold floating. cbn [run_pure]. destruct Hpos as (pos & ->).
      destruct (match pos with VBoolStr pb ps => (pb, ps) | _ => (false, ""%string) end) as [pb ps].
      destruct ((ps ==s "absolute") || (ps ==s "fixed") || pb); eexists; (split; [reflexivity|apply Htriv; exact I]).
    - (* KFontSize *)
      destruct (modelled (has_metrics nd) KFontSize v) eqn:Em; [|destruct (lookup_oracle nd p); eexists; (split; [reflexivity|exact Hsh])].
      rewrite run_pure_resolve. fold env.
      assert (p = PFontSize) as Hp.
      { assert (Hv : valid_prop p) by (apply computer_valid; congruence).
        pose proof (forall_props (fun p => match computer_of p with KFontSize => p =? PFontSize | _ => true end)
                      ltac:(vm_compute; reflexivity) p Hv) as H. cbv beta in H. rewrite Ek in H. lia. }
      destruct v as [s q u| | | | | | | | | |]; try discriminate.
      cbn [modelled] in Em. apply HU in Em. apply Qle_bool_true in Hin.
      destruct (font_size_total env isr Hpfs Hrfs (VDim s q u) (conj Hin Em)) as (r & Er & s' & q' & u' & -> & Hq').
      eexists. split; [exact Er|]. rewrite Hp. unfold shape_ok. rewrite N.eqb_refl. apply Qle_bool_iff, Hq'.
    - (* KFontWeight *)
      cbn [modelled]. rewrite run_pure_resolve. fold env.
      assert (p = PFontWeight) as Hp.
      { assert (Hv : valid_prop p) by (apply computer_valid; congruence).
        pose proof (forall_props (fun p => match computer_of p with KFontWeight => p =? PFontWeight | _ => true end)
                      ltac:(vm_compute; reflexivity) p Hv) as H. cbv beta in H. rewrite Ek in H. lia. }
      assert (Hfw : exists w, run_pure env (parent_fw true isr) = Ok w /\ In w css_weights).
      { unfold parent_fw. destruct isr eqn:Er; cbn [andb]; [eexists; split; [reflexivity|vm_compute; tauto]|].
        destruct (Hpfw eq_refl) as (s1 & i1 & E & Hi). cbn [run_pure]. rewrite E. eexists. split; [reflexivity|exact Hi]. }
      destruct Hfw as (w & Ew & Hw).
      destruct v as [| | |s i| | | | | | |]; try discriminate. unfold font_weight.
      assert (Sh : forall i', In i' css_weights -> shape_ok p (VIntStr "" i') = true).
      { intros i' Hi'. rewrite Hp. unfold shape_ok. replace (PFontWeight =? PFontSize) with false by reflexivity.
        rewrite N.eqb_refl. apply mem_weight, Hi'. }
      destruct (font_weight_tables w Hw) as [Hb Hl]. destruct (font_weight_tables_closed w Hw) as [Cb Cl].
      destruct (s ==s "normal") eqn:E1; [eexists; split; [reflexivity|apply Sh; vm_compute; tauto]|].
      destruct (s ==s "bold") eqn:E2; [eexists; split; [reflexivity|apply Sh; vm_compute; tauto]|].
      destruct (s ==s "bolder") eqn:E3; [rewrite (run_pure_bind env _ _ w Ew); eexists; split; [reflexivity|apply Sh; rewrite Hb; exact Cb]|].
      destruct (s ==s "lighter") eqn:E4; [rewrite (run_pure_bind env _ _ w Ew); eexists; split; [reflexivity|apply Sh; rewrite Hl; exact Cl]|].
      eexists; split; [reflexivity|apply Sh].
      unfold mem_S in Hin. cbn [existsb] in Hin. rewrite E1, E2, E3, E4 in Hin. cbn [orb] in Hin. apply weight_mem, Hin.
    - (* KLineHeight *)
      destruct (modelled (has_metrics nd) KLineHeight v) eqn:Em; [|destruct (lookup_oracle nd p); eexists; (split; [reflexivity|exact Hsh])].
      rewrite run_pure_resolve. fold env.
      destruct (Hown Hnb) as (Hfs & _ & _).
      destruct v as [s q u| | | | | | | | | |]; try discriminate; unfold line_height.
      destruct (s ==s "normal"); [eexists; split; [reflexivity|apply Htriv; exact I]|].
      destruct (u =? U_Scalar); [eexists; split; [reflexivity|apply Htriv; exact I]|].
      destruct (u =? U_Perc).
      { destruct Hfs as (s1 & f & u1 & Ef & _). unfold own_fs. cbn [pbind run_pure]. rewrite Ef. cbn. eexists; split; [reflexivity|apply Htriv; exact I]. }
      cbn [modelled] in Em. apply HU in Em.
      destruct (length_total env (VDim s q u) None true Hrfs Hfs Em) as (r & Er & s' & q' & u' & -> & _).
      rewrite (run_pure_bind env _ _ _ Er). cbn. eexists; split; [reflexivity|apply Htriv; exact I].
    - (* KTabSize *)
      destruct (modelled (has_metrics nd) KTabSize v) eqn:Em; [|destruct (lookup_oracle nd p); eexists; (split; [reflexivity|exact Hsh])].
      rewrite run_pure_resolve. fold env.
      destruct (Hown Hnb) as (Hfs & _ & _).
      destruct v as [s q u| | | | | | | | | |]; try discriminate; unfold tab_size.
      + destruct (u =? U_Scalar); [eexists; split; [reflexivity|apply Htriv; exact I]|].
        cbn [modelled] in Em. apply HU in Em.
        destruct (length_total env (VDim s q u) None false Hrfs Hfs Em) as (r & Er & _). exists r. split; [exact Er|apply Htriv; exact I].
      + destruct (length_total env VInfPx None false Hrfs Hfs I) as (r & Er & _). exists r. split; [exact Er|apply Htriv; exact I].
    - (* KVerticalAlign *)
      destruct (modelled (has_metrics nd) KVerticalAlign v) eqn:Em; [|destruct (lookup_oracle nd p); eexists; (split; [reflexivity|exact Hsh])].
      rewrite run_pure_resolve. fold env.
      destruct (Hown Hnb) as (Hfs & _ & _).
      destruct v as [s q u| | | | | | | | | |]; try discriminate; unfold vertical_align.
      destruct (mem_S s valign_keywords) eqn:Ekw; [eexists; split; [reflexivity|apply Htriv; exact I]|].
      destruct Hfs as (s1 & f & u1 & Ef & Hf0).
      destruct (s ==s "super") eqn:Esup; [unfold own_fs; cbn [pbind run_pure]; rewrite Ef; cbn; eexists; split; [reflexivity|apply Htriv; exact I]|].
      destruct (s ==s "sub") eqn:Esub; [unfold own_fs; cbn [pbind run_pure]; rewrite Ef; cbn; eexists; split; [reflexivity|apply Htriv; exact I]|].
      cbn [modelled] in Em. unfold valign_keyword in Em. rewrite Ekw, Esup, Esub in Em. cbn [orb] in Em.
      apply andb_prop in Em. destruct Em as [Em1 Em2]. apply negb_true_iff in Em1. apply HU in Em2. rewrite Em1.
      destruct (length_total env (VDim s q u) None true Hrfs (ex_intro _ s1 (ex_intro _ f (ex_intro _ u1 (conj Ef Hf0)))) Em2)
        as (r & Er & s' & q' & u' & -> & _).
      rewrite (run_pure_bind env _ _ _ Er). cbn. eexists; split; [reflexivity|apply Htriv; exact I].
    - (* KWordSpacing *)
      destruct (modelled (has_metrics nd) KWordSpacing v) eqn:Em; [|destruct (lookup_oracle nd p); eexists; (split; [reflexivity|exact Hsh])].
      rewrite run_pure_resolve. fold env.
      destruct (Hown Hnb) as (Hfs & _ & _).
      destruct v as [s q u| | | | | | | | | |]; try discriminate; unfold word_spacing.
      + destruct (s ==s "normal"); [eexists; split; [reflexivity|apply Htriv; exact I]|].
        cbn [modelled] in Em. apply HU in Em.
        destruct (length_total env (VDim s q u) None false Hrfs Hfs Em) as (r & Er & _). exists r. split; [exact Er|apply Htriv; exact I].
      + destruct (length_total env VInfPx None false Hrfs Hfs I) as (r & Er & _). exists r. split; [exact Er|apply Htriv; exact I].
    - (* KPoint *)
      destruct (modelled (has_metrics nd) (KPoint pixels_only) v) eqn:Em; [|destruct (lookup_oracle nd p); eexists; (split; [reflexivity|exact Hsh])].
      rewrite run_pure_resolve. fold env.
      destruct (Hown Hnb) as (Hfs & _ & _).
      destruct v as [| | | | | | | |v1 u1 v2 u2| |]; try discriminate; unfold point_.
      cbn [modelled] in Em. apply andb_prop in Em. destruct Em as [Em1 Em2]. apply HU in Em1. apply HU in Em2.
      destruct (length_total env (VDim "" v1 u1) None pixels_only Hrfs Hfs Em1) as (r1 & Er1 & s1' & q1' & u1' & -> & _).
      destruct (length_total env (VDim "" v2 u2) None pixels_only Hrfs Hfs Em2) as (r2 & Er2 & s2' & q2' & u2' & -> & _).
      rewrite (run_pure_bind env _ _ _ Er1), (run_pure_bind env _ _ _ Er2). cbn.
      eexists; split; [reflexivity|apply Htriv; exact I].
    - (* KOther *)
      cbn [modelled]. destruct (lookup_oracle nd p); eexists; (split; [reflexivity|exact Hsh]).
  Qed.
End ComputeTotal.

(* ------------------------------------------------------------------ Get is total *)

Lemma shape_fs v : shape_ok PFontSize v = true -> oknn (Ok v).
Proof.
  unfold shape_ok. rewrite N.eqb_refl. destruct v; try discriminate. intros H.
  do 3 eexists. split; [reflexivity|apply Qle_bool_true, H].
Qed.
Lemma shape_fw v : shape_ok PFontWeight v = true -> exists s i, v = VIntStr s i /\ In i css_weights.
Proof.
  unfold shape_ok. replace (PFontWeight =? PFontSize) with false by reflexivity. rewrite N.eqb_refl.
  destruct v; try discriminate. intros H. do 2 eexists. split; [reflexivity|apply weight_mem, H].
Qed.
Lemma shape_marks v : shape_ok PMarks v = true -> exists a b, v = VMarks a b.
Proof. vm_compute. destruct v; try discriminate. eauto. Qed.
Lemma shape_page v : shape_ok PPage v = true -> exists s, v = VStr s.
Proof. vm_compute. destruct v; try discriminate. eauto. Qed.
Lemma shape_tdline v : shape_ok PTextDecorationLine v = true -> exists b, v = VDecor b.
Proof. vm_compute. destruct v; try discriminate. eauto. Qed.
Lemma shape_style p v : valid_prop p -> computer_of p = KBorderWidth -> shape_ok (N.pred p) v = true -> exists s, v = VStr s.
Proof.
  intros Hv Hk. unfold shape_ok.
  pose proof (forall_props (fun p => match computer_of p with
                                     | KBorderWidth => negb (N.pred p =? PFontSize) && negb (N.pred p =? PFontWeight) && is_style_prop (N.pred p)
                                     | _ => true end) ltac:(vm_compute; reflexivity) p Hv) as H. cbv beta in H.
  rewrite Hk in H. apply andb_prop in H. destruct H as [H H3]. apply andb_prop in H. destruct H as [H1 H2].
  apply negb_true_iff in H1. apply negb_true_iff in H2. rewrite H1, H2, H3. destruct v; try discriminate. eauto.
Qed.

Lemma cascade_total isr nd q pv :
  (exists iv, initial q = Some iv) -> (isr = false -> exists v, pv q = Ok v) ->
  exists vs, run_pure (parent_env isr pv) (cascade_value true isr nd q) = Ok vs.
Proof.
  intros [iv Hi] Hp. unfold cascade_value, initial_prog. rewrite Hi.
  assert (Hpar : isr = false -> exists vs, run_pure (parent_env isr pv) (Fetch (DParent q) (fun v => Ret (v, true))) = Ok vs).
  { intros ->. destruct (Hp eq_refl) as [v Hv]. cbn. rewrite Hv. eexists. reflexivity. }
  destruct (lookup_decl nd q) as [[| |v|[|v| |]]|]; cbv beta iota zeta; destruct isr; cbn [negb andb];
    try (eexists; reflexivity); try (apply Hpar; reflexivity);
    destruct (inherited q); cbn [andb]; try (eexists; reflexivity); try (apply Hpar; reflexivity).
Qed.

Section Total.
  Variable t : tree.
  Hypothesis WT : wt_tree t = true.

  Notation comp := (computed exactQ true t).

  Lemma WF : wf_tree t = true.
  Proof. unfold wt_tree in WT. apply andb_prop in WT. apply WT. Qed.

  Lemma node_wt n nd : node_at t n = Some nd -> wt_node nd = true.
  Proof.
    intros En. unfold wt_tree in WT. apply andb_prop in WT. destruct WT as [_ H].
    rewrite forallb_forall in H. apply H. unfold node_at in En. eapply nth_error_In, En.
  Qed.

  Lemma decl_wt n nd p v :
    node_at t n = Some nd ->
    (lookup_decl nd p = Some (CExplicit v) \/ lookup_decl nd p = Some (CPending (PVal v))) ->
    valid_prop p /\ wt_decl nd p v = true.
  Proof.
    intros En Hl. pose proof (node_wt n nd En) as Hw. unfold wt_node in Hw.
    apply andb_prop in Hw. destruct Hw as [_ Hw]. rewrite forallb_forall in Hw.
    unfold lookup_decl in Hl.
    destruct (find (fun d => let 'D q _ := d in q =? p) (n_decls nd)) as [[q c]|] eqn:Ef; [|destruct Hl; discriminate].
    apply find_some in Ef. destruct Ef as [Hin Hq]. apply N.eqb_eq in Hq. subst q.
    specialize (Hw _ Hin). unfold valid_prop.
    destruct Hl as [Hl|Hl]; inversion Hl; subst; cbn in Hw; split; lia.
  Qed.

  Lemma metrics_wt n nd : node_at t n = Some nd -> wt_metrics nd = true.
  Proof. intros En. pose proof (node_wt n nd En) as Hw. unfold wt_node in Hw. apply andb_prop in Hw. apply Hw. Qed.

  Definition total_at (n p : N) : Prop := exists v, comp n p = Ok v /\ shape_ok p v = true.

  Section Step.
    Variables (n : N) (nd : node).
    Hypothesis En : node_at t n = Some nd.
    Hypothesis IH : forall j, j < n -> forall q, valid_prop q -> total_at j q.

    Let isr := is_root_node nd.

    Lemma parent_total q : valid_prop q -> isr = false ->
      exists v, parent_value exactQ t nd q = Ok v /\ shape_ok q v = true.
    Proof.
      intros Hq Hr. unfold parent_value. subst isr. unfold is_root_node in Hr.
      destruct (n_parent nd) as [j|] eqn:Ep; [|discriminate].
      apply IH; [apply (parent_lt t WF n nd j En Ep)|exact Hq].
    Qed.

    Lemma rootfs_ok : oknn (cap_rootfs exactQ true t n).
    Proof.
      unfold cap_rootfs. rewrite (chain_of_step t WF n nd En).
      destruct (n_parent nd) as [j|] eqn:Ep.
      - destruct (node_at_parent t WF n nd j En Ep) as [ndj Ej]. rewrite (chain_of_step t WF j ndj Ej).
        pose proof (parent_lt t WF n nd j En Ep) as Hj.
        assert (exists nd0, node_at t 0 = Some nd0) as [nd0 En0].
        { unfold node_at in *. destruct (nth_error t (N.to_nat 0)) eqn:E'; eauto.
          apply nth_error_None in E'. pose proof (node_at_lt t n nd En). lia. }
        destruct (IH 0 ltac:(lia) PFontSize (proj1 special_props_valid)) as (v & Ev & Sv).
        unfold root_fs_pure. rewrite (root_chain_param exactQ true t _ (root_fs_pure exactQ true t)).
        unfold computed in Ev. rewrite (chain_of_zero t WF nd0 En0) in Ev. rewrite Ev. apply shape_fs, Sv.
      - do 3 eexists. split; [reflexivity|]. vm_compute. discriminate.
    Qed.

    Lemma spec_ok q : valid_prop q -> exists v, cap_spec exactQ true t n q = Ok v.
    Proof.
      intros Hq. unfold cap_spec. rewrite En, (chain_of_step t WF n nd En). unfold specified.
      destruct (cascade_total (is_last match n_parent nd with Some j => chain_of t j | None => [] end) nd q
                  (computed_chain exactQ true t (root_fs_pure exactQ true t) match n_parent nd with Some j => chain_of t j | None => [] end))
        as [[v b] E].
      - apply initial_defined, Hq.
      - destruct (n_parent nd) as [j|] eqn:Ep.
        + intros _. destruct (IH j (parent_lt t WF n nd j En Ep) q Hq) as (v & Ev & _). exists v. exact Ev.
        + cbn. discriminate.
      - rewrite E. cbn. eauto.
    Qed.

    (* the environment of the computer functions is well formed *)
    Lemma compute_value_total p v :
      valid_prop p -> wt_decl nd p v = true ->
      (is_base p = false -> total_at n PFontSize /\ total_at n PMarks /\
                            (computer_of p = KBorderWidth -> total_at n (N.pred p))) ->
      exists r, compute_value exactQ t n nd p v = Ok r /\ shape_ok p r = true.
    Proof.
      intros Hp Hwt Hbase. unfold compute_value.
      apply (compute_total (ctx_env exactQ t n nd p) (is_root_node nd) nd (metrics_wt n nd En) p); cbn [env_with].
      - intros Hr. unfold ctx_env. cbn [pure_env]. rewrite Hr.
        destruct (parent_total PFontSize (proj1 special_props_valid) Hr) as (v' & Ev & Sv). rewrite Ev. apply shape_fs, Sv.
      - intros Hr. unfold ctx_env. cbn [pure_env]. rewrite Hr.
        destruct (parent_total PFontWeight (proj1 (proj2 special_props_valid)) Hr) as (v' & Ev & Sv). rewrite Ev.
        destruct (shape_fw _ Sv) as (s & i & -> & Hi). eauto.
      - apply rootfs_ok.
      - unfold ctx_env. cbn [pure_env]. apply spec_ok. apply special_props_valid.
      - unfold ctx_env. cbn [pure_env]. apply spec_ok. apply special_props_valid.
      - intros Hb. destruct (Hbase Hb) as ((v1 & E1 & S1) & (v2 & E2 & S2) & H3).
        unfold ctx_env. cbn [pure_env]. unfold own_env. rewrite Hb.
        split; [|split].
        + replace (is_base PFontSize) with true by reflexivity. rewrite E1. apply shape_fs, S1.
        + replace (is_base PMarks) with true by reflexivity. rewrite E2. destruct (shape_marks _ S2) as (a & b & ->). eauto.
        + intros Hk. destruct (H3 Hk) as (v3 & E3 & S3).
          destruct (border_style_precedes_width p Hp Hk) as (_ & Hn & _).
          assert (is_base (N.pred p) = true) as -> by (unfold is_base; rewrite Hn; apply orb_true_r).
          rewrite E3. destruct (shape_style p v3 Hp Hk S3) as (s & ->). eauto.
      - exact Hwt.
    Qed.

    Lemma initial_value_total p :
      valid_prop p ->
      (is_base p = false -> total_at n PFontSize /\ total_at n PMarks /\
                            (computer_of p = KBorderWidth -> total_at n (N.pred p))) ->
      exists r, initial_value exactQ t n nd p = Ok r /\ shape_ok p r = true.
    Proof.
      intros Hp Hbase. unfold initial_value.
      pose proof (initial_shape p Hp) as Hs. destruct (initial p) as [iv|] eqn:Ei; [|contradiction].
      destruct (initial_not_computed p) eqn:Einc; [|eauto].
      apply compute_value_total; [exact Hp| |exact Hbase].
      pose proof (initial_not_computed_wt p Hp Einc) as H. rewrite Ei in H. destruct H as [H1 H2].
      unfold wt_decl. rewrite H1. cbn [andb].
      destruct (computer_of p); try exact H2; rewrite (modelled_mono (has_metrics nd) _ _ H2); reflexivity.
    Qed.

    Lemma defaulted_total p :
      valid_prop p -> n_kind nd = KElem ->
      (is_base p = false -> total_at n PFontSize /\ total_at n PMarks /\
                            (computer_of p = KBorderWidth -> total_at n (N.pred p))) ->
      exists r, defaulted exactQ t n nd p = Ok r /\ shape_ok p r = true.
    Proof.
      intros Hp Ek Hbase. unfold defaulted.
      assert (Hinh : exists r, inherited_value exactQ t n nd p = Ok r /\ shape_ok p r = true).
      { unfold inherited_value. destruct (n_parent nd) as [j|] eqn:Ep.
        - apply IH; [apply (parent_lt t WF n nd j En Ep)|exact Hp].
        - apply initial_value_total; assumption. }
      pose proof (initial_value_total p Hp Hbase) as Hini.
      unfold effective. destruct (lookup_decl nd p) as [[| |v|[|v| |]]|] eqn:El; try assumption.
      - destruct (decl_wt n nd p v En (or_introl El)) as [_ Hw]. apply compute_value_total; assumption.
      - destruct (inherited p); assumption.
      - destruct (decl_wt n nd p v En (or_intror El)) as [_ Hw]. apply compute_value_total; assumption.
      - destruct (inherited p); assumption.
    Qed.

    Lemma td_cases p : is_text_decoration p = true ->
      p = PTextDecorationLine \/ p = PTextDecorationColor \/ p = PTextDecorationStyle.
    Proof. unfold is_text_decoration, PTextDecorationLine, PTextDecorationColor, PTextDecorationStyle. lia. Qed.

    Lemma special_base p : is_text_decoration p = true \/ p = PPage -> is_base p = true.
    Proof. intros [H| ->]; [|reflexivity]. destruct (td_cases p H) as [->|[->| ->]]; reflexivity. Qed.

    Lemma elem_total_with p :
      valid_prop p -> n_kind nd = KElem ->
      (is_base p = false -> total_at n PFontSize /\ total_at n PMarks /\
                            (computer_of p = KBorderWidth -> total_at n (N.pred p))) ->
      total_at n p.
    Proof.
      intros Hp Ek Hbase. unfold total_at.
      destruct (defaulted_total p Hp Ek Hbase) as (v & Ev & Sv).
      destruct (is_text_decoration p) eqn:Etd.
      - (* text-decoration-*: propagated *)
        rewrite (propagated_equations exactQ t WF n nd p En Ek (or_introl Etd)), Ev. cbn [bind].
        unfold propagate. rewrite Etd.
        destruct (n_parent nd) as [j|] eqn:Ep; [|eauto].
        destruct (IH j (parent_lt t WF n nd j En Ep) p Hp) as (pv & Epv & Spv). rewrite Epv. cbn [bind].
        destruct (td_cases p Etd) as [->|[->| ->]].
        + destruct (shape_tdline _ Sv) as (a & ->). destruct (shape_tdline _ Spv) as (b & ->).
          eexists. split; reflexivity.
        + destruct (is_cascaded nd PTextDecorationColor); eexists; (split; [reflexivity|reflexivity]).
        + destruct (is_cascaded nd PTextDecorationStyle); eexists; (split; [reflexivity|reflexivity]).
      - destruct (N.eqb_spec p PPage) as [->|Hne].
        + rewrite (propagated_equations exactQ t WF n nd PPage En Ek (or_intror eq_refl)), Ev. cbn [bind].
          unfold propagate. replace (is_text_decoration PPage) with false by reflexivity.
          destruct (value_eqb v (VStr "auto")); [|eauto].
          destruct (n_parent nd) as [j|] eqn:Ep; [|eexists; split; reflexivity].
          destruct (IH j (parent_lt t WF n nd j En Ep) PPage Hp) as (pv & Epv & Spv). rewrite Epv. cbn [bind].
          destruct (shape_page _ Spv) as (s0 & ->). eexists. split; reflexivity.
        + rewrite (defaulting_equations exactQ t WF n nd p En Ek Etd Hne). eauto.
    Qed.

    Lemma elem_total p : valid_prop p -> n_kind nd = KElem -> total_at n p.
    Proof.
      intros Hp Ek.
      assert (Hb : forall q, valid_prop q -> is_base q = true -> total_at n q).
      { intros q Hq Hbq. apply elem_total_with; [exact Hq|exact Ek|]. intros H. congruence. }
      apply elem_total_with; [exact Hp|exact Ek|]. intros _.
      split; [apply Hb; [apply special_props_valid|reflexivity]|].
      split; [apply Hb; [apply special_props_valid|reflexivity]|].
      intros Hk. destruct (border_style_precedes_width p Hp Hk) as (_ & Hn & Hv).
      apply Hb; [exact Hv|]. unfold is_base. rewrite Hn. apply orb_true_r.
    Qed.

    Lemma anon_total p : valid_prop p -> n_kind nd = KAnon -> total_at n p.
    Proof.
      intros Hp Ek. unfold total_at.
      destruct (n_parent nd) as [j|] eqn:Ep.
      2: { destruct (parent_none t WF n nd En Ep) as [_ Hk]. congruence. }
      rewrite (anonymous_equations exactQ t WF n nd j p En Ek Ep).
      pose proof (IH j (parent_lt t WF n nd j En Ep) p Hp) as (pv & Epv & Spv).
      destruct (mem_N p anon_presets) eqn:Epre.
      { eexists. split; [reflexivity|]. pose proof preset_shape as H. rewrite forallb_forall in H. apply H.
        unfold mem_N in Epre. apply existsb_exists in Epre. destruct Epre as (q & Hq & Eq). apply N.eqb_eq in Eq. now subst. }
      destruct (inherited p || (p =? PPage)); [eauto|].
      pose proof (initial_shape p Hp) as Hs. destruct (initial p) as [iv|]; [|contradiction].
      destruct (is_text_decoration p) eqn:Etd; [|eauto].
      rewrite Epv. cbn [bind]. destruct (td_cases p Etd) as [->|[->| ->]].
      - destruct (shape_tdline _ Hs) as (a & ->). destruct (shape_tdline _ Spv) as (b & ->). eexists. split; reflexivity.
      - eexists. split; reflexivity.
      - eexists. split; reflexivity.
    Qed.
  End Step.

  (* every node of a well-typed tree has a computed value for every property *)
  Theorem get_total : forall n p, (N.to_nat n < List.length t)%nat -> valid_prop p ->
    exists v, comp n p = Ok v /\ shape_ok p v = true.
  Proof.
    intros n. induction n as [n IH] using (well_founded_induction N.lt_wf_0). intros p Hn Hp.
    destruct (nth_error t (N.to_nat n)) as [nd|] eqn:En; [|apply nth_error_None in En; lia].
    assert (IH' : forall j, j < n -> forall q, valid_prop q -> total_at j q).
    { intros j Hj q Hq. apply IH; [exact Hj| |exact Hq]. lia. }
    destruct (n_kind nd) eqn:Ek.
    - apply (elem_total n nd En IH' p Hp Ek).
    - apply (anon_total n nd En IH' p Hp Ek).
  Qed.
End Total.

(* ------------------------------------------------------------------ consequences *)

Section TotalHistories.
  Variable t : tree.
  Hypothesis WT : wt_tree t = true.

  Corollary get_total_value n p : (N.to_nat n < List.length t)%nat -> valid_prop p ->
    exists v, computed exactQ true t n p = Ok v.
  Proof. intros Hn Hp. destruct (get_total t WT n p Hn Hp) as (v & Hv & _). eauto. Qed.

  Lemma get_total_ih n : (N.to_nat n < List.length t)%nat ->
    forall j, j < n -> forall q, valid_prop q -> total_at t j q.
  Proof. intros Hn j Hj q Hq. apply (get_total t WT); [lia|exact Hq]. Qed.

  Lemma constructions_pure_ok n nd :
    node_at t n = Some nd -> construct_pure_ok exactQ true t n nd.
  Proof.
    intros En. pose proof (node_at_lt t n nd En) as Hn.
    pose proof (get_total_ih n Hn) as IH. unfold construct_pure_ok.
    destruct special_props_valid as (_ & _ & _ & _ & Va & Vp & Vd & Vf & _).
    destruct (n_kind nd) eqn:Ek.
    - split; [|split; [|split; [|split]]].
      + destruct (rootfs_ok t WT n nd En IH) as (s & q & u & E & _). eauto.
      + apply (spec_ok t WT n nd En IH), Vp.
      + apply (spec_ok t WT n nd En IH), Vd.
      + apply (spec_ok t WT n nd En IH), Vf.
      + destruct (get_total t WT n PAnchor Hn Va) as (v & Ev & Sv).
        revert Sv. vm_compute. destruct v; try discriminate. intros _. eauto.
    - split; [|split].
      + destruct (get_total t WT n PDisplay Hn Vd) as (v & Ev & _). eauto.
      + destruct (get_total t WT n PFloat Hn Vf) as (v & Ev & _). eauto.
      + destruct (get_total t WT n PPosition Hn Vp) as (v & Ev & _). eauto.
  Qed.

  (* every history on a well-typed tree: constructions succeed and every Get returns the
     computed value *)
  Theorem history_total ops :
    hist_ok t [] ops ->
    (forall n p, In (OGet n p) ops -> valid_prop p) ->
    Forall2 (fun o r => match o with
                        | OGet n p => exists v, computed exactQ true t n p = Ok v /\ r = Ok (Some v)
                        | OConstruct _ => r = Ok None
                        end) ops (snd (run_ops exactQ true t empty_styles ops)).
  Proof.
    intros Hh Hv.
    pose proof (transparent_hist_total exactQ true t (WF t WT) constructions_pure_ok ops [] empty_styles) as H.
    assert (Hn : forall c ops, hist_ok t c ops -> (forall m, In m c -> (N.to_nat m < List.length t)%nat) ->
                 forall n p, In (OGet n p) ops -> (N.to_nat n < List.length t)%nat).
    { intros c ops0. revert c. induction ops0 as [|o ops0 IH]; intros c Hok Hc n p Hin; [destruct Hin|].
      destruct o as [n' p'|n']; cbn in Hok.
      - destruct Hok as [Hc' Hok]. destruct Hin as [E|Hin]; [inversion E; subst; apply Hc, Hc'|].
        apply (IH c Hok Hc n p Hin).
      - destruct Hok as [(nd & En & _) Hok]. destruct Hin as [E|Hin]; [discriminate|].
        apply (IH (n' :: c) Hok) with (p := p); [|exact Hin]. intros m [<-|Hm]; [apply (node_at_lt t n' nd En)|apply Hc, Hm]. }
    specialize (Hn [] ops Hh (fun m (F : In m []) => match F with end)).
    specialize (H (fun m (F : In m []) => match F with end) (fun m (F : In m []) => match F with end) Hh).
    unfold hist_agrees in H. clear Hh.
    remember (snd (run_ops exactQ true t empty_styles ops)) as results eqn:Eres. clear Eres.
    revert Hv Hn. induction H as [|o r ops' rs Hor Hrest IH]; intros Hv Hn; constructor.
    - destruct o as [n p|n]; [|exact Hor].
      destruct (get_total t WT n p (Hn n p (or_introl eq_refl)) (Hv n p (or_introl eq_refl))) as (v & Ev & _).
      exists v. split; [exact Ev|]. apply (Hor (Some v)). rewrite Ev. reflexivity.
    - apply IH; intros n p Hin; [apply (Hv n p)|apply (Hn n p)]; right; exact Hin.
  Qed.
End TotalHistories.

(* ------------------------------------------------------------------ the code before the fixes *)

(* <html style="font-weight: bolder">: fontWeight dereferenced the nil parent style *)
Definition witness_bolder_root : tree :=
  [mkNode None KElem [D PFontWeight (CExplicit (VIntStr "bolder" 0))] [] None].

Lemma witness_bolder_root_wt : wt_tree witness_bolder_root = true.
Proof. vm_compute. reflexivity. Qed.

Lemma get_total_refuted_before_fix :
  computed exactQ false witness_bolder_root 0 PFontWeight = Panic 2 /\
  snd (get exactQ false witness_bolder_root (init_styles exactQ false witness_bolder_root) 0 PFontWeight) = Panic 2.
Proof. split; vm_compute; reflexivity. Qed.

(* <html style="text-indent: var(--undefined)">: cascadeValue read c.parentStyle.Get on the root *)
Definition PTextIndent : N := Eval vm_compute in prop_id "text-indent".
Definition witness_pending_root : tree :=
  [mkNode None KElem [D PTextIndent (CPending PErr)] [] None].

Lemma witness_pending_root_wt : wt_tree witness_pending_root = true.
Proof. vm_compute. reflexivity. Qed.

Lemma get_total_refuted_before_fix_pending :
  computed exactQ false witness_pending_root 0 PTextIndent = Panic 2 /\
  computed exactQ false [mkNode None KElem [D PTextIndent (CPending PInherit)] [] None] 0 PTextIndent = Panic 2.
Proof. split; vm_compute; reflexivity. Qed.

(* the same trees with the repaired code *)
Lemma witnesses_after_fix :
  computed exactQ true witness_bolder_root 0 PFontWeight = Ok (VIntStr "" 700) /\
  computed exactQ true witness_pending_root 0 PTextIndent = Ok (VDim "" 0 U_Px).
Proof. split; vm_compute; reflexivity. Qed.
