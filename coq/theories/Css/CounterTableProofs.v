(* Css/CounterTableProofs.v -- "generate a counter representation" and the
   fallback chain: render_value (Css/Counters.v) meets counter_repr
   (Css/CounterSpec.v).  The resolution of `extends` enters through the
   lemma resolve_counter_spec proved in Css/CounterExtendsProofs.v; here it
   is a section hypothesis. *)
From Verif Require Import Base.GoSem Css.Counters Css.CounterSpec Css.CounterAbs Css.CounterProofs.
From Coq Require Import List ZArith NArith Bool Lia ZifyBool ZifyNat ZifyN.
Import ListNotations.
Open Scope Z_scope.

Definition d_sysname (d : descr) : str := snd (fst (system_triple d)).
Definition d_fixed (d : descr) : Z := snd (system_triple d).
Definition d_kind (d : descr) : sysk := sysk_of (d_sysname d).

Lemma system_triple_eta d : system_triple d = (fst (fst (system_triple d)), d_sysname d, d_fixed d).
Proof. unfold d_sysname, d_fixed. destruct (system_triple d) as [[a b] e]. reflexivity. Qed.

Lemma system_triple_ext d : fst (fst (system_triple d)) = is_extends d.
Proof.
  unfold system_triple, is_extends. destruct (sys_is_zero (d_system d)) eqn:E; [|reflexivity].
  unfold sys_is_zero in E. simpl. destruct (sy_extends (d_system d)); [discriminate|reflexivity].
Qed.

Lemma abs_system_kind d : abs_system d = abs_sysk (d_kind d) (d_fixed d).
Proof. unfold abs_system, d_kind, d_sysname, d_fixed. destruct (system_triple d) as [[a b] e]. reflexivity. Qed.

Lemma uses_negative_abs k n : uses_negative k = uses_negative_sign (abs_sysk k n).
Proof. destruct k; reflexivity. Qed.

(* ------------------------------------------------------------------ descriptors of absr *)

Lemma absr_system d : rs_system (absr d) = abs_system d.
Proof. reflexivity. Qed.
Lemma absr_symbols d : rs_symbols (absr d) = map symbol (d_symbols d).
Proof. reflexivity. Qed.
Lemma absr_additive d : rs_additive (absr d) = abs_tuples (d_additive d).
Proof. reflexivity. Qed.

Lemma absr_negative d :
  rs_negative (absr d) = if neg_is_zero d then (s_minus, []) else (symbol (d_neg0 d), symbol (d_neg1 d)).
Proof. unfold absr, complete, abs_def. simpl. destruct (neg_is_zero d); reflexivity. Qed.

Lemma ns_is_none_symbol n : ns_is_none n = true -> symbol n = [].
Proof.
  destruct n as [k s]. unfold ns_is_none, symbol. simpl. intros H.
  apply andb_true_iff in H as [H _]. apply N.eqb_eq in H. subst. reflexivity.
Qed.

Lemma absr_pad d : rs_pad (absr d) = (d_pad_int d, symbol (d_pad_sym d)).
Proof.
  unfold absr, complete, abs_def. simpl. destruct (pad_is_none d) eqn:E; [|reflexivity].
  unfold pad_is_none in E. apply andb_true_iff in E as [E1 E2]. simpl.
  rewrite (ns_is_none_symbol _ E1). apply Z.eqb_eq in E2. rewrite E2. reflexivity.
Qed.

Lemma absr_fallback d : rs_fallback (absr d) = fallback d.
Proof. unfold absr, complete, abs_def, fallback. simpl. destruct (d_fallback d); reflexivity. Qed.

Lemma absr_range d :
  rs_range (absr d) =
  if d_range_auto d || range_is_none d then None else Some (map abs_rng (d_ranges d)).
Proof.
  unfold absr, complete, abs_def. simpl.
  destruct (range_is_none d) eqn:E1; simpl; [rewrite orb_true_r; reflexivity|].
  rewrite orb_false_r. destruct (d_range_auto d); reflexivity.
Qed.

(* ------------------------------------------------------------------ range *)

Lemma ble_lo lo v : in_i64 v -> ((lo <=? v) = true <-> ble (abs_bound_lo lo) (Fin v)).
Proof.
  unfold in_i64, abs_bound_lo. intros Hv. destruct (Z.leb_spec lo min_int); simpl; [split; [trivial|intros _; lia]|].
  split; intros H'; lia.
Qed.
Lemma ble_hi hi v : in_i64 v -> ((v <=? hi) = true <-> ble (Fin v) (abs_bound_hi hi)).
Proof.
  unfold in_i64, abs_bound_hi. intros Hv. destruct (Z.leb_spec max_int hi); simpl; [split; [trivial|intros _; lia]|].
  split; intros H'; lia.
Qed.

Lemma in_ranges_spec d v :
  in_i64 v ->
  (in_ranges (counter_ranges d (d_kind d)) v = true <-> in_range (absr d) v).
Proof.
  intros Hv. unfold in_range, used_ranges, counter_ranges. rewrite absr_range, absr_system, abs_system_kind.
  destruct (d_range_auto d || range_is_none d).
  - assert (Hv' := Hv). unfold in_i64 in Hv'.
    destruct (d_kind d); simpl; rewrite orb_false_r; unfold max_int, min_int in *;
      (split; [intros H; eexists; split; [left; reflexivity|simpl; lia]
              |intros (r & [<-|[]] & H1 & H2); simpl in *; lia]).
  - unfold in_ranges. rewrite existsb_exists. split.
    + intros ([lo hi] & Hin & H). apply andb_true_iff in H as [H1 H2].
      exists (abs_rng (Rg lo hi)). split; [apply in_map; assumption|].
      simpl. split; [apply ble_lo|apply ble_hi]; assumption.
    + intros (r & Hin & H1 & H2). apply in_map_iff in Hin as ([lo hi] & <- & Hin).
      exists (Rg lo hi). split; [assumption|]. simpl in H1, H2.
      apply andb_true_iff. split; [apply ble_lo|apply ble_hi]; assumption.
Qed.

(* ------------------------------------------------------------------ steps 3 - 5 *)

Lemma cyclic_repr_some syms v : 1 <= slen syms -> exists s, cyclic_repr syms v = Some s.
Proof.
  intros HL. unfold cyclic_repr, sym_at.
  pose proof (Z.mod_pos_bound (v - 1) (slen syms) ltac:(lia)) as Hb.
  destruct (Z.ltb_spec ((v - 1) mod slen syms) 0); [lia|].
  destruct (nth_error syms (Z.to_nat ((v - 1) mod slen syms))) eqn:E; [eauto|].
  apply nth_error_None in E. unfold slen in *. lia.
Qed.

Lemma finish_model d v initial (np nsf : str) :
  rs_negative (absr d) = (np, nsf) ->
  let use_negative := (v <? 0) && uses_negative (d_kind d) in
  let pad_diff := d_pad_int d - zlen initial in
  let pad_diff := if use_negative then pad_diff - (zlen np + zlen nsf) else pad_diff in
  (let* initial' :=
     if 0 <? pad_diff then
       let* p := go_repeat 256 (symbol (d_pad_sym d)) pad_diff in Ok (p ++ initial)
     else Ok initial in
   Ok (IOk (if use_negative then np ++ initial' ++ nsf else initial')))
  = Ok (IOk (finish (absr d) v initial)).
Proof.
  intros Hn. cbv zeta. unfold finish, signed. rewrite Hn, absr_pad, absr_system, abs_system_kind.
  rewrite <- uses_negative_abs.
  set (un := (v <? 0) && uses_negative (d_kind d)).
  set (len := slen initial + (if un then slen np + slen nsf else 0)).
  assert (Hpd : (if un then d_pad_int d - zlen initial - (zlen np + zlen nsf) else d_pad_int d - zlen initial)
                = d_pad_int d - len).
  { unfold len, slen, zlen. destruct un; lia. }
  rewrite Hpd.
  destruct (Z.ltb_spec 0 (d_pad_int d - len)) as [Hp|Hp].
  - rewrite go_repeat_ok by lia. cbn [bind]. destruct un; reflexivity.
  - cbn [bind]. replace (Z.to_nat (d_pad_int d - len)) with O by lia. simpl. destruct un; reflexivity.
Qed.

Lemma render_in_range_spec d v :
  wfr d -> in_i64 v ->
  exists io, CounterSpec.initial_repr (absr d) (if signed (absr d) v then - v else v) io /\
             render_in_range d (d_kind d) (d_fixed d) v =
             Ok (match option_map (finish (absr d) v) io with Some s => IOk s | None => IFallback end).
Proof.
  intros (Hext & Hknown & Henough & Hw) Hv.
  unfold render_in_range.
  assert (Hsigned : signed (absr d) v = (v <? 0) && uses_negative (d_kind d)).
  { unfold signed. rewrite absr_system, abs_system_kind, <- uses_negative_abs. reflexivity. }
  rewrite Hsigned.
  set (un := (v <? 0) && uses_negative (d_kind d)).
  assert (Hval : (if un then Z.abs v else v) = (if un then - v else v)).
  { unfold un. destruct (Z.ltb_spec v 0); simpl; [destruct (uses_negative (d_kind d)); lia|reflexivity]. }
  destruct (if neg_is_zero d then _ else _) as [np nsf] eqn:En.
  assert (Hneg : rs_negative (absr d) = (np, nsf)) by (rewrite absr_negative; exact En).
  rewrite Hval.
  set (w := if un then - v else v).
  (* the initial representation *)
  assert (Hinit : exists io, CounterSpec.initial_repr (absr d) w io /\
            Counters.initial_repr d (d_kind d) (d_fixed d) w =
            Ok (match io with Some s => IOk s | None => IFallback end)).
  { unfold CounterSpec.initial_repr, Counters.initial_repr.
    rewrite absr_system, abs_system_kind, absr_symbols, absr_additive.
    unfold enough_symbols in Henough. rewrite abs_system_kind in Henough.
    unfold known_system in Hknown. rewrite system_triple_eta in Hknown. fold (d_kind d) in Hknown.
    destruct (d_kind d) eqn:Ek; cbn [abs_sysk] in *; try contradiction.
    - (* cyclic *)
      rewrite repeating_spec. cbn [bind].
      destruct (cyclic_repr_some (map symbol (d_symbols d)) w) as [s Hs]; [rewrite slen_map; lia|].
      exists (Some s). rewrite Hs. split; reflexivity.
    - (* fixed *)
      destruct (d_symbols d) as [|x r] eqn:Es; [unfold zlen in Henough; simpl in Henough; lia|].
      rewrite <- Es. rewrite non_repeating_spec. cbn [bind].
      exists (fixed_repr (d_fixed d) (map symbol (d_symbols d)) w). split; [reflexivity|].
      destruct (fixed_repr _ _ _); reflexivity.
    - (* symbolic *)
      destruct (d_symbols d) as [|x r] eqn:Es; [unfold zlen in Henough; simpl in Henough; lia|].
      rewrite <- Es. rewrite symbolic_spec. cbn [bind].
      exists (symbolic_repr (map symbol (d_symbols d)) w). split; [reflexivity|].
      destruct (symbolic_repr _ _); reflexivity.
    - (* alphabetic *)
      destruct (Z.ltb_spec (zlen (d_symbols d)) 2); [lia|].
      destruct (Z.ltb_spec w 1) as [Hw1|Hw1].
      + exists None. split; [reflexivity|]. unfold alphabetic.
        destruct (Z.ltb_spec (zlen (d_symbols d)) 2); [lia|]. destruct (Z.ltb_spec w 1); [|lia]. reflexivity.
      + destruct (alphabetic_spec (d_symbols d) w ltac:(lia) ltac:(lia)) as (ds & E1 & E2).
        rewrite E1. cbn [bind]. exists (Some (digits_string (map symbol (d_symbols d)) 1 ds)).
        split; [|reflexivity]. exists ds. rewrite slen_map. split; [assumption|reflexivity].
    - (* numeric *)
      destruct (numeric_spec (d_symbols d) w ltac:(lia)) as (ds & E1 & E2).
      rewrite E1. cbn [bind]. exists (Some (digits_string (map symbol (d_symbols d)) 0 ds)).
      split; [|reflexivity]. exists ds. rewrite slen_map. split; [|reflexivity].
      assert (Hw0 : 0 <= w).
      { unfold w, un. destruct (Z.ltb_spec v 0); simpl; [|lia]. try rewrite Ek. simpl. lia. }
      rewrite Z.abs_eq in E2 by lia. assumption.
    - (* additive *)
      destruct (d_additive d) as [|x r] eqn:Es; [unfold zlen in Henough; simpl in Henough; lia|].
      rewrite <- Es.
      assert (Hw0 : 0 <= w).
      { unfold w, un. destruct (Z.ltb_spec v 0); simpl; [|lia]. try rewrite Ek. simpl. lia. }
      rewrite additive_spec by assumption. cbn [bind].
      exists (additive_repr (abs_tuples (d_additive d)) w). split; [reflexivity|].
      destruct (additive_repr _ _); reflexivity. }
  destruct Hinit as (io & Hio1 & Hio2).
  exists io. split; [assumption|].
  rewrite Hio2. cbn [bind]. destruct io as [s|]; cbn [option_map]; [|reflexivity].
  pose proof (finish_model d v s np nsf Hneg) as Hf. cbv zeta in Hf. fold un in Hf.
  exact Hf.
Qed.

(* ------------------------------------------------------------------ `resolved` and fallback chains are functional *)

Lemma resolved_functional T : forall n r, resolved T n r -> forall r', resolved T n r' -> r = r'.
Proof.
  induction 1 as [n d s Hn Hs | n d m r Hn Hs Hm Hc Hr IH | n d m r Hn Hs Hc Hr IH]; intros r' H';
    inversion H' as [n' d' s' Hn' Hs' | n' d' m' r0 Hn' Hs' Hm' Hc' Hr' | n' d' m' r0 Hn' Hs' Hc' Hr']; subst;
    rewrite Hn in Hn'; injection Hn' as <-; rewrite Hs in Hs'; try discriminate.
  - injection Hs' as <-. reflexivity.
  - injection Hs' as <-. f_equal. apply IH. assumption.
  - injection Hs' as <-. exfalso. destruct Hc' as [Hc'|Hc']; contradiction.
  - injection Hs' as <-. exfalso. destruct Hc as [Hc|Hc]; contradiction.
  - f_equal. apply IH. assumption.
Qed.

Lemma chain_functional T n : forall k m, fallback_chain T n k m -> forall m', fallback_chain T n k m' -> m = m'.
Proof.
  induction 1 as [|k m r Hc IH Hr]; intros m' H'; inversion H' as [|k' m0 r0 Hc0 Hr0]; subst; [reflexivity|].
  apply IH in Hc0. subst m0. rewrite (resolved_functional T _ _ Hr _ Hr0). reflexivity.
Qed.

Lemma chain_shift T n a b m :
  fallback_chain T n a m -> fallback_chain T n b m ->
  forall t x, fallback_chain T n (a + t) x -> fallback_chain T n (b + t) x.
Proof.
  intros Ha Hb. induction t as [|t IH]; intros x Hx.
  - rewrite Nat.add_0_r in *. rewrite <- (chain_functional T n _ _ Ha _ Hx). exact Hb.
  - rewrite Nat.add_succ_r in *. inversion Hx as [|k m0 r0 Hc0 Hr0]; subst.
    econstructor; [apply IH; exact Hc0|exact Hr0].
Qed.

(* a chain that comes back to one of its styles fails for ever *)
Lemma chain_loop_fails T n v k j0 m' :
  (forall j, (j <= k)%nat -> chain_fails T n v j) ->
  fallback_chain T n (S k) m' -> fallback_chain T n j0 m' -> (j0 <= k)%nat ->
  forall i, chain_fails T n v i.
Proof.
  intros Hfail Hk Hj Hle i. induction i as [i IH] using lt_wf_ind.
  destruct (Nat.le_gt_cases i k) as [Hi|Hi]; [apply Hfail; assumption|].
  set (i' := (i - (S k - j0))%nat).
  assert (Hi' : (i' < i)%nat) by (unfold i'; lia).
  destruct (IH i' Hi') as (m1 & r1 & Hc1 & Hr1 & Hs1).
  exists m1, r1. split; [|split; assumption].
  replace i with (S k + (i' - j0))%nat by (unfold i'; lia).
  apply (chain_shift T n j0 (S k) m' Hj Hk).
  replace (j0 + (i' - j0))%nat with i' by (unfold i'; lia). exact Hc1.
Qed.

Lemma mem_In x l : mem x l = true <-> In x l.
Proof.
  induction l as [|y l IH]; simpl; [split; [discriminate|contradiction]|].
  rewrite orb_true_iff, str_eqb_eq, IH. reflexivity.
Qed.

Definition ekey (e : entry) : str := let 'En n _ := e in n.

Lemma lookup_In c n : lookup c n <> None -> In n (map ekey c).
Proof.
  induction c as [|[k d] c IH]; simpl; [congruence|].
  destruct (str_eqb k n) eqn:E; [apply str_eqb_eq in E; auto|auto].
Qed.

Lemma prev_bound c prev :
  NoDup prev -> (forall p, In p prev -> lookup c p <> None) -> (length prev <= length c)%nat.
Proof.
  intros Hnd Hin. rewrite <- (map_length ekey c). apply NoDup_incl_length; [assumption|].
  intros p Hp. apply lookup_In, Hin, Hp.
Qed.

(* ------------------------------------------------------------------ the main induction *)

Section Render.
Variable c : table.
Let T := abs_table c.
Hypothesis Hwf : wf_table c.

(* proved in Css/CounterExtendsProofs.v (resolve_counter_spec) *)
Hypothesis Hres : forall n d, lookup c n = Some d ->
  exists d', (forall prev, mem n prev = false -> resolve_counter c n prev = Ok (Some d', n :: prev)) /\
             resolved T n (absr d') /\ wfr d' /\ (is_extends d = false -> d' = d).

Lemma resolve_counter_cases n prev :
  (lookup c n = None /\ resolve_counter c n prev = Ok (None, prev)) \/
  (lookup c n <> None /\ mem n prev = true /\ resolve_counter c n prev = Ok (None, prev)) \/
  (mem n prev = false /\ lookup c n <> None /\
   exists d', resolve_counter c n prev = Ok (Some d', n :: prev) /\ resolved T n (absr d') /\ wfr d').
Proof.
  destruct (lookup c n) as [d|] eqn:El.
  - destruct (mem n prev) eqn:Em.
    + right; left. split; [discriminate|]. split; [reflexivity|].
      unfold resolve_counter. rewrite El, Em. reflexivity.
    + right; right. split; [reflexivity|]. split; [discriminate|].
      destruct (Hres n d El) as (d' & H1 & H2 & H3 & _). exists d'. auto.
  - left. split; [reflexivity|]. unfold resolve_counter. rewrite El. reflexivity.
Qed.

Lemma T_none n : lookup c n = None -> T n = None.
Proof. intros H. unfold T, abs_table. rewrite H. reflexivity. Qed.

(* decimal *)
Lemma decimal_record :
  exists dec, lookup c s_decimal = Some dec /\
              (forall prev, mem s_decimal prev = false ->
                            resolve_counter c s_decimal prev = Ok (Some dec, s_decimal :: prev)) /\
              resolved T n_decimal (absr dec) /\ wfr dec /\
              abs_system dec = SNumeric /\ (d_range_auto dec || range_is_none dec) = true.
Proof.
  destruct Hwf as [(dec & Hl & He & Hs & Hsy & Hr) _].
  destruct (Hres _ _ Hl) as (d' & H1 & H2 & H3 & H4). specialize (H4 He). subst d'.
  exists dec. repeat split; try assumption; apply H3.
Qed.

Lemma render_decimal f v prev :
  in_i64 v ->
  forall dec, lookup c s_decimal = Some dec -> wfr dec -> abs_system dec = SNumeric ->
  (d_range_auto dec || range_is_none dec) = true ->
  exists s, render_value (S f) c v (Some dec) prev = Ok s /\ style_repr (absr dec) v (Some s).
Proof.
  intros Hv dec Hl Hw Hs Hr.
  assert (Hin : in_range (absr dec) v).
  { unfold in_range, used_ranges. rewrite absr_range, Hr, absr_system, Hs. simpl.
    eexists; split; [left; reflexivity|]. simpl. auto. }
  destruct (render_in_range_spec dec v Hw Hv) as (io & Hio & Hrr).
  assert (Hsome : exists s0, io = Some s0).
  { unfold CounterSpec.initial_repr in Hio. rewrite absr_system, Hs in Hio.
    destruct Hio as (ds & _ & ->). eauto. }
  destruct Hsome as [s0 ->].
  exists (finish (absr dec) v s0). split.
  - cbn [render_value]. rewrite system_triple_eta.
    rewrite system_triple_ext. destruct Hw as (He & _). rewrite He.
    fold (d_kind dec).
    apply in_ranges_spec in Hin; [|assumption]. rewrite Hin. cbn [negb].
    rewrite Hrr. reflexivity.
  - right. split; [assumption|]. exists (Some s0). split; [assumption|reflexivity].
Qed.

(* c.RenderValue(counterValue, "decimal") from any point of renderValue *)
Lemma render_via_decimal f v :
  in_i64 v ->
  exists s, (let* (r, _) := resolve_counter c s_decimal [] in render_value (S f) c v r []) = Ok s /\
            decimal_repr T v s.
Proof.
  intros Hv. destruct decimal_record as (dec & Hl & Hrc & Hrd & Hw & Hs & Hr).
  rewrite (Hrc [] eq_refl). cbn [bind].
  destruct (render_decimal f v [] Hv dec Hl Hw Hs Hr) as (s & E1 & E2).
  exists s. split; [assumption|]. exists (absr dec). split; assumption.
Qed.

Lemma has_decimal : has c s_decimal = true.
Proof. destruct decimal_record as (dec & Hl & _). unfold has. rewrite Hl. reflexivity. Qed.

Lemma render_value_chain n v (Hv : in_i64 v) : forall fuel k m d prev,
  fallback_chain T n k m -> resolved T m (absr d) -> wfr d ->
  (forall j, (j < k)%nat -> chain_fails T n v j) ->
  (forall p, In p prev -> exists j, (j <= k)%nat /\ fallback_chain T n j p) ->
  NoDup prev -> (forall p, In p prev -> lookup c p <> None) ->
  (length c + 3 <= fuel + length prev)%nat ->
  exists s, render_value fuel c v (Some d) prev = Ok s /\ counter_repr T n v s.
Proof.
  induction fuel as [|f IH]; intros k m d prev Hc Hr Hw Hfail Hprev Hnd Hkeys Hfuel.
  - exfalso. pose proof (prev_bound c prev Hnd Hkeys) as Hpb. lia.
  - pose proof (prev_bound c prev Hnd Hkeys) as Hpb.
    cbn [render_value]. rewrite system_triple_eta, system_triple_ext.
    assert (He : is_extends d = false) by (destruct Hw; assumption). rewrite He.
    fold (d_kind d).
    (* what the style alone gives *)
    assert (Hstyle : exists o, style_repr (absr d) v o /\
              ((o = None /\ (in_ranges (counter_ranges d (d_kind d)) v = false \/
                            (in_ranges (counter_ranges d (d_kind d)) v = true /\
                             render_in_range d (d_kind d) (d_fixed d) v = Ok IFallback))) \/
               (exists s, o = Some s /\ in_ranges (counter_ranges d (d_kind d)) v = true /\
                          render_in_range d (d_kind d) (d_fixed d) v = Ok (IOk s)))).
    { destruct (in_ranges (counter_ranges d (d_kind d)) v) eqn:Ein.
      - apply in_ranges_spec in Ein; [|assumption].
        destruct (render_in_range_spec d v Hw Hv) as (io & Hio & Hrr).
        exists (option_map (finish (absr d) v) io). split.
        + right. split; [assumption|]. exists io. split; [assumption|reflexivity].
        + destruct io as [s0|]; cbn [option_map] in *.
          * right. exists (finish (absr d) v s0). auto.
          * left. auto.
      - exists None. split; [|left; auto]. left. split; [|reflexivity].
        intros Hin. apply in_ranges_spec in Hin; [|assumption]. congruence. }
    destruct Hstyle as (o & Hso & [(-> & Hmodel) | (s & -> & Ein & Hrr)]).
    + (* the style cannot represent v: fallback *)
      assert (Hfb : render_value (S f) c v (Some d) prev =
                    (let* (r, prev') := resolve_counter c (fallback d) prev in render_value f c v r prev')).
      { cbn [render_value]. rewrite system_triple_eta, system_triple_ext, He. fold (d_kind d).
        destruct Hmodel as [Ein | (Ein & Hrr)]; rewrite Ein; cbn [negb]; [reflexivity|].
        rewrite Hrr. reflexivity. }
      cbn [render_value] in Hfb. rewrite system_triple_eta, system_triple_ext, He in Hfb. fold (d_kind d) in Hfb.
      rewrite Hfb. clear Hfb.
      assert (Hfailk : forall j, (j <= k)%nat -> chain_fails T n v j).
      { intros j Hj. destruct (Nat.eq_dec j k) as [->|Hne]; [|apply Hfail; lia].
        exists m, (absr d). auto. }
      assert (Hnext : fallback_chain T n (S k) (fallback d)).
      { rewrite <- absr_fallback. econstructor; eassumption. }
      destruct (resolve_counter_cases (fallback d) prev) as [(Hl & ->) | [(Hl & Hm & ->) | (Hm & Hl & d' & -> & Hr' & Hw')]];
        cbn [bind].
      * (* unknown style: decimal *)
        destruct f as [|f']; [lia|]. cbn [render_value]. rewrite has_decimal.
        destruct f' as [|f'']; [lia|].
        destruct (render_via_decimal f'' v Hv) as (s & E1 & E2).
        exists s. split; [exact E1|].
        right; left. exists (S k), (fallback d). split; [intros j Hj; apply Hfailk; lia|].
        split; [assumption|]. split; [apply T_none; assumption|assumption].
      * (* loop: decimal *)
        destruct f as [|f']; [lia|]. cbn [render_value]. rewrite has_decimal.
        destruct f' as [|f'']; [lia|].
        destruct (render_via_decimal f'' v Hv) as (s & E1 & E2).
        exists s. split; [exact E1|].
        right; right. split; [|assumption].
        apply mem_In in Hm. destruct (Hprev _ Hm) as (j0 & Hj0 & Hcj0).
        apply (chain_loop_fails T n v k j0 (fallback d)); assumption.
      * (* next style of the chain *)
        apply (IH (S k) (fallback d) d' (fallback d :: prev)); try assumption.
        -- intros j Hj. apply Hfailk. lia.
        -- intros p [<-|Hp]; [exists (S k); split; [lia|assumption]|].
           destruct (Hprev p Hp) as (j & Hj & Hcj). exists j. split; [lia|assumption].
        -- constructor; [|assumption]. intros Hin. apply mem_In in Hin. congruence.
        -- intros p [<-|Hp]; [assumption|apply Hkeys; assumption].
        -- simpl. lia.
    + (* represented *)
      rewrite Ein. cbn [negb]. rewrite Hrr. cbn [bind].
      exists s. split; [reflexivity|]. left. exists k, m, (absr d). auto.
Qed.

Theorem RenderValue_spec n v :
  in_i64 v -> exists s, RenderValue c v n = Ok s /\ counter_repr T n v s.
Proof.
  intros Hv. unfold RenderValue.
  destruct (resolve_counter_cases n []) as [(Hl & ->) | [(Hl & Hm & _) | (Hm & Hl & d' & -> & Hr' & Hw')]];
    cbn [bind]; [|discriminate|].
  - unfold render_fuel. replace (length c + 4)%nat with (S (length c + 3)) by lia.
    cbn [render_value]. rewrite has_decimal.
    destruct (render_via_decimal (length c + 2) v Hv) as (s & E1 & E2).
    replace (S (length c + 2)) with (length c + 3)%nat in E1 by lia.
    exists s. split; [exact E1|].
    right; left. exists O, n. split; [intros j Hj; lia|].
    split; [constructor|]. split; [apply T_none; assumption|assumption].
  - apply (render_value_chain n v Hv (render_fuel c) O n d' []); try assumption.
    + constructor.
    + intros j Hj. lia.
    + intros p [].
    + constructor.
    + intros p [].
    + unfold render_fuel. simpl. lia.
Qed.

End Render.
