(* Css/Ser.v -- executable model of /repo/css/parser/serialize.go (as repaired
   by the C20 `fix:` commits a4e2bd4 5f75bc3 51db6dd 27bf654 be9bcfe 57a00aa).
   NO PROOFS in this file (see Css/SerProofs.v, Css/RoundTrip*.v).

   Representation.  Go strings are valid UTF-8 here (token values come from
   the tokenizer, which only builds valid UTF-8); every loop of serialize.go
   is `for _, c := range value` and every byte-level test is against an ASCII
   byte, so the model works on code points: `str = list N` (Css/Token.v) and
   the output of `serialize` is the list of code points of Go's result string.
   Map keys of `badPairs` are Go strings (`Kind.String()` or the literal's
   value); they are kept as strings (`list N`) so that even a literal whose
   value spells a kind name behaves as in Go.

   Partial operations: `serializeIdentifier("")` indexes `value[0]` (panic);
   `ParseError.serializeTo` panics on the kinds the tokenizer never produces.
   They go through Base/GoSem.v's result monad. *)
From Verif Require Export Base.GoSem Css.Token.
From Coq Require Import List NArith Bool Ascii String.
Import ListNotations.
Open Scope N_scope.

Definition site_ident_index : N := 83.     (* serialize.go:83 value[0] *)
Definition site_parse_error : N := 217.    (* serialize.go:217 panic("Can not serialize token") *)

(* ASCII string literal -> code points *)
Definition cps (s : string) : str := map (fun a => N_of_ascii a) (list_ascii_of_string s).

Fixpoint str_eqb (a b : str) : bool :=
  match a, b with
  | [], [] => true
  | x :: a', y :: b' => (x =? y) && str_eqb a' b'
  | _, _ => false
  end.

(* ------------------------------------------------------------------ classes used by the switch statements *)
Definition is_digit (c : N) : bool := (48 <=? c) && (c <=? 57).
Definition is_lower (c : N) : bool := (97 <=? c) && (c <=? 122).
Definition is_upper (c : N) : bool := (65 <=? c) && (c <=? 90).
Definition is_letter_us (c : N) : bool := is_lower c || is_upper c || (c =? 95).   (* a-z _ A-Z *)

(* fmt.Sprintf("%X", c) for c < 16^8 *)
Definition hex_digit (d : N) : N := if d <? 10 then 48 + d else 55 + d.
Fixpoint hex_upper_fuel (fuel : nat) (n : N) (acc : str) : str :=
  match fuel with
  | O => acc
  | S f => let acc' := hex_digit (n mod 16) :: acc in
           if n / 16 =? 0 then acc' else hex_upper_fuel f (n / 16) acc'
  end.
Definition hex_upper (n : N) : str := hex_upper_fuel 8 n [].

(* ------------------------------------------------------------------ serializeName, serialize.go:114-139 *)
Definition name_char (c : N) : str :=
  if is_letter_us c || (c =? 45) then [c]             (* :119 *)
  else if c =? 10 then cps "\A "                      (* :121 *)
  else if c =? 13 then cps "\D "                      (* :123 *)
  else if c =? 12 then cps "\C "                      (* :125 *)
  else if is_digit c then [c]                         (* :127 *)
  else if 127 <? c then [c]                           (* :130 *)
  else [92; c].                                       (* :133 *)

Definition serialize_name (v : str) : str := flat_map name_char v.

(* ------------------------------------------------------------------ serializeIdentifier, serialize.go:70-112 *)
Definition ident_first_char (c : N) : str :=
  if is_letter_us c then [c]                          (* :92 *)
  else if c =? 10 then cps "\A "
  else if c =? 13 then cps "\D "
  else if c =? 12 then cps "\C "
  else if is_digit c then 92 :: hex_upper c ++ [32]   (* :100 "\\%X " *)
  else if 127 <? c then [c]
  else [92; c].

Definition serialize_identifier (v : str) : res str :=
  match v with
  | [] => Panic site_ident_index                                (* :83 value[0] *)
  | c :: r =>
      if c =? 45 then
        match r with
        | [] => Ok [92; 45]                                     (* :71 value == "-" *)
        | d :: r' =>
            if d =? 45 then
              match r' with
              | [] => Ok [45; 92; 45]                           (* :74 value == "--" *)
              | _ => Ok (45 :: 45 :: serialize_name r')         (* :79 *)
              end
            else Ok (45 :: ident_first_char d ++ serialize_name r')   (* :83-110 *)
        end
      else Ok (ident_first_char c ++ serialize_name r)
  end.

(* ------------------------------------------------------------------ serializeStringValue, serialize.go:141-162 *)
Definition string_char (c : N) : str :=
  if c =? 34 then [92; 34]
  else if c =? 92 then [92; 92]
  else if c =? 10 then cps "\A "
  else if c =? 13 then cps "\D "
  else if c =? 12 then cps "\C "
  else [c].
Definition serialize_string_value (v : str) : str := flat_map string_char v.

(* ------------------------------------------------------------------ serializeURL, serialize.go:164-200 *)
Definition url_char (c : N) : str :=
  if c =? 39 then [92; 39]
  else if c =? 34 then [92; 34]
  else if c =? 92 then [92; 92]
  else if c =? 32 then [92; 32]
  else if c =? 9 then cps "\9 "
  else if c =? 10 then cps "\A "
  else if c =? 13 then cps "\D "
  else if c =? 12 then cps "\C "
  else if c =? 40 then [92; 40]
  else if c =? 41 then [92; 41]
  else if (c <? 32) || (c =? 127) then 92 :: hex_upper c ++ [32]   (* :190 *)
  else [c].
Definition serialize_url (v : str) : str := flat_map url_char v.

(* ------------------------------------------------------------------ Kind.String(), tokenizer.go:163-202 *)
Definition kind_string (k : kind) : str :=
  match k with
  | KLitteral => cps "litteral" | KParseError => cps "parse-error" | KComment => cps "comment"
  | KWhitespace => cps "whitespace" | KIdent => cps "ident" | KAtKeyword => cps "at-keyword"
  | KHash => cps "hash" | KString => cps "string" | KURL => cps "url"
  | KUnicodeRange => cps "unicode-range" | KNumber => cps "number" | KPercentage => cps "percentage"
  | KDimension => cps "dimension" | KParenthesesBlock => cps "() block"
  | KSquareBracketsBlock => cps "[] block" | KCurlyBracketsBlock => cps "{} block"
  | KFunctionBlock => cps "function"
  end.

(* serializationType of serialize.go:348-351 *)
Definition ser_type (t : token) : str :=
  match t with
  | TLiteral _ v => v
  | _ => kind_string (token_kind t)
  end.

(* ------------------------------------------------------------------ badPairs, serialize.go:10-58 *)
Definition prod_pairs (la lb : list string) : list (str * str) :=
  flat_map (fun a => map (fun b => (cps a, cps b)) lb) la.

Definition bad_pairs_table : list (str * str) :=
  List.concat [
    prod_pairs ["ident"; "at-keyword"; "hash"; "dimension"; "#"; "-"; "number"]
               ["ident"; "function"; "url"; "number"; "percentage"; "dimension"; "unicode-range"];   (* :13-17 *)
    prod_pairs ["ident"; "at-keyword"; "hash"; "dimension"] ["-"; "-->"];                            (* :18-22 *)
    prod_pairs ["#"; "-"; "number"; "@"] ["ident"; "function"; "url"];                               (* :23-27 *)
    prod_pairs ["unicode-range"; "."; "+"] ["number"; "percentage"; "dimension"];                    (* :28-32 *)
    prod_pairs ["@"] ["ident"; "function"; "url"; "unicode-range"; "-"];                             (* :33-35 *)
    prod_pairs ["unicode-range"] ["ident"; "function"; "?"];                                         (* :36-38 *)
    prod_pairs ["$"; "*"; "^"; "~"; "|"] ["="];                                                      (* :39-41 *)
    prod_pairs ["ident"] ["() block"]; prod_pairs ["|"] ["|"]; prod_pairs ["/"] ["*"];               (* :42-44 *)
    prod_pairs ["#"; "-"; "number"; "@"] ["-->"];                                                    (* :47-50 *)
    prod_pairs ["#"] ["-"]; prod_pairs ["-"] ["-"]; prod_pairs ["number"] ["%"];                     (* :51-53 *)
    prod_pairs ["/"] ["*="]; prod_pairs ["|"] ["|="; "||"]; prod_pairs ["<"] ["!"]                   (* :54-57 *)
  ]%string.

Definition bad_pair (a b : str) : bool :=
  existsb (fun p => str_eqb (fst p) a && str_eqb (snd p) b) bad_pairs_table.

(* ------------------------------------------------------------------ serializeTo on a list, serialize.go:342-368 *)
(* what is written before `node`, given the previous node (if any) *)
Definition separator (prev : option token) (node : token) : str :=
  let prev_type := match prev with Some p => ser_type p | None => [] end in
  let ty := ser_type node in
  if bad_pair prev_type ty then cps "/**/"                                   (* :352 *)
  else if (match prev with
           | Some (TIdent _ v) => str_eqb ty [43] && (str_eqb v [117] || str_eqb v [85])
           | _ => false
           end) then cps "/**/"                                              (* :354 *)
  else if str_eqb prev_type [92] then                                        (* :357 *)
    match node with
    | TWhitespace _ (c :: _) => if c =? 10 then [] else [10]
    | _ => [10]
    end
  else [].

(* the list loop, parametrised by the per-token serializer *)
Definition ser_list_with (f : token -> res str) : option token -> list token -> res str :=
  fix go (prev : option token) (l : list token) : res str :=
    match l with
    | [] => Ok []
    | n :: r =>
        let* a := f n in
        let* b := go (Some n) r in
        Ok (separator prev n ++ a ++ b)
    end.

(* FunctionBlock.serializeTo :325-338: the closing parenthesis is omitted when
   the last argument, followed recursively through function blocks, is an
   eof-in-string error.  `last_unclosed t`: t is the last argument. *)
Fixpoint last_unclosed (t : token) : bool :=
  match t with
  | TParseError _ k => k =? errEofInString
  | TFunction _ _ args =>
      (fix lastb (l : list token) : bool :=
         match l with
         | [] => false
         | [x] => last_unclosed x
         | _ :: r => lastb r
         end) args
  | _ => false
  end.

Definition drop_last {A} (l : list A) : list A := removelast l.

(* per-token serializeTo methods, serialize.go:202-340 *)
Fixpoint ser_token (t : token) : res str :=
  match t with
  | TLiteral _ v => Ok v                                                     (* :202 *)
  | TParseError _ k =>                                                       (* :206 *)
      if k =? errBadString then Ok (cps """[bad string]" ++ [10])
      else if k =? errBadURL then Ok (cps "url([bad url])")
      else if (k =? errP) || (k =? errB) || (k =? errC) then Ok [k]
      else if (k =? errEofInString) || (k =? errEofInUrl) then Ok []
      else Panic site_parse_error
  | TComment _ v => Ok (cps "/*" ++ v ++ cps "*/")                           (* :221 *)
  | TWhitespace _ v => Ok v                                                  (* :227 *)
  | TIdent _ v => serialize_identifier v                                     (* :231 *)
  | TAtKeyword _ v => let* s := serialize_identifier v in Ok (64 :: s)       (* :235 *)
  | THash _ v is_id =>                                                       (* :240 *)
      if is_id then let* s := serialize_identifier v in Ok (35 :: s)
      else Ok (35 :: serialize_name v)
  | TString _ v err =>                                                       (* :249 *)
      Ok (34 :: serialize_string_value v ++ (if err then [] else [34]))
  | TURL _ v err =>                                                          (* :257 *)
      let tmp := cps "url(" ++ serialize_url v ++ [41] in
      Ok (if err then drop_last tmp else tmp)
  | TUnicodeRange _ s e =>                                                   (* :267 *)
      if e =? s then Ok (cps "U+" ++ hex_upper s)
      else Ok (cps "U+" ++ hex_upper s ++ [45] ++ hex_upper e)
  | TNumber _ repr _ => Ok repr                                              (* :275 *)
  | TPercentage _ repr _ => Ok (repr ++ [37])                                (* :279 *)
  | TDimension _ repr _ u =>                                                 (* :284 *)
      match u with
      | c :: r =>
          if ((c =? 101) || (c =? 69))
             && (match r with [] => true | d :: _ => (d =? 45) || is_digit d end) then
            Ok (repr ++ (if c =? 101 then cps "\65 " else cps "\45 ") ++ serialize_name r)
          else let* s := serialize_identifier u in Ok (repr ++ s)
      | [] => let* s := serialize_identifier u in Ok (repr ++ s)
      end
  | TParens _ args =>                                                        (* :300 *)
      let* s := ser_list_with ser_token None args in Ok (40 :: s ++ [41])
  | TSquare _ args =>                                                        (* :306 *)
      let* s := ser_list_with ser_token None args in Ok (91 :: s ++ [93])
  | TCurly _ args =>                                                         (* :312 *)
      let* s := ser_list_with ser_token None args in Ok (123 :: s ++ [125])
  | TFunction _ name args =>                                                 (* :318 *)
      let* n := serialize_identifier name in
      let* s := ser_list_with ser_token None args in
      Ok (n ++ 40 :: s ++ (if last_unclosed t then [] else [41]))
  end.

Definition serialize_from (prev : option token) (l : list token) : res str :=
  ser_list_with ser_token prev l.

(* Serialize, serialize.go:60-64 *)
Definition serialize (l : list token) : res str := serialize_from None l.
