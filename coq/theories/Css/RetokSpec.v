(* Css/RetokSpec.v -- specification-level tokenisation of CSS text into
   component values, transcribed from CSS Syntax Module Level 3 (section 3.3
   preprocessing, 4.3 tokenizer algorithms, 5.4.7-5.4.9 blocks and functions)
   plus the tinycss2 conventions /repo's token type keeps:
     - `~= |= ^= $= *= ||` are single literals, `<!--` / `-->` are literals;
     - the CSS 2.1 / Syntax-2013 unicode-range token `U+hex{1,6}`, `U+h??`,
       `U+h-h` is a token;
     - `url(` followed by optional white space and a quote is a FUNCTION
       token (4.3.4), any other `url(` a url token (4.3.6);
     - numeric tokens keep their representation and an integer flag (set when
       the representation is an optionally signed digit string that fits an
       int64: Go's strconv.ParseInt);
     - comments are tokens unless `skip`.
   It is written independently of the implementation's shape: two phases
   (`lex`: text -> flat tokens with open/close markers; `build`: markers ->
   nested blocks, with a stack), no positions (every `pos` is `p0`), values
   are code points.  NO PROOFS in this file.

   This is the re-tokenisation against which the C20 round-trip theorems are
   stated; Check/C20.v compares it with /repo's `Tokenize` on every source text
   and every serializer output of a run. *)
From Verif Require Export Css.Token.
From Coq Require Import List NArith ZArith Bool.
Import ListNotations.
Open Scope N_scope.

Definition p0 : pos := mkPos 0 0.

(* ------------------------------------------------------------------ 3.3 preprocessing *)
Fixpoint preprocess (s : list N) : list N :=
  match s with
  | [] => []
  | c :: r =>
      if c =? 0 then 65533 :: preprocess r                (* NUL -> U+FFFD *)
      else if c =? 13 then                                (* CR LF, CR -> LF *)
        match r with
        | d :: r' => if d =? 10 then 10 :: preprocess r' else 10 :: preprocess r
        | [] => [10]
        end
      else if c =? 12 then 10 :: preprocess r             (* FF -> LF *)
      else c :: preprocess r
  end.

(* ------------------------------------------------------------------ 4.2 definitions *)
Definition digit (c : N) : bool := (48 <=? c) && (c <=? 57).
Definition hexdig (c : N) : bool := digit c || ((65 <=? c) && (c <=? 70)) || ((97 <=? c) && (c <=? 102)).
Definition letter (c : N) : bool := ((65 <=? c) && (c <=? 90)) || ((97 <=? c) && (c <=? 122)).
Definition non_ascii (c : N) : bool := 128 <=? c.
Definition name_start (c : N) : bool := letter c || non_ascii c || (c =? 95).
Definition name_cp (c : N) : bool := name_start c || digit c || (c =? 45).
Definition non_printable (c : N) : bool :=
  (c <=? 8) || (c =? 11) || ((14 <=? c) && (c <=? 31)) || (c =? 127).
Definition newline (c : N) : bool := c =? 10.            (* after preprocessing *)
Definition whitespace (c : N) : bool := (c =? 10) || (c =? 9) || (c =? 32).

(* 4.3.8 two code points are a valid escape *)
Definition head_is (c : N) (s : list N) : bool :=
  match s with d :: _ => d =? c | [] => false end.

Definition valid_escape (s : list N) : bool :=
  match s with
  | c :: r => (c =? 92) && negb (head_is 10 r)
  | [] => false
  end.

(* 4.3.9 three code points would start an ident sequence *)
Definition starts_ident (s : list N) : bool :=
  match s with
  | [] => false
  | c :: r =>
      if c =? 45 then
        match r with
        | d :: _ => name_start d || (d =? 45) || valid_escape r
        | [] => false
        end
      else if c =? 92 then valid_escape s
      else name_start c
  end.

(* ------------------------------------------------------------------ 4.3.7 consume an escaped code point *)
Definition hexval (c : N) : N :=
  if digit c then c - 48 else if 97 <=? c then c - 87 else c - 55.

(* up to n hex digits: value so far, rest *)
Fixpoint hex_run (n : nat) (acc : N) (s : list N) : N * list N :=
  match n, s with
  | S n', c :: r => if hexdig c then hex_run n' (acc * 16 + hexval c) r else (acc, s)
  | _, _ => (acc, s)
  end.

Definition surrogate (c : N) : bool := (55296 <=? c) && (c <=? 57343).
Definition scalar_or_fffd (c : N) : N :=
  if (c =? 0) || surrogate c || (1114111 <? c) then 65533 else c.

(* the backslash has been consumed and the input is not a newline *)
Definition consume_escape (s : list N) : N * list N :=
  match s with
  | [] => (65533, [])
  | c :: r =>
      if hexdig c then
        let '(v, r1) := hex_run 5 (hexval c) r in
        (scalar_or_fffd v, match r1 with w :: r2 => if whitespace w then r2 else r1 | [] => [] end)
      else (c, r)
  end.

(* ------------------------------------------------------------------ 4.3.11 consume an ident sequence *)
Fixpoint consume_name (fuel : nat) (s : list N) : str * list N :=
  match fuel with
  | O => ([], s)
  | S f =>
      match s with
      | c :: r =>
          if name_cp c then let '(v, k) := consume_name f r in (c :: v, k)
          else if valid_escape s then
            let '(e, r1) := consume_escape r in
            let '(v, k) := consume_name f r1 in (e :: v, k)
          else ([], s)
      | [] => ([], [])
      end
  end.

(* ------------------------------------------------------------------ 4.3.12 consume a number (representation only) *)
Fixpoint span (p : N -> bool) (s : list N) : list N * list N :=
  match s with
  | c :: r => if p c then let '(a, b) := span p r in (c :: a, b) else ([], s)
  | [] => ([], [])
  end.

Definition is_sign (c : N) : bool := (c =? 43) || (c =? 45).

Definition take_sign (s : list N) : list N * list N :=
  match s with
  | c :: r => if is_sign c then ([c], r) else ([], s)
  | [] => ([], [])
  end.

(* 4.3.10 + 4.3.12: None when the input does not start a number *)
Definition take_frac (r1 : list N) : list N * list N :=
  if head_is 46 r1 then
    let '(d2, r3) := span digit (tl r1) in
    match d2 with [] => ([], r1) | _ => (46 :: d2, r3) end
  else ([], r1).

Definition take_exp (r2 : list N) : list N * list N :=
  match r2 with
  | e :: r =>
      if (e =? 101) || (e =? 69) then
        let '(es, r4) := take_sign r in
        let '(d3, r5) := span digit r4 in
        match d3 with [] => ([], r2) | _ => (e :: es ++ d3, r5) end
      else ([], r2)
  | [] => ([], r2)
  end.

Definition consume_number (s : list N) : option (str * list N) :=
  let '(sg, r0) := take_sign s in
  let '(d1, r1) := span digit r0 in
  let '(frac, r2) := take_frac r1 in
  match d1 ++ frac with
  | [] => None
  | m => let '(ex, r3) := take_exp r2 in Some (sg ++ m ++ ex, r3)
  end.

(* integer flag: optionally signed digits, within int64 (strconv.ParseInt) *)
Definition digits_val (d : list N) : N := fold_left (fun a c => a * 10 + (c - 48)) d 0.
Definition repr_is_int (repr : str) : bool :=
  let '(sg, d) := take_sign repr in
  match d with
  | [] => false
  | _ => forallb digit d &&
         (if match sg with [45] => true | _ => false end
          then digits_val d <=? 9223372036854775808
          else digits_val d <=? 9223372036854775807)
  end.

(* ------------------------------------------------------------------ 4.3.5 consume a string token *)
Inductive string_end := SClosed | SEof | SNewline.

(* after the opening quote *)
Fixpoint consume_string (fuel : nat) (q : N) (s : list N) : str * string_end * list N :=
  match fuel with
  | O => ([], SEof, s)
  | S f =>
      match s with
      | [] => ([], SEof, [])
      | c :: r =>
          if c =? q then ([], SClosed, r)
          else if c =? 10 then ([], SNewline, s)                 (* bad-string; newline reconsumed *)
          else if c =? 92 then
            match r with
            | [] => ([], SEof, [])                               (* backslash EOF: nothing *)
            | d :: r' =>
                if d =? 10 then consume_string f q r'            (* escaped newline *)
                else let '(e, r1) := consume_escape r in
                     let '(v, en, k) := consume_string f q r1 in (e :: v, en, k)
            end
          else let '(v, en, k) := consume_string f q r in (c :: v, en, k)
      end
  end.

(* ------------------------------------------------------------------ 4.3.6 consume a url token *)
Fixpoint skip_ws (s : list N) : list N :=
  match s with
  | c :: r => if whitespace c then skip_ws r else s
  | [] => []
  end.

(* 4.3.14 consume the remnants of a bad url *)
Fixpoint bad_url_rest (fuel : nat) (s : list N) : list N :=
  match fuel with
  | O => s
  | S f =>
      match s with
      | [] => []
      | c :: r =>
          if c =? 41 then r
          else if valid_escape s then bad_url_rest f (snd (consume_escape r))
          else bad_url_rest f r
      end
  end.

Inductive url_result :=
| UOk (v : str) (k : list N)      (* <url-token> *)
| UEof (v : str)                  (* EOF: url token + parse error *)
| UBad (k : list N).              (* <bad-url-token> *)

(* after "url(" and leading white space *)
Fixpoint consume_url (fuel : nat) (s : list N) : url_result :=
  match fuel with
  | O => UBad s
  | S f =>
      match s with
      | [] => UEof []
      | c :: r =>
          if c =? 41 then UOk [] r
          else if whitespace c then
            match skip_ws r with
            | [] => UEof []
            | d :: k => if d =? 41 then UOk [] k else UBad (bad_url_rest (S (length k)) (d :: k))
            end
          else if (c =? 34) || (c =? 39) || (c =? 40) || non_printable c then
            UBad (bad_url_rest (length r) r)
          else if c =? 92 then
            if valid_escape s then
              let '(e, r1) := consume_escape r in
              match consume_url f r1 with
              | UOk v k => UOk (e :: v) k
              | UEof v => UEof (e :: v)
              | UBad k => UBad k
              end
            else UBad (bad_url_rest (length r) r)
          else
            match consume_url f r with
            | UOk v k => UOk (c :: v) k
            | UEof v => UEof (c :: v)
            | UBad k => UBad k
            end
      end
  end.

(* ------------------------------------------------------------------ unicode-range (CSS 2.1 / tinycss2) *)
Fixpoint span_n (p : N -> bool) (n : nat) (s : list N) : list N * list N :=
  match n, s with
  | S n', c :: r => if p c then let '(a, b) := span_n p n' r in (c :: a, b) else ([], s)
  | _, _ => ([], s)
  end.

Definition hex_str_val (h : list N) : N := fold_left (fun a c => a * 16 + hexval c) h 0.

(* after "U+", the next code point being a hex digit or "?" *)
Definition consume_urange (s : list N) : N * N * list N :=
  let '(h, r1) := span_n hexdig 6 s in
  let '(q, r2) := span_n (fun c => c =? 63) (6 - length h) r1 in
  match q with
  | _ :: _ =>
      (hex_str_val (h ++ repeat 48 (length q)), hex_str_val (h ++ repeat 70 (length q)), r2)
  | [] =>
      match r2 with
      | m :: c :: r =>
          if (m =? 45) && hexdig c then
            let '(h2, r3) := span_n hexdig 6 (c :: r) in (hex_str_val h, hex_str_val h2, r3)
          else (hex_str_val h, hex_str_val h, r2)
      | _ => (hex_str_val h, hex_str_val h, r2)
      end
  end.

(* ------------------------------------------------------------------ 4.3.1 consume a token *)
Inductive ftok :=
| FTok (t : token)        (* a complete token that is not a block *)
| FOpen (c : N)           (* ( [ { *)
| FFun (name : str)       (* <function-token> *)
| FClose (c : N).         (* ) ] } *)

Definition lower (c : N) : N := if (65 <=? c) && (c <=? 90) then c + 32 else c.
Fixpoint has_prefix (p s : list N) : bool :=
  match p, s with
  | [], _ => true
  | x :: p', y :: s' => (x =? y) && has_prefix p' s'
  | _ :: _, [] => false
  end.

Definition is_url_name (v : str) : bool :=
  match v with
  | [a; b; c] => (lower a =? 117) && (lower b =? 114) && (lower c =? 108)
  | _ => false
  end.

Fixpoint find_comment_end (s : list N) : option (list N * list N) :=
  match s with
  | c :: r =>
      if has_prefix [42; 47] s then Some ([], tl r)
      else match find_comment_end r with
           | Some (a, b) => Some (c :: a, b)
           | None => None
           end
  | [] => None
  end.

Definition cmp_delim (c : N) : bool := (c =? 126) || (c =? 124) || (c =? 94) || (c =? 36) || (c =? 42).

Definition head_sat_name (r : list N) : bool := match r with d :: _ => name_cp d | [] => false end.

(* an ident sequence has just been recognised at the head of s.  Inner
   consumers get `length s` as fuel: they take at most one step per code point. *)
Definition lex_ident_like (s : list N) : list ftok * list N :=
  let '(v, k) := consume_name (length s) s in
  if head_is 40 k then
    let k1 := tl k in
    if is_url_name v then
      let k2 := skip_ws k1 in
      if head_is 34 k2 || head_is 39 k2 then ([FFun v], k1)
      else
        match consume_url (S (length k2)) k2 with
        | UOk u k3 => ([FTok (TURL p0 u false)], k3)
        | UEof u => ([FTok (TURL p0 u true); FTok (TParseError p0 errEofInUrl)], [])
        | UBad k3 => ([FTok (TParseError p0 errBadURL)], k3)
        end
    else ([FFun v], k1)
  else ([FTok (TIdent p0 v)], k).

Definition lex_numeric (repr : str) (k : list N) : list ftok * list N :=
  let isint := repr_is_int repr in
  if starts_ident k then
    let '(u, k1) := consume_name (length k) k in ([FTok (TDimension p0 repr isint u)], k1)
  else if head_is 37 k then ([FTok (TPercentage p0 repr isint)], tl k)
  else ([FTok (TNumber p0 repr isint)], k).

Definition starts_urange (s : list N) : bool :=
  match s with
  | c :: p :: d :: _ => ((c =? 85) || (c =? 117)) && (p =? 43) && (hexdig d || (d =? 63))
  | _ => false
  end.

Definition is_open (c : N) : bool := (c =? 40) || (c =? 91) || (c =? 123).
Definition is_close (c : N) : bool := (c =? 41) || (c =? 93) || (c =? 125).
Definition is_quote (c : N) : bool := (c =? 34) || (c =? 39).

(* the delimiter / literal cases (tinycss2 literals) *)
Definition lex_delim (c : N) (r : list N) : list ftok * list N :=
  if has_prefix [60; 33; 45; 45] (c :: r) then ([FTok (TLiteral p0 [60; 33; 45; 45])], skipn 3 r)
  else if has_prefix [124; 124] (c :: r) then ([FTok (TLiteral p0 [124; 124])], tl r)
  else if cmp_delim c && head_is 61 r then ([FTok (TLiteral p0 [c; 61])], tl r)
  else ([FTok (TLiteral p0 [c])], r).

(* punctuation: at-keyword, hash, brackets, strings, comments, delimiters *)
Definition lex_punct (skip : bool) (c : N) (r : list N) : list ftok * list N :=
  if c =? 64 then
    if starts_ident r then
      let '(v, k) := consume_name (length r) r in ([FTok (TAtKeyword p0 v)], k)
    else ([FTok (TLiteral p0 [64])], r)
  else if c =? 35 then
    if head_sat_name r || valid_escape r then
      let '(v, k) := consume_name (length r) r in ([FTok (THash p0 v (starts_ident r))], k)
    else ([FTok (TLiteral p0 [35])], r)
  else if is_open c then ([FOpen c], r)
  else if is_close c then ([FClose c], r)
  else if is_quote c then
    match consume_string (S (length r)) c r with
    | (v, SClosed, k) => ([FTok (TString p0 v false)], k)
    | (v, SEof, k) => ([FTok (TString p0 v true); FTok (TParseError p0 errEofInString)], k)
    | (_, SNewline, k) => ([FTok (TParseError p0 errBadString)], k)
    end
  else if has_prefix [47; 42] (c :: r) then
    match find_comment_end (tl r) with
    | Some (txt, k) => (if skip then [] else [FTok (TComment p0 txt)], k)
    | None => (if skip then [] else [FTok (TComment p0 (tl r))], [])
    end
  else lex_delim c r.

(* one token from a non-empty input; `skip`: comments are dropped *)
Definition lex_step (skip : bool) (s : list N) : list ftok * list N :=
  match s with
  | [] => ([], [])
  | c :: r =>
      if whitespace c then
        let '(w, k) := span whitespace r in ([FTok (TWhitespace p0 (c :: w))], k)
      else if starts_urange s then
        let '(a, b, k) := consume_urange (tl r) in ([FTok (TUnicodeRange p0 a b)], k)
      else if has_prefix [45; 45; 62] s then ([FTok (TLiteral p0 [45; 45; 62])], skipn 3 s)
      else if starts_ident s then lex_ident_like s
      else match consume_number s with
           | Some (repr, k) => lex_numeric repr k
           | None => lex_punct skip c r
           end
  end.

(* every step consumes at least one code point: fuel = length + 1 is enough *)
Fixpoint lex (skip : bool) (fuel : nat) (s : list N) : list ftok :=
  match fuel with
  | O => []
  | S f =>
      match s with
      | [] => []
      | _ => let '(ts, k) := lex_step skip s in ts ++ lex skip f k
      end
  end.

(* ------------------------------------------------------------------ 5.4.7-5.4.9 simple blocks and functions *)
Inductive opener := OBlock (c : N) | OFun (name : str).

Definition closer (o : opener) : N :=
  match o with
  | OBlock c => if c =? 40 then 41 else if c =? 91 then 93 else 125
  | OFun _ => 41
  end.

Definition mk_block (o : opener) (args : list token) : token :=
  match o with
  | OBlock c => if c =? 40 then TParens p0 args else if c =? 91 then TSquare p0 args else TCurly p0 args
  | OFun n => TFunction p0 n args
  end.

(* stack of open blocks: (opener, reversed tokens collected before it in its parent) *)
Fixpoint close_all (stack : list (opener * list token)) (cur : list token) : list token :=
  match stack with
  | [] => rev cur
  | (o, parent) :: st => close_all st (mk_block o (rev cur) :: parent)
  end.

Fixpoint build (stack : list (opener * list token)) (cur : list token) (l : list ftok) : list token :=
  match l with
  | [] => close_all stack cur                             (* EOF closes every open block *)
  | FTok t :: r => build stack (t :: cur) r
  | FOpen c :: r => build ((OBlock c, cur) :: stack) [] r
  | FFun n :: r => build ((OFun n, cur) :: stack) [] r
  | FClose c :: r =>
      match stack with
      | (o, parent) :: st =>
          if c =? closer o then build st (mk_block o (rev cur) :: parent) r
          else build stack (TParseError p0 c :: cur) r     (* unmatched: error token *)
      | [] => build [] (TParseError p0 c :: cur) r
      end
  end.

Definition tokenize (skip : bool) (s : list N) : list token :=
  let s' := preprocess s in
  build [] [] (lex skip (S (length s')) s').

(* ------------------------------------------------------------------ the equivalence of the property *)
Definition has_error_flag (t : token) : bool :=
  match t with
  | TParseError _ _ => true
  | TString _ _ e | TURL _ _ e => e
  | _ => false
  end.

Fixpoint token_error_free (t : token) : bool :=
  negb (has_error_flag t) &&
  match t with
  | TParens _ l | TSquare _ l | TCurly _ l | TFunction _ _ l => forallb token_error_free l
  | _ => true
  end.
Definition error_free (l : list token) : bool := forallb token_error_free l.

(* "ignoring only comments and source positions": comments dropped, positions
   erased, and -- the exception CSS Syntax 3 section 9 grants serializers --
   consecutive whitespace tokens (they only arise around a dropped comment)
   merged into one *)
Fixpoint norm_tok (t : token) : token :=
  let fix norm_list (l : list token) : list token :=
    match l with
    | [] => []
    | TComment _ _ :: r => norm_list r
    | TWhitespace _ v :: r =>
        match norm_list r with
        | TWhitespace _ w :: r' => TWhitespace p0 (v ++ w) :: r'
        | r' => TWhitespace p0 v :: r'
        end
    | t :: r => norm_tok t :: norm_list r
    end in
  match t with
  | TLiteral _ v => TLiteral p0 v | TParseError _ k => TParseError p0 k
  | TComment _ v => TComment p0 v | TWhitespace _ v => TWhitespace p0 v
  | TIdent _ v => TIdent p0 v | TAtKeyword _ v => TAtKeyword p0 v
  | THash _ v f => THash p0 v f | TString _ v f => TString p0 v f | TURL _ v f => TURL p0 v f
  | TUnicodeRange _ a b => TUnicodeRange p0 a b
  | TNumber _ v f => TNumber p0 v f | TPercentage _ v f => TPercentage p0 v f
  | TDimension _ v f u => TDimension p0 v f u
  | TParens _ l => TParens p0 (norm_list l)
  | TSquare _ l => TSquare p0 (norm_list l)
  | TCurly _ l => TCurly p0 (norm_list l)
  | TFunction _ n l => TFunction p0 n (norm_list l)
  end.

Fixpoint norm (l : list token) : list token :=
  match l with
  | [] => []
  | TComment _ _ :: r => norm r
  | TWhitespace _ v :: r =>
      match norm r with
      | TWhitespace _ w :: r' => TWhitespace p0 (v ++ w) :: r'
      | r' => TWhitespace p0 v :: r'
      end
  | t :: r => norm_tok t :: norm r
  end.
