(* Css/CounterScopes.v -- executable model of the counter bookkeeping of
   /repo/html/boxes/build.go: UpdateCounters (build.go:893-953), the scope
   push / pop of elementToBox (build.go:222-241, 307-315), the counter part
   of markerToBox (build.go:438-448) and of computeContentList
   (build.go:583-613).  NO PROOFS HERE.

   * `tree.CounterValues` (map name -> []int, innermost instance LAST) ->
     association list with unique keys; `state.CounterScopes`
     ([]utils.Set, one set of names per open element depth, innermost LAST)
     -> `list (list str)`.  Sets are duplicate-free lists; the only
     iteration over a set (build.go:310) pops one entry per name, the names
     are distinct, so the (random) Go iteration order is not observable.
   * slices: `slice[:len(slice)-1]` and `s[len(s)-1]` panic on an empty
     slice: modelled through `drop_last` / `set_last` (Panic site = line).
   * An element is given with the values the cascade computed for it (dumped
     by the harness from `styleFor.Get`): counter-reset / counter-set /
     counter-increment lists, display list-item / none, and what its
     ::marker, ::before and ::after generate.  float:footnote, images,
     target-counter(), string-set, bookmark-label are not modelled. *)
From Verif Require Export Css.Counters.
From Coq Require Import List ZArith NArith Bool.
Import ListNotations.
Open Scope Z_scope.

Inductive cint := CI (name : str) (v : Z).          (* pr.IntString *)

(* computed counter-* properties + display of a style *)
Record cprops := CP {
  cp_reset : list cint;
  cp_set : list cint;
  cp_incr_auto : bool;          (* counter-increment computed to "auto" *)
  cp_incr : list cint;
  cp_list_item : bool           (* display has list-item *)
}.

Inductive citem :=
| CString (s : str)
| CCounter (name : str) (sid : style_id)
| CCounters (name : str) (sep : str) (sid : style_id).

(* what ::marker produces (markerToBox) *)
Inductive marker :=
| MkNone                               (* no marker text: display none, list-style-type none, image... *)
| MkNormal (sid : style_id)            (* content normal: RenderMarker(list-style-type, list-item) *)
| MkContent (items : list citem).      (* content: <list> on ::marker *)

(* a ::before / ::after that generates a box (beforeAfterToBox does not return early).
   A pseudo-element with display: list-item gets a ::marker of its own
   (build.go:386-391), generated AFTER the counter properties of the
   pseudo-element were applied (:383): `mk` is what that marker produces
   (markerToBox reads the ::marker style of the originating element). *)
Inductive pseudo := Pseudo (props : cprops) (mk : marker) (content : list citem).

Inductive elem :=
| Elem (skip : bool)                   (* display none: elementToBox returns before touching the state *)
       (props : cprops) (mk : marker)
       (before after : option pseudo)
       (children : list elem).

Inductive oitem := OMarker (s : str) | OBefore (s : str) | OAfter (s : str).

(* ---------------------------------------------------------------- state *)

Definition cvalues := list (str * list Z).
Record state := St { st_values : cvalues; st_scopes : list (list str) }.

Fixpoint cv_get (cv : cvalues) (n : str) : list Z :=
  match cv with
  | [] => []                                   (* missing key: nil slice *)
  | (k, l) :: r => if str_eqb k n then l else cv_get r n
  end.
Fixpoint cv_has (cv : cvalues) (n : str) : bool :=
  match cv with
  | [] => false
  | (k, _) :: r => str_eqb k n || cv_has r n
  end.
Fixpoint cv_set (cv : cvalues) (n : str) (l : list Z) : cvalues :=
  match cv with
  | [] => [(n, l)]
  | (k, l') :: r => if str_eqb k n then (k, l) :: r else (k, l') :: cv_set r n l
  end.
Fixpoint cv_del (cv : cvalues) (n : str) : cvalues :=
  match cv with
  | [] => []
  | (k, l) :: r => if str_eqb k n then r else (k, l) :: cv_del r n
  end.

Definition set_add (s : list str) (n : str) : list str := if mem n s then s else s ++ [n].

(* s[:len(s)-1] *)
Definition drop_last {A} (site : N) (l : list A) : res (list A) :=
  match l with [] => Panic site | _ => Ok (removelast l) end.
Definition last_opt {A} (l : list A) : option A :=
  match rev l with [] => None | x :: _ => Some x end.

(* replace the last scope set (siblingScopes is a reference into the slice) *)
Definition with_sibling (site : N) (scopes : list (list str))
  : res (list (list str) * list str) :=
  match rev scopes with
  | [] => Panic site
  | s :: r => Ok (rev r, s)
  end.

(* ---------------------------------------------------------------- UpdateCounters, build.go:902-953 *)

(* clampCounter, build.go:893-900 *)
Definition max_i32 : Z := 2 ^ 31 - 1.
Definition min_i32 : Z := - 2 ^ 31.
Definition clamp_counter (v : Z) : Z :=
  if v >? max_i32 then max_i32 else if v <? min_i32 then min_i32 else v.

Definition do_reset (st : cvalues * list str) (ci : cint) : res (cvalues * list str) :=
  let '(cv, sib) := st in
  let 'CI n v := ci in
  let slice := cv_get cv n in                                   (* :907 *)
  if mem n sib then
    let* sl := drop_last 909 slice in Ok (cv_set cv n (sl ++ [clamp_counter v]), sib)     (* :908-909, 913 *)
  else Ok (cv_set cv n (slice ++ [clamp_counter v]), set_add sib n).          (* :911, 913 *)

(* counter-set (f = fun _ v => clamp v) and counter-increment (f = fun old v => clamp (old + clamp v)),
   build.go:916-927, 941-952 *)
Definition do_modify (f : Z -> Z -> Z) (st : cvalues * list str) (ci : cint) : cvalues * list str :=
  let '(cv, sib) := st in
  let 'CI n v := ci in
  let values := cv_get cv n in
  match values with
  | [] => (cv_set cv n [f 0 v], set_add sib n)                  (* :918-924 *)
  | _ => (cv_set cv n (removelast values ++ [f (last values 0) v]), sib)   (* :925-926 *)
  end.

Fixpoint fold_res {A B} (f : A -> B -> res A) (l : list B) (a : A) : res A :=
  match l with
  | [] => Ok a
  | b :: r => let* a' := f a b in fold_res f r a'
  end.

Definition s_list_item : str := [108;105;115;116;45;105;116;101;109]%N.

Definition update_counters (st : state) (p : cprops) : res state :=
  let* (outer, sib) := with_sibling 904 (st_scopes st) in
  let* st1 := fold_res do_reset (cp_reset p) (st_values st, sib) in
  let st2 := fold_left (do_modify (fun _ v => clamp_counter v)) (cp_set p) st1 in
  let incr :=
    if cp_incr_auto p then
      (if cp_list_item p then [CI s_list_item 1] else [])       (* :930-940 *)
    else cp_incr p in
  let '(cv, sib') := fold_left (do_modify (fun old v => clamp_counter (old + clamp_counter v))) incr st2 in
  Ok (St cv (outer ++ [sib'])).

(* ---------------------------------------------------------------- content, build.go:583-613 *)

Definition s_none : str := [110;111;110;101]%N.
Definition sid_is_none (sid : style_id) : bool :=
  match sid with SidName n => str_eqb n s_none | _ => false end.   (* counterStyle.Name == "none" *)
(* for Type "string" the Name field holds the string itself and for "symbols()" the system:
   the test `counterStyle.Name == "none"` is on that field *)
Definition sid_name_is_none (sid : style_id) : bool :=
  match sid with
  | SidName n | SidString n => str_eqb n s_none
  | SidSymbols n _ => str_eqb n s_none
  end.

Fixpoint join (sep : str) (l : list str) : str :=
  match l with
  | [] => []
  | [a] => a
  | a :: r => a ++ sep ++ join sep r
  end.

Fixpoint map_res {A B} (f : A -> res B) (l : list A) : res (list B) :=
  match l with
  | [] => Ok []
  | a :: r => let* b := f a in let* bs := map_res f r in Ok (b :: bs)
  end.

Definition content_text (c : table) (cv : cvalues) (items : list citem) : res str :=
  fold_res (fun acc it =>
    match it with
    | CString s => Ok (acc ++ s)
    | CCounter n sid =>
        if sid_name_is_none sid then Ok acc                         (* :588-590 *)
        else
          let v := match cv_get cv n with [] => 0 | l => last l 0 end in   (* :591-595 *)
          let* s := RenderValueStyle c v sid in Ok (acc ++ s)
    | CCounters n sep sid =>
        if sid_name_is_none sid then Ok acc
        else
          let vs := match cv_get cv n with [] => [0] | l => l end in       (* :605-608 *)
          let* ss := map_res (fun v => RenderValueStyle c v sid) vs in
          Ok (acc ++ join sep ss)
    end) items [].

(* markerToBox, build.go:426-448 *)
Definition marker_text (c : table) (cv : cvalues) (mk : marker) : res (list oitem) :=
  match mk with
  | MkNone => Ok []
  | MkNormal sid =>
      let v := match cv_get cv s_list_item with [] => 0 | l => last l 0 end in   (* :439-443 *)
      let* s := RenderMarker c sid v in Ok [OMarker s]
  | MkContent items => let* s := content_text c cv items in Ok [OMarker s]
  end.

(* beforeAfterToBox, build.go:361-403 *)
Definition pseudo_to_box (c : table) (mkout : str -> oitem) (st : state) (p : option pseudo)
  : res (state * list oitem) :=
  match p with
  | None => Ok (st, [])
  | Some (Pseudo props mk content) =>
      let* st' := update_counters st props in                   (* :383 *)
      let* m := (if cp_list_item props then marker_text c (st_values st') mk else Ok []) in   (* :386-391 *)
      let* s := content_text c (st_values st') content in       (* :392 *)
      Ok (st', m ++ [mkout s])
  end.

(* scope pop, build.go:307-315 *)
Definition pop_scope (st : state) : res state :=
  let* (outer, scope) := with_sibling 308 (st_scopes st) in
  let* cv := fold_res (fun cv n =>
               let* l := drop_last 311 (cv_get cv n) in
               match l with
               | [] => Ok (cv_del cv n)
               | _ => Ok (cv_set cv n l)
               end) scope (st_values st) in
  Ok (St cv outer).

(* elementToBox, build.go:192-358 (counter-relevant part) *)
Fixpoint element_to_box (c : table) (e : elem) (st : state) : res (state * list oitem) :=
  let 'Elem skip props mk before after children := e in
  if skip then Ok (st, [])                                        (* :203-206 *)
  else
    let* st := update_counters st props in                        (* :238 *)
    let st := St (st_values st) (st_scopes st ++ [[]]) in         (* :241 *)
    let* m := (if cp_list_item props then marker_text c (st_values st) mk else Ok []) in   (* :247-253 *)
    let* (st, b) := pseudo_to_box c OBefore st before in          (* :255 *)
    let* (st, kids) :=
      (fix go (l : list elem) (st : state) : res (state * list oitem) :=
         match l with
         | [] => Ok (st, [])
         | ch :: r =>
             let* (st, o1) := element_to_box c ch st in           (* :285 *)
             let* (st, o2) := go r st in
             Ok (st, o1 ++ o2)
         end) children st in
    let* (st, a) := pseudo_to_box c OAfter st after in            (* :305 *)
    let* st := pop_scope st in                                    (* :307-315 *)
    Ok (st, m ++ b ++ kids ++ a).

Definition s_footnote : str := [102;111;111;116;110;111;116;101]%N.

(* the initial PageState, build.go:222-234 *)
Definition init_state : state := St [(s_footnote, [0])] [[s_footnote]].

Definition build (c : table) (root : elem) : res (list oitem) :=
  let* (_, out) := element_to_box c root init_state in Ok out.
