(* Css/C01RefChainProofs.v -- termination of the name-following loops of
   Css/C01RefChain.v whatever the shape of the reference graph (self loops,
   cycles, rho shapes, diamonds, dangling names), and non-termination of the loops
   without their "seen" discipline on a rho / a cycle. *)
From Verif Require Import Base.GoSem Css.C01RefChain.
From Coq Require Import List Arith Bool Lia.
Import ListNotations.

(* ------------------------------------------------------------------ *)
(* extendsChain: the chain never holds a name twice and only holds names < N, so
   it has at most N entries; each iteration appends one *)

Section ExtendsChainProofs.
  Variable ext : nat -> option nat.
  Variable defined : nat -> bool.
  Variable N : nat.
  Hypothesis H_defined_lt : forall n, defined n = true -> n < N.

  Lemma mem_In : forall n l, mem n l = true <-> In n l.
  Proof.
    intros n l. unfold mem. rewrite existsb_exists. split.
    - intros [x [Hin Heq]]. apply Nat.eqb_eq in Heq. subst. exact Hin.
    - intros Hin. exists n. split; [exact Hin | apply Nat.eqb_refl].
  Qed.

  Lemma nodup_bounded_length : forall l : list nat,
    NoDup l -> (forall x, In x l -> x < N) -> length l <= N.
  Proof.
    intros l Hnd Hlt.
    rewrite <- (seq_length N 0).
    apply NoDup_incl_length; [exact Hnd|].
    intros x Hx. apply in_seq. specialize (Hlt x Hx). lia.
  Qed.

  Lemma NoDup_app_one : forall (l : list nat) x, NoDup l -> ~ In x l -> NoDup (l ++ [x]).
  Proof.
    intros l x Hnd Hnin. apply NoDup_rev in Hnd.
    rewrite <- (rev_involutive (l ++ [x])). apply NoDup_rev.
    rewrite rev_app_distr. simpl. constructor; [|exact Hnd].
    intros Hin. apply Hnin. apply in_rev. exact Hin.
  Qed.

  (* invariant of the loop: no duplicates, every name but the first is defined *)
  Lemma extends_chain_fuel : forall fuel chain last,
    NoDup chain -> (forall x, In x chain -> x < N) ->
    N + 1 <= fuel + length chain ->
    exists out, extends_chain ext defined fuel chain last = Ok out.
  Proof.
    induction fuel as [|f IH]; intros chain last Hnd Hlt Hfuel.
    - exfalso. pose proof (nodup_bounded_length chain Hnd Hlt). simpl in Hfuel. lia.
    - simpl. destruct (ext last) as [name|]; [|eauto].
      destruct (defined name && negb (mem name chain)) eqn:E; [|eauto].
      apply andb_true_iff in E. destruct E as [Hdef Hnm].
      apply negb_true_iff in Hnm.
      apply IH.
      + apply NoDup_app_one; [exact Hnd|]. intros Hin. apply mem_In in Hin. congruence.
      + intros x Hx. apply in_app_or in Hx. destruct Hx as [Hx|[Hx|[]]]; [auto|].
        subst. apply H_defined_lt. exact Hdef.
      + rewrite app_length. simpl. lia.
  Qed.

  (* extendsChain returns for every starting style below N, with fuel N + 1 *)
  Theorem extends_chain_terminates : forall start, start < N ->
    exists out, extends_chain_of ext defined (N + 1) start = Ok out.
  Proof.
    intros start Hs. unfold extends_chain_of. apply extends_chain_fuel.
    - constructor; [intros []|constructor].
    - intros x [Hx|[]]. subst. exact Hs.
    - simpl. lia.
  Qed.

  Lemma upto_incl : forall n l x, In x (upto n l) -> In x l.
  Proof.
    intros n l. induction l as [|y r IH]; simpl; intros x Hx; [exact Hx|].
    destruct (Nat.eqb y n).
    - destruct Hx as [Hx|[]]. left. exact Hx.
    - destruct Hx as [Hx|Hx]; [left; exact Hx | right; apply IH; exact Hx].
  Qed.

  Lemma upto_nodup : forall n l, NoDup l -> NoDup (upto n l).
  Proof.
    intros n l Hnd. induction Hnd as [|y r Hnin Hnd IH]; simpl; [constructor|].
    destruct (Nat.eqb y n).
    - constructor; [intros []|constructor].
    - constructor; [|exact IH]. intros Hin. apply Hnin. eapply upto_incl. exact Hin.
  Qed.

  (* and the chain it returns holds no name twice *)
  Lemma extends_chain_nodup : forall fuel chain last out,
    NoDup chain -> extends_chain ext defined fuel chain last = Ok out -> NoDup out.
  Proof.
    induction fuel as [|f IH]; intros chain last out Hnd H; simpl in H; [discriminate|].
    destruct (ext last) as [name|]; [|inversion H; subst; exact Hnd].
    destruct (defined name && negb (mem name chain)) eqn:E.
    - apply andb_true_iff in E. destruct E as [_ Hnm]. apply negb_true_iff in Hnm.
      eapply IH; [|exact H]. apply NoDup_app_one; [exact Hnd|].
      intros Hin. apply mem_In in Hin. congruence.
    - inversion H; subst. destruct (mem name chain); [apply upto_nodup|]; exact Hnd.
  Qed.

  Theorem extends_chain_result_nodup : forall fuel start out,
    extends_chain_of ext defined fuel start = Ok out -> NoDup out.
  Proof.
    intros fuel start out H. eapply extends_chain_nodup; [|exact H].
    constructor; [intros []|constructor].
  Qed.
End ExtendsChainProofs.

(* a rho: style 0 extends 1, 1 extends 2, 2 extends 1 (the cycle does not hold the
   starting style) *)
Definition rho_ext (n : nat) : option nat :=
  match n with 0 => Some 1 | 1 => Some 2 | 2 => Some 1 | _ => None end.
Definition rho_defined (n : nat) : bool := Nat.ltb n 3.

Example rho_extends_chain : extends_chain_of rho_ext rho_defined 4 0 = Ok [0; 1].
Proof. vm_compute. reflexivity. Qed.

(* the loop that only looks for the starting style runs for ever on it (the chain
   grows by one name per iteration) *)
Example rho_start_only_no_termination :
  extends_chain_start_only rho_ext rho_defined 2000 0 [0] 0 = OutOfFuel.
Proof. vm_compute. reflexivity. Qed.

(* ... while a cycle through the starting style is still cut by it *)
Example cycle_start_only_terminates :
  extends_chain_start_only (fun n => match n with 0 => Some 1 | 1 => Some 0 | _ => None end)
    rho_defined 2000 0 [0] 0 = Ok [0; 1].
Proof. vm_compute. reflexivity. Qed.

(* ------------------------------------------------------------------ *)
(* inheritElement: every call deletes one href before it recurses *)

Fixpoint count_href (t : hrefs) : nat :=
  match t with
  | [] => 0
  | Some _ :: r => S (count_href r)
  | None :: r => count_href r
  end.

Lemma delete_href_length : forall t n, length (delete_href t n) = length t.
Proof.
  induction t as [|x r IH]; intros n; simpl; [reflexivity|].
  destruct n; simpl; [reflexivity|]. rewrite IH. reflexivity.
Qed.

Lemma delete_href_count : forall t n p,
  href_of t n = Some p -> S (count_href (delete_href t n)) = count_href t.
Proof.
  unfold href_of. induction t as [|x r IH]; intros n p H.
  - destruct n; discriminate.
  - destruct n as [|m]; simpl in *.
    + subst. reflexivity.
    + destruct x; simpl; erewrite <- IH by exact H; reflexivity.
Qed.

Lemma inherit_element_fuel : forall fuel t node,
  count_href t < fuel -> exists t' merged, inherit_element fuel t node = Ok (t', merged).
Proof.
  induction fuel as [|f IH]; intros t node Hf; [lia|].
  simpl. destruct (href_of t node) as [parent|] eqn:E; [|eauto].
  destruct (Nat.ltb parent (length t)); [|eauto].
  pose proof (delete_href_count t node parent E) as Hc.
  destruct (IH (delete_href t node) parent) as [t2 [merged H2]]; [lia|].
  rewrite H2. eauto.
Qed.

(* inheritElement returns on every table of hrefs (cycles, self loops, dangling
   references included), with fuel = number of hrefs + 1 *)
Theorem inherit_element_terminates : forall t node,
  exists t' merged, inherit_element (count_href t + 1) t node = Ok (t', merged).
Proof. intros t node. apply inherit_element_fuel. lia. Qed.

Lemma delete_href_count_le : forall t n, count_href (delete_href t n) <= count_href t.
Proof.
  induction t as [|x r IH]; intros n; simpl; [lia|].
  destruct n; simpl.
  - destruct x; lia.
  - destruct x; specialize (IH n); simpl; lia.
Qed.

Lemma inherit_element_count : forall fuel t node t' merged,
  inherit_element fuel t node = Ok (t', merged) -> count_href t' <= count_href t.
Proof.
  induction fuel as [|f IH]; intros t node t' merged H; simpl in H; [discriminate|].
  destruct (href_of t node) as [parent|] eqn:E.
  - destruct (Nat.ltb parent (length t)).
    + destruct (inherit_element f (delete_href t node) parent) as [[t2 m2]| |] eqn:E2; try discriminate.
      inversion H; subst. apply IH in E2. pose proof (delete_href_count_le t node). lia.
    + inversion H; subst. apply delete_href_count_le.
  - inversion H; subst. apply delete_href_count_le.
Qed.

(* inheritDefs: the loop over all the definitions returns as well *)
Theorem inherit_defs_terminates : forall order t fuel,
  count_href t < fuel -> exists t', inherit_defs fuel t order = Ok t'.
Proof.
  induction order as [|n r IH]; intros t fuel Hf; simpl; [eauto|].
  destruct (inherit_element_fuel fuel t n Hf) as [t1 [merged H1]]. rewrite H1.
  apply IH. apply inherit_element_count in H1. lia.
Qed.

(* two gradients naming each other, and one naming itself *)
Example href_two_cycle : inherit_element 3 [Some 1; Some 0] 0 = Ok ([None; None], [1; 0]).
Proof. vm_compute. reflexivity. Qed.

Example href_self_loop : inherit_element 2 [Some 0] 0 = Ok ([None], [0]).
Proof. vm_compute. reflexivity. Qed.

(* deleting the href after the recursion: both recurse for ever *)
Example href_two_cycle_delete_after_no_termination :
  inherit_element_delete_after 2000 [Some 1; Some 0] 0 = OutOfFuel.
Proof. vm_compute. reflexivity. Qed.

Example href_self_loop_delete_after_no_termination :
  inherit_element_delete_after 2000 [Some 0] 0 = OutOfFuel.
Proof. vm_compute. reflexivity. Qed.

(* non-cyclic chains behave alike *)
Example href_chain_same :
  inherit_element 4 [Some 1; Some 2; None] 0 = inherit_element_delete_after 4 [Some 1; Some 2; None] 0.
Proof. vm_compute. reflexivity. Qed.
