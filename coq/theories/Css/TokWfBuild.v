(* Css/TokWfBuild.v -- building blocks from a well-formed flat stream gives a
   well-formed token list whenever the result is free of parse errors; with
   Css/TokWfLex.v this closes the statement of C20 over source texts:
   `error_free (tokenize skip src) -> wf_tokens (tokenize skip src)`. *)
From Coq Require Import String.
From Verif Require Import Css.Ser Css.RetokSpec Css.SerWf Css.SerProofs Css.RoundTripTok Css.RoundTripSep
  Css.RoundTripList Css.RoundTripBuild Css.TokWfLex.
From Coq Require Import List NArith Bool Lia ZifyBool ZifyN ZifyNat.
Import ListNotations.
Open Scope N_scope.

(* ------------------------------------------------------------------ well-formedness with the last element exempt *)
Fixpoint wfo (l : list token) : bool :=
  match l with
  | [] => true
  | x :: r => wf_tok x && (match r with [] => true | _ => backslash_ok x r end) && wfo r
  end.

(* the last element of a list, as the head of its reverse *)
Definition hb (cur : list token) : bool := match cur with b :: _ => is_backslash b | [] => false end.

Lemma wfo_snoc l t :
  wfo (l ++ [t]) = wfo l && wf_tok t && (negb (hb (rev l)) || newline_ws t).
Proof.
  induction l as [|x r IH]; [cbn; rewrite !andb_true_r; reflexivity|].
  cbn [app wfo]. rewrite IH. destruct r as [|y r'].
  - cbn [app wfo rev hb]. unfold backslash_ok. destruct (is_backslash x); cbn [negb orb];
      destruct (wf_tok x), (wf_tok t), (newline_ws t); reflexivity.
  - cbn [app]. assert (Ehb : hb (rev (x :: y :: r')) = hb (rev (y :: r'))).
    { cbn [rev]. destruct (rev r' ++ [y]) eqn:E; [destruct (rev r'); discriminate|reflexivity]. }
    rewrite Ehb. unfold backslash_ok. cbn [app].
    destruct (wf_tok x), (is_backslash x), (newline_ws y), (wfo (y :: r')), (wf_tok t),
      (negb (hb (rev (y :: r'))) || newline_ws t); reflexivity.
Qed.

Lemma wf_tokens_wfo l : wf_tokens l = wfo l && negb (hb (rev l)).
Proof.
  induction l as [|x r IH]; [reflexivity|]. cbn [wf_tokens wfo]. rewrite IH.
  destruct r as [|y r'].
  - cbn. unfold backslash_ok. destruct (is_backslash x), (wf_tok x); reflexivity.
  - assert (Ehb : hb (rev (x :: y :: r')) = hb (rev (y :: r'))).
    { cbn [rev]. destruct (rev r' ++ [y]) eqn:E; [destruct (rev r'); discriminate|reflexivity]. }
    rewrite Ehb. destruct (wf_tok x), (backslash_ok x (y :: r')), (wfo (y :: r')), (hb (rev (y :: r'))); reflexivity.
Qed.

Lemma error_free_snoc l t : error_free (l ++ [t]) = error_free l && token_error_free t.
Proof. unfold error_free. rewrite forallb_app. cbn. rewrite andb_true_r. reflexivity. Qed.

(* ------------------------------------------------------------------ the invariant of build *)
Definition C (cur : list token) : Prop := error_free (rev cur) = true -> wfo (rev cur) = true.

Definition opener_ok (o : opener) : bool :=
  match o with OFun n => name_val n | OBlock c => is_open c end.

Definition is_url_open (o : opener) : bool := match o with OFun n => is_url_name n | _ => false end.

Definition url_done (cur : list token) : Prop :=
  url_args (rev cur) = true \/ error_free (rev cur) = false.

(* the arguments of the innermost open url function: done, or still to come *)
Definition Ucur (st : list (opener * list token)) (cur : list token) (rest : list ftok) : Prop :=
  match st with
  | (o, _) :: _ =>
      is_url_open o = true ->
      url_done cur \/ (cur = [] /\ url_next rest = true) \/
      (exists p w, cur = [TWhitespace p w] /\ match rest with x :: _ => is_str_or_err x = true | [] => False end)
  | [] => True
  end.

Fixpoint S_inv (st : list (opener * list token)) : Prop :=
  match st with
  | [] => True
  | (o, par) :: st' =>
      opener_ok o = true /\ C par /\ hb par = false /\
      (match st' with (o', _) :: _ => is_url_open o' = true -> url_done par | [] => True end) /\
      S_inv st'
  end.

Definition next_newline (rest : list ftok) : bool :=
  match rest with FTok n :: _ => newline_ws n | _ => false end.

Lemma url_args_snoc l t : url_args l = true -> url_args (l ++ [t]) = true.
Proof.
  destruct l as [|x [|y r]]; try discriminate; destruct x; try discriminate; try reflexivity.
  cbn [app]. destruct y; try discriminate. reflexivity.
Qed.

Lemma url_done_push t cur : url_done cur -> url_done (t :: cur).
Proof.
  unfold url_done. cbn [rev]. intros [H|H].
  - left. apply url_args_snoc, H.
  - right. rewrite error_free_snoc, H. reflexivity.
Qed.

Lemma C_push t cur :
  C cur -> (token_error_free t = true -> wf_tok t = true) ->
  (hb cur = true -> newline_ws t = true) -> C (t :: cur).
Proof.
  unfold C. intros HC Ht Hadj. cbn [rev]. rewrite error_free_snoc, wfo_snoc. intros He.
  apply andb_true_iff in He as [He1 He2]. rewrite (HC He1), (Ht He2), rev_involutive. cbn [andb].
  destruct (hb cur); [rewrite Hadj; reflexivity|reflexivity].
Qed.

Lemma C_push_error t cur : token_error_free t = false -> C (t :: cur).
Proof. unfold C. cbn [rev]. rewrite error_free_snoc. intros -> H. rewrite andb_false_r in H. discriminate. Qed.

Lemma token_error_free_block o l : token_error_free (mk_block o l) = error_free l.
Proof.
  destruct o as [c|n]; cbn [mk_block]; [destruct (c =? 40); [|destruct (c =? 91)]|]; reflexivity.
Qed.

(* a closed block is well formed when its content is *)
Lemma wf_block o cur :
  opener_ok o = true -> C cur -> hb cur = false ->
  (is_url_open o = true -> url_done cur) ->
  token_error_free (mk_block o (rev cur)) = true -> wf_tok (mk_block o (rev cur)) = true.
Proof.
  intros Ho HC Hhb Hu He. rewrite token_error_free_block in He.
  assert (Hw : wf_tokens (rev cur) = true).
  { rewrite wf_tokens_wfo, rev_involutive, Hhb, (HC He). reflexivity. }
  destruct o as [c|n]; cbn [mk_block].
  - destruct (c =? 40); [rewrite wf_parens|destruct (c =? 91); [rewrite wf_square|rewrite wf_curly]]; exact Hw.
  - rewrite wf_function. cbn [opener_ok] in Ho. rewrite Ho, Hw. cbn [andb].
    cbn [is_url_open] in Hu. destruct (is_url_name n); [|reflexivity]. cbn [negb orb].
    destruct (Hu eq_refl) as [H|H]; [exact H|]. rewrite H in He. discriminate.
Qed.

Lemma is_backslash_block o l : is_backslash (mk_block o l) = false.
Proof. destruct o as [c|n]; cbn [mk_block]; [destruct (c =? 40); [|destruct (c =? 91)]|]; reflexivity. Qed.

Lemma close_all_wf st : forall cur,
  S_inv st -> C cur -> hb cur = false -> Ucur st cur [] ->
  error_free (close_all st cur) = true -> wf_tokens (close_all st cur) = true.
Proof.
  induction st as [|[o par] st' IH]; intros cur HS HC Hhb HU He.
  - cbn [close_all] in *. rewrite wf_tokens_wfo, rev_involutive, Hhb, (HC He). reflexivity.
  - cbn [close_all] in *. destruct HS as (Ho & HCp & Hhp & HUp & HS').
    apply IH; auto.
    + apply C_push; auto.
      * apply wf_block; auto. intros Hu. cbn [Ucur] in HU.
        destruct (HU Hu) as [H|[[_ H]|(p & w & _ & H)]]; [exact H|discriminate H|contradiction].
      * rewrite Hhp. discriminate.
    + cbn [hb]. apply is_backslash_block.
    + destruct st' as [|[o' par'] st'']; [exact I|]. cbn [Ucur]. intros Hu. left. apply url_done_push, HUp, Hu.
Qed.

Lemma leaf_tok_ok t : is_leaf t && (wf_tok t || has_error_flag t) = true ->
  token_error_free t = true -> wf_tok t = true.
Proof.
  intros H He. apply andb_true_iff in H as [Hl H].
  destruct t; try discriminate Hl; cbn [token_error_free has_error_flag] in *;
    try (rewrite orb_false_r in H; exact H).
  - discriminate He.
  - rewrite andb_true_r in He. apply negb_true_iff in He. subst err. rewrite orb_false_r in H. exact H.
  - rewrite andb_true_r in He. apply negb_true_iff in He. subst err. rewrite orb_false_r in H. exact H.
Qed.

Lemma Ucur_push st cur t r :
  Ucur st cur (FTok t :: r) -> Ucur st (t :: cur) r.
Proof.
  destruct st as [|[o par] st']; [auto|]. cbn [Ucur]. intros HU Hu.
  destruct (HU Hu) as [H|[[-> H]|(p & w & -> & H)]].
  - left. apply url_done_push, H.
  - cbn [url_next] in H. apply orb_true_iff in H as [H|H].
    + left. destruct t; try discriminate H.
      * right. reflexivity.
      * left. reflexivity.
    + apply andb_true_iff in H as [Hw Hn]. destruct t; try discriminate Hw.
      right. right. exists p, v. split; [reflexivity|]. destruct r; [discriminate|exact Hn].
  - left. destruct t; try discriminate H.
    + right. reflexivity.
    + left. reflexivity.
Qed.

Lemma Ucur_parent st cur x r :
  (match x with FTok _ => False | _ => True end) ->
  Ucur st cur (x :: r) ->
  match st with (o, _) :: _ => is_url_open o = true -> url_done cur | [] => True end.
Proof.
  intros Hx. destruct st as [|[o par] st']; [auto|]. cbn [Ucur]. intros HU Hu.
  destruct (HU Hu) as [H|[[_ H]|(p & w & _ & H)]]; [exact H| |].
  - destruct x; try contradiction; discriminate H.
  - destruct x; try contradiction; discriminate H.
Qed.

Theorem build_wf rest : forall st cur,
  fwfb rest = true -> S_inv st -> C cur -> (hb cur = true -> next_newline rest = true) ->
  Ucur st cur rest ->
  error_free (build st cur rest) = true -> wf_tokens (build st cur rest) = true.
Proof.
  induction rest as [|x r IH]; intros st cur Hf HS HC Hadj HU He.
  - cbn [build] in *. apply close_all_wf; auto.
    destruct (hb cur); [specialize (Hadj eq_refl); discriminate|reflexivity].
  - cbn [fwfb] in Hf. apply andb_true_iff in Hf as [Hf Hfr]. apply andb_true_iff in Hf as [Hel Hax].
    destruct x as [t|c|n|c]; cbn [build] in *.
    + (* a leaf token *)
      apply IH; auto.
      * apply C_push; [exact HC|apply leaf_tok_ok, Hel|intros Hh; exact (Hadj Hh)].
      * cbn [hb]. intros Hb. cbn [adj_ok] in Hax. rewrite Hb in Hax. exact Hax.
      * apply Ucur_push, HU.
    + (* an opening bracket *)
      apply IH; auto.
      * cbn [S_inv]. repeat split; auto.
        -- destruct (hb cur); [specialize (Hadj eq_refl); discriminate|reflexivity].
        -- apply (Ucur_parent st cur (FOpen c) r I HU).
      * intros _. reflexivity.
      * discriminate.
      * cbn [Ucur is_url_open]. discriminate.
    + (* a function *)
      apply IH; auto.
      * cbn [S_inv]. repeat split; auto.
        -- destruct (hb cur); [specialize (Hadj eq_refl); discriminate|reflexivity].
        -- apply (Ucur_parent st cur (FFun n) r I HU).
      * intros _. reflexivity.
      * discriminate.
      * cbn [Ucur is_url_open]. intros Hu. right. left. split; [reflexivity|].
        cbn [adj_ok] in Hax. rewrite Hu in Hax. exact Hax.
    + (* a closing bracket *)
      destruct st as [|[o par] st'].
      * apply IH; auto; [apply C_push_error; reflexivity|discriminate].
      * destruct (c =? closer o).
        -- destruct HS as (Ho & HCp & Hhp & HUp & HS').
           apply IH; auto.
           ++ apply C_push; auto.
              ** apply wf_block; auto.
                 --- destruct (hb cur); [specialize (Hadj eq_refl); discriminate|reflexivity].
                 --- apply (Ucur_parent ((o, par) :: st') cur (FClose c) r I HU).
              ** rewrite Hhp. discriminate.
           ++ cbn [hb]. rewrite is_backslash_block. discriminate.
           ++ destruct st' as [|[o' par'] st'']; [exact I|]. cbn [Ucur]. intros Hu. left. apply url_done_push, HUp, Hu.
        -- apply IH; auto; [apply C_push_error; reflexivity|discriminate|].
           cbn [Ucur]. intros Hu. left. right. cbn [rev]. rewrite error_free_snoc. apply andb_false_r.
Qed.

(* ------------------------------------------------------------------ the tokenizer only returns well-formed lists *)
Theorem tokenize_wf skip src :
  error_free (tokenize skip src) = true -> wf_tokens (tokenize skip src) = true.
Proof.
  unfold tokenize. intros He. apply build_wf; auto.
  - apply tokenize_flat_wf.
  - exact I.
  - intros _. reflexivity.
  - discriminate.
  - exact I.
Qed.
