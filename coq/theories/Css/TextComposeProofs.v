(* Steps towards C06_text_compositional_statement (text-level compositionality of the
   Syntax-3 specification tokenizer at a top-level ";").
   Proved here, for every text (unbounded):
   * a leading ";" is always a token of its own: spec_tokenize false (59 :: s2) =
     TLiteral p0 [59] :: spec_tokenize false s2  (positions are already erased to p0 in
     the specification, so the equation is exact);
   * the empty-s1 instance of the statement. *)
From Verif Require Import Css.Token Css.Syntax3Spec.
From Coq Require Import List NArith ZArith Bool.
Import ListNotations.
Open Scope N_scope.

Lemma preprocess_semicolon : forall s, preprocess (59 :: s) = 59 :: preprocess s.
Proof. intros s. destruct s as [|d r]; reflexivity. Qed.

Lemma consume_token_semicolon : forall fuel r, consume_token fuel (59 :: r) = (SSemicolon, r).
Proof. intros fuel r. destruct r as [|d r']; reflexivity. Qed.

Lemma tokens_semicolon : forall r, tokens (59 :: r) = SSemicolon :: tokens r.
Proof.
  intros r. unfold tokens. cbn [length tokens_from].
  rewrite consume_token_semicolon. reflexivity.
Qed.

Lemma component_values_semicolon : forall l,
  component_values (SSemicolon :: l) = CVToken SSemicolon :: component_values l.
Proof.
  intros l. unfold component_values. cbn [length].
  remember (S (length l)) as n eqn:Hn.
  cbn [component_values_until mirror stoken_is].
  destruct (component_values_until n None l) as [vs r2]. reflexivity.
Qed.

Theorem spec_tokenize_semicolon_head : forall s2,
  spec_tokenize false (59 :: s2) = TLiteral p0 [59] :: spec_tokenize false s2.
Proof.
  intros s2. unfold spec_tokenize.
  rewrite preprocess_semicolon, tokens_semicolon, component_values_semicolon.
  reflexivity.
Qed.

(* the empty-s1 instance of C06_text_compositional_statement (hypothesis not even needed) *)
Theorem text_compositional_nil : forall s2 : list N,
  spec_tokenize false ([] ++ [59]) = spec_tokenize false [] ++ [TLiteral p0 [59]] ->
  spec_tokenize false ([] ++ 59 :: s2) =
    spec_tokenize false [] ++ TLiteral p0 [59] :: spec_tokenize false s2.
Proof. intros s2 _. exact (spec_tokenize_semicolon_head s2). Qed.

(* ------------------------------------------------------------------ a class of s1: only the
   one-code-point delimiters "," ":" ";" *)
Definition simple_delim (c : N) : bool := (c =? 44) || (c =? 58) || (c =? 59).
Definition delim_tok (c : N) : stoken :=
  if c =? 44 then SComma else if c =? 58 then SColon else SSemicolon.

Lemma simple_delim_cases : forall c, simple_delim c = true -> c = 44 \/ c = 58 \/ c = 59.
Proof.
  intros c H. unfold simple_delim in H.
  apply orb_true_iff in H. destruct H as [H|H].
  - apply orb_true_iff in H. destruct H as [H|H]; apply N.eqb_eq in H; auto.
  - apply N.eqb_eq in H; auto.
Qed.

Lemma spec_tokenize_delim_head : forall c s, simple_delim c = true ->
  spec_tokenize false (c :: s) = TLiteral p0 [c] :: spec_tokenize false s.
Proof.
  intros c s H. unfold spec_tokenize.
  assert (Hp : preprocess (c :: s) = c :: preprocess s).
  { destruct (simple_delim_cases c H) as [E|[E|E]]; subst c; destruct s; reflexivity. }
  rewrite Hp. set (r := preprocess s).
  assert (Ht : tokens (c :: r) = delim_tok c :: tokens r).
  { unfold tokens. cbn [length tokens_from].
    assert (Hc : consume_token (S (length r)) (c :: r) = (delim_tok c, r)).
    { destruct (simple_delim_cases c H) as [E|[E|E]]; subst c; destruct r; reflexivity. }
    rewrite Hc. reflexivity. }
  rewrite Ht.
  assert (Hv : component_values (delim_tok c :: tokens r) =
               CVToken (delim_tok c) :: component_values (tokens r)).
  { unfold component_values. cbn [length].
    remember (S (length (tokens r))) as n eqn:Hn.
    destruct (simple_delim_cases c H) as [E|[E|E]]; subst c;
      cbn [component_values_until mirror stoken_is delim_tok N.eqb Pos.eqb];
      destruct (component_values_until n None (tokens r)) as [vs r2]; reflexivity. }
  rewrite Hv.
  destruct (simple_delim_cases c H) as [E|[E|E]]; subst c; reflexivity.
Qed.

Lemma spec_tokenize_delims_app : forall s1 s, forallb simple_delim s1 = true ->
  spec_tokenize false (s1 ++ s) = map (fun c => TLiteral p0 [c]) s1 ++ spec_tokenize false s.
Proof.
  induction s1 as [|c s1 IH]; intros s H.
  - reflexivity.
  - cbn [forallb] in H. apply andb_true_iff in H. destruct H as [Hc Hs].
    cbn [app map]. rewrite (spec_tokenize_delim_head c (s1 ++ s) Hc), (IH s Hs). reflexivity.
Qed.

(* C06_text_compositional_statement for every s1 made only of "," ":" ";" (any length),
   and every s2; the hypothesis of the statement is not needed on this class *)
Theorem text_compositional_delims : forall s1 s2 : list N,
  forallb simple_delim s1 = true ->
  spec_tokenize false (s1 ++ 59 :: s2) =
    spec_tokenize false s1 ++ TLiteral p0 [59] :: spec_tokenize false s2.
Proof.
  intros s1 s2 H.
  rewrite (spec_tokenize_delims_app s1 (59 :: s2) H), spec_tokenize_semicolon_head.
  pose proof (spec_tokenize_delims_app s1 [] H) as E. rewrite app_nil_r in E.
  rewrite E. change (spec_tokenize false []) with (@nil token). rewrite app_nil_r. reflexivity.
Qed.

Example simple_delim_example : forallb simple_delim [59; 58; 44; 44; 59; 58] = true.
Proof. reflexivity. Qed.
