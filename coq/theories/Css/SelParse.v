(* Css/SelParse.v -- model of /repo/css/selector/parser.go (ParseGroup).
   Model only: no proofs here.

   The Go parser is a struct {s string; i int}: functions read p.s, move p.i
   and return (value, error).  Errors are never caught, so the position after
   an error is irrelevant: a parser function is modelled as
       nat (position) -> res (pr A)        pr A ::= POk a i' | PErr
   where `res` (Base/GoSem.v) adds Panic (a run-time panic of the Go code: index
   or slice out of range) and OutOfFuel.  Every read `p.s[k]` that is not the
   right operand of a `k < len(p.s) && ...` guard goes through `at_`, every
   slice through `slice`: both panic out of range exactly like Go, so "never
   panics" (SelParseProofs.parse_group_total) is a real statement.
   The mutually recursive grammar functions and their loops take a *depth* fuel
   (every call passes fuel-1); leaf scanners use a local counter.

   Not modelled: the regexp / text extensions ([a#=re], :matches, :matchesOwn,
   :contains, :containsOwn) are reported as errors (the harness never feeds
   them); strings.ToLower in :lang() is modelled on ASCII. *)
From Verif Require Export Css.Sel.
From Coq Require Import List ZArith NArith Bool Arith.
Import ListNotations.

Inductive pr (A : Type) : Type := POk (a : A) (i : nat) | PErr.
Arguments POk {A} a i.
Arguments PErr {A}.

Definition bindP {A B} (m : res (pr A)) (f : A -> nat -> res (pr B)) : res (pr B) :=
  match m with
  | Ok (POk a i) => f a i
  | Ok PErr => Ok PErr
  | Panic x => Panic x
  | OutOfFuel => OutOfFuel
  end.

(* ---------------------------------------------------------------- character classes *)
Definition digit (c : N) : bool := ((48 <=? c) && (c <=? 57))%N.
(* parser.go:81 *)
Definition hex_digit (c : N) : bool :=
  (digit c || (97 <=? c) && (c <=? 102) || (65 <=? c) && (c <=? 70))%N.
(* parser.go:87 *)
Definition name_start (c : N) : bool :=
  ((97 <=? c) && (c <=? 122) || (65 <=? c) && (c <=? 90) || (c =? 95) || (127 <? c))%N.
(* parser.go:93 *)
Definition name_char (c : N) : bool := (name_start c || (c =? 45) || digit c)%N.
Definition hex_val (c : N) : N :=
  (if digit c then c - 48 else if (97 <=? c) then c - 87 else c - 55)%N.
(* strconv.ParseUint(s, 16, 64) on at most 6 hex digits *)
Definition parse_hex (s : str) : N := fold_left (fun v c => (v * 16 + hex_val c)%N) s 0%N.

(* string(rune(v)): UTF-8 encoding, U+FFFD for surrogates and values above U+10FFFF *)
Definition utf8_encode (v : N) : str :=
  (if v <? 128 then [v]
   else if v <? 2048 then [192 + v / 64; 128 + v mod 64]
   else if (55296 <=? v) && (v <=? 57343) then [239; 191; 189]
   else if v <? 65536 then [224 + v / 4096; 128 + (v / 64) mod 64; 128 + v mod 64]
   else if v <=? 1114111 then [240 + v / 262144; 128 + (v / 4096) mod 64; 128 + (v / 64) mod 64; 128 + v mod 64]
   else [239; 191; 189])%N.

Fixpoint repeat_byte (c : N) (n : nat) : str := match n with O => [] | S n' => c :: repeat_byte c n' end.

Definition str_in (x : str) (l : list str) : bool := existsb (str_eqb x) l.

(* parser.go:475 the pseudo-element names *)
Definition pseudo_elements : list str :=
  [ [97;102;116;101;114]; [98;97;99;107;100;114;111;112]; [98;101;102;111;114;101]; [99;117;101];
    [102;105;114;115;116;45;108;101;116;116;101;114]; [102;105;114;115;116;45;108;105;110;101];
    [103;114;97;109;109;97;114;45;101;114;114;111;114]; [109;97;114;107;101;114];
    [112;108;97;99;101;104;111;108;100;101;114]; [115;101;108;101;99;116;105;111;110];
    [115;112;101;108;108;105;110;103;45;101;114;114;111;114];
    [102;111;111;116;110;111;116;101;45;99;97;108;108];
    [102;111;111;116;110;111;116;101;45;109;97;114;107;101;114] ]%N.
(* parser.go:604 *)
Definition never_names : list str :=
  [ [118;105;115;105;116;101;100]; [104;111;118;101;114]; [97;99;116;105;118;101]; [102;111;99;117;115];
    [116;97;114;103;101;116] ]%N.

Definition n_is : str := [105;115]%N.
Definition n_not : str := [110;111;116]%N.
Definition n_has : str := [104;97;115]%N.
Definition n_haschild : str := [104;97;115;99;104;105;108;100]%N.
Definition n_nth_child : str := [110;116;104;45;99;104;105;108;100]%N.
Definition n_nth_last_child : str := [110;116;104;45;108;97;115;116;45;99;104;105;108;100]%N.
Definition n_nth_of_type : str := [110;116;104;45;111;102;45;116;121;112;101]%N.
Definition n_nth_last_of_type : str := [110;116;104;45;108;97;115;116;45;111;102;45;116;121;112;101]%N.
Definition n_first_child : str := [102;105;114;115;116;45;99;104;105;108;100]%N.
Definition n_last_child : str := [108;97;115;116;45;99;104;105;108;100]%N.
Definition n_first_of_type : str := [102;105;114;115;116;45;111;102;45;116;121;112;101]%N.
Definition n_last_of_type : str := [108;97;115;116;45;111;102;45;116;121;112;101]%N.
Definition n_only_child : str := [111;110;108;121;45;99;104;105;108;100]%N.
Definition n_only_of_type : str := [111;110;108;121;45;111;102;45;116;121;112;101]%N.
Definition n_input : str := [105;110;112;117;116]%N.
Definition n_empty : str := [101;109;112;116;121]%N.
Definition n_root : str := [114;111;111;116]%N.
Definition n_link : str := [108;105;110;107]%N.
Definition n_lang : str := [108;97;110;103]%N.
Definition n_enabled : str := [101;110;97;98;108;101;100]%N.
Definition n_disabled : str := [100;105;115;97;98;108;101;100]%N.
Definition n_checked : str := [99;104;101;99;107;101;100]%N.
Definition n_odd : str := [111;100;100]%N.
Definition n_even : str := [101;118;101;110]%N.

Section Parser.
Variable s : str.
Local Notation len := (length s).

(* p.s[i] : panics out of range *)
Definition at_ (site : N) (i : nat) : res N :=
  match nth_error s i with Some c => Ok c | None => Panic site end.
(* p.s[a:b] : panics unless a <= b <= len *)
Definition slice (site : N) (a b : nat) : res str :=
  if (a <=? b) && (b <=? len) then Ok (firstn (b - a) (skipn a s)) else Panic site.
(* i < len(p.s) && pred(p.s[i]) *)
Definition peek (i : nat) (pred : N -> bool) : bool :=
  match nth_error s i with Some c => pred c | None => false end.
Definition peek_is (i : nat) (c : N) : bool := peek i (N.eqb c).

(* parser.go:36 : for i = start; i < start+6 && i < len(p.s) && hexDigit(p.s[i]); i++ *)
Fixpoint hex_run (j : nat) (n : nat) : nat :=
  match n with
  | O => j
  | S n' => if peek j hex_digit then hex_run (S j) n' else j
  end.

(* parser.go:23 parseEscape *)
Definition parse_escape (i : nat) : res (pr str) :=
  if len <? i + 2 then Ok PErr else
  let* c0 := at_ 24 i in
  if negb (N.eqb c0 92) then Ok PErr else
  let start := i + 1 in
  let* c := at_ 29 start in
  if N.eqb c 13 || N.eqb c 10 || N.eqb c 12 then Ok PErr
  else if hex_digit c then
    let j := hex_run start 6 in
    let* digits := slice 39 start j in
    let v := parse_hex digits in
    let* j' :=
      (if j <? len then
         let* cj := at_ 41 j in
         if N.eqb cj 13 then (if peek_is (S j) 10 then Ok (j + 2) else Ok (S j))
         else if N.eqb cj 32 || N.eqb cj 9 || N.eqb cj 10 || N.eqb cj 12 then Ok (S j)
         else Ok j
       else Ok j) in
    Ok (POk (utf8_encode v) j')
  else
    let* r := slice 56 start (start + 1) in
    Ok (POk r (i + 2)).

(* parser.go:125 parseName.  One byte (or one escape) per iteration; `n` bounds the iterations. *)
Fixpoint name_loop (n : nat) (i : nat) (acc : str) : res (pr str) :=
  match n with
  | O => OutOfFuel
  | S n' =>
      if i <? len then
        let* c := at_ 129 i in
        if name_char c then name_loop n' (S i) (acc ++ [c])
        else if N.eqb c 92 then
          bindP (parse_escape i) (fun val i' => name_loop n' i' (acc ++ val))
        else Ok (POk acc i)
      else Ok (POk acc i)
  end.
Definition parse_name (i : nat) : res (pr str) :=
  bindP (name_loop (S len) i [])
        (fun r i' => match r with [] => Ok PErr | _ => Ok (POk r i') end).

(* parser.go:103 : for len(p.s) > p.i && p.s[p.i] == '-' *)
Fixpoint dash_run (n : nat) (i : nat) : nat :=
  match n with
  | O => i
  | S n' => if peek_is i 45 then dash_run n' (S i) else i
  end.
(* parser.go:99 parseIdentifier *)
Definition parse_identifier (i : nat) : res (pr str) :=
  let j := dash_run len i in
  let num_prefix := j - i in
  if len <=? j then Ok PErr else
  let* c := at_ 112 j in
  if negb (name_start c || N.eqb c 92) then Ok PErr else
  bindP (parse_name j) (fun r i' => Ok (POk (repeat_byte 45 num_prefix ++ r) i')).

(* parser.go:159 parseString.  One byte (or one escape / line continuation) per iteration. *)
Fixpoint string_loop (n : nat) (quote : N) (i : nat) (acc : str) : res (pr str) :=
  match n with
  | O => OutOfFuel
  | S n' =>
      if i <? len then
        let* c := at_ 170 i in
        if N.eqb c 92 then
          let* cont :=                                     (* :172-184 escaped line ending *)
            (if S i <? len then
               let* c1 := at_ 173 (S i) in
               if N.eqb c1 13 then (if peek_is (i + 2) 10 then Ok (Some (i + 3)) else Ok (Some (i + 2)))
               else if N.eqb c1 10 || N.eqb c1 12 then Ok (Some (i + 2))
               else Ok None
             else Ok None) in
          match cont with
          | Some i' => string_loop n' quote i' acc
          | None => bindP (parse_escape i) (fun val i' => string_loop n' quote i' (acc ++ val))
          end
        else if N.eqb c quote then Ok (POk acc i)
        else if N.eqb c 13 || N.eqb c 10 || N.eqb c 12 then Ok PErr
        else string_loop n' quote (S i) (acc ++ [c])
      else Ok (POk acc i)
  end.
Definition parse_string (i : nat) : res (pr str) :=
  if len <? i + 2 then Ok PErr else
  let* quote := at_ 165 i in
  bindP (string_loop (S len) quote (S i) [])
        (fun r i' => if len <=? i' then Ok PErr else Ok (POk r (S i'))).

(* strings.Index(p.s[j:], "*/") : position of the first "*/" at or after j *)
Fixpoint find_close (n : nat) (j : nat) : option nat :=
  match n with
  | O => None
  | S n' => if peek_is j 42 && peek_is (S j) 47 then Some j
            else if j <? len then find_close n' (S j) else None
  end.
(* parser.go:255 skipWhitespace: the position after white space and comments *)
Fixpoint skip_ws_loop (n : nat) (i : nat) : nat :=
  match n with
  | O => i
  | S n' =>
      if peek i is_space then skip_ws_loop n' (S i)
      else if peek_is i 47 && peek_is (S i) 42 then
        match find_close (S len) (i + 2) with
        | Some e => skip_ws_loop n' (e + 2)
        | None => i
        end
      else i
  end.
Definition skip_ws (i : nat) : nat := skip_ws_loop (S len) i.

(* parser.go:284 consumeParenthesis *)
Definition consume_paren (i : nat) : option nat :=
  if peek_is i 40 then Some (skip_ws (S i)) else None.
(* parser.go:295 consumeClosingParenthesis *)
Definition consume_closing_paren (i : nat) : option nat :=
  let j := skip_ws i in
  if peek_is j 41 then Some (S j) else None.

(* parser.go:617 parseInteger; strconv.Atoi fails above 2^63-1 *)
Fixpoint digit_run (n : nat) (i : nat) : nat :=
  match n with
  | O => i
  | S n' => if peek i digit then digit_run n' (S i) else i
  end.
Definition parse_dec (ds : str) : Z := fold_left (fun v c => (v * 10 + Z.of_N (c - 48))%Z) ds 0%Z.
Definition parse_integer (i : nat) : res (pr Z) :=
  let j := digit_run len i in
  if j =? i then Ok PErr else
  let* ds := slice 628 i j in
  let v := parse_dec ds in
  if (v <=? 9223372036854775807)%Z then Ok (POk v j) else Ok PErr.

(* parser.go:637 parseNth; the labels of the Go state machine are functions *)
Definition is_n (c : N) : bool := N.eqb c 110 || N.eqb c 78.
Definition nth_read_n (a : Z) (i : nat) : res (pr (Z * Z)) :=         (* readN *)
  let i := skip_ws i in
  if len <=? i then Ok PErr else
  let* c := at_ 729 i in
  if N.eqb c 43 then
    bindP (parse_integer (skip_ws (S i))) (fun b i' => Ok (POk (a, b) i'))
  else if N.eqb c 45 then
    bindP (parse_integer (skip_ws (S i))) (fun b i' => Ok (POk (a, (- b)%Z) i'))
  else Ok (POk (a, 0%Z) i).
Definition nth_read_a (a : Z) (i : nat) : res (pr (Z * Z)) :=         (* readA *)
  if len <=? i then Ok PErr else
  let* c := at_ 715 i in
  if is_n c then nth_read_n a (S i) else Ok (POk (0%Z, a) i).
Definition nth_signed_a (neg : bool) (i : nat) : res (pr (Z * Z)) :=  (* positiveA / negativeA *)
  if len <=? i then Ok PErr else
  let* c := at_ 676 i in
  if digit c then
    bindP (parse_integer i) (fun a i' => nth_read_a (if neg then (- a)%Z else a) i')
  else if is_n c then nth_read_n (if neg then (-1)%Z else 1%Z) (S i)
  else Ok PErr.
Definition parse_nth (i : nat) : res (pr (Z * Z)) :=
  if len <=? i then Ok PErr else
  let* c := at_ 642 i in
  if N.eqb c 45 then nth_signed_a true (S i)
  else if N.eqb c 43 then nth_signed_a false (S i)
  else if digit c then nth_signed_a false i
  else if is_n c then nth_read_n 1%Z (S i)
  else if N.eqb c 111 || N.eqb c 79 || N.eqb c 101 || N.eqb c 69 then
    bindP (parse_name i) (fun id i' =>
      let id := to_lower id in
      if str_eqb id n_odd then Ok (POk (2%Z, 1%Z) i')
      else if str_eqb id n_even then Ok (POk (2%Z, 0%Z) i')
      else Ok PErr)
  else Ok PErr.

(* parser.go:316 parseIDSelector *)
Definition parse_id_selector (i : nat) : res (pr sel) :=
  if len <=? i then Ok PErr else
  let* c := at_ 320 i in
  if negb (N.eqb c 35) then Ok PErr else
  bindP (parse_name (S i)) (fun id i' => Ok (POk (SId id) i')).
(* parser.go:334 parseClassSelector *)
Definition parse_class_selector (i : nat) : res (pr sel) :=
  if len <=? i then Ok PErr else
  let* c := at_ 338 i in
  if negb (N.eqb c 46) then Ok PErr else
  bindP (parse_identifier (S i)) (fun cl i' => Ok (POk (SClass cl) i')).
(* parser.go:307 parseTypeSelector (newTagSelector lower-cases) *)
Definition parse_type_selector (i : nat) : res (pr sel) :=
  bindP (parse_identifier i) (fun tag i' => Ok (POk (STag (to_lower tag)) i')).

(* parser.go:352 parseAttributeSelector *)
Definition op_of (o : str) : option attr_op :=
  match o with
  | [61] => Some OpEq
  | [33; 61] => Some OpNe
  | [126; 61] => Some OpIncludes
  | [124; 61] => Some OpDash
  | [94; 61] => Some OpPrefix
  | [36; 61] => Some OpSuffix
  | [42; 61] => Some OpSubstr
  | _ => None
  end%N.
Definition parse_attribute_selector (i : nat) : res (pr sel) :=
  if len <=? i then Ok PErr else
  let* c := at_ 356 i in
  if negb (N.eqb c 91) then Ok PErr else
  let i := skip_ws (S i) in
  bindP (parse_identifier i) (fun key i =>
  let key := to_lower key in
  let i := skip_ws i in
  if len <=? i then Ok PErr else
  let* c := at_ 373 i in
  if N.eqb c 93 then Ok (POk (SAttr key [] OpExists false) (S i)) else
  if len <=? i + 2 then Ok PErr else
  let* op2 := slice 382 i (i + 2) in
  let* o0 := at_ 383 i in
  let* o1 := at_ 385 (S i) in
  let op := if N.eqb o0 61 then [61%N] else op2 in
  if negb (N.eqb o0 61) && negb (N.eqb o1 61) then Ok PErr else
  let i := skip_ws (i + length op) in
  if len <=? i then Ok PErr else
  if str_eqb op [35; 61]%N then Ok PErr else               (* "#=" : regexp, not modelled *)
  let* q := at_ 399 i in
  bindP (if N.eqb q 39 || N.eqb q 34 then parse_string i else parse_identifier i) (fun val i =>
  let i := skip_ws i in
  if len <=? i then Ok PErr else
  let* f := at_ 417 i in
  let ic := N.eqb f 105 || N.eqb f 73 in
  let i := skip_ws (if ic then S i else i) in
  if len <=? i then Ok PErr else
  let* e := at_ 427 i in
  if negb (N.eqb e 93) then Ok PErr else
  match op_of op with
  | Some o => Ok (POk (SAttr key val o ic) (S i))
  | None => Ok PErr
  end)).

(* ---------------------------------------------------------------- the recursive grammar *)

(* result of parsePseudoclassSelector: a selector, or (nil, name) for a pseudo-element *)
Inductive pseudo_res := PSel (x : sel) | PElem (name : str).

Definition simple_pseudo (name : str) : option sel :=
  if str_eqb name n_first_child then Some (SNth 0 1 false false)
  else if str_eqb name n_last_child then Some (SNth 0 1 true false)
  else if str_eqb name n_first_of_type then Some (SNth 0 1 false true)
  else if str_eqb name n_last_of_type then Some (SNth 0 1 true true)
  else if str_eqb name n_only_child then Some (SOnly false)
  else if str_eqb name n_only_of_type then Some (SOnly true)
  else if str_eqb name n_input then Some SInput
  else if str_eqb name n_empty then Some SEmpty
  else if str_eqb name n_root then Some SRoot
  else if str_eqb name n_link then Some SLink
  else if str_eqb name n_enabled then Some SEnabled
  else if str_eqb name n_disabled then Some SDisabled
  else if str_eqb name n_checked then Some SChecked
  else if str_in name never_names then Some (SNever (58%N :: name))
  else None.

Definition rel_of (name : str) : option rel_name :=
  if str_eqb name n_is then Some RIs
  else if str_eqb name n_not then Some RNot
  else if str_eqb name n_has then Some RHas
  else if str_eqb name n_haschild then Some RHasChild
  else None.

Definition nth_of (name : str) : option (bool * bool) :=       (* (last, ofType) *)
  if str_eqb name n_nth_child then Some (false, false)
  else if str_eqb name n_nth_last_child then Some (true, false)
  else if str_eqb name n_nth_of_type then Some (false, true)
  else if str_eqb name n_nth_last_of_type then Some (true, true)
  else None.

(* parser.go:578-597 the :lang( ident ) argument *)
Definition parse_lang_arg (i : nat) : res (pr sel) :=
  match consume_paren i with
  | None => Ok PErr
  | Some i =>
      if i =? len then Ok PErr else
      bindP (parse_identifier i) (fun val i =>
        let val := to_lower val in
        let i := skip_ws i in
        if len <=? i then Ok PErr else
        match consume_closing_paren i with
        | None => Ok PErr
        | Some i => Ok (POk (SLang val) i)
        end)
  end.

Definition comb_of (c : N) : option comb :=
  if N.eqb c 32 then Some CDesc else if N.eqb c 62 then Some CChild
  else if N.eqb c 43 then Some CAdj else if N.eqb c 126 then Some CSib else None.

Fixpoint p_group (fuel : nat) (acc_pe : bool) (i : nat) {struct fuel} : res (pr (list sel)) :=      (* parser.go:875 *)
  match fuel with
  | O => OutOfFuel
  | S f => bindP (p_selector f acc_pe i) (fun cur i => p_group_loop f acc_pe i [cur])
  end
with p_group_loop (fuel : nat) (acc_pe : bool) (i : nat) (acc : list sel) {struct fuel} : res (pr (list sel)) :=   (* :882 *)
  match fuel with
  | O => OutOfFuel
  | S f =>
      if len <=? i then Ok (POk acc i) else
      let* c := at_ 883 i in
      if negb (N.eqb c 44) then Ok (POk acc i) else
      bindP (p_selector f acc_pe (S i)) (fun c i => p_group_loop f acc_pe i (acc ++ [c]))
  end
with p_selector (fuel : nat) (acc_pe : bool) (i : nat) {struct fuel} : res (pr sel) :=               (* :833 *)
  match fuel with
  | O => OutOfFuel
  | S f => bindP (p_seq f acc_pe (skip_ws i)) (fun r i => p_selector_loop f acc_pe i r)
  end
with p_selector_loop (fuel : nat) (acc_pe : bool) (i : nat) (result : sel) {struct fuel} : res (pr sel) :=   (* :840 *)
  match fuel with
  | O => OutOfFuel
  | S f =>
      let j := skip_ws i in
      let comb0 := if i <? j then 32%N else 0%N in
      if len <=? j then Ok (POk result j) else
      let* c := at_ 852 j in
      if N.eqb c 44 || N.eqb c 41 then Ok (POk result j) else
      let '(cb, j) := if N.eqb c 43 || N.eqb c 62 || N.eqb c 126 then (c, skip_ws (S j)) else (comb0, j) in
      match comb_of cb with
      | None => Ok (POk result j)                           (* combinator == 0 *)
      | Some cm =>
          match pseudo_element result with
          | _ :: _ => Ok PErr                               (* :866 (fix) a pseudo-element must end the selector *)
          | [] => bindP (p_seq f acc_pe j) (fun c i => p_selector_loop f acc_pe i (SCombined result cm c))
          end
      end
  end
with p_seq (fuel : nat) (acc_pe : bool) (i : nat) {struct fuel} : res (pr sel) :=                     (* :759 *)
  match fuel with
  | O => OutOfFuel
  | S f =>
      if len <=? i then Ok PErr else
      let* c := at_ 766 i in
      if N.eqb c 42 then
        let i := S i in
        let* i :=
          (if i + 2 <? len then
             let* two := slice 770 i (i + 2) in
             if str_eqb two [124; 42]%N then Ok (i + 2) else Ok i
           else Ok i) in
        p_seq_loop f acc_pe i [] []
      else if N.eqb c 35 || N.eqb c 46 || N.eqb c 91 || N.eqb c 58 then p_seq_loop f acc_pe i [] []
      else bindP (parse_type_selector i) (fun r i => p_seq_loop f acc_pe i [r] [])
  end
with p_seq_loop (fuel : nat) (acc_pe : bool) (i : nat) (sels : list sel) (pe : str) {struct fuel} : res (pr sel) :=   (* :785 *)
  match fuel with
  | O => OutOfFuel
  | S f =>
      let finish :=
        match sels, pe with
        | [x], [] => Ok (POk x i)                           (* :826 *)
        | _, _ => Ok (POk (SCompound sels pe) i)
        end in
      if len <=? i then finish else
      let* c := at_ 791 i in
      let add (ns : sel) (i : nat) :=
        match pe with
        | [] => p_seq_loop f acc_pe i (sels ++ [ns]) pe
        | _ => Ok PErr                                      (* :819 pseudo-element must be at the end *)
        end in
      if N.eqb c 35 then bindP (parse_id_selector i) add
      else if N.eqb c 46 then bindP (parse_class_selector i) add
      else if N.eqb c 91 then bindP (parse_attribute_selector i) add
      else if N.eqb c 58 then
        bindP (p_pseudo f i) (fun r i =>
          match r with
          | PSel ns => add ns i
          | PElem name => match pe with
                          | [] => if acc_pe then p_seq_loop f acc_pe i sels name
                                  else Ok PErr              (* :814 pseudo-elements disabled (inside :is/:not/:has) *)
                          | _ => Ok PErr                    (* :811 only one pseudo-element *)
                          end
          end)
      else finish
  end
with p_pseudo (fuel : nat) (i : nat) {struct fuel} : res (pr pseudo_res) :=           (* :450 *)
  match fuel with
  | O => OutOfFuel
  | S f =>
      if len <=? i then Ok PErr else
      let* c := at_ 454 i in
      if negb (N.eqb c 58) then Ok PErr else
      let i := S i in
      if len <=? i then Ok PErr else
      let* c2 := at_ 463 i in
      let must_pe := N.eqb c2 58 in
      let i := if must_pe then S i else i in
      bindP (parse_identifier i) (fun name i =>
        let name := to_lower name in
        if must_pe && negb (str_in name pseudo_elements) then Ok PErr else
        match rel_of name with
        | Some rn =>                                         (* :484 *)
            match consume_paren i with
            | None => Ok PErr
            | Some i =>
                bindP (p_group f false i) (fun g i =>
                  match consume_closing_paren i with
                  | None => Ok PErr
                  | Some i => Ok (POk (PSel (SRel rn g)) i)
                  end)
            end
        | None =>
        match nth_of name with
        | Some (last, ofType) =>                             (* :543 *)
            match consume_paren i with
            | None => Ok PErr
            | Some i =>
                bindP (parse_nth i) (fun ab i =>
                  match consume_closing_paren i with
                  | None => Ok PErr
                  | Some i => Ok (POk (PSel (SNth (fst ab) (snd ab) last ofType)) i)
                  end)
            end
        | None =>
        if str_eqb name n_lang then
          bindP (parse_lang_arg i) (fun x i => Ok (POk (PSel x) i))
        else
        match simple_pseudo name with
        | Some x => Ok (POk (PSel x) i)
        | None =>
            if str_in name pseudo_elements then Ok (POk (PElem name) i)   (* :607 *)
            else Ok PErr                                     (* unknown, or contains / matches: not modelled *)
        end
        end
        end)
  end.

Definition fuel_of : nat := 8 * len + 16.

(* selector.go:49 ParseGroup: Some g, or None for an error *)
Definition parse_group_at : res (option (list sel)) :=
  match p_group fuel_of true 0 with
  | Ok (POk g i) => if i <? len then Ok None else Ok (Some g)
  | Ok PErr => Ok None
  | Panic x => Panic x
  | OutOfFuel => OutOfFuel
  end.

End Parser.

Definition parse_group (s : str) : res (option (list sel)) := parse_group_at s.
