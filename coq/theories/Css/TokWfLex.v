(* Css/TokWfLex.v -- the specification lexer (Css/RetokSpec.v) only produces
   flat tokens that are well formed (Css/SerWf.v) or carry an error, and every
   step consumes at least one code point.  Used to close the statement of C20
   over source texts (Css/TokWfBuild.v). *)
From Coq Require Import String.
From Verif Require Import Css.Ser Css.RetokSpec Css.SerWf Css.SerProofs Css.RoundTripTok Css.RoundTripSep
  Css.RoundTripList Css.RoundTripBuild.
From Coq Require Import List NArith Bool Lia ZifyBool ZifyN ZifyNat.
Import ListNotations.
Open Scope N_scope.

(* ------------------------------------------------------------------ consumers return a suffix that is not longer *)
Lemma span_len p s : (length (snd (span p s)) <= length s)%nat.
Proof.
  induction s as [|c s IH]; [cbn; lia|]. cbn [span]. destruct (p c); [|cbn; lia].
  destruct (span p s). cbn [snd length] in *. lia.
Qed.

Lemma span_n_len p n : forall s, (length (snd (span_n p n s)) <= length s)%nat.
Proof.
  induction n as [|n IH]; intros s; [destruct s; cbn; lia|].
  destruct s as [|c s]; [cbn; lia|]. cbn [span_n]. destruct (p c); [|cbn; lia].
  specialize (IH s). destruct (span_n p n s). cbn [snd length] in *. lia.
Qed.

Lemma hex_run_len n : forall acc s, (length (snd (hex_run n acc s)) <= length s)%nat.
Proof.
  induction n as [|n IH]; intros acc s; [destruct s; cbn; lia|].
  destruct s as [|c s]; [cbn; lia|]. cbn [hex_run]. destruct (hexdig c); [|cbn; lia].
  specialize (IH (acc * 16 + hexval c) s). cbn [length]. lia.
Qed.

Lemma consume_escape_len s : (length (snd (consume_escape s)) <= length s)%nat.
Proof.
  unfold consume_escape. destruct s as [|c r]; [cbn; lia|].
  destruct (hexdig c); [|cbn; lia].
  pose proof (hex_run_len 5 (hexval c) r) as H. destruct (hex_run 5 (hexval c) r) as [v r1].
  cbn [snd] in *. destruct r1 as [|w r2]; [cbn; lia|]. destruct (whitespace w); cbn [length] in *; lia.
Qed.

Lemma consume_name_len f : forall s, (length (snd (consume_name f s)) <= length s)%nat.
Proof.
  induction f as [|f IH]; intros s; [cbn; lia|].
  destruct s as [|c r]; [cbn; lia|]. cbn [consume_name].
  destruct (name_cp c).
  - specialize (IH r). destruct (consume_name f r). cbn [snd length] in *. lia.
  - destruct (valid_escape (c :: r)); [|cbn; lia].
    pose proof (consume_escape_len r) as He. destruct (consume_escape r) as [e r1].
    specialize (IH r1). destruct (consume_name f r1). cbn [snd length] in *. lia.
Qed.

(* a name that starts an identifier consumes at least one code point *)
Lemma consume_name_progress f c r :
  (0 < f)%nat -> name_cp c || valid_escape (c :: r) = true ->
  (length (snd (consume_name f (c :: r))) < length (c :: r))%nat.
Proof.
  intros Hf H. destruct f; [lia|]. cbn [consume_name].
  destruct (name_cp c).
  - pose proof (consume_name_len f r). destruct (consume_name f r). cbn [snd length] in *. lia.
  - cbn [orb] in H. rewrite H.
    pose proof (consume_escape_len r) as He. destruct (consume_escape r) as [e r1].
    pose proof (consume_name_len f r1). destruct (consume_name f r1). cbn [snd length] in *. lia.
Qed.

Lemma starts_ident_name s : starts_ident s = true ->
  match s with c :: r => name_cp c || valid_escape (c :: r) = true | [] => False end.
Proof.
  destruct s as [|c r]; [discriminate|]. unfold starts_ident.
  destruct (c =? 45) eqn:E1. { intros _. apply N.eqb_eq in E1. subst c. reflexivity. }
  destruct (c =? 92) eqn:E2. { intros H. rewrite H. apply orb_true_r. }
  intros H. assert (E : name_cp c = true) by (unf; lia). rewrite E. reflexivity.
Qed.

Lemma consume_string_len f q : forall s,
  (length (snd (consume_string f q s)) <= length s)%nat.
Proof.
  induction f as [|f IH]; intros s; [cbn; lia|].
  destruct s as [|c r]; [cbn; lia|]. cbn [consume_string].
  destruct (c =? q); [cbn; lia|]. destruct (c =? 10); [cbn; lia|].
  destruct (c =? 92).
  - destruct r as [|d r']; [cbn; lia|]. destruct (d =? 10).
    + specialize (IH r'). cbn [length]. lia.
    + pose proof (consume_escape_len (d :: r')) as He. destruct (consume_escape (d :: r')) as [e r1].
      specialize (IH r1). destruct (consume_string f q r1) as [[v en] k]. cbn [snd length] in *. lia.
  - specialize (IH r). destruct (consume_string f q r) as [[v en] k]. cbn [snd length] in *. lia.
Qed.

Lemma skip_ws_len s : (length (skip_ws s) <= length s)%nat.
Proof. induction s as [|c s IH]; [cbn; lia|]. cbn [skip_ws]. destruct (whitespace c); cbn [length]; lia. Qed.

Lemma bad_url_rest_len f : forall s, (length (bad_url_rest f s) <= length s)%nat.
Proof.
  induction f as [|f IH]; intros s; [cbn; lia|].
  destruct s as [|c r]; [cbn; lia|]. cbn [bad_url_rest]. destruct (c =? 41); [cbn; lia|].
  destruct (valid_escape (c :: r)).
  - pose proof (consume_escape_len r). specialize (IH (snd (consume_escape r))). cbn [length]. lia.
  - specialize (IH r). cbn [length]. lia.
Qed.

Definition url_rest (u : url_result) : list N :=
  match u with UOk _ k => k | UEof _ => [] | UBad k => k end.

Lemma consume_url_len f : forall s, (length (url_rest (consume_url f s)) <= length s)%nat.
Proof.
  induction f as [|f IH]; intros s; [cbn; lia|].
  destruct s as [|c r]; [cbn; lia|]. cbn [consume_url].
  destruct (c =? 41); [cbn; lia|].
  destruct (whitespace c).
  { pose proof (skip_ws_len r). destruct (skip_ws r) as [|d k]; [cbn; lia|].
    destruct (d =? 41); cbn [url_rest length] in *; [lia|].
    pose proof (bad_url_rest_len (S (length k)) (d :: k)). cbn [length] in *. lia. }
  destruct ((c =? 34) || (c =? 39) || (c =? 40) || non_printable c).
  { cbn [url_rest]. pose proof (bad_url_rest_len (length r) r). cbn [length]. lia. }
  destruct (c =? 92).
  - destruct (valid_escape (c :: r)).
    + pose proof (consume_escape_len r) as He. destruct (consume_escape r) as [e r1].
      specialize (IH r1). destruct (consume_url f r1); cbn [url_rest snd length] in *; lia.
    + cbn [url_rest]. pose proof (bad_url_rest_len (length r) r). cbn [length]. lia.
  - specialize (IH r). destruct (consume_url f r); cbn [url_rest length] in *; lia.
Qed.

Lemma find_comment_end_len s a b : find_comment_end s = Some (a, b) -> (length b <= length s)%nat.
Proof.
  revert a b. induction s as [|c r IH]; intros a b; [discriminate|].
  cbn [find_comment_end]. destruct (has_prefix [42; 47] (c :: r)).
  - intros H. injection H as <- <-. destruct r; cbn; lia.
  - destruct (find_comment_end r) as [[a' b']|]; [|discriminate].
    intros H. injection H as <- <-. specialize (IH a' b' eq_refl). cbn [length]. lia.
Qed.

Lemma consume_urange_len s : (length (snd (consume_urange s)) <= length s)%nat.
Proof.
  unfold consume_urange.
  pose proof (span_n_len hexdig 6 s) as H1. destruct (span_n hexdig 6 s) as [h r1].
  pose proof (span_n_len (fun c => c =? 63) (6 - length h) r1) as H2.
  destruct (span_n (fun c => c =? 63) (6 - length h) r1) as [q r2]. cbn [snd] in *.
  destruct q; [|cbn [snd]; lia].
  destruct r2 as [|m [|c r]]; cbn [snd]; try lia.
  destruct ((m =? 45) && hexdig c); [|cbn [snd]; lia].
  pose proof (span_n_len hexdig 6 (c :: r)) as H3. destruct (span_n hexdig 6 (c :: r)) as [h2 r3].
  cbn [snd length] in *. lia.
Qed.

Lemma consume_number_len s repr k : consume_number s = Some (repr, k) ->
  (length k < length s)%nat.
Proof.
  intros H. destruct (consume_number_inv s repr k H) as (-> & sg & d1 & frac & ex & -> & [_ _ _ _ Hne]).
  rewrite !app_length. destruct (d1 ++ frac) eqn:E; [contradiction|].
  assert (length (d1 ++ frac) > 0)%nat by (rewrite E; cbn; lia). rewrite app_length in H0. lia.
Qed.

(* ------------------------------------------------------------------ every step of the lexer makes progress *)
Lemma lex_numeric_len repr k : (length (snd (lex_numeric repr k)) <= length k)%nat.
Proof.
  unfold lex_numeric. destruct (starts_ident k).
  - pose proof (consume_name_len (length k) k). destruct (consume_name (length k) k). cbn [snd] in *. lia.
  - destruct (head_is 37 k); cbn [snd]; [destruct k; cbn; lia|lia].
Qed.

Lemma lex_step_progress skip s : s <> [] -> (length (snd (lex_step skip s)) < length s)%nat.
Proof.
  intros Hne. destruct s as [|c r]; [contradiction|]. unfold lex_step.
  destruct (whitespace c).
  { pose proof (span_len whitespace r). destruct (span whitespace r). cbn [snd length] in *. lia. }
  destruct (starts_urange (c :: r)) eqn:Eur.
  { unfold starts_urange in Eur. destruct r as [|p [|d r']]; try discriminate.
    cbn [tl]. pose proof (consume_urange_len (d :: r')). destruct (consume_urange (d :: r')) as [[a b] k].
    cbn [snd length] in *. lia. }
  destruct (has_prefix [45; 45; 62] (c :: r)) eqn:Ecdc.
  { cbn [snd]. destruct r as [|x [|y r']]; cbn [has_prefix] in Ecdc; rewrite ?andb_false_r in Ecdc;
      try discriminate Ecdc. cbn [skipn length]. lia. }
  destruct (starts_ident (c :: r)) eqn:Eid.
  { unfold lex_ident_like.
    pose proof (consume_name_progress (length (c :: r)) c r ltac:(cbn; lia) (starts_ident_name _ Eid)) as Hp.
    destruct (consume_name (length (c :: r)) (c :: r)) as [v k]. cbn [snd] in Hp.
    destruct (head_is 40 k) eqn:E40; [|cbn [snd]; exact Hp].
    destruct k as [|x k1]; [discriminate|]. cbn [tl].
    destruct (is_url_name v); [|cbn [snd length] in *; lia].
    destruct (head_is 34 (skip_ws k1) || head_is 39 (skip_ws k1)); [cbn [snd length] in *; lia|].
    pose proof (skip_ws_len k1). pose proof (consume_url_len (S (length (skip_ws k1))) (skip_ws k1)).
    destruct (consume_url (S (length (skip_ws k1))) (skip_ws k1)); cbn [snd url_rest length] in *; lia. }
  destruct (consume_number (c :: r)) as [[repr k]|] eqn:Enum.
  { pose proof (consume_number_len _ _ _ Enum). pose proof (lex_numeric_len repr k). lia. }
  unfold lex_punct.
  destruct (c =? 64).
  { destruct (starts_ident r); [|cbn; lia].
    pose proof (consume_name_len (length r) r). destruct (consume_name (length r) r). cbn [snd length] in *. lia. }
  destruct (c =? 35).
  { destruct (head_sat_name r || valid_escape r); [|cbn; lia].
    pose proof (consume_name_len (length r) r). destruct (consume_name (length r) r). cbn [snd length] in *. lia. }
  destruct (is_open c); [cbn; lia|]. destruct (is_close c); [cbn; lia|].
  destruct (is_quote c).
  { pose proof (consume_string_len (S (length r)) c r).
    destruct (consume_string (S (length r)) c r) as [[v en] k]. destruct en; cbn [snd length] in *; lia. }
  destruct (has_prefix [47; 42] (c :: r)) eqn:Ecom.
  { destruct r as [|x r']; [cbn [has_prefix] in Ecom; rewrite ?andb_false_r in Ecom; discriminate Ecom|]. cbn [tl].
    destruct (find_comment_end r') as [[txt k]|] eqn:Ef; cbn [snd]; [|cbn; lia].
    pose proof (find_comment_end_len _ _ _ Ef). cbn [length]. lia. }
  unfold lex_delim.
  destruct (has_prefix [60; 33; 45; 45] (c :: r)) eqn:E1.
  { destruct r as [|x [|y [|z r']]]; cbn [has_prefix] in E1; rewrite ?andb_false_r in E1; try discriminate E1.
    cbn [snd skipn length]. lia. }
  destruct (has_prefix [124; 124] (c :: r)) eqn:E2.
  { destruct r as [|x r']; [cbn [has_prefix] in E2; rewrite ?andb_false_r in E2; discriminate E2|]. cbn [snd tl length]. lia. }
  destruct (cmp_delim c && head_is 61 r) eqn:E3.
  { destruct r as [|x r']; [cbn [head_is] in E3; rewrite andb_false_r in E3; discriminate|]. cbn [snd tl length]. lia. }
  cbn [snd length]. lia.
Qed.

(* ------------------------------------------------------------------ consumers return a suffix of their input *)
Definition sfx (k s : list N) : Prop := exists pre, s = pre ++ k.

Lemma sfx_refl s : sfx s s.
Proof. exists []. reflexivity. Qed.
Lemma sfx_cons c k s : sfx k s -> sfx k (c :: s).
Proof. intros [pre ->]. exists (c :: pre). reflexivity. Qed.
Lemma sfx_trans a b c : sfx a b -> sfx b c -> sfx a c.
Proof. intros [p ->] [q ->]. exists (q ++ p). rewrite app_assoc. reflexivity. Qed.
Lemma sfx_nil s : sfx [] s.
Proof. exists s. rewrite app_nil_r. reflexivity. Qed.
Lemma sfx_tl c k s : sfx (c :: k) s -> sfx k s.
Proof. intros [pre ->]. exists (pre ++ [c]). rewrite <- app_assoc. reflexivity. Qed.

Lemma sfx_clean k s : sfx k s -> clean s = true -> clean k = true.
Proof. intros [pre ->] H. rewrite clean_app in H. apply andb_true_iff in H as [_ H]. exact H. Qed.

Global Hint Resolve sfx_refl sfx_cons sfx_nil : sfx.

Lemma span_sfx p s : sfx (snd (span p s)) s.
Proof.
  induction s as [|c s IH]; [apply sfx_refl|]. cbn [span]. destruct (p c); [|apply sfx_refl].
  destruct (span p s). cbn [snd] in *. auto with sfx.
Qed.

Lemma span_n_sfx p n : forall s, sfx (snd (span_n p n s)) s.
Proof.
  induction n as [|n IH]; intros s; [destruct s; apply sfx_refl|].
  destruct s as [|c s]; [apply sfx_refl|]. cbn [span_n]. destruct (p c); [|apply sfx_refl].
  specialize (IH s). destruct (span_n p n s). cbn [snd] in *. auto with sfx.
Qed.

Lemma hex_run_sfx n : forall acc s, sfx (snd (hex_run n acc s)) s.
Proof.
  induction n as [|n IH]; intros acc s; [destruct s; apply sfx_refl|].
  destruct s as [|c s]; [apply sfx_refl|]. cbn [hex_run]. destruct (hexdig c); [|apply sfx_refl].
  auto with sfx.
Qed.

Lemma consume_escape_sfx s : sfx (snd (consume_escape s)) s.
Proof.
  unfold consume_escape. destruct s as [|c r]; [apply sfx_refl|].
  destruct (hexdig c); [|cbn; auto with sfx].
  pose proof (hex_run_sfx 5 (hexval c) r) as H. destruct (hex_run 5 (hexval c) r) as [v r1].
  cbn [snd] in *. apply sfx_cons. destruct r1 as [|w r2]; [apply sfx_nil|].
  destruct (whitespace w); [eapply sfx_tl; eauto|exact H].
Qed.

Lemma consume_name_sfx f : forall s, sfx (snd (consume_name f s)) s.
Proof.
  induction f as [|f IH]; intros s; [apply sfx_refl|].
  destruct s as [|c r]; [apply sfx_refl|]. cbn [consume_name].
  destruct (name_cp c).
  - specialize (IH r). destruct (consume_name f r). cbn [snd] in *. auto with sfx.
  - destruct (valid_escape (c :: r)); [|apply sfx_refl].
    pose proof (consume_escape_sfx r) as He. destruct (consume_escape r) as [e r1].
    specialize (IH r1). destruct (consume_name f r1). cbn [snd] in *.
    apply sfx_cons. eapply sfx_trans; eauto.
Qed.

Lemma consume_string_sfx f q : forall s, sfx (snd (consume_string f q s)) s.
Proof.
  induction f as [|f IH]; intros s; [apply sfx_refl|].
  destruct s as [|c r]; [apply sfx_refl|]. cbn [consume_string].
  destruct (c =? q); [cbn; auto with sfx|]. destruct (c =? 10); [apply sfx_refl|].
  destruct (c =? 92).
  - destruct r as [|d r']; [apply sfx_nil|]. destruct (d =? 10).
    + specialize (IH r'). auto with sfx.
    + pose proof (consume_escape_sfx (d :: r')) as He. destruct (consume_escape (d :: r')) as [e r1].
      specialize (IH r1). destruct (consume_string f q r1) as [[v en] k]. cbn [snd] in *.
      apply sfx_cons. eapply sfx_trans; eauto.
  - specialize (IH r). destruct (consume_string f q r) as [[v en] k]. cbn [snd] in *. auto with sfx.
Qed.

Lemma skip_ws_sfx s : sfx (skip_ws s) s.
Proof. induction s as [|c s IH]; [apply sfx_refl|]. cbn [skip_ws]. destruct (whitespace c); auto with sfx. Qed.

Lemma bad_url_rest_sfx f : forall s, sfx (bad_url_rest f s) s.
Proof.
  induction f as [|f IH]; intros s; [apply sfx_refl|].
  destruct s as [|c r]; [apply sfx_refl|]. cbn [bad_url_rest]. destruct (c =? 41); [auto with sfx|].
  destruct (valid_escape (c :: r)).
  - apply sfx_cons. eapply sfx_trans; [apply IH|apply consume_escape_sfx].
  - auto with sfx.
Qed.

Lemma consume_url_sfx f : forall s, sfx (url_rest (consume_url f s)) s.
Proof.
  induction f as [|f IH]; intros s; [apply sfx_refl|].
  destruct s as [|c r]; [apply sfx_nil|]. cbn [consume_url].
  destruct (c =? 41); [cbn; auto with sfx|].
  destruct (whitespace c).
  { pose proof (skip_ws_sfx r) as Hs. destruct (skip_ws r) as [|d k]; [apply sfx_nil|].
    destruct (d =? 41); cbn [url_rest].
    - apply sfx_cons. eapply sfx_tl; eauto.
    - apply sfx_cons. eapply sfx_trans; [apply bad_url_rest_sfx|exact Hs]. }
  destruct ((c =? 34) || (c =? 39) || (c =? 40) || non_printable c).
  { cbn [url_rest]. apply sfx_cons, bad_url_rest_sfx. }
  destruct (c =? 92).
  - destruct (valid_escape (c :: r)).
    + pose proof (consume_escape_sfx r) as He. destruct (consume_escape r) as [e r1].
      specialize (IH r1). cbn [snd] in He.
      destruct (consume_url f r1); cbn [url_rest] in *; try apply sfx_nil; apply sfx_cons; eapply sfx_trans; eauto.
    + cbn [url_rest]. apply sfx_cons, bad_url_rest_sfx.
  - specialize (IH r). destruct (consume_url f r); cbn [url_rest] in *; auto with sfx.
Qed.

Lemma find_comment_end_sfx s a b : find_comment_end s = Some (a, b) -> sfx b s /\ exists mid, s = a ++ mid ++ b.
Proof.
  revert a b. induction s as [|c r IH]; intros a b; [discriminate|].
  cbn [find_comment_end]. destruct (has_prefix [42; 47] (c :: r)) eqn:E.
  - intros H. injection H as <- <-. destruct r as [|d r']; [cbn in E; rewrite andb_false_r in E; discriminate|].
    cbn [tl]. split; [auto with sfx|]. exists [c; d]. reflexivity.
  - destruct (find_comment_end r) as [[a' b']|]; [|discriminate].
    intros H. injection H as <- <-. destruct (IH a' b' eq_refl) as [H1 (mid & ->)].
    split; [auto with sfx|]. exists mid. reflexivity.
Qed.

Lemma consume_urange_sfx s : sfx (snd (consume_urange s)) s.
Proof.
  unfold consume_urange.
  pose proof (span_n_sfx hexdig 6 s) as H1. destruct (span_n hexdig 6 s) as [h r1].
  pose proof (span_n_sfx (fun c => c =? 63) (6 - length h) r1) as H2.
  destruct (span_n (fun c => c =? 63) (6 - length h) r1) as [q r2]. cbn [snd] in *.
  assert (H12 : sfx r2 s) by (eapply sfx_trans; eauto).
  destruct q; [|exact H12].
  destruct r2 as [|m [|c r]]; cbn [snd]; try exact H12.
  destruct ((m =? 45) && hexdig c); [|exact H12].
  pose proof (span_n_sfx hexdig 6 (c :: r)) as H3. destruct (span_n hexdig 6 (c :: r)) as [h2 r3].
  cbn [snd] in *. eapply sfx_trans; [exact H3|]. eapply sfx_tl; eauto.
Qed.

Lemma consume_number_sfx s repr k : consume_number s = Some (repr, k) -> sfx k s.
Proof. intros H. destruct (consume_number_inv s repr k H) as (-> & _). exists repr. reflexivity. Qed.

Lemma lex_step_sfx skip s : sfx (snd (lex_step skip s)) s.
Proof.
  destruct s as [|c r]; [apply sfx_refl|]. unfold lex_step.
  destruct (whitespace c).
  { pose proof (span_sfx whitespace r). destruct (span whitespace r). cbn [snd] in *. auto with sfx. }
  destruct (starts_urange (c :: r)) eqn:Eur.
  { unfold starts_urange in Eur. destruct r as [|p [|d r']]; try discriminate.
    cbn [tl]. pose proof (consume_urange_sfx (d :: r')). destruct (consume_urange (d :: r')) as [[a b] k].
    cbn [snd] in *. auto with sfx. }
  destruct (has_prefix [45; 45; 62] (c :: r)) eqn:Ecdc.
  { cbn [snd]. destruct r as [|x [|y r']]; cbn [has_prefix] in Ecdc; rewrite ?andb_false_r in Ecdc;
      try discriminate Ecdc. cbn [skipn]. auto with sfx. }
  destruct (starts_ident (c :: r)) eqn:Eid.
  { unfold lex_ident_like.
    pose proof (consume_name_sfx (length (c :: r)) (c :: r)) as Hp.
    destruct (consume_name (length (c :: r)) (c :: r)) as [v k]. cbn [snd] in Hp.
    destruct (head_is 40 k) eqn:E40; [|exact Hp].
    destruct k as [|x k1]; [discriminate|]. cbn [tl].
    assert (Hk1 : sfx k1 (c :: r)) by (eapply sfx_tl; eauto).
    destruct (is_url_name v); [|exact Hk1].
    destruct (head_is 34 (skip_ws k1) || head_is 39 (skip_ws k1)); [exact Hk1|].
    pose proof (skip_ws_sfx k1). pose proof (consume_url_sfx (S (length (skip_ws k1))) (skip_ws k1)).
    destruct (consume_url (S (length (skip_ws k1))) (skip_ws k1)); cbn [snd url_rest] in *;
      try apply sfx_nil; eapply sfx_trans; eauto; eapply sfx_trans; eauto. }
  destruct (consume_number (c :: r)) as [[repr k]|] eqn:Enum.
  { pose proof (consume_number_sfx _ _ _ Enum) as Hk. unfold lex_numeric. destruct (starts_ident k).
    - pose proof (consume_name_sfx (length k) k). destruct (consume_name (length k) k). cbn [snd] in *.
      eapply sfx_trans; eauto.
    - destruct (head_is 37 k) eqn:E37; cbn [snd]; [|exact Hk].
      destruct k as [|x k']; [discriminate|]. cbn [tl]. eapply sfx_tl; eauto. }
  unfold lex_punct.
  destruct (c =? 64).
  { destruct (starts_ident r); [|cbn; auto with sfx].
    pose proof (consume_name_sfx (length r) r). destruct (consume_name (length r) r). cbn [snd] in *. auto with sfx. }
  destruct (c =? 35).
  { destruct (head_sat_name r || valid_escape r); [|cbn; auto with sfx].
    pose proof (consume_name_sfx (length r) r). destruct (consume_name (length r) r). cbn [snd] in *. auto with sfx. }
  destruct (is_open c); [cbn; auto with sfx|]. destruct (is_close c); [cbn; auto with sfx|].
  destruct (is_quote c).
  { pose proof (consume_string_sfx (S (length r)) c r).
    destruct (consume_string (S (length r)) c r) as [[v en] k]. destruct en; cbn [snd] in *; auto with sfx. }
  destruct (has_prefix [47; 42] (c :: r)) eqn:Ecom.
  { destruct r as [|x r']; [cbn [has_prefix] in Ecom; rewrite ?andb_false_r in Ecom; discriminate Ecom|]. cbn [tl].
    destruct (find_comment_end r') as [[txt k]|] eqn:Ef; cbn [snd]; [|apply sfx_nil].
    destruct (find_comment_end_sfx _ _ _ Ef) as [H _]. auto with sfx. }
  unfold lex_delim.
  destruct (has_prefix [60; 33; 45; 45] (c :: r)) eqn:E1.
  { destruct r as [|x [|y [|z r']]]; cbn [has_prefix] in E1; rewrite ?andb_false_r in E1; try discriminate E1.
    cbn [snd skipn]. auto with sfx. }
  destruct (has_prefix [124; 124] (c :: r)) eqn:E2.
  { destruct r as [|x r']; [cbn [has_prefix] in E2; rewrite ?andb_false_r in E2; discriminate E2|]. cbn [snd tl]. auto with sfx. }
  destruct (cmp_delim c && head_is 61 r) eqn:E3.
  { destruct r as [|x r']; [cbn [head_is] in E3; rewrite andb_false_r in E3; discriminate|]. cbn [snd tl]. auto with sfx. }
  cbn [snd]. auto with sfx.
Qed.

(* ------------------------------------------------------------------ values produced from a clean input *)
Lemma clean_head c r : clean (c :: r) = true -> clean_cp c = true /\ clean r = true.
Proof. rewrite clean_cons. intros H. apply andb_true_iff in H. exact H. Qed.

Lemma scalar_nonzero v : negb (scalar_or_fffd v =? 0) = true.
Proof.
  unfold scalar_or_fffd. destruct ((v =? 0) || surrogate v || (1114111 <? v)) eqn:E; [reflexivity|]. lia.
Qed.

Lemma consume_escape_val s : clean s = true -> negb (fst (consume_escape s) =? 0) = true.
Proof.
  intros Hs. unfold consume_escape. destruct s as [|c r]; [reflexivity|].
  destruct (clean_head _ _ Hs) as [Hc _].
  destruct (hexdig c).
  - destruct (hex_run 5 (hexval c) r) as [v r1]. cbn [fst]. apply scalar_nonzero.
  - cbn [fst]. unfold clean_cp in Hc. lia.
Qed.

Lemma no_nul_cons c v : no_nul (c :: v) = negb (c =? 0) && no_nul v.
Proof. reflexivity. Qed.

Lemma consume_name_no_nul f : forall s, clean s = true -> no_nul (fst (consume_name f s)) = true.
Proof.
  induction f as [|f IH]; intros s Hs; [reflexivity|].
  destruct s as [|c r]; [reflexivity|]. destruct (clean_head _ _ Hs) as [Hc Hr]. cbn [consume_name].
  destruct (name_cp c).
  - specialize (IH r Hr). destruct (consume_name f r). cbn [fst] in *. rewrite no_nul_cons, IH.
    unfold clean_cp in Hc. lia.
  - destruct (valid_escape (c :: r)); [|reflexivity].
    pose proof (consume_escape_val r Hr) as He. pose proof (consume_escape_sfx r) as Hx.
    destruct (consume_escape r) as [e r1]. cbn [fst snd] in *.
    specialize (IH r1 (sfx_clean _ _ Hx Hr)). destruct (consume_name f r1). cbn [fst] in *.
    rewrite no_nul_cons, IH, He. reflexivity.
Qed.

Lemma consume_name_nonempty f c r :
  (0 < f)%nat -> name_cp c || valid_escape (c :: r) = true -> fst (consume_name f (c :: r)) <> [].
Proof.
  intros Hf H. destruct f; [lia|]. cbn [consume_name]. destruct (name_cp c).
  - destruct (consume_name f r). discriminate.
  - cbn [orb] in H. rewrite H. destruct (consume_escape r) as [e r1]. destruct (consume_name f r1). discriminate.
Qed.

Lemma consume_string_no_nul f q : forall s, clean s = true ->
  no_nul (fst (fst (consume_string f q s))) = true.
Proof.
  induction f as [|f IH]; intros s Hs; [reflexivity|].
  destruct s as [|c r]; [reflexivity|]. destruct (clean_head _ _ Hs) as [Hc Hr]. cbn [consume_string].
  destruct (c =? q); [reflexivity|]. destruct (c =? 10); [reflexivity|].
  destruct (c =? 92).
  - destruct r as [|d r']; [reflexivity|]. destruct (d =? 10).
    + apply IH. destruct (clean_head _ _ Hr) as [_ H]. exact H.
    + pose proof (consume_escape_val (d :: r') Hr) as He. pose proof (consume_escape_sfx (d :: r')) as Hx.
      destruct (consume_escape (d :: r')) as [e r1]. cbn [fst snd] in *.
      specialize (IH r1 (sfx_clean _ _ Hx Hr)). destruct (consume_string f q r1) as [[v en] k]. cbn [fst] in *.
      rewrite no_nul_cons, IH, He. reflexivity.
  - specialize (IH r Hr). destruct (consume_string f q r) as [[v en] k]. cbn [fst] in *.
    rewrite no_nul_cons, IH. unfold clean_cp in Hc. lia.
Qed.

Definition url_val (u : url_result) : str := match u with UOk v _ | UEof v => v | UBad _ => [] end.

Lemma consume_url_no_nul f : forall s, clean s = true -> no_nul (url_val (consume_url f s)) = true.
Proof.
  induction f as [|f IH]; intros s Hs; [reflexivity|].
  destruct s as [|c r]; [reflexivity|]. destruct (clean_head _ _ Hs) as [Hc Hr]. cbn [consume_url].
  destruct (c =? 41); [reflexivity|].
  destruct (whitespace c). { destruct (skip_ws r) as [|d k]; [reflexivity|]. destruct (d =? 41); reflexivity. }
  destruct ((c =? 34) || (c =? 39) || (c =? 40) || non_printable c); [reflexivity|].
  destruct (c =? 92).
  - destruct (valid_escape (c :: r)); [|reflexivity].
    pose proof (consume_escape_val r Hr) as He. pose proof (consume_escape_sfx r) as Hx.
    destruct (consume_escape r) as [e r1]. cbn [fst snd] in *.
    specialize (IH r1 (sfx_clean _ _ Hx Hr)). destruct (consume_url f r1); cbn [url_val] in *; try reflexivity;
      rewrite no_nul_cons, IH, He; reflexivity.
  - specialize (IH r Hr). destruct (consume_url f r); cbn [url_val] in *; try reflexivity;
      rewrite no_nul_cons, IH; unfold clean_cp in Hc; lia.
Qed.

(* hexadecimal values of at most six digits *)
Lemma hexval_lt d : hexdig d = true -> hexval d < 16.
Proof.
  intros H. unfold hexval. destruct (digit d) eqn:E1; [unf; lia|]. destruct (97 <=? d) eqn:E2; unf; lia.
Qed.

Lemma hex_str_val_lt h : forallb hexdig h = true -> hex_str_val h < 16 ^ N.of_nat (length h).
Proof.
  induction h as [|d h IH] using rev_ind; intros H; [cbn; lia|].
  rewrite forallb_app in H. apply andb_true_iff in H as [Hh Hd]. cbn in Hd. rewrite andb_true_r in Hd.
  rewrite hex_str_val_snoc, app_length. cbn [length].
  replace (N.of_nat (length h + 1)) with (N.succ (N.of_nat (length h))) by lia.
  rewrite N.pow_succ_r'. specialize (IH Hh). pose proof (hexval_lt d Hd). lia.
Qed.

Lemma hex6_bound h : forallb hexdig h = true -> (length h <= 6)%nat -> hex_str_val h <? pow16_6 = true.
Proof.
  intros H L. pose proof (hex_str_val_lt h H) as B.
  assert (16 ^ N.of_nat (length h) <= 16 ^ 6) by (apply N.pow_le_mono_r; lia).
  unfold pow16_6. change (16 ^ 6) with 16777216 in *. lia.
Qed.

Lemma span_n_spec p n : forall s a b, span_n p n s = (a, b) ->
  forallb p a = true /\ (length a <= n)%nat.
Proof.
  induction n as [|n IH]; intros s a b H.
  - destruct s; cbn in H; injection H as <- <-; cbn; auto.
  - destruct s as [|c s]; [cbn in H; injection H as <- <-; cbn; split; [reflexivity|lia]|].
    cbn [span_n] in H. destruct (p c) eqn:Hc.
    + destruct (span_n p n s) as [a' b'] eqn:E. injection H as <- <-.
      destruct (IH s a' b' E) as [H1 H2]. cbn. rewrite Hc, H1. split; [reflexivity|lia].
    + injection H as <- <-. cbn. split; [reflexivity|lia].
Qed.

Lemma repeat_hexdig c n : hexdig c = true -> forallb hexdig (repeat c n) = true.
Proof. intros H. induction n; [reflexivity|]. cbn. rewrite H. exact IHn. Qed.

Lemma consume_urange_bound s a b k : consume_urange s = (a, b, k) ->
  (a <? pow16_6) && (b <? pow16_6) = true.
Proof.
  unfold consume_urange.
  destruct (span_n hexdig 6 s) as [h r1] eqn:E1. destruct (span_n_spec _ _ _ _ _ E1) as [Hh Lh].
  destruct (span_n (fun c => c =? 63) (6 - length h) r1) as [q r2] eqn:E2.
  destruct (span_n_spec _ _ _ _ _ E2) as [_ Lq].
  destruct q as [|q0 q'].
  - destruct r2 as [|m [|c r]].
    + intros H. injection H as <- <- <-. rewrite hex6_bound; auto.
    + intros H. injection H as <- <- <-. rewrite hex6_bound; auto.
    + destruct ((m =? 45) && hexdig c).
      * destruct (span_n hexdig 6 (c :: r)) as [h2 r3] eqn:E3. destruct (span_n_spec _ _ _ _ _ E3) as [Hh2 Lh2].
        intros H. injection H as <- <- <-. rewrite !hex6_bound; auto.
      * intros H. injection H as <- <- <-. rewrite hex6_bound; auto.
  - intros H. injection H as <- <- <-.
    change (48 :: repeat 48 (length q')) with (repeat 48 (length (q0 :: q'))).
    change (70 :: repeat 70 (length q')) with (repeat 70 (length (q0 :: q'))).
    rewrite !hex6_bound; auto; try (rewrite app_length, repeat_length; lia);
      rewrite forallb_app, Hh; apply repeat_hexdig; reflexivity.
Qed.

(* number representations *)
Lemma num_stop_nil : num_stop [] = true.
Proof. reflexivity. Qed.

Lemma consume_number_repr s repr k : consume_number s = Some (repr, k) -> number_repr repr = true.
Proof.
  intros H. destruct (consume_number_inv s repr k H) as (_ & sg & d1 & frac & ex & -> & Hp).
  unfold number_repr.
  pose proof (consume_number_parts sg d1 frac ex [] Hp num_stop_nil) as E.
  rewrite !app_nil_r in E. rewrite E. reflexivity.
Qed.

Lemma consume_number_digit c r : digit c = true -> consume_number (c :: r) <> None.
Proof.
  intros H. unfold consume_number. cbn [take_sign]. assert (E : is_sign c = false) by (unf; lia). rewrite E.
  cbn [span]. rewrite H. destruct (span digit r) as [d1 r1]. destruct (take_frac r1) as [frac r2].
  cbn [app]. destruct (take_exp r2). discriminate.
Qed.

(* comments *)
Lemma find_comment_end_inside s a b : find_comment_end s = Some (a, b) -> has_comment_end a = false.
Proof.
  revert a b. induction s as [|c r IH]; intros a b; [discriminate|].
  cbn [find_comment_end]. destruct (has_prefix [42; 47] (c :: r)) eqn:E.
  - intros H. injection H as <- <-. reflexivity.
  - destruct (find_comment_end r) as [[a' b']|] eqn:Ef; [|discriminate].
    intros H. injection H as <- <-. cbn [has_comment_end]. rewrite (IH a' b' eq_refl), orb_false_r.
    (* c :: a' does not start with "*/" because c :: r does not *)
    cbn [has_prefix] in E |- *. destruct (42 =? c); [|reflexivity]. cbn [andb] in E |- *.
    destruct r as [|d r']; [discriminate Ef|]. cbn [find_comment_end] in Ef.
    destruct (has_prefix [42; 47] (d :: r')) eqn:E'.
    + injection Ef as <- <-. reflexivity.
    + destruct (find_comment_end r') as [[a'' b'']|]; [|discriminate]. injection Ef as <- <-.
      cbn [has_prefix] in E |- *. exact E.
Qed.

Lemma find_comment_end_none s : find_comment_end s = None -> has_comment_end s = false.
Proof.
  induction s as [|c r IH]; [reflexivity|]. cbn [find_comment_end has_comment_end].
  destruct (has_prefix [42; 47] (c :: r)); [discriminate|].
  destruct (find_comment_end r) as [[a b]|]; [discriminate|]. intros _. apply IH. reflexivity.
Qed.

(* ------------------------------------------------------------------ flat tokens are well formed or carry an error *)
Definition is_leaf (t : token) : bool :=
  match t with TParens _ _ | TSquare _ _ | TCurly _ _ | TFunction _ _ _ => false | _ => true end.

Definition elem_ok (x : ftok) : bool :=
  match x with
  | FTok t => is_leaf t && (wf_tok t || has_error_flag t)
  | FFun n => name_val n
  | FOpen c => is_open c
  | FClose c => is_close c
  end.

Lemma span_forall p s : forallb p (fst (span p s)) = true.
Proof.
  induction s as [|c s IH]; [reflexivity|]. cbn [span]. destruct (p c) eqn:E; [|reflexivity].
  destruct (span p s). cbn [fst forallb] in *. rewrite E, IH. reflexivity.
Qed.

Lemma name_val_intro v : v <> [] -> no_nul v = true -> name_val v = true.
Proof. intros H1 H2. unfold name_val. rewrite H2. destruct v; [contradiction|reflexivity]. Qed.

Lemma not_starts_ident_lit1 c r :
  clean_cp c = true -> whitespace c = false -> starts_ident (c :: r) = false ->
  consume_number (c :: r) = None -> is_open c = false -> is_close c = false -> is_quote c = false ->
  lit1 c = true.
Proof.
  intros Hc Hw Hi Hn Ho Hcl Hq. unfold lit1.
  assert (Hd : digit c = false).
  { destruct (digit c) eqn:E; [|reflexivity]. exfalso. apply (consume_number_digit c r E Hn). }
  assert (Hns : name_start c = false).
  { unfold starts_ident in Hi. destruct (c =? 45) eqn:E1; [unf; lia|]. destruct (c =? 92) eqn:E2; [unf; lia|]. exact Hi. }
  unfold clean_cp in Hc. rewrite Hw, Hns, Hd, Hq, Ho, Hcl. lia.
Qed.

Lemma hash_value_shape r :
  clean r = true -> head_sat_name r || valid_escape r = true ->
  starts_ident r || hash_nonid (fst (consume_name (length r) r)) = true.
Proof.
  intros Hcl H. destruct (starts_ident r) eqn:Ei; [reflexivity|]. cbn [orb].
  destruct r as [|d r']; [discriminate|].
  unfold starts_ident in Ei.
  destruct (d =? 45) eqn:E45.
  - apply N.eqb_eq in E45. subst d. cbn [length consume_name]. change (name_cp 45) with true. cbn iota.
    destruct r' as [|e r''].
    + destruct (length (@nil N)); reflexivity.
    + apply orb_false_iff in Ei as [Ei Eve]. apply orb_false_iff in Ei as [Ens E45'].
      cbn [length consume_name]. destruct (name_cp e) eqn:Ene.
      * assert (Hd : digit e = true) by (unf; lia).
        destruct (consume_name (length r'') r''). cbn [fst hash_nonid]. rewrite Hd. reflexivity.
      * rewrite Eve. reflexivity.
  - destruct (d =? 92) eqn:E92.
    + (* a backslash that is not a valid escape is not a name code point *)
      apply N.eqb_eq in E92. subst d. cbn [head_sat_name] in H. change (name_cp 92) with false in H.
      cbn [orb] in H. rewrite H in Ei. discriminate.
    + cbn [head_sat_name] in H. unfold valid_escape in H. rewrite E92 in H. cbn [andb] in H. rewrite orb_false_r in H.
      assert (Hd : digit d = true) by (unf; lia).
      cbn [length consume_name]. rewrite H. destruct (consume_name (length r') r'). cbn [fst hash_nonid].
      rewrite Hd. reflexivity.
Qed.

Lemma lex_step_elems skip s : clean s = true -> forallb elem_ok (fst (lex_step skip s)) = true.
Proof.
  intros Hs. destruct s as [|c r]; [reflexivity|]. destruct (clean_head _ _ Hs) as [Hc Hr].
  unfold lex_step.
  destruct (whitespace c) eqn:Ew.
  { pose proof (span_forall whitespace r). destruct (span whitespace r). cbn [fst forallb elem_ok is_leaf wf_tok nonempty] in *.
    rewrite Ew, H. reflexivity. }
  destruct (starts_urange (c :: r)) eqn:Eur.
  { destruct (consume_urange (tl r)) as [[a b] k] eqn:E. cbn [fst forallb elem_ok is_leaf wf_tok].
    rewrite (consume_urange_bound _ _ _ _ E). reflexivity. }
  destruct (has_prefix [45; 45; 62] (c :: r)); [reflexivity|].
  destruct (starts_ident (c :: r)) eqn:Eid.
  { unfold lex_ident_like.
    pose proof (consume_name_no_nul (length (c :: r)) (c :: r) Hs) as Hnn.
    pose proof (consume_name_nonempty (length (c :: r)) c r ltac:(cbn; lia) (starts_ident_name _ Eid)) as Hne.
    pose proof (consume_name_sfx (length (c :: r)) (c :: r)) as Hsf.
    destruct (consume_name (length (c :: r)) (c :: r)) as [v k]. cbn [fst snd] in *.
    pose proof (name_val_intro v Hne Hnn) as Hv.
    destruct (head_is 40 k).
    - destruct (is_url_name v).
      + destruct (head_is 34 (skip_ws (tl k)) || head_is 39 (skip_ws (tl k))).
        * cbn [fst forallb elem_ok]. rewrite Hv. reflexivity.
        * assert (Hk2 : clean (skip_ws (tl k)) = true).
          { eapply sfx_clean; [|exact Hs]. eapply sfx_trans; [apply skip_ws_sfx|].
            destruct k as [|x k']; [exact Hsf|]. cbn [tl]. eapply sfx_tl; eauto. }
          pose proof (consume_url_no_nul (S (length (skip_ws (tl k)))) _ Hk2) as Hu.
          destruct (consume_url (S (length (skip_ws (tl k)))) (skip_ws (tl k))); cbn [url_val] in Hu;
            cbn [fst forallb elem_ok is_leaf wf_tok has_error_flag negb andb orb]; rewrite ?Hu; reflexivity.
      + cbn [fst forallb elem_ok]. rewrite Hv. reflexivity.
    - cbn [fst forallb elem_ok is_leaf wf_tok]. rewrite Hv. reflexivity. }
  destruct (consume_number (c :: r)) as [[repr k]|] eqn:Enum.
  { pose proof (consume_number_repr _ _ _ Enum) as Hrepr. pose proof (consume_number_sfx _ _ _ Enum) as Hk.
    unfold lex_numeric. destruct (starts_ident k) eqn:Eik.
    - pose proof (consume_name_no_nul (length k) k (sfx_clean _ _ Hk Hs)) as Hnn.
      destruct k as [|x k']; [discriminate|].
      pose proof (consume_name_nonempty (length (x :: k')) x k' ltac:(cbn; lia) (starts_ident_name _ Eik)) as Hne.
      destruct (consume_name (length (x :: k')) (x :: k')) as [u k1]. cbn [fst] in *.
      cbn [fst forallb elem_ok is_leaf wf_tok]. rewrite Hrepr, (name_val_intro u Hne Hnn), eqb_reflx. reflexivity.
    - destruct (head_is 37 k); cbn [fst forallb elem_ok is_leaf wf_tok]; rewrite Hrepr, eqb_reflx; reflexivity. }
  unfold lex_punct.
  destruct (c =? 64) eqn:E64.
  { destruct (starts_ident r) eqn:Eir; [|reflexivity].
    pose proof (consume_name_no_nul (length r) r Hr) as Hnn.
    destruct r as [|x r']; [discriminate|].
    pose proof (consume_name_nonempty (length (x :: r')) x r' ltac:(cbn; lia) (starts_ident_name _ Eir)) as Hne.
    destruct (consume_name (length (x :: r')) (x :: r')) as [v k]. cbn [fst] in *.
    cbn [fst forallb elem_ok is_leaf wf_tok]. rewrite (name_val_intro v Hne Hnn). reflexivity. }
  destruct (c =? 35) eqn:E35.
  { destruct (head_sat_name r || valid_escape r) eqn:Eh; [|reflexivity].
    pose proof (consume_name_no_nul (length r) r Hr) as Hnn.
    pose proof (hash_value_shape r Hr Eh) as Hshape.
    destruct r as [|x r']; [discriminate|].
    assert (Hne : fst (consume_name (length (x :: r')) (x :: r')) <> []).
    { apply consume_name_nonempty; [cbn; lia|]. cbn [head_sat_name] in Eh. exact Eh. }
    destruct (consume_name (length (x :: r')) (x :: r')) as [v k]. cbn [fst] in *.
    cbn [fst forallb elem_ok is_leaf wf_tok]. rewrite (name_val_intro v Hne Hnn), Hshape. reflexivity. }
  destruct (is_open c) eqn:Eo. { cbn [fst forallb elem_ok]. rewrite Eo. reflexivity. }
  destruct (is_close c) eqn:Ecl. { cbn [fst forallb elem_ok]. rewrite Ecl. reflexivity. }
  destruct (is_quote c) eqn:Eq.
  { pose proof (consume_string_no_nul (S (length r)) c r Hr) as Hnn.
    destruct (consume_string (S (length r)) c r) as [[v en] k]. cbn [fst] in Hnn.
    destruct en; cbn [fst forallb elem_ok is_leaf wf_tok has_error_flag negb andb orb]; rewrite ?Hnn; reflexivity. }
  destruct (has_prefix [47; 42] (c :: r)) eqn:Ecom.
  { destruct (find_comment_end (tl r)) as [[txt k]|] eqn:Ef.
    - destruct skip; [reflexivity|]. cbn [fst forallb elem_ok is_leaf wf_tok]. unfold comment_ok.
      rewrite (find_comment_end_inside _ _ _ Ef). cbn [negb andb].
      destruct (find_comment_end_sfx _ _ _ Ef) as [_ (mid & Emid)].
      assert (Ht : clean (tl r) = true) by (destruct r; [reflexivity|]; destruct (clean_head _ _ Hr) as [_ H]; exact H).
      rewrite Emid, clean_app in Ht. apply andb_true_iff in Ht as [Ht _]. unfold clean in Ht. rewrite Ht. reflexivity.
    - destruct skip; [reflexivity|]. cbn [fst forallb elem_ok is_leaf wf_tok]. unfold comment_ok.
      rewrite (find_comment_end_none _ Ef). cbn [negb andb].
      assert (Ht : clean (tl r) = true) by (destruct r; [reflexivity|]; destruct (clean_head _ _ Hr) as [_ H]; exact H).
      unfold clean in Ht. rewrite Ht. reflexivity. }
  unfold lex_delim.
  destruct (has_prefix [60; 33; 45; 45] (c :: r)); [reflexivity|].
  destruct (has_prefix [124; 124] (c :: r)); [reflexivity|].
  destruct (cmp_delim c && head_is 61 r) eqn:E3.
  { apply andb_true_iff in E3 as [E3 _]. cbn [fst forallb elem_ok is_leaf wf_tok wf_literal]. rewrite E3.
    change (61 =? 61) with true. rewrite andb_true_r, orb_true_r. reflexivity. }
  cbn [fst forallb elem_ok is_leaf wf_tok wf_literal].
  rewrite (not_starts_ident_lit1 c r); auto.
Qed.

(* ------------------------------------------------------------------ adjacency in the flat stream *)
Definition is_str_or_err (x : ftok) : bool :=
  match x with FTok (TString _ _ _) | FTok (TParseError _ _) => true | _ => false end.
Definition is_ws_ftok (x : ftok) : bool :=
  match x with FTok (TWhitespace _ _) => true | _ => false end.
Definition url_next (r : list ftok) : bool :=
  match r with
  | x :: r' => is_str_or_err x || (is_ws_ftok x && match r' with y :: _ => is_str_or_err y | [] => false end)
  | [] => false
  end.
Definition adj_ok (x : ftok) (r : list ftok) : bool :=
  match x with
  | FTok t => negb (is_backslash t) || match r with FTok n :: _ => newline_ws n | _ => false end
  | FFun n => negb (is_url_name n) || url_next r
  | _ => true
  end.
Fixpoint fwfb (o : list ftok) : bool :=
  match o with
  | [] => true
  | x :: r => elem_ok x && adj_ok x r && fwfb r
  end.

Definition benign (x : ftok) : bool :=
  match x with
  | FTok t => negb (is_backslash t)
  | FFun n => negb (is_url_name n)
  | _ => true
  end.

Lemma adj_ok_benign x r : benign x = true -> adj_ok x r = true.
Proof. destruct x; cbn [benign adj_ok]; intros H; try rewrite H; reflexivity. Qed.

Lemma fwfb_app_benign ts rest :
  forallb elem_ok ts = true -> forallb benign ts = true -> fwfb rest = true -> fwfb (ts ++ rest) = true.
Proof.
  induction ts as [|x ts IH]; intros He Hb Hr; [exact Hr|].
  cbn [forallb] in He, Hb. apply andb_true_iff in He as [He1 He2]. apply andb_true_iff in Hb as [Hb1 Hb2].
  cbn [app fwfb]. rewrite He1, (adj_ok_benign x _ Hb1), (IH He2 Hb2 Hr). reflexivity.
Qed.

Inductive step_shape : list ftok -> list N -> Prop :=
| ss_benign ts k : forallb benign ts = true -> step_shape ts k
| ss_backslash k : head_is 10 k = true -> step_shape [FTok (TLiteral p0 [92])] k
| ss_url v k : is_url_name v = true -> head_is 34 (skip_ws k) || head_is 39 (skip_ws k) = true ->
               step_shape [FFun v] k.

Lemma lex_step_shape skip s : step_shape (fst (lex_step skip s)) (snd (lex_step skip s)).
Proof.
  destruct s as [|c r]; [apply ss_benign; reflexivity|]. unfold lex_step.
  destruct (whitespace c). { destruct (span whitespace r). apply ss_benign; reflexivity. }
  destruct (starts_urange (c :: r)). { destruct (consume_urange (tl r)) as [[a b] k]. apply ss_benign; reflexivity. }
  destruct (has_prefix [45; 45; 62] (c :: r)); [apply ss_benign; reflexivity|].
  destruct (starts_ident (c :: r)) eqn:Eid.
  { unfold lex_ident_like. destruct (consume_name (length (c :: r)) (c :: r)) as [v k].
    destruct (head_is 40 k); [|apply ss_benign; reflexivity].
    destruct (is_url_name v) eqn:Eu.
    - destruct (head_is 34 (skip_ws (tl k)) || head_is 39 (skip_ws (tl k))) eqn:Eq.
      + apply ss_url; auto.
      + destruct (consume_url (S (length (skip_ws (tl k)))) (skip_ws (tl k))); apply ss_benign; reflexivity.
    - apply ss_benign. cbn. rewrite Eu. reflexivity. }
  destruct (consume_number (c :: r)) as [[repr k]|].
  { unfold lex_numeric. destruct (starts_ident k); [destruct (consume_name (length k) k)|destruct (head_is 37 k)];
      apply ss_benign; reflexivity. }
  unfold lex_punct.
  destruct (c =? 64). { destruct (starts_ident r); [destruct (consume_name (length r) r)|]; apply ss_benign; reflexivity. }
  destruct (c =? 35).
  { destruct (head_sat_name r || valid_escape r); [destruct (consume_name (length r) r)|]; apply ss_benign; reflexivity. }
  destruct (is_open c); [apply ss_benign; reflexivity|]. destruct (is_close c); [apply ss_benign; reflexivity|].
  destruct (is_quote c).
  { destruct (consume_string (S (length r)) c r) as [[v en] k]. destruct en; apply ss_benign; reflexivity. }
  destruct (has_prefix [47; 42] (c :: r)).
  { destruct (find_comment_end (tl r)) as [[txt k]|]; destruct skip; apply ss_benign; reflexivity. }
  unfold lex_delim.
  destruct (has_prefix [60; 33; 45; 45] (c :: r)); [apply ss_benign; reflexivity|].
  destruct (has_prefix [124; 124] (c :: r)); [apply ss_benign; reflexivity|].
  destruct (cmp_delim c && head_is 61 r); [apply ss_benign; reflexivity|].
  cbn [fst snd]. destruct (c =? 92) eqn:E92.
  - apply N.eqb_eq in E92. subst c. apply ss_backslash.
    unfold starts_ident in Eid. change (92 =? 45) with false in Eid. change (92 =? 92) with true in Eid.
    cbn iota in Eid. unfold valid_escape in Eid. change (92 =? 92) with true in Eid. cbn [andb] in Eid.
    apply negb_false_iff in Eid. exact Eid.
  - apply ss_benign. cbn. rewrite E92. reflexivity.
Qed.

Lemma lex_unfold skip f c r :
  lex skip (S f) (c :: r) = fst (lex_step skip (c :: r)) ++ lex skip f (snd (lex_step skip (c :: r))).
Proof. cbn [lex]. destruct (lex_step skip (c :: r)). reflexivity. Qed.

Lemma span_snd_skip_ws s : snd (span whitespace s) = skip_ws s.
Proof.
  induction s as [|c s IH]; [reflexivity|]. cbn [span skip_ws]. destruct (whitespace c); [|reflexivity].
  destruct (span whitespace s). cbn [snd] in *. exact IH.
Qed.

Lemma lex_head_newline skip f k :
  head_is 10 k = true -> (length k < f)%nat ->
  exists w rest, lex skip f k = FTok (TWhitespace p0 (10 :: w)) :: rest.
Proof.
  intros Hh Hf. destruct k as [|c r]; [discriminate|]. cbn [head_is] in Hh. apply N.eqb_eq in Hh. subst c.
  destruct f; [cbn in Hf; lia|]. rewrite lex_unfold. unfold lex_step. change (whitespace 10) with true. cbn iota.
  destruct (span whitespace r) as [w k']. cbn [fst snd app]. eauto.
Qed.

Lemma lex_quote_head skip f q r :
  is_quote q = true -> (length (q :: r) < f)%nat ->
  exists x rest, lex skip f (q :: r) = x :: rest /\ is_str_or_err x = true.
Proof.
  intros Hq Hf. destruct f; [cbn in Hf; lia|]. rewrite lex_unfold.
  assert (Hqq : q = 34 \/ q = 39) by (unf; lia).
  rewrite punct_chain by (destruct Hqq as [-> | ->]; try reflexivity; lia).
  unfold lex_punct.
  assert (E1 : q =? 64 = false) by (destruct Hqq as [-> | ->]; reflexivity).
  assert (E2 : q =? 35 = false) by (destruct Hqq as [-> | ->]; reflexivity).
  assert (E3 : is_open q = false) by (destruct Hqq as [-> | ->]; reflexivity).
  assert (E4 : is_close q = false) by (destruct Hqq as [-> | ->]; reflexivity).
  rewrite E1, E2, E3, E4, Hq.
  destruct (consume_string (S (length r)) q r) as [[v en] k]. destruct en; cbn [fst snd app]; eauto.
Qed.

Lemma lex_head_quote skip f k :
  head_is 34 (skip_ws k) || head_is 39 (skip_ws k) = true -> (S (length k) < f)%nat ->
  url_next (lex skip f k) = true.
Proof.
  intros Hq Hf. destruct k as [|c r]; [discriminate|].
  destruct (whitespace c) eqn:Ew.
  - (* a whitespace token, then the string *)
    destruct f; [lia|]. rewrite lex_unfold. unfold lex_step. rewrite Ew.
    pose proof (span_snd_skip_ws r) as Esp. pose proof (span_len whitespace r) as Hl.
    destruct (span whitespace r) as [w k']. cbn [fst snd app] in *. subst k'.
    cbn [skip_ws] in Hq. rewrite Ew in Hq.
    destruct (skip_ws r) as [|q r'] eqn:Ek; [discriminate|].
    assert (Hqq : is_quote q = true) by (cbn [head_is] in Hq; unf; lia).
    destruct (lex_quote_head skip f q r' Hqq) as (x & rest & -> & Hx). { cbn [length] in *. lia. }
    cbn [url_next is_str_or_err is_ws_ftok]. rewrite Hx. reflexivity.
  - cbn [skip_ws] in Hq. rewrite Ew in Hq.
    assert (Hqq : is_quote c = true) by (cbn [head_is] in Hq; unf; lia).
    destruct (lex_quote_head skip f c r Hqq) as (x & rest & -> & Hx). { cbn [length] in *. lia. }
    cbn [url_next]. rewrite Hx. reflexivity.
Qed.

Theorem lex_fwfb skip f : forall s, clean s = true -> (S (length s) < f)%nat -> fwfb (lex skip f s) = true.
Proof.
  induction f as [|f IH]; intros s Hs Hf; [lia|].
  destruct s as [|c r]; [reflexivity|]. rewrite lex_unfold.
  pose proof (lex_step_elems skip (c :: r) Hs) as He.
  pose proof (lex_step_shape skip (c :: r)) as Hsh.
  pose proof (lex_step_progress skip (c :: r) ltac:(discriminate)) as Hp.
  pose proof (lex_step_sfx skip (c :: r)) as Hx.
  destruct (lex_step skip (c :: r)) as [ts k]. cbn [fst snd] in *.
  assert (Hk : clean k = true) by (eapply sfx_clean; eauto).
  assert (Hrest : fwfb (lex skip f k) = true).
  { destruct k as [|d k']; [destruct f; reflexivity|]. apply IH; auto. cbn [length] in *. lia. }
  inversion Hsh as [ts' k' Hb|k' Hh|v k' Hu Hq]; subst.
  - apply fwfb_app_benign; auto.
  - cbn [app fwfb]. rewrite Hrest, andb_true_r.
    destruct (lex_head_newline skip f k Hh ltac:(cbn [length] in *; lia)) as (w & rest & ->).
    reflexivity.
  - cbn [app fwfb]. rewrite Hrest, andb_true_r. cbn [forallb] in He. rewrite andb_true_r in He. rewrite He.
    cbn [adj_ok]. rewrite Hu. cbn [negb orb andb]. apply lex_head_quote; auto. cbn [length] in *. lia.
Qed.

(* fuel beyond length + 1 does not change the result *)
Lemma lex_fuel_mono skip f : forall s, (length s < f)%nat -> lex skip f s = lex skip (S f) s.
Proof.
  induction f as [|f IH]; intros s Hf; [lia|].
  destruct s as [|c r]; [reflexivity|]. rewrite !lex_unfold.
  pose proof (lex_step_progress skip (c :: r) ltac:(discriminate)) as Hp.
  destruct (lex_step skip (c :: r)) as [ts k]. cbn [fst snd] in *. f_equal. apply IH. cbn [length] in *. lia.
Qed.

Lemma preprocess_is_clean_n n : forall s, (length s <= n)%nat -> clean (preprocess s) = true.
Proof.
  induction n as [|n IH]; intros s Hn; [destruct s; [reflexivity|cbn in Hn; lia]|].
  destruct s as [|c r]; [reflexivity|]. cbn [preprocess length] in *.
  destruct (c =? 0) eqn:E0. { rewrite clean_cons, IH by lia. reflexivity. }
  destruct (c =? 13) eqn:E13.
  { destruct r as [|d r']; [reflexivity|]. cbn [length] in Hn.
    destruct (d =? 10); rewrite clean_cons, IH by (cbn [length]; lia); reflexivity. }
  destruct (c =? 12) eqn:E12. { rewrite clean_cons, IH by lia. reflexivity. }
  rewrite clean_cons, IH by lia. unfold clean_cp. rewrite E0, E12, E13. reflexivity.
Qed.

Lemma preprocess_is_clean s : clean (preprocess s) = true.
Proof. apply (preprocess_is_clean_n (length s)). lia. Qed.

Theorem tokenize_flat_wf skip src :
  fwfb (lex skip (S (length (preprocess src))) (preprocess src)) = true.
Proof.
  set (s := preprocess src).
  rewrite (lex_fuel_mono skip (S (length s)) s) by lia.
  rewrite (lex_fuel_mono skip (S (S (length s))) s) by lia.
  apply lex_fwfb; [apply preprocess_is_clean|lia].
Qed.
