(* Css/Counters.v -- executable model of /repo/css/counters/counters.go
   (tree after the C19 `fix:` commits, see notes/C19.md).  NO PROOFS HERE.

   Conventions
   * Go `int` -> Z.  `/` and `%` go through Base/GoSem (`go_div`, `go_mod`:
     truncating, Panic on a zero divisor); every `s[i]` goes through
     `GoSem.index` (Panic when out of range); `strings.Repeat` panics on a
     negative count.  Panic sites are the line numbers of counters.go.
   * Go strings -> `list N` of Unicode code points (what `for _, r := range s`
     yields).  The only length the code takes is `utf8.RuneCountInString`
     (counters.go:251-253) = `length` here.  Names (style names, system
     keywords) are strings too: the code looks system names up in the same
     map as style names (`c[system]`, counters.go:34-42).
   * `CounterStyle` (a Go map) -> association list `table`, first match wins
     (the harness emits every key once).
   * `utils.Set` previousTypes (mutated in place, shared between
     `renderValue` and `resolveCounter`) -> a `list str` threaded through:
     `resolve_counter` returns the updated set.  A nil set behaves as the
     empty one (counters.go:72-77, 144-146).
   * `pr.NamedString{Name, String}` -> `NS kind s`, kind 0 = Name "" ,
     1 = Name "string", 2 = any other Name ("url", ...): the code only
     compares Name with "string" (symbol(), counters.go:268) and the whole
     struct with the zero value (IsNone).
   * `CounterStyleSystem{Extends, System, Number}`: Extends is "" or
     "extends" (descriptors.go:250-270): a bool.
   * nil vs empty slices: `Symbols == nil` (merge, counters.go:466) is
     modelled as `[]`; the parser never stores an empty non-nil slice
     (descriptors.go symbols/additiveSymbols reject an empty list). *)
From Verif Require Export Base.GoSem.
From Coq Require Import List ZArith NArith Bool.
Import ListNotations.
Open Scope Z_scope.

Notation str := (list N) (only parsing).

Fixpoint str_eqb (a b : str) : bool :=
  match a, b with
  | [], [] => true
  | x :: a', y :: b' => N.eqb x y && str_eqb a' b'
  | _, _ => false
  end.

(* ---------------------------------------------------------------- data *)

Inductive nstr := NS (kind : N) (s : str).
Definition ns_kind (n : nstr) := let 'NS k _ := n in k.
Definition ns_str (n : nstr) := let 'NS _ s := n in s.
Definition ns_zero := NS 0 [].
Definition ns_string (s : str) := NS 1 s.

(* pr.NamedString.IsNone, types.go:508 *)
Definition ns_is_none (n : nstr) : bool :=
  N.eqb (ns_kind n) 0 && match ns_str n with [] => true | _ => false end.

(* symbol(), counters.go:268-273 *)
Definition symbol (n : nstr) : str :=
  if N.eqb (ns_kind n) 1 then ns_str n else [].

Inductive rng := Rg (lo hi : Z).
Inductive addsym := Ad (w : Z) (s : nstr).
Definition ad_w (a : addsym) := let 'Ad w _ := a in w.
Definition ad_s (a : addsym) := let 'Ad _ s := a in s.

Record system := Sys { sy_extends : bool; sy_name : str; sy_number : Z }.
Definition sys_zero := Sys false [] 0.
Definition sys_is_zero (s : system) : bool :=
  negb (sy_extends s) && match sy_name s with [] => true | _ => false end && (sy_number s =? 0).

(* CounterStyleDescriptors, counters.go:396-406 *)
Record descr := Descr {
  d_neg0 : nstr; d_neg1 : nstr;       (* Negative [2]NamedString *)
  d_prefix : nstr; d_suffix : nstr;
  d_fallback : str;
  d_system : system;
  d_pad_int : Z; d_pad_sym : nstr;    (* Pad IntNamedString *)
  d_symbols : list nstr;
  d_additive : list addsym;
  d_ranges : list rng; d_range_auto : bool   (* pr.OptionalRanges *)
}.

Inductive entry := En (name : str) (d : descr).
Definition table := list entry.

(* string constants (ASCII) *)
Definition s_decimal : str := [100;101;99;105;109;97;108]%N.
Definition s_symbolic : str := [115;121;109;98;111;108;105;99]%N.
Definition s_cyclic : str := [99;121;99;108;105;99]%N.
Definition s_fixed : str := [102;105;120;101;100]%N.
Definition s_alphabetic : str := [97;108;112;104;97;98;101;116;105;99]%N.
Definition s_numeric : str := [110;117;109;101;114;105;99]%N.
Definition s_additive : str := [97;100;100;105;116;105;118;101]%N.
Definition s_minus : str := [45]%N.
Definition s_dot_space : str := [46;32]%N.
Definition s_space : str := [32]%N.

(* Go int bounds (math.MinInt / math.MaxInt on the 64 bit targets) *)
Definition min_int : Z := - 2 ^ 63.
Definition max_int : Z := 2 ^ 63 - 1.

(* c[name] *)
Fixpoint lookup (c : table) (name : str) : option descr :=
  match c with
  | [] => None
  | En n d :: r => if str_eqb n name then Some d else lookup r name
  end.
Definition has (c : table) (name : str) : bool :=
  match lookup c name with Some _ => true | None => false end.

(* the zero value of CounterStyleDescriptors: what c[name] yields for a missing key *)
Definition descr_zero : descr :=
  Descr ns_zero ns_zero ns_zero ns_zero [] sys_zero 0 ns_zero [] [] [] false.
Definition lookup0 (c : table) (name : str) : descr :=
  match lookup c name with Some d => d | None => descr_zero end.

Fixpoint mem (x : str) (l : list str) : bool :=
  match l with [] => false | y :: r => str_eqb y x || mem x r end.

(* index of the first occurrence *)
Fixpoint find_index (x : str) (l : list str) : option nat :=
  match l with
  | [] => None
  | y :: r => if str_eqb y x then Some O
              else match find_index x r with Some i => Some (S i) | None => None end
  end.

(* ---------------------------------------------------------------- merge, counters.go:444-472 *)

Definition neg_is_zero (d : descr) : bool :=
  ns_is_none (d_neg0 d) && ns_is_none (d_neg1 d).
Definition range_is_none (d : descr) : bool :=   (* types.go:576 *)
  match d_ranges d with [] => negb (d_range_auto d) | _ => false end.
Definition pad_is_none (d : descr) : bool :=     (* types.go:596 *)
  ns_is_none (d_pad_sym d) && (d_pad_int d =? 0).

Definition merge (d src : descr) : descr :=
  let nz := neg_is_zero d in
  let rn := range_is_none d in
  let pn := pad_is_none d in
  Descr
    (if nz then d_neg0 src else d_neg0 d)
    (if nz then d_neg1 src else d_neg1 d)
    (if ns_is_none (d_prefix d) then d_prefix src else d_prefix d)
    (if ns_is_none (d_suffix d) then d_suffix src else d_suffix d)
    (match d_fallback d with [] => d_fallback src | _ => d_fallback d end)
    (if sys_is_zero (d_system d) then d_system src else d_system d)
    (if pn then d_pad_int src else d_pad_int d)
    (if pn then d_pad_sym src else d_pad_sym d)
    (match d_symbols d with [] => d_symbols src | _ => d_symbols d end)
    (match d_additive d with [] => d_additive src | _ => d_additive d end)
    (if rn then d_ranges src else d_ranges d)
    (if rn then d_range_auto src else d_range_auto d).

Definition set_system (d : descr) (s : system) : descr :=
  Descr (d_neg0 d) (d_neg1 d) (d_prefix d) (d_suffix d) (d_fallback d) s
        (d_pad_int d) (d_pad_sym d) (d_symbols d) (d_additive d) (d_ranges d) (d_range_auto d).

(* fallback(), counters.go:436-441 *)
Definition fallback (d : descr) : str :=
  match d_fallback d with [] => s_decimal | f => f end.

(* ---------------------------------------------------------------- extendsChain, counters.go:27-62 *)

(* the chain is kept in order (first = counterName); `last chain` is
   chain[len(chain)-1].  One iteration of the `for` loop per unit of fuel. *)
Fixpoint extends_chain_loop (fuel : nat) (c : table) (chain : list str) : res (list str) :=
  match fuel with
  | O => OutOfFuel
  | S f =>
    let sys := d_system (lookup0 c (last chain [])) in          (* :30 *)
    if negb (sy_extends sys) then Ok chain                       (* :31-33 *)
    else
      let name := sy_name sys in                                 (* :34 *)
      let seen_at := find_index name chain in                    (* :35-41 *)
      match seen_at with
      | None =>
          if has c name then extends_chain_loop f c (chain ++ [name])   (* :42-45 *)
          else
            (* unknown style: extends decimal, :51-60 *)
            if mem s_decimal chain then Ok chain
            else match lookup c s_decimal with
                 | Some dec => if negb (sy_extends (d_system dec)) then Ok (chain ++ [s_decimal]) else Ok chain
                 | None => Ok chain
                 end
      | Some i =>
          let chain' := firstn (S i) chain in                    (* :47-50 *)
          if mem s_decimal chain' then Ok chain'
          else match lookup c s_decimal with
               | Some dec => if negb (sy_extends (d_system dec)) then Ok (chain' ++ [s_decimal]) else Ok chain'
               | None => Ok chain'
               end
      end
  end.

Definition extends_chain (c : table) (name : str) : res (list str) :=
  extends_chain_loop (S (S (length c))) c [name].

(* resolveCounter, counters.go:65-87.  Returns the descriptors (None = nil)
   and the updated previousTypes. *)
Definition resolve_counter (c : table) (name : str) (prev : list str)
  : res (option descr * list str) :=
  match lookup c name with
  | None => Ok (None, prev)                                      (* :66-69 *)
  | Some counter =>
      if mem name prev then Ok (None, prev)                      (* :72-76 *)
      else
        let prev' := name :: prev in                             (* :77 *)
        let* chain := extends_chain c name in
        let counter' :=
          fold_left (fun cnt n =>
                       let ext := lookup0 c n in
                       merge (set_system cnt (d_system ext)) ext)   (* :80-84 *)
                    (tl chain) counter in
        Ok (Some counter', prev')
  end.

(* pr.CounterStyleID{Type, Name, Symbols}, types.go:74 *)
Inductive style_id :=
| SidName (name : str)                        (* Type "" *)
| SidString (s : str)                         (* Type "string", Name = the string *)
| SidSymbols (sysname : str) (args : list str).  (* Type "symbols()" *)

(* resolveCounterStyle, counters.go:89-115 *)
Definition resolve_counter_style (c : table) (sid : style_id) (prev : list str)
  : res (option descr * list str) :=
  match sid with
  | SidName name => resolve_counter c name prev
  | SidString s =>
      Ok (Some (Descr (ns_string s_minus) (ns_string []) (ns_string []) (ns_string [])
                      s_decimal (Sys false s_cyclic (-1)) 0 ns_zero
                      [ns_string s] [] [] true), prev)
  | SidSymbols sysname args =>
      Ok (Some (Descr (ns_string s_minus) (ns_string []) (ns_string []) (ns_string s_space)
                      s_decimal
                      (Sys false sysname (if str_eqb sysname s_fixed then 1 else -1))
                      0 ns_zero (map ns_string args) [] [] true), prev)
  end.

(* ---------------------------------------------------------------- per-system algorithms *)

Fixpoint repeat_str (s : str) (n : nat) : str :=
  match n with O => [] | S k => s ++ repeat_str s k end.

(* strings.Repeat: panics on a negative count *)
Definition go_repeat (site : N) (s : str) (n : Z) : res str :=
  if n <? 0 then Panic site else Ok (repeat_str s (Z.to_nat n)).

Definition zlen {A} (l : list A) : Z := Z.of_nat (length l).

(* repeating, counters.go:276-285 *)
Definition repeating (symbols : list nstr) (value : Z) : res (option str) :=
  let L := zlen symbols in
  if L =? 0 then Ok None
  else
    let* r1 := go_mod 283 (value - 1) L in
    let* idx := go_mod 283 (r1 + L) L in
    let* sy := index 284 symbols idx in
    Ok (Some (symbol sy)).

(* the same function before commit 53832e3 (counters.go:254-259 of the
   snapshot): kept for the refutation witness in Properties/C19.v *)
Definition repeating_orig (symbols : list nstr) (value : Z) : res (option str) :=
  if zlen symbols =? 0 then Ok None
  else
    let* idx := go_mod 258 (value - 1) (zlen symbols) in
    let* sy := index 258 symbols idx in
    Ok (Some (symbol sy)).

(* nonRepeating, counters.go:288-295 *)
Definition non_repeating (symbols : list nstr) (first value : Z) : res (option str) :=
  let L := zlen symbols in
  let value := value - first in
  if (0 <=? value) && (value <? L) then
    let* sy := index 292 symbols value in Ok (Some (symbol sy))
  else Ok None.

(* symbolic, counters.go:298-307 *)
Definition symbolic (symbols : list nstr) (value : Z) : res (option str) :=
  if (zlen symbols =? 0) || (value <? 1) then Ok None
  else
    let L := zlen symbols in
    let* idx := go_mod 304 (value - 1) L in
    let* q := go_div 305 (value - 1) L in
    let* sy := index 306 symbols idx in
    let* s := go_repeat 306 (symbol sy) (q + 1) in
    Ok (Some s).

(* the loop of alphabetic, counters.go:317-321; parts are accumulated in
   reverse order (most significant first = what reverse() + Join produce) *)
Fixpoint alphabetic_loop (fuel : nat) (symbols : list nstr) (L value : Z) (acc : str) : res str :=
  match fuel with
  | O => OutOfFuel
  | S f =>
    if value =? 0 then Ok acc
    else
      let value := value - 1 in
      let* r := go_mod 319 value L in
      let* sy := index 319 symbols r in
      let* q := go_div 320 value L in
      alphabetic_loop f symbols L q (symbol sy ++ acc)
  end.

Definition digits_fuel (value : Z) : nat := S (S (Z.to_nat (Z.log2 (Z.abs value)))).

(* alphabetic, counters.go:310-324 *)
Definition alphabetic (symbols : list nstr) (value : Z) : res (option str) :=
  let L := zlen symbols in
  if (L <? 2) || (value <? 1) then Ok None
  else res_map Some (alphabetic_loop (digits_fuel value) symbols L value []).

Fixpoint numeric_loop (fuel : nat) (symbols : list nstr) (L value : Z) (acc : str) : res str :=
  match fuel with
  | O => OutOfFuel
  | S f =>
    if value =? 0 then Ok acc
    else
      let* r := go_mod 338 value L in
      let* sy := index 338 symbols r in
      let* q := go_div 339 value L in
      numeric_loop f symbols L q (symbol sy ++ acc)
  end.

(* numeric, counters.go:327-343 *)
Definition numeric (symbols : list nstr) (value : Z) : res (option str) :=
  if zlen symbols <? 2 then Ok None
  else if value =? 0 then
    let* sy := index 332 symbols 0 in Ok (Some (symbol sy))
  else
    let value := Z.abs value in
    res_map Some (numeric_loop (digits_fuel value) symbols (zlen symbols) value []).

(* the second loop of additive, counters.go:360-370 *)
Fixpoint additive_loop (symbols : list addsym) (value : Z) (acc : str) : res (option str) :=
  match symbols with
  | [] => Ok None                                               (* :371 *)
  | vs :: rest =>
    if (ad_w vs =? 0) || (value <? ad_w vs) then additive_loop rest value acc   (* :361-363 *)
    else
      let* reps := go_div 364 value (ad_w vs) in
      let* part := go_repeat 365 (symbol (ad_s vs)) reps in
      let value := value - ad_w vs * reps in
      if value =? 0 then Ok (Some (acc ++ part))
      else additive_loop rest value (acc ++ part)
  end.

(* additive, counters.go:346-372 *)
Definition additive (symbols : list addsym) (value : Z) : res (option str) :=
  if value =? 0 then
    match find (fun vs => ad_w vs =? 0) symbols with
    | Some vs => Ok (Some (symbol (ad_s vs)))
    | None => Ok None
    end
  else match symbols with
       | [] => Ok None
       | _ => additive_loop symbols value []
       end.

(* additive before commit 11846dd (counters.go:318-339 of the snapshot) *)
Fixpoint additive_loop_orig (symbols : list addsym) (value : Z) (acc : str) : res (option str) :=
  match symbols with
  | [] => Ok None
  | vs :: rest =>
      let* reps := go_div 331 value (ad_w vs) in
      let* part := go_repeat 332 (symbol (ad_s vs)) reps in
      let value := value - ad_w vs * reps in
      if value =? 0 then Ok (Some (acc ++ part))
      else additive_loop_orig rest value (acc ++ part)
  end.
Definition additive_orig (symbols : list addsym) (value : Z) : res (option str) :=
  match (if value =? 0 then find (fun vs => ad_w vs =? 0) symbols else None) with
  | Some vs => Ok (Some (symbol (ad_s vs)))
  | None => match symbols with [] => Ok None | _ => additive_loop_orig symbols value [] end
  end.

(* ---------------------------------------------------------------- renderValue, counters.go:129-266 *)

Inductive sysk := KCyclic | KFixed | KSymbolic | KAlphabetic | KNumeric | KAdditive | KOther.
Definition sysk_of (name : str) : sysk :=
  if str_eqb name s_cyclic then KCyclic
  else if str_eqb name s_fixed then KFixed
  else if str_eqb name s_symbolic then KSymbolic
  else if str_eqb name s_alphabetic then KAlphabetic
  else if str_eqb name s_numeric then KNumeric
  else if str_eqb name s_additive then KAdditive
  else KOther.

(* (extends, system, fixedNumber) of counters.go:138-141 *)
Definition system_triple (d : descr) : bool * str * Z :=
  if sys_is_zero (d_system d) then (false, s_symbolic, -1)
  else (sy_extends (d_system d), sy_name (d_system d), sy_number (d_system d)).

(* Step 2, counters.go:155-172 *)
Definition auto_range (k : sysk) : rng :=
  match k with
  | KAlphabetic | KSymbolic => Rg 1 max_int
  | KAdditive => Rg 0 max_int
  | _ => Rg min_int max_int
  end.
Definition counter_ranges (d : descr) (k : sysk) : list rng :=
  if d_range_auto d || range_is_none d then [auto_range k] else d_ranges d.
Definition in_ranges (rs : list rng) (v : Z) : bool :=
  existsb (fun r => let 'Rg lo hi := r in (lo <=? v) && (v <=? hi)) rs.

Definition uses_negative (k : sysk) : bool :=
  match k with KSymbolic | KAlphabetic | KNumeric | KAdditive => true | _ => false end.

(* outcome of the `switch system` of counters.go:203-246 *)
Inductive initial_out :=
| IOk (s : str)            (* an initial representation *)
| IDecimal                 (* return c.RenderValue(counterValue, "decimal") *)
| IFallback.               (* return c.renderValue(counterValue, fallback...) *)

Definition of_opt (o : option str) (none : initial_out) : initial_out :=
  match o with Some s => IOk s | None => none end.

Definition initial_repr (d : descr) (k : sysk) (fixed_number value : Z) : res initial_out :=
  match k with
  | KCyclic => let* o := repeating (d_symbols d) value in Ok (of_opt o IDecimal)
  | KFixed =>
      match d_symbols d with
      | [] => Ok IDecimal
      | _ => let* o := non_repeating (d_symbols d) fixed_number value in Ok (of_opt o IFallback)
      end
  | KSymbolic =>
      match d_symbols d with
      | [] => Ok IDecimal
      | _ => let* o := symbolic (d_symbols d) value in Ok (of_opt o IFallback)
      end
  | KAlphabetic =>
      if zlen (d_symbols d) <? 2 then Ok IDecimal
      else let* o := alphabetic (d_symbols d) value in Ok (of_opt o IFallback)
  | KNumeric => let* o := numeric (d_symbols d) value in Ok (of_opt o IDecimal)
  | KAdditive =>
      match d_additive d with
      | [] => Ok IDecimal
      | _ => let* o := additive (d_additive d) value in Ok (of_opt o IFallback)
      end
  | KOther => Ok (IOk [])
  end.

(* Steps 3-6 for a counter whose range contains the value; counters.go:178-265 *)
Definition render_in_range (d : descr) (k : sysk) (fixed_number v : Z) : res initial_out :=
  let is_negative := v <? 0 in
  let '(np, nsf) :=
    if neg_is_zero d then (s_minus, []) else (symbol (d_neg0 d), symbol (d_neg1 d)) in   (* :185-189 *)
  let use_negative := is_negative && uses_negative k in
  let value := if use_negative then Z.abs v else v in                               (* :194-197 *)
  let* io := initial_repr d k fixed_number value in
  match io with
  | IOk initial =>
      let pad_diff := d_pad_int d - zlen initial in                                   (* :251 *)
      let pad_diff := if use_negative then pad_diff - (zlen np + zlen nsf) else pad_diff in
      let* initial :=
        if 0 <? pad_diff then
          let* p := go_repeat 256 (symbol (d_pad_sym d)) pad_diff in Ok (p ++ initial)
        else Ok initial in
      Ok (IOk (if use_negative then np ++ initial ++ nsf else initial))              (* :260-262 *)
  | other => Ok other
  end.

Fixpoint render_value (fuel : nat) (c : table) (v : Z) (counter : option descr) (prev : list str)
  : res str :=
  match fuel with
  | O => OutOfFuel
  | S f =>
    (* thunks: vm_compute is call-by-value *)
    let decimal := fun _ : unit =>          (* c.RenderValue(counterValue, "decimal") *)
      let* (r, _) := resolve_counter c s_decimal [] in
      render_value f c v r [] in
    match counter with
    | None => if has c s_decimal then decimal tt else Ok []      (* :130-136 *)
    | Some d =>
      let '(ext, sysname, fixed_number) := system_triple d in
      if (ext : bool) then Ok []                                 (* :148-152 *)
      else
        let k := sysk_of sysname in
        let fb := fun _ : unit =>                                (* :175, 215, ... *)
          let* (r, prev') := resolve_counter c (fallback d) prev in
          render_value f c v r prev' in
        if negb (in_ranges (counter_ranges d k) v) then fb tt    (* :174-176 *)
        else
          let* io := render_in_range d k fixed_number v in
          match io with
          | IOk s => Ok s
          | IDecimal => decimal tt
          | IFallback => fb tt
          end
    end
  end.

Definition render_fuel (c : table) : nat := length c + 4.

(* RenderValue, counters.go:120-122 *)
Definition RenderValue (c : table) (v : Z) (name : str) : res str :=
  let* (r, _) := resolve_counter c name [] in
  render_value (render_fuel c) c v r [].

(* RenderValueStyle, counters.go:125-127 *)
Definition RenderValueStyle (c : table) (v : Z) (sid : style_id) : res str :=
  let* (r, _) := resolve_counter_style c sid [] in
  render_value (render_fuel c) c v r [].

(* RenderMarker, counters.go:375-394 *)
Definition render_marker_of (c : table) (v : Z) (counter : descr) : res str :=
  let prefix := symbol (d_prefix counter) in
  let suffix := if ns_is_none (d_suffix counter) then ns_string s_dot_space else d_suffix counter in
  let* value := render_value (render_fuel c) c v (Some counter) [] in
  Ok (prefix ++ value ++ symbol suffix).

Definition RenderMarker (c : table) (sid : style_id) (v : Z) : res str :=
  let* (r, _) := resolve_counter_style c sid [] in
  match r with
  | Some counter => render_marker_of c v counter
  | None =>
      if has c s_decimal then
        (* c.RenderMarker(CounterStyleID{Name: "decimal"}, counterValue): the
           recursion stops here because "decimal" is defined *)
        let* (r2, _) := resolve_counter c s_decimal [] in
        match r2 with
        | Some counter => render_marker_of c v counter
        | None => Ok []     (* not reachable: has c decimal *)
        end
      else Ok []
  end.
