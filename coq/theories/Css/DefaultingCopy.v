(* Css/DefaultingCopy.v -- model of ComputedStyle.Copy / AnonymousStyle.Copy
   (html/tree/style.go:388-392, 581-585), model only, no proofs.

   A copy is a NEW style object built from the same inputs as its source: same
   c.parentStyle, same c.cascaded (the same Go map), same element / pseudo type,
   same text context.  In the document model a style object is a node of the
   tree, so the copy is a node `dst` that is a duplicate of the node `src`
   (`node_at t dst = node_at t src`: parent, kind, declarations, recorded oracle
   results and font metrics); what Copy() does to the STATE is below.
   boxes.wrapTable, the flex layout (every flex item), columns and leaders copy styles
   in the middle of a layout, i.e. at an arbitrary point of the access history. *)
From Verif Require Export Css.Defaulting.
From Coq Require Import NArith List FMapPositive.
Import ListNotations.
Open Scope N_scope.

(* propsCache.updateWith (style.go:303-315): every entry of `other` is written over `c` *)
Definition cache_update (c other : PositiveMap.t value) : PositiveMap.t value :=
  PositiveMap._map2 (fun o1 o2 => match o2 with Some v => Some v | None => o1 end) c other.

Section Copy.
  Variable ar : arith.
  Variable fixed : bool.
  Variable t : tree.

  (* dst := src.Copy() *)
  Definition copy_style (st : styles) (src dst : N) : styles * res unit :=
    match node_at t dst, chain_of t dst with
    | Some nd, _ :: anc =>
        let is_root := is_last anc in
        let parent_get := fun st q => get_chain ar fixed t anc st q in
        match n_kind nd with
        | KElem =>
            (* 389: newComputedStyle(c.parentStyle, c.cascaded, ..., c.rootStyle, ...): the
               specified position / display / float are cascaded again (375-381), the root font
               size is the source's; no GetAnchor(), no root.GetFontSize() *)
            let hp := parent_handler is_root parent_get in
            let '(st2, r2) := run_st hp st (cascade_value fixed is_root nd PPosition) in
            match r2 with Panic s => (st2, Panic s) | OutOfFuel => (st2, OutOfFuel) | Ok (pos, _) =>
            let '(st3, r3) := run_st hp st2 (cascade_value fixed is_root nd PDisplay) in
            match r3 with Panic s => (st3, Panic s) | OutOfFuel => (st3, OutOfFuel) | Ok (disp, _) =>
            let '(st4, r4) := run_st hp st3 (cascade_value fixed is_root nd PFloat) in
            match r4 with Panic s => (st4, Panic s) | OutOfFuel => (st4, OutOfFuel) | Ok (fl, _) =>
            (* 390: out.propsCache.updateWith(c.propsCache) on the empty cache *)
            let s0 := style_of st4 src in
            (PositiveMap.add (nkey dst)
               (mkStyle (cache_update (PositiveMap.empty value) (s_cache s0)) (s_rootfs s0) pos disp fl) st4, Ok tt)
            end end end
        | KAnon =>
            (* 582: newAnonymousStyle(c.parentStyle) (presets, GetDisplay / GetFloat / GetPosition),
               583: updateWith *)
            let '(st1, r1) := construct ar fixed t st dst in
            match r1 with
            | Ok _ =>
                let s := style_of st1 dst in
                (PositiveMap.add (nkey dst) (with_cache s (cache_update (s_cache s) (s_cache (style_of st1 src)))) st1, Ok tt)
            | Panic s => (st1, Panic s) | OutOfFuel => (st1, OutOfFuel)
            end
        end
    | _, _ => (st, Panic 8)
    end.

  (* histories with copies *)
  Inductive xop := XGet (n p : N) | XConstruct (n : N) | XCopy (src dst : N).

  Definition xstep (st : styles) (o : xop) : styles * res (option value) :=
    match o with
    | XGet n p => step ar fixed t st (OGet n p)
    | XConstruct n => step ar fixed t st (OConstruct n)
    | XCopy src dst => let '(st', r) := copy_style st src dst in (st', res_map (fun _ => None) r)
    end.

  Fixpoint run_xops (st : styles) (ops : list xop) : styles * list (res (option value)) :=
    match ops with
    | [] => (st, [])
    | o :: r => let '(st', x) := xstep st o in
                let '(st'', xs) := run_xops st' r in (st'', x :: xs)
    end.
End Copy.
