(* Css/SelSpec.v -- Selectors Level 4 as a declarative specification:
   which elements of a document tree a selector represents, and its
   specificity.  Independent of the code: relations with existential
   witnesses, no loops, no truncating arithmetic.

   Shared with the model (Css/Sel.v): the data types only (byte strings,
   `node`, `path`, the selector syntax `sel`, `spec3`) and tree addressing
   `node_at`.

   References: Selectors 4 (https://www.w3.org/TR/selectors-4/) sections
   5 (type, universal), 6 (attribute, class, id), 4.2-4.5 (:is, :not, :has),
   13 (structural pseudo-classes, An+B from CSS Syntax 3 section 6),
   14 (combinators), 16 (specificity). *)
From Verif Require Import Css.Sel.
From Coq Require Import List ZArith NArith Bool.
Import ListNotations.

(* ------------------------------------------------------------------ strings *)

(* document white space (Selectors 4 section 6.1 "whitespace-separated", HTML "ASCII whitespace") *)
Definition ws (c : N) : Prop := c = 32%N \/ c = 9%N \/ c = 10%N \/ c = 12%N \/ c = 13%N.

Definition ascii_lower (c : N) : N := if ((65 <=? c) && (c <=? 90))%N then (c + 32)%N else c.
(* equality of strings, ASCII case-insensitively when the selector has the `i` flag *)
Definition eq_mod_case (ic : bool) (x y : str) : Prop :=
  if ic then Forall2 (fun a b => ascii_lower a = ascii_lower b) x y else x = y.

(* 6.1 [att~=val]: "a whitespace-separated list of words, one of which is exactly val.
   If val contains whitespace, it will never represent anything (since the words are
   separated by spaces). Also if val is the empty string, it will never represent anything." *)
Definition ends_word (pre : str) : Prop := pre = [] \/ exists pre' c, pre = pre' ++ [c] /\ ws c.
Definition starts_word (post : str) : Prop := post = [] \/ exists c post', post = c :: post' /\ ws c.
Definition v_includes (ic : bool) (v val : str) : Prop :=
  val <> [] /\ (forall c, In c val -> ~ ws c) /\
  exists pre w post, v = pre ++ w ++ post /\ eq_mod_case ic w val /\ ends_word pre /\ starts_word post.
(* 6.1 [att|=val]: "exactly val or beginning with val immediately followed by -" *)
Definition v_dash (ic : bool) (v val : str) : Prop :=
  eq_mod_case ic v val \/ exists w rest, v = w ++ 45%N :: rest /\ eq_mod_case ic w val.
(* 6.2 [att^=val] [att$=val] [att*=val]: "If val is the empty string then the selector does not represent anything." *)
Definition v_prefix (ic : bool) (v val : str) : Prop :=
  val <> [] /\ exists w rest, v = w ++ rest /\ eq_mod_case ic w val.
Definition v_suffix (ic : bool) (v val : str) : Prop :=
  val <> [] /\ exists rest w, v = rest ++ w /\ eq_mod_case ic w val.
Definition v_substr (ic : bool) (v val : str) : Prop :=
  val <> [] /\ exists pre w post, v = pre ++ w ++ post /\ eq_mod_case ic w val.

(* ------------------------------------------------------------------ An+B *)

(* CSS Syntax 3 section 6: "An+B represents the positions a*n+b for every non-negative integer n" *)
Definition anb_ok (a b i : Z) : Prop := exists n : Z, (0 <= n)%Z /\ i = (a * n + b)%Z.

(* number of members of l satisfying P *)
Inductive count (P : node -> Prop) : list node -> nat -> Prop :=
| count_nil : count P [] 0
| count_yes c l k : P c -> count P l k -> count P (c :: l) (S k)
| count_no c l k : ~ P c -> count P l k -> count P (c :: l) k.

(* ------------------------------------------------------------------ the match relation *)

Section Spec.
Variable d : node.

(* p addresses an element node n *)
Definition element (p : path) (n : node) : Prop := node_at d p = Some n /\ ntype_of n = TElement.
Definition is_element (p : path) : Prop := exists n, element p n.

(* n has an attribute named key whose value satisfies P *)
Definition attribute (n : node) (key : str) (P : str -> Prop) : Prop :=
  exists a, In a (attrs_of n) /\ akey a = key /\ P (aval a).

(* tree relations on paths (innermost index first) *)
Definition ancestor (q p : path) : Prop := exists l, l <> [] /\ p = l ++ q.   (* q is a proper ancestor of p *)
Definition parent (q p : path) : Prop := exists k, p = k :: q.
Definition earlier_sibling (r p : path) : Prop := exists j k q, r = j :: q /\ p = k :: q /\ (j < k)%nat.
(* r is the nearest preceding sibling of p that is an element *)
Definition prev_element_sibling (r p : path) : Prop :=
  exists j k q, r = j :: q /\ p = k :: q /\ (j < k)%nat /\ is_element r /\
                forall m, (j < m < k)%nat -> ~ is_element (m :: q).

(* siblings that count for :nth-child / :nth-of-type of element n *)
Definition counted (ofType : bool) (n c : node) : Prop :=
  ntype_of c = TElement /\ (ofType = true -> data_of c = data_of n).

(* 13.3/13.4: "the element has an+b-1 siblings before it [after it] (of the same type)" *)
Definition nth_position (a b : Z) (last ofType : bool) (p : path) (n : node) : Prop :=
  exists k q par others,
    p = k :: q /\ node_at d q = Some par /\
    count (counted ofType n) (if last then skipn (S k) (kids_of par) else firstn k (kids_of par)) others /\
    anb_ok a b (Z.of_nat others + 1).
(* 13.3.5/13.4.5: "has no siblings (of the same type)" *)
Definition only_position (ofType : bool) (p : path) (n : node) : Prop :=
  exists k q par,
    p = k :: q /\ node_at d q = Some par /\
    count (counted ofType n) (firstn k (kids_of par)) 0 /\
    count (counted ofType n) (skipn (S k) (kids_of par)) 0.

(* 13.2 :empty: "no children except, optionally, document white space characters";
   comments and other nodes do not affect emptiness *)
Definition empty_element (n : node) : Prop :=
  forall c, In c (kids_of n) ->
    ntype_of c <> TElement /\ (ntype_of c = TText -> forall ch, In ch (data_of c) -> ws ch).

(* 13.1 :root: the element that is the root of the document: it has no parent element *)
Definition root_element (p : path) : Prop := forall q, parent q p -> ~ is_element q.

Definition combinator_rel (c : comb) (r p : path) : Prop :=
  match c with
  | CDesc => ancestor r p                 (* 14.1 *)
  | CChild => parent r p                  (* 14.2 *)
  | CAdj => prev_element_sibling r p      (* 14.3 *)
  | CSib => earlier_sibling r p           (* 14.4 *)
  end.

(* `sma s p q`: element p is represented by s, the leftmost compound selector of s
   being matched by element q (q = p unless s has combinators).  The anchor q is
   what :has() needs: its argument is a *relative* selector, absolutized as
   ":scope <descendant> s" (4.5, 3.5), so the leftmost compound must lie below
   the :has element. *)
Definition rel := path -> path -> Prop.
(* some / every member of a list of relations satisfies K *)
Definition some_of (ms : list rel) (K : rel -> Prop) : Prop := exists m, In m ms /\ K m.
Definition each_of (ms : list rel) (K : rel -> Prop) : Prop := forall m, In m ms -> K m.

Fixpoint sma (s : sel) (p q : path) {struct s} : Prop :=
  match s with
  | SCombined a c b =>
      (exists qb, sma b p qb) /\ exists r, combinator_rel c r p /\ sma a r q
  | _ =>
      q = p /\ exists n, element p n /\
      match s with
      | STag t => data_of n = t                                       (* 5.1 *)
      | SClass c => attribute n s_class (fun v => v_includes false v c)  (* 6.6 *)
      | SId i => attribute n s_id (fun v => v = i)                    (* 6.7 *)
      | SAttr key val op ic =>                                        (* 6.1 - 6.3 *)
          match op with
          | OpExists => attribute n key (fun _ => True)
          | OpEq => attribute n key (fun v => eq_mod_case ic v val)
          | OpNe => ~ attribute n key (fun v => eq_mod_case ic v val)   (* not in Selectors: [a!=v] is :not([a=v]) *)
          | OpIncludes => attribute n key (fun v => v_includes ic v val)
          | OpDash => attribute n key (fun v => v_dash ic v val)
          | OpPrefix => attribute n key (fun v => v_prefix ic v val)
          | OpSuffix => attribute n key (fun v => v_suffix ic v val)
          | OpSubstr => attribute n key (fun v => v_substr ic v val)
          end
      | SRel RIs g => some_of (map sma g) (fun m => exists q', m p q')     (* 4.2 *)
      | SRel RNot g => ~ some_of (map sma g) (fun m => exists q', m p q')  (* 4.3 *)
      | SRel RHas g =>                                                (* 4.5 *)
          some_of (map sma g) (fun m => exists p' q', m p' q' /\ ancestor p q')
      | SRel RHasChild g =>                                           (* not in Selectors: an element child matches *)
          some_of (map sma g) (fun m => exists k q', m (k :: p) q')
      | SNth a b last ofType => nth_position a b last ofType p n      (* 13.3, 13.4 *)
      | SOnly ofType => only_position ofType p n
      | SEmpty => empty_element n
      | SRoot => root_element p
      | SNever _ => False            (* :hover, :visited, ...: never apply to a static rendering *)
      (* Pseudo-classes whose meaning the host language defines (HTML: :link, :lang(),
         :enabled, :disabled, :checked; jQuery: :input).  The property text does not
         cover them; the specification takes the implementation's reading as given. *)
      | SInput | SLink | SLang _ | SEnabled | SDisabled | SChecked => matches d s p = true
      | SCompound sels _ => each_of (map sma sels) (fun m => exists q', m p q')   (* 3.1: all simple selectors; the pseudo-element
                                                                         does not restrict the originating element *)
      | SCombined _ _ _ => False
      end
  end.

(* the element at p is represented by s *)
Definition spec_matches (s : sel) (p : path) : Prop := exists q, sma s p q.
(* 4.1 selector list: represented by any of its members *)
Definition spec_matches_group (g : list sel) (p : path) : Prop := exists s, In s g /\ spec_matches s p.

End Spec.

(* ------------------------------------------------------------------ specificity (section 16) *)

Definition lex_le (x y : spec3) : Prop :=
  (sp_a x < sp_a y)%Z \/ (sp_a x = sp_a y /\ ((sp_b x < sp_b y)%Z \/ (sp_b x = sp_b y /\ (sp_c x <= sp_c y)%Z))).
Definition plus3 (x y : spec3) : spec3 := S3 (sp_a x + sp_a y) (sp_b x + sp_b y) (sp_c x + sp_c y).

(* "the specificity of an :is(), :not(), or :has() pseudo-class is replaced by the
   specificity of the most specific complex selector in its selector list argument" *)
Definition most_specific (l : list spec3) (m : spec3) : Prop :=
  (l = [] /\ m = S3 0 0 0) \/ (In m l /\ forall x, In x l -> lex_le x m).

(* A = ID selectors, B = class, attribute selectors and pseudo-classes,
   C = type selectors and pseudo-elements; the universal selector is ignored *)
Inductive has_specificity : sel -> spec3 -> Prop :=
| hs_tag t : has_specificity (STag t) (S3 0 0 1)
| hs_class c : has_specificity (SClass c) (S3 0 1 0)
| hs_id i : has_specificity (SId i) (S3 1 0 0)
| hs_attr k v o ic : has_specificity (SAttr k v o ic) (S3 0 1 0)
| hs_rel name g l m : Forall2 has_specificity g l -> most_specific l m -> has_specificity (SRel name g) m
| hs_pseudo_class s :
    match s with
    | SNth _ _ _ _ | SOnly _ | SInput | SEmpty | SRoot | SLink | SLang _
    | SEnabled | SDisabled | SChecked | SNever _ => True
    | _ => False
    end -> has_specificity s (S3 0 1 0)
| hs_compound sels pe l :
    Forall2 has_specificity sels l ->
    has_specificity (SCompound sels pe)
      (plus3 (fold_right plus3 (S3 0 0 0) l) (match pe with [] => S3 0 0 0 | _ => S3 0 0 1 end))
| hs_combined a c b x y :
    has_specificity a x -> has_specificity b y -> has_specificity (SCombined a c b) (plus3 x y).

(* ------------------------------------------------------------------ assumptions on the tree *)

(* What html.Parse guarantees (HTML namespace) and the theorems assume; the
   correspondence check evaluates `Sel`-side boolean versions on every dumped tree. *)
Record dom_wf (d : node) : Prop := {
  (* the root of the tree is the document node *)
  wf_root : ntype_of d = TDocument;
  (* the <html> elements are exactly the elements without a parent element *)
  wf_html : forall p n, node_at d p = Some n -> ntype_of n = TElement ->
              (data_of n = s_html <-> root_element d p);
  (* only elements and the document (the root) have children *)
  wf_leaves : forall p n, node_at d p = Some n -> kids_of n <> [] -> p = [] \/ ntype_of n = TElement;
  (* among siblings, nodes other than elements, text and comments (the doctype) precede every element *)
  wf_doctype : forall q j k c e, (j < k)%nat -> node_at d (j :: q) = Some e -> ntype_of e = TElement ->
              node_at d (k :: q) = Some c ->
              ntype_of c = TElement \/ ntype_of c = TText \/ ntype_of c = TComment
}.

(* ------------------------------------------------------------------ where the code deviates: side conditions of matches_spec *)

(* every sub-selector of s (s included) satisfies P *)
Fixpoint everywhere (P : sel -> Prop) (s : sel) {struct s} : Prop :=
  P s /\
  match s with
  | SRel _ g => forall x, In x (map (everywhere P) g) -> x
  | SCompound sels _ => forall x, In x (map (everywhere P) sels) -> x
  | SCombined a _ b => everywhere P a /\ everywhere P b
  | _ => True
  end.

(* (1) The arguments of :has() are compound selectors (no combinator at their top
   level).  With combinators the code evaluates the argument against the whole
   document instead of anchoring it below the :has element (refuted: SelProofs.has_relative_refuted). *)
Definition has_args_compound (s : sel) : Prop :=
  match s with
  | SRel RHas g => forall x, In x g -> match x with SCombined _ _ _ => False | _ => True end
  | _ => True
  end.

(* (2) [a^=v] [a$=v] [a*=v] never match an attribute value that strings.TrimSpace
   reduces to "" (/repo's TestSelectors requires it), e.g. [title^=" "] on title="  ".
   Either no attribute of the document is such a non-empty blank string, or the
   selector values contain a visible ASCII byte (refuted otherwise: SelProofs.blank_attr_refuted). *)
Definition val_visible (val : str) : Prop :=
  exists c, In c val /\ (c < 128)%N /\ go_space_ascii c = false.
Definition substr_val_ok (s : sel) : Prop :=
  match s with
  | SAttr _ val (OpPrefix | OpSuffix | OpSubstr) _ => val = [] \/ val_visible val
  | _ => True
  end.
Definition doc_attrs_not_blank (d : node) : Prop :=
  forall p n a, node_at d p = Some n -> In a (attrs_of n) -> go_blank (aval a) = true -> aval a = [].

Definition sel_supported (d : node) (s : sel) : Prop :=
  everywhere has_args_compound s /\ (doc_attrs_not_blank d \/ everywhere substr_val_ok s).

(* ------------------------------------------------------------------ pseudo-elements and :is() / :not() / :has()

   Selectors 4, 4.2 "Pseudo-elements cannot be represented by the matches-any pseudo-class; they are not
   valid within :is()", 4.3 (:not), 4.5 (:has): a selector list that is the argument of a relative
   pseudo-class contains no pseudo-element, at any nesting depth. *)
Fixpoint pe_free (s : sel) : bool :=
  match s with
  | SRel _ g => forallb pe_free g
  | SCompound sels pe => match pe with [] => forallb pe_free sels | _ => false end
  | SCombined a _ b => pe_free a && pe_free b
  | _ => true
  end.
(* every argument of every relative pseudo-class occurring in s is free of pseudo-elements *)
Fixpoint rel_args_pe_free (s : sel) : bool :=
  match s with
  | SRel _ g => forallb pe_free g
  | SCompound sels _ => forallb rel_args_pe_free sels
  | SCombined a _ b => rel_args_pe_free a && rel_args_pe_free b
  | _ => true
  end.

(* a positional weight in base B: what Specificity.Less must NOT be (a column that reaches B carries) *)
Definition packed_weight (B : Z) (x : spec3) : Z := ((sp_a x * B + sp_b x) * B + sp_c x)%Z.
