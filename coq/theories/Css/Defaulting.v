(* Css/Defaulting.v -- executable model of CSS defaulting / computed values in
   /repo/html/tree: ComputedStyle.cascadeValue / Get (style.go:400-520),
   AnonymousStyle.Get (style.go:579-599), style construction
   (setComputedStyles 152-185, newComputedStyle 340-384, newAnonymousStyle
   534-566, computedFromCascaded 1065-1077) and the computer functions of
   computed_values.go that the property text names (length_, fontSize,
   fontWeight, borderWidth, display, floating, lineHeight, ...).

   MODEL ONLY: no proofs here.

   Shape of the model
   * a document is a flat list of style nodes (elements, pseudo-elements, page
     contexts, anonymous boxes), each with the index of the node its style
     inherits from;
   * `Get` is a STATE MACHINE over the per-style caches (propsCache):
        get : tree -> styles -> node -> prop -> styles * res value
     including the text-decoration / page special cases that delete from the
     cache, and the Gets performed while a style is constructed;
   * computer functions are written once as small programs (`prog`) that
     `Fetch` what the Go code reads through the style (own font size, own
     border style, parent's font size / weight, the root font size and the
     specified position/display/float captured at construction); the programs
     are run by `run_st` (threading the caches, this is `get`) and by
     `run_pure` (no cache at all, this is `computed`, the reference semantics);
   * float32 arithmetic goes through Base.F32.arith: the exactQ instance is
     what the theorems are about, the f32 instance is compared bit for bit
     with /repo by Check/C04.v;
   * Go's partial operations are explicit: type assertions and nil
     dereferences are `Panic site`; the one possible infinite recursion
     (fontSize -> length_ -> GetFontSize on a negative parent font size) is
     `OutOfFuel`.

   Panic sites:
     1  type assertion `_value.(pr.T)` in a computer function
     2  nil c.parentStyle dereferenced (style.go:447/466/492, computed_values.go fontWeight before the fix)
     4  nil a.parentStyle in AnonymousStyle.Get (style.go:587-592)
     6  type assertion in textDecoration (style.go:650-651) or GetPage (accessors.go)
     7  a computation the model does not cover was reached (guarded by `modelled`)
     8  no style object for that node
     9  property without entry in InitialValues (nil interface asserted at style.go:470) *)
From Coq Require Export QArith ZArith NArith List String Bool FMapPositive.
From Verif Require Export Base.GoSem Base.F32 Css.DefaultingValue Generated.PropTables.
Export ListNotations.
Open Scope string_scope.
Open Scope N_scope.

(* ------------------------------------------------------------------ tables *)

Definition assoc_N {A} (l : list (N * A)) (k : N) : option A :=
  match find (fun e => N.eqb (fst e) k) l with Some e => Some (snd e) | None => None end.
Definition assoc_S {A} (l : list (string * A)) (k : string) : option A :=
  match find (fun e => String.eqb (fst e) k) l with Some e => Some (snd e) | None => None end.
Definition assoc_Z {A} (l : list (Z * A)) (k : Z) : option A :=
  match find (fun e => Z.eqb (fst e) k) l with Some e => Some (snd e) | None => None end.
Definition mem_N (k : N) (l : list N) : bool := existsb (N.eqb k) l.
Infix "==s" := String.eqb (at level 70, no associativity).
Definition mem_S (k : string) (l : list string) : bool := existsb (String.eqb k) l.

Definition prop_id (s : string) : N :=
  match find (fun e => String.eqb (snd e) s) prop_names with Some e => fst e | None => 0 end.
Definition prop_name (p : N) : string :=
  match assoc_N prop_names p with Some s => s | None => "" end.

(* pr.Inherited.Has / pr.InitialNotComputed.Has / pr.InitialValues[p] *)
Definition inherited (p : N) : bool := mem_N p inherited_list.
Definition initial_not_computed (p : N) : bool := mem_N p initial_not_computed_list.
Definition initial (p : N) : option value := assoc_N initial_list p.

Definition PFontSize : N := Eval vm_compute in prop_id "font-size".
Definition PFontWeight : N := Eval vm_compute in prop_id "font-weight".
Definition PPage : N := Eval vm_compute in prop_id "page".
Definition PPosition : N := Eval vm_compute in prop_id "position".
Definition PDisplay : N := Eval vm_compute in prop_id "display".
Definition PFloat : N := Eval vm_compute in prop_id "float".
Definition PAnchor : N := Eval vm_compute in prop_id "anchor".
Definition PTextDecorationLine : N := Eval vm_compute in prop_id "text-decoration-line".
Definition PTextDecorationColor : N := Eval vm_compute in prop_id "text-decoration-color".
Definition PTextDecorationStyle : N := Eval vm_compute in prop_id "text-decoration-style".
Definition PBorderTopWidth : N := Eval vm_compute in prop_id "border-top-width".
Definition PBorderBottomWidth : N := Eval vm_compute in prop_id "border-bottom-width".
Definition PBorderLeftWidth : N := Eval vm_compute in prop_id "border-left-width".
Definition PBorderRightWidth : N := Eval vm_compute in prop_id "border-right-width".
Definition POutlineWidth : N := Eval vm_compute in prop_id "outline-width".
Definition PMarks : N := Eval vm_compute in prop_id "marks".
Definition PLineHeight : N := Eval vm_compute in prop_id "line-height".
Definition PVerticalAlign : N := Eval vm_compute in prop_id "vertical-align".

(* properties.go:488 IsTextDecoration *)
Definition is_text_decoration (p : N) : bool :=
  (PTextDecorationLine <=? p) && (p <=? PTextDecorationStyle).

(* which Go function computes the property (computed_values.go:65-146) *)
Inductive ckind :=
| KNone            (* no computer function: the specified value is the computed value *)
| KLength | KBleed | KPixelLength | KBorderWidth | KColumnWidth | KGap
| KBreak | KDisplay | KFloat | KFontSize | KFontWeight | KLineHeight
| KTabSize | KVerticalAlign | KWordSpacing
| KPoint (pixels_only : bool)    (* borderSpacing / size (true), borderRadius / transformOrigin (false) *)
| KOther.          (* images, gradients, grid, content, string-set, transform, ...: oracle *)

Definition ckind_of_name (s : string) : ckind :=
  if s ==s "length" then KLength else if s ==s "bleed" then KBleed
  else if s ==s "pixelLength" then KPixelLength else if s ==s "borderWidth" then KBorderWidth
  else if s ==s "columnWidth" then KColumnWidth else if s ==s "gap" then KGap
  else if s ==s "break_" then KBreak else if s ==s "display" then KDisplay
  else if s ==s "floating" then KFloat else if s ==s "fontSize" then KFontSize
  else if s ==s "fontWeight" then KFontWeight else if s ==s "lineHeight" then KLineHeight
  else if s ==s "tabSize" then KTabSize else if s ==s "verticalAlign" then KVerticalAlign
  else if s ==s "wordSpacing" then KWordSpacing
  else if s ==s "borderSpacing" then KPoint true else if s ==s "size" then KPoint true
  else if s ==s "borderRadius" then KPoint false else if s ==s "transformOrigin" then KPoint false
  else KOther.

Definition computer_of (p : N) : ckind :=
  match assoc_N computer_list p with Some s => ckind_of_name s | None => KNone end.

(* ------------------------------------------------------------------ documents *)

(* outcome of var() substitution + validation of a pending value (C08's domain:
   recorded, not modelled) *)
Inductive presult := PErr | PVal (v : value) | PInherit | PInitial.

(* a cascaded declaration (pr.DeclaredValue) *)
Inductive casc := CInherit | CInitial | CExplicit (v : value) | CPending (r : presult).

Inductive decl := D (p : N) (c : casc).
Inductive orc := Orc (p : N) (v : value).

Inductive skind := KElem (* *ComputedStyle *) | KAnon (* *AnonymousStyle *).

(* font metrics of the font a style selects (font-family, -style, -weight, -stretch, features, ...
   of the node, resolved by the document's font configuration): what text.CharacterRatio
   measures, i.e. x-height / font-size and advance of "0" / font-size.  Recorded input:
   which font file a family name resolves to, and its metrics, are outside the model. *)
Record metrics := mkMetrics { m_ex : Q; m_ch : Q }.

Record node := mkNode {
  n_parent : option N;     (* node whose style is c.parentStyle; None: the root element *)
  n_kind : skind;
  n_decls : list decl;     (* c.cascaded *)
  n_oracle : list orc;     (* recorded results of computer functions the model does not cover *)
  n_metrics : option metrics;  (* None: no font configuration recorded (ex / ch lengths fall back to n_oracle) *)
}.
Definition has_metrics (nd : node) : bool := match n_metrics nd with Some _ => true | None => false end.
Definition tree := list node.

Definition node_at (t : tree) (n : N) : option node := nth_error t (N.to_nat n).

Definition lookup_decl (nd : node) (p : N) : option casc :=
  match find (fun d => let 'D q _ := d in N.eqb q p) (n_decls nd) with
  | Some (D _ c) => Some c | None => None end.
Definition lookup_oracle (nd : node) (p : N) : option value :=
  match find (fun d => let 'Orc q _ := d in N.eqb q p) (n_oracle nd) with
  | Some (Orc _ v) => Some v | None => None end.

(* [n; parent n; ...; root]; fuel = length t is enough when parents precede children *)
Fixpoint chain_fuel (t : tree) (fuel : nat) (n : N) : list N :=
  match fuel with
  | O => [n]
  | S f => match node_at t n with
           | Some nd => match n_parent nd with
                        | Some j => n :: chain_fuel t f j
                        | None => [n]
                        end
           | None => [n]
           end
  end.
Definition chain_of (t : tree) (n : N) : list N := chain_fuel t (List.length t) n.

(* parents strictly precede children; only node 0 has no parent; anonymous styles have one *)
Definition wf_node (i : N) (nd : node) : bool :=
  match n_parent nd with
  | Some j => (j <? i)
  | None => (i =? 0) && (match n_kind nd with KElem => true | KAnon => false end)
  end.
Fixpoint wf_from (i : N) (t : tree) : bool :=
  match t with [] => true | nd :: r => wf_node i nd && wf_from (N.succ i) r end.
Definition wf_tree (t : tree) : bool := wf_from 0 t.

(* ------------------------------------------------------------------ programs *)

(* what a computation reads through the style object *)
Inductive dep :=
| DOwn (p : N)        (* computer.Get(p) on the same style *)
| DParent (p : N)     (* computer.parentStyle.Get(p) *)
| DRootFs             (* computer.rootStyle.fontSize *)
| DSpecPos | DSpecDisplay | DSpecFloat    (* computer.specified.* *)
| DRatio (ch : bool). (* text.CharacterRatio(computer, computer.cache, isCh, fonts): 1ex (false) or 1ch (true)
                         over the font size, for the font of the style; resolved from n_metrics by
                         `resolve_ratio` before a handler sees the program *)

Inductive prog (A : Type) : Type :=
| Ret (a : A)
| Fail (site : N)
| Fetch (d : dep) (k : value -> prog A).
Arguments Ret {A} a.
Arguments Fail {A} site.
Arguments Fetch {A} d k.

Fixpoint pbind {A B} (m : prog A) (f : A -> prog B) : prog B :=
  match m with
  | Ret a => f a
  | Fail s => Fail s
  | Fetch d k => Fetch d (fun v => pbind (k v) f)
  end.
Notation "x <- m ;; k" := (pbind m (fun x => k))
  (at level 61, m at next level, right associativity).

Fixpoint run_pure {A} (env : dep -> res value) (pg : prog A) : res A :=
  match pg with
  | Ret a => Ok a
  | Fail s => Panic s
  | Fetch d k => match env d with
                 | Ok v => run_pure env (k v)
                 | Panic s => Panic s
                 | OutOfFuel => OutOfFuel
                 end
  end.

Section WithState.
  Variable S : Type.
  Fixpoint run_st {A} (h : S -> dep -> S * res value) (st : S) (pg : prog A) : S * res A :=
    match pg with
    | Ret a => (st, Ok a)
    | Fail s => (st, Panic s)
    | Fetch d k => let '(st', r) := h st d in
                   match r with
                   | Ok v => run_st h st' (k v)
                   | Panic s => (st', Panic s)
                   | OutOfFuel => (st', OutOfFuel)
                   end
    end.
End WithState.
Arguments run_st {S A} h st pg.

(* ------------------------------------------------------------------ computer functions *)

Definition Qlt_bool (a b : Q) : bool := negb (Qle_bool b a).

Section Computers.
  Variable ar : arith.
  Variable fixed : bool.         (* true: the current code; false: the code before the two `fix:` commits
                                    (04fd1df fontWeight, 14f58ba cascadeValue), kept to state the refutation *)
  Variable is_root : bool.       (* c.parentStyle == nil *)

  (* a Go untyped constant converted to Float: exact, or rounded to binary32 *)
  Definition cst (q : Q) : Q := mul ar q 1.

  (* `v.(pr.DimOrS).Value` *)
  Definition dim_val (v : value) : prog Q :=
    match v with VDim _ q _ => Ret q | VInfPx => Fail 7 | _ => Fail 1 end.

  Definition own_fs : prog Q := Fetch (DOwn PFontSize) dim_val.      (* computer.GetFontSize().Value *)

  Definition initial_fs : Q :=
    match initial PFontSize with Some (VDim _ q _) => q | _ => 0%Q end.

  (* pr.LengthsToPixels[unit]; a missing key reads as 0 *)
  Definition px_per (u : N) : Q :=
    match assoc_N lengths_to_pixels u with Some q => cst q | None => 0%Q end.

  Definition is_abs_unit (u : N) : bool := mem_N u [U_Pt; U_Pc; U_In; U_Cm; U_Mm; U_Q].
  Definition is_font_rel_unit (u : N) : bool := mem_N u [U_Em; U_Ex; U_Ch; U_Rem].

  (* computed_values.go:299-304 *)
  Definition as_pixels (v : value) (pixels_only : bool) : value :=
    match v with
    | VDim s q u => if pixels_only then VDim s q U_Scalar else v
    | _ => v
    end.

  (* computed_values.go:310-352 length_; fs = None is the Go `fontSize = -1` *)
  Definition length_ (v : value) (fs : option Q) (pixels_only : bool) : prog value :=
    match v with
    | VInfPx => Ret VInfPx                       (* Unit Px, Value +Inf: line 321 (pixelsOnly = false only) *)
    | VDim s q u =>
        if (s ==s "auto") || (s ==s "content") then Ret v                                   (* 311 *)
        else if Qeq_bool q 0 then Ret (as_pixels (VDim "" 0 U_Px) pixels_only)            (* 314 *)
        else if u =? U_Px then Ret (as_pixels v pixels_only)                              (* 320 *)
        else if is_abs_unit u then                                                        (* 322 *)
          Ret (as_pixels (VDim "" (mul ar q (px_per u)) U_Px) pixels_only)
        else if is_font_rel_unit u then                                                   (* 325 *)
          fsz <- (match fs with
                  | Some f => if Qlt_bool f 0 then own_fs else Ret f
                  | None => own_fs
                  end) ;;
          if u =? U_Em then Ret (as_pixels (VDim "" (mul ar q fsz) U_Px) pixels_only)     (* 341 *)
          else if u =? U_Rem then                                                         (* 343 *)
            Fetch DRootFs (fun r => rf <- dim_val r ;;
                                    Ret (as_pixels (VDim "" (mul ar q rf) U_Px) pixels_only))
          else                                                                            (* 338-343: ex, ch *)
            Fetch (DRatio (u =? U_Ch)) (fun r => rt <- dim_val r ;;
              Ret (as_pixels (VDim "" (mul ar (mul ar q fsz) rt) U_Px) pixels_only))
        else Ret v                                                                        (* 346 *)
    | _ => Fail 1
    end.

  (* pr.FontSizeKeywords[k] = InitialValues.GetFontSize().Value * a / b *)
  Definition fs_keyword_value (ab : Q * Q) : Q :=
    div ar (mul ar initial_fs (cst (fst ab))) (cst (snd ab)).
  Definition keywords_values : list Q := map (fun e => fs_keyword_value (snd e)) font_size_keywords.

  Definition parent_fs : prog Q :=                              (* computed_values.go:723-726 *)
    if is_root then Ret initial_fs else Fetch (DParent PFontSize) dim_val.

  (* computed_values.go:717-747 fontSize *)
  Definition font_size (v : value) : prog value :=
    match v with
    | VDim s q u =>
        match assoc_S font_size_keywords s with
        | Some ab => Ret (VDim "" (fs_keyword_value ab) U_Scalar)                         (* 719 *)
        | None =>
            pfs <- parent_fs ;;
            if s ==s "larger" then
              match find (fun k => Qlt_bool pfs k) keywords_values with                   (* 729 *)
              | Some k => Ret (VDim "" k U_Scalar)
              | None => Ret (VDim "" (mul ar pfs (cst (12 # 10))) U_Scalar)               (* 734 *)
              end
            else if s ==s "smaller" then
              match find (fun k => Qlt_bool k pfs) (rev keywords_values) with             (* 736 *)
              | Some k => Ret (VDim "" k U_Scalar)
              | None => Ret (VDim "" (mul ar pfs (cst (8 # 10))) U_Scalar)                (* 741 *)
              end
            else if u =? U_Perc then
              Ret (VDim "" (div ar (mul ar q pfs) (cst 100)) U_Scalar)                    (* 743 *)
            else length_ v (Some pfs) true                                                (* 745 *)
        end
    | VInfPx => Fail 7
    | _ => Fail 1
    end.

  Definition fw_table (l : list (Z * Z)) (w : Z) : Z :=
    match assoc_Z l w with Some x => x | None => 0%Z end.       (* missing map key reads as 0 *)

  Definition initial_fw : Z :=
    match initial PFontWeight with Some (VIntStr _ i) => i | _ => 0%Z end.

  (* computed_values.go parentFontWeight: `computer.parentStyle.GetFontWeight().Int`, or the
     initial weight on the root element (which inherits the initial values).  Before the
     fix c.parentStyle was dereferenced unconditionally: DParent on the root is the nil
     dereference. *)
  Definition parent_fw : prog Z :=
    if fixed && is_root then Ret initial_fw
    else Fetch (DParent PFontWeight) (fun v => match v with VIntStr _ i => Ret i | _ => Fail 1 end).

  (* computed_values.go:750-768 fontWeight *)
  Definition font_weight (v : value) : prog value :=
    match v with
    | VIntStr s i =>
        if s ==s "normal" then Ret (VIntStr "" 400)
        else if s ==s "bold" then Ret (VIntStr "" 700)
        else if s ==s "bolder" then w <- parent_fw ;; Ret (VIntStr "" (fw_table font_weight_bolder w))
        else if s ==s "lighter" then w <- parent_fw ;; Ret (VIntStr "" (fw_table font_weight_lighter w))
        else Ret (VIntStr "" i)
    | _ => Fail 1
    end.

  (* computed_values.go:404-417 borderWidth; the style property is `name - 1` *)
  Definition border_width (p : N) (v : value) : prog value :=
    match v with
    | VDim s q u =>
        Fetch (DOwn (N.pred p)) (fun sty =>
          match sty with
          | VStr st =>
              if (st ==s "none") || (st ==s "hidden") then Ret (VDim "" 0 U_Scalar)
              else match assoc_S border_width_keywords s with
                   | Some bw => Ret (VDim "" (cst bw) U_Scalar)
                   | None => length_ v None true
                   end
          | _ => Fail 1
          end)
    | VInfPx => Fail 7
    | _ => Fail 1
    end.

  Definition str_of (v : value) : string := match v with VStr s => s | _ => "" end.

  (* computed_values.go:685-703 display *)
  Definition display (v : value) : prog value :=
    match v with
    | VDisplay a b c =>
        Fetch DSpecFloat (fun fl => Fetch DSpecPos (fun pos =>
          let '(pb, ps) := match pos with VBoolStr pb ps => (pb, ps) | _ => (false, "") end in
          if (negb pb && ((ps ==s "absolute") || (ps ==s "fixed")))
             || negb (str_of fl ==s "none") || is_root then
            if (a ==s "inline-table") && (b ==s "") && (c ==s "") then Ret (VDisplay "block" "table" "")
            else if (b ==s "") && (c ==s "") && String.prefix "table-" a then Ret (VDisplay "block" "flow" "")
            else if a ==s "inline" then
              if (a ==s "list-item") || (b ==s "list-item") || (c ==s "list-item")
              then Ret (VDisplay "block" "flow" "list-item")
              else Ret (VDisplay "block" "flow" "")
            else Ret v
          else Ret v))
    | _ => Fail 1
    end.

  (* computed_values.go:707-714 floating *)
  Definition floating (v : value) : prog value :=
    match v with
    | VStr _ =>
        Fetch DSpecPos (fun pos =>
          let '(pb, ps) := match pos with VBoolStr pb ps => (pb, ps) | _ => (false, "") end in
          if (ps ==s "absolute") || (ps ==s "fixed") || pb then Ret (VStr "none") else Ret v)
    | _ => Fail 1
    end.

  (* computed_values.go:286-292 break_ *)
  Definition break_ (v : value) : prog value :=
    match v with
    | VStr s => if s ==s "always" then Ret (VStr "page") else Ret v
    | _ => Fail 1
    end.

  (* computed_values.go:833-849 lineHeight *)
  Definition line_height (v : value) : prog value :=
    match v with
    | VDim s q u =>
        if s ==s "normal" then Ret v
        else if u =? U_Scalar then Ret v
        else if u =? U_Perc then
          let factor := div ar q (cst 100) in
          fsz <- own_fs ;; Ret (VDim "" (mul ar factor fsz) U_Px)
        else r <- length_ v None true ;; px <- dim_val r ;; Ret (VDim "" px U_Px)
    | VInfPx => Fail 7
    | _ => Fail 1
    end.

  Definition valign_keywords : list string := ["baseline"; "middle"; "text-top"; "text-bottom"; "top"; "bottom"].
  Definition valign_keyword (s : string) : bool := mem_S s valign_keywords || (s ==s "super") || (s ==s "sub").

  (* computed_values.go:929-953 verticalAlign (percentages need the strut: not modelled) *)
  Definition vertical_align (v : value) : prog value :=
    match v with
    | VDim s q u =>
        if mem_S s valign_keywords
        then Ret (VDim s 0 0)
        else if s ==s "super" then fsz <- own_fs ;; Ret (VDim "" (mul ar fsz (cst (1 # 2))) U_Scalar)
        else if s ==s "sub" then fsz <- own_fs ;; Ret (VDim "" (mul ar fsz (cst (- 1 # 2))) U_Scalar)
        else if u =? U_Perc then Fail 7
        else r <- length_ v None true ;; px <- dim_val r ;; Ret (VDim "" px U_Scalar)
    | VInfPx => Fail 7
    | _ => Fail 1
    end.

  (* computed_values.go:975-977 with text.StrutLayout (text/text.go:128-168): a percentage
     of vertical-align is taken of the height of the strut of the element's own style.
     fs, lh = the element's computed font size and line height.  font size 0: no strut
     (131-134); line-height normal: the height the font gives (None: outside the model);
     otherwise the line height itself (a number times the font size), 159-163.  Not part
     of `compute` (the percentage stays a recorded result there): Check/C04.v audits every
     recorded result against this function. *)
  Definition valign_percent (q fs : Q) (lh : value) : option Q :=
    if Qeq_bool fs 0 then Some 0%Q
    else match lh with
         | VDim s l u =>
             if s ==s "normal" then None
             else let h := if u =? U_Scalar then mul ar l fs else l in
                  Some (div ar (mul ar h q) (cst 100))
         | _ => None
         end.

  Definition dim_only (v : value) : prog value :=     (* the functions below assert pr.DimOrS first *)
    match v with VDim _ _ _ | VInfPx => Ret v | _ => Fail 1 end.

  (* computed_values.go:907-913 tabSize *)
  Definition tab_size (v : value) : prog value :=
    match v with
    | VDim _ _ u => if u =? U_Scalar then Ret v else length_ v None false
    | VInfPx => length_ v None false
    | _ => Fail 1
    end.
  (* computed_values.go:956-962 wordSpacing *)
  Definition word_spacing (v : value) : prog value :=
    match v with
    | VDim s _ _ => if s ==s "normal" then Ret (VDim "" 0 0) else length_ v None false
    | VInfPx => length_ v None false
    | _ => Fail 1
    end.
  (* computed_values.go:365-372 pixelLength *)
  Definition pixel_length (v : value) : prog value :=
    match v with
    | VDim s _ _ => if s ==s "normal" then Ret v else length_ v None true
    | VInfPx => Fail 7
    | _ => Fail 1
    end.
  (* computed_values.go:500-506 gap *)
  Definition gap (v : value) : prog value :=
    match v with
    | VDim s _ _ => if s ==s "normal" then Ret v else length_ v None false
    | VInfPx => length_ v None false
    | _ => Fail 1
    end.
  (* computed_values.go:354-363 bleed *)
  Definition bleed (v : value) : prog value :=
    match v with
    | VDim s _ _ =>
        if s ==s "auto" then
          Fetch (DOwn PMarks) (fun m => match m with
                                        | VMarks crop _ => if crop then Ret (VDim "" 8 U_Px) else Ret (VDim "" 0 U_Px)
                                        | _ => Fail 1
                                        end)
        else length_ v None false
    | VInfPx => length_ v None false
    | _ => Fail 1
    end.

  (* borderSpacing 260-265 / size 252-258 (pixelsOnly) and borderRadius 267-274 /
     transformOrigin 231-235: length_ on each Dimension, `.Dimension` of the result *)
  Definition point_ (pixels_only : bool) (v : value) : prog value :=
    match v with
    | VPoint v1 u1 v2 u2 =>
        r1 <- length_ (VDim "" v1 u1) None pixels_only ;;
        r2 <- length_ (VDim "" v2 u2) None pixels_only ;;
        match r1, r2 with
        | VDim _ a ua, VDim _ b ub => Ret (VPoint a ua b ub)
        | _, _ => Fail 7
        end
    | _ => Fail 1
    end.

  Definition uses_metrics (u : N) : bool := (u =? U_Ex) || (u =? U_Ch).
  (* a unit the model converts: any but ex / ch, and those too when the node's font
     metrics are recorded (hm) *)
  Definition unit_ok (hm : bool) (u : N) : bool := hm || negb (uses_metrics u).

  (* is the computation of `v` for property `p` covered by the model?  otherwise the
     recorded result (n_oracle) is used.  Wrongly typed values are "covered": the
     computer's type assertion panics. *)
  Definition modelled (hm : bool) (k : ckind) (v : value) : bool :=
    match k with
    | KOther => false
    | KNone | KBreak | KDisplay | KFloat | KFontWeight => true
    | KPoint _ => match v with VPoint _ u1 _ u2 => unit_ok hm u1 && unit_ok hm u2 | _ => true end
    | KVerticalAlign =>
        match v with
        | VDim s _ u => valign_keyword s || (negb (u =? U_Perc) && unit_ok hm u)
        | VInfPx => false | _ => true end
    | KLength | KColumnWidth | KGap | KTabSize | KWordSpacing | KBleed =>
        match v with VDim _ _ u => unit_ok hm u | _ => true end
    | KPixelLength | KBorderWidth | KLineHeight | KFontSize =>
        match v with VDim _ _ u => unit_ok hm u | VInfPx => false | _ => true end
    end.

  (* text.CharacterRatio for the node's font: the DRatio reads of a program answered from
     the recorded metrics *)
  Definition ratio_value (m : metrics) (ch : bool) : value :=
    VDim "" (if ch then m_ch m else m_ex m) U_Scalar.
  Fixpoint resolve_ratio {A} (m : option metrics) (pg : prog A) : prog A :=
    match pg with
    | Ret a => Ret a
    | Fail s => Fail s
    | Fetch d k =>
        match d with
        | DRatio ch => match m with
                       | Some mm => resolve_ratio m (k (ratio_value mm ch))
                       | None => Fail 7
                       end
        | _ => Fetch d (fun v => resolve_ratio m (k v))
        end
    end.

  (* computerFunctions[p](c, p, v)  (style.go:514-517) *)
  Definition compute (nd : node) (p : N) (v : value) : prog value :=
    let k := computer_of p in
    if modelled (has_metrics nd) k v then
      resolve_ratio (n_metrics nd)
      match k with
      | KNone => Ret v
      | KLength | KColumnWidth => v' <- dim_only v ;; length_ v' None false
      | KBleed => bleed v
      | KPixelLength => pixel_length v
      | KBorderWidth => border_width p v
      | KGap => gap v
      | KBreak => break_ v
      | KDisplay => display v
      | KFloat => floating v
      | KFontSize => font_size v
      | KFontWeight => font_weight v
      | KLineHeight => line_height v
      | KTabSize => tab_size v
      | KVerticalAlign => vertical_align v
      | KWordSpacing => word_spacing v
      | KPoint po => point_ po v
      | KOther => Fail 7
      end
    else match lookup_oracle nd p with Some r => Ret r | None => Ret v end.

  (* ---------------------------------------------------------------- cascadeValue *)

  Definition initial_prog (p : N) : prog value :=
    match initial p with Some v => Ret v | None => Fail 9 end.

  (* style.go:400-487 cascadeValue; returns (value, save) *)
  Definition cascade_value (nd : node) (p : N) : prog (value * bool) :=
    let c := match lookup_decl nd p with
             | Some c => c
             | None => if inherited p then CInherit else CInitial               (* 408 *)
             end in
    let from_initial := v <- initial_prog p ;; Ret (v, negb (initial_not_computed p)) in  (* "value == pr.Initial" *)
    let from_parent := Fetch (DParent p) (fun v => Ret (v, true)) in             (* c.parentStyle.Get(key) *)
    let root_rule (c : casc) := match c with CInherit => if is_root then CInitial else c | _ => c end in
    if fixed then
      (* "inherit" on the root is turned into "initial" AFTER var() substitution *)
      let settle (c : casc) :=
        match root_rule c with
        | CExplicit v => Ret (v, false)
        | CInitial => from_initial
        | CInherit => from_parent
        | CPending _ => Fail 7
        end in
      match c with
      | CPending PErr => if inherited p && negb is_root then from_parent else from_initial
      | CPending (PVal v) => settle (CExplicit v)
      | CPending PInherit => settle CInherit
      | CPending PInitial => settle CInitial
      | _ => settle c
      end
    else
      (* before commit 14f58ba: root rule applied before substitution only *)
      match root_rule c with
      | CExplicit v => Ret (v, false)
      | CInitial => from_initial
      | CInherit => from_parent
      | CPending PErr => if inherited p then from_parent else from_initial
      | CPending (PVal v) => Ret (v, false)
      | CPending PInitial => from_initial
      | CPending PInherit => from_parent
      end.

  (* style.go:639-655 textDecoration *)
  Definition text_decoration (p : N) (v pv : value) (cascaded : bool) : prog value :=
    if (p =? PTextDecorationColor) || (p =? PTextDecorationStyle) then
      Ret (if cascaded then v else pv)
    else if p =? PTextDecorationLine then
      match pv, v with
      | VDecor a, VDecor b => Ret (VDecor (N.lor b a))
      | _, _ => Fail 6
      end
    else Ret v.

  Definition is_cascaded (nd : node) (p : N) : bool :=
    match lookup_decl nd p with Some _ => true | None => false end.

  (* style.go:488-505: returns the new value and whether c.delete(key) ran *)
  Definition special (nd : node) (p : N) (v : value) : prog (value * bool) :=
    if is_text_decoration p && negb is_root then
      Fetch (DParent p) (fun pv => v' <- text_decoration p v pv (is_cascaded nd p) ;; Ret (v', true))
    else if (p =? PPage) && value_eqb v (VStr "auto") then
      if is_root then Ret (VStr "", true)
      else Fetch (DParent PPage) (fun pv => match pv with VStr _ => Ret (pv, true) | _ => Fail 6 end)
    else Ret (v, false).

  (* style.go:585-595 AnonymousStyle.Get, the value before it is cached *)
  Definition anon_value (p : N) : prog value :=
    if inherited p then Fetch (DParent p) (fun v => Ret v)
    else if p =? PPage then Fetch (DParent p) (fun v => Ret v)
    else if is_text_decoration p then
      iv <- initial_prog p ;; Fetch (DParent p) (fun pv => text_decoration p iv pv false)
    else initial_prog p.

End Computers.

(* ------------------------------------------------------------------ the state machine *)

(* per style object: propsCache + the fields captured at construction *)
Record sstyle := mkStyle {
  s_cache : PositiveMap.t value;
  s_rootfs : value;       (* rootStyle.fontSize *)
  s_pos : value; s_disp : value; s_float : value;    (* specified *)
}.
Definition styles := PositiveMap.t sstyle.
Definition nkey (n : N) : positive := N.succ_pos n.

Definition empty_style : sstyle :=
  mkStyle (PositiveMap.empty value) (VOpaque 0) (VOpaque 0) (VOpaque 0) (VOpaque 0).
Definition style_of (st : styles) (n : N) : sstyle :=
  match PositiveMap.find (nkey n) st with Some s => s | None => empty_style end.
Definition with_cache (s : sstyle) (c : PositiveMap.t value) : sstyle :=
  mkStyle c (s_rootfs s) (s_pos s) (s_disp s) (s_float s).

(* propsCache.get / Set / delete (style.go:262-301) *)
Definition cache_get (st : styles) (n p : N) : option value :=
  PositiveMap.find (nkey p) (s_cache (style_of st n)).
Definition cache_set (st : styles) (n p : N) (v : value) : styles :=
  let s := style_of st n in
  PositiveMap.add (nkey n) (with_cache s (PositiveMap.add (nkey p) v (s_cache s))) st.
Definition cache_del (st : styles) (n p : N) : styles :=
  let s := style_of st n in
  PositiveMap.add (nkey n) (with_cache s (PositiveMap.remove (nkey p) (s_cache s))) st.

Definition getter := styles -> N -> styles * res value.

Section Machine.
  Variable ar : arith.
  Variable fixed : bool.
  Variable t : tree.

  (* reads of c.parentStyle only (cascadeValue, the special cases) *)
  Definition parent_handler (is_root : bool) (parent_get : getter) (st : styles) (d : dep)
    : styles * res value :=
    match d with
    | DParent q => if is_root then (st, Panic 2) else parent_get st q
    | _ => (st, Panic 7)
    end.

  (* everything a computer function may read *)
  Definition handler (n : N) (is_root : bool) (parent_get own_get : getter) (st : styles) (d : dep)
    : styles * res value :=
    match d with
    | DOwn q => own_get st q
    | DParent q => if is_root then (st, Panic 2) else parent_get st q
    | DRootFs => (st, Ok (s_rootfs (style_of st n)))
    | DSpecPos => (st, Ok (s_pos (style_of st n)))
    | DSpecDisplay => (st, Ok (s_disp (style_of st n)))
    | DSpecFloat => (st, Ok (s_float (style_of st n)))
    | DRatio _ => (st, Panic 7)          (* resolved by `compute` (resolve_ratio) *)
    end.

  (* style.go:476-520 ComputedStyle.Get *)
  Definition elem_get (n : N) (nd : node) (is_root : bool) (parent_get own_get : getter) : getter :=
    fun st p =>
    match cache_get st n p with
    | Some v => (st, Ok v)                                                           (* 478 *)
    | None =>
      let hp := parent_handler is_root parent_get in
      let '(st1, r1) := run_st hp st (cascade_value fixed is_root nd p) in            (* 482 *)
      match r1 with
      | Panic s => (st1, Panic s) | OutOfFuel => (st1, OutOfFuel)
      | Ok (v, save) =>
        let st2 := if save then cache_set st1 n p v else st1 in                      (* 484 *)
        let '(st3, r3) := run_st hp st2 (special is_root nd p v) in                   (* 488-505 *)
        match r3 with
        | Panic s => (st3, Panic s) | OutOfFuel => (st3, OutOfFuel)
        | Ok (v', del) =>
          let st4 := if del then cache_del st3 n p else st3 in
          match cache_get st4 n p with
          | Some w => (st4, Ok w)                                                    (* 508 *)
          | None =>
            let h := handler n is_root parent_get own_get in
            let '(st5, r5) := run_st h st4 (compute ar fixed is_root nd p v') in      (* 513-517 *)
            match r5 with
            | Ok out => (cache_set st5 n p out, Ok out)                              (* 518 *)
            | Panic s => (st5, Panic s) | OutOfFuel => (st5, OutOfFuel)
            end
          end
        end
      end
    end.

  (* style.go:579-599 AnonymousStyle.Get *)
  Definition anon_handler (is_root : bool) (parent_get : getter) (st : styles) (d : dep)
    : styles * res value :=
    match d with
    | DParent q => if is_root then (st, Panic 4) else parent_get st q
    | _ => (st, Panic 7)
    end.

  Definition anon_get (n : N) (is_root : bool) (parent_get : getter) : getter :=
    fun st p =>
    match cache_get st n p with
    | Some v => (st, Ok v)
    | None =>
      let '(st1, r) := run_st (anon_handler is_root parent_get) st (anon_value p) in
      match r with
      | Ok v => (cache_set st1 n p v, Ok v)
      | Panic s => (st1, Panic s) | OutOfFuel => (st1, OutOfFuel)
      end
    end.

  Definition is_last (anc : list N) : bool := match anc with [] => true | _ => false end.

  (* Properties whose computer function makes no Get on its own style: those without
     computer function (border styles, marks, ...) and font-size -- whose only own Get
     is the infinite recursion fontSize -> length_ -> GetFontSize, taken when the parent
     font size is negative.  The computer functions of the other properties read, on
     their own style, base properties only (font-size, `name - 1` style, marks). *)
  Definition is_base (p : N) : bool :=
    (p =? PFontSize) || match computer_of p with KNone => true | _ => false end.

  Definition diverge : getter := fun st _ => (st, OutOfFuel).

  (* Get on the style of the first node of the chain [n; parent; ...; root] *)
  Fixpoint get_chain (chain : list N) (st : styles) (p : N) {struct chain} : styles * res value :=
    match chain with
    | [] => (st, Panic 8)
    | n :: anc =>
        match node_at t n with
        | None => (st, Panic 8)
        | Some nd =>
            let parent_get := fun st q => get_chain anc st q in
            match n_kind nd with
            | KAnon => anon_get n (is_last anc) parent_get st p
            | KElem =>
                let base := elem_get n nd (is_last anc) parent_get diverge in
                if is_base p then base st p
                else elem_get n nd (is_last anc) parent_get
                       (fun st q => if is_base q then base st q else (st, Panic 7)) st p
            end
        end
    end.

  Definition get (st : styles) (n p : N) : styles * res value := get_chain (chain_of t n) st p.

  Definition dim_zero_null : value := VDim "" 0 0.      (* pr.DimOrS{} *)
  Definition anon_presets : list N :=
    [PBorderTopWidth; PBorderBottomWidth; PBorderLeftWidth; PBorderRightWidth; POutlineWidth].

  Definition initial_fs_value : res value :=
    match initial PFontSize with Some v => Ok v | None => Panic 9 end.

  (* construction of the style object of node n *)
  Definition construct (st : styles) (n : N) : styles * res unit :=
    let chain := chain_of t n in
    match node_at t n, chain with
    | Some nd, _ :: anc =>
        let is_root := is_last anc in
        let parent_get := fun st q => get_chain anc st q in
        match n_kind nd with
        | KElem =>
            (* setComputedStyles 160-177: rootStyle *)
            let '(st1, rfs) :=
              if is_root then (st, initial_fs_value)
              else get_chain [last chain 0] st PFontSize in
            match rfs with
            | Panic s => (st1, Panic s) | OutOfFuel => (st1, OutOfFuel)
            | Ok rf =>
              (* newComputedStyle 375-381: specified position, display, float *)
              let hp := parent_handler is_root parent_get in
              let '(st2, r2) := run_st hp st1 (cascade_value fixed is_root nd PPosition) in
              match r2 with Panic s => (st2, Panic s) | OutOfFuel => (st2, OutOfFuel) | Ok (pos, _) =>
              let '(st3, r3) := run_st hp st2 (cascade_value fixed is_root nd PDisplay) in
              match r3 with Panic s => (st3, Panic s) | OutOfFuel => (st3, OutOfFuel) | Ok (disp, _) =>
              let '(st4, r4) := run_st hp st3 (cascade_value fixed is_root nd PFloat) in
              match r4 with Panic s => (st4, Panic s) | OutOfFuel => (st4, OutOfFuel) | Ok (fl, _) =>
              let st5 := PositiveMap.add (nkey n) (mkStyle (PositiveMap.empty value) rf pos disp fl) st4 in
              (* computedFromCascaded 1073: style.GetAnchor() *)
              let '(st6, r6) := get_chain chain st5 PAnchor in
              match r6 with
              | Ok (VStr _) => (st6, Ok tt)
              | Ok _ => (st6, Panic 6)
              | Panic s => (st6, Panic s) | OutOfFuel => (st6, OutOfFuel)
              end end end end
            end
        | KAnon =>
            (* newAnonymousStyle 556-564 *)
            let st1 := PositiveMap.add (nkey n) empty_style st in
            let st2 := fold_left (fun s p => cache_set s n p dim_zero_null) anon_presets st1 in
            let '(st3, r3) := get_chain chain st2 PDisplay in
            match r3 with Panic s => (st3, Panic s) | OutOfFuel => (st3, OutOfFuel) | Ok disp =>
            let '(st4, r4) := get_chain chain st3 PFloat in
            match r4 with Panic s => (st4, Panic s) | OutOfFuel => (st4, OutOfFuel) | Ok fl =>
            let '(st5, r5) := get_chain chain st4 PPosition in
            match r5 with Panic s => (st5, Panic s) | OutOfFuel => (st5, OutOfFuel) | Ok pos =>
            let s := style_of st5 n in
            (PositiveMap.add (nkey n) (mkStyle (s_cache s) (s_rootfs s) pos disp fl) st5, Ok tt)
            end end end
        end
    | _, _ => (st, Panic 8)
    end.

  (* ---------------------------------------------------------------- reference semantics (no cache) *)

  Definition parent_env (is_root : bool) (parent_val : N -> res value) (d : dep) : res value :=
    match d with
    | DParent q => if is_root then Panic 2 else parent_val q
    | _ => Panic 7
    end.

  Definition pure_env (is_root : bool) (parent_val own_val : N -> res value)
             (rootfs pos disp fl : res value) (d : dep) : res value :=
    match d with
    | DOwn q => own_val q
    | DParent q => if is_root then Panic 2 else parent_val q
    | DRootFs => rootfs
    | DSpecPos => pos | DSpecDisplay => disp | DSpecFloat => fl
    | DRatio _ => Panic 7
    end.

  (* c.specified.*: the cascaded value, defaulted *)
  Definition specified (nd : node) (is_root : bool) (parent_val : N -> res value) (q : N) : res value :=
    res_map fst (run_pure (parent_env is_root parent_val) (cascade_value fixed is_root nd q)).

  Definition elem_pure (nd : node) (is_root : bool) (parent_val own_val : N -> res value)
             (rootfs : res value) (p : N) : res value :=
    let envp := parent_env is_root parent_val in
    let* vs := run_pure envp (cascade_value fixed is_root nd p) in
    let '(v, save) := vs in
    let* vd := run_pure envp (special is_root nd p v) in
    let '(v', del) := vd in
    if save && negb del then Ok v
    else
      let spec := specified nd is_root parent_val in
      run_pure (pure_env is_root parent_val own_val rootfs (spec PPosition) (spec PDisplay) (spec PFloat))
               (compute ar fixed is_root nd p v').

  Definition anon_env (is_root : bool) (parent_val : N -> res value) (d : dep) : res value :=
    match d with
    | DParent q => if is_root then Panic 4 else parent_val q
    | _ => Panic 7
    end.

  Definition anon_pure (is_root : bool) (parent_val : N -> res value) (p : N) : res value :=
    if mem_N p anon_presets then Ok dim_zero_null
    else run_pure (anon_env is_root parent_val) (anon_value p).

  Definition diverge_pure : N -> res value := fun _ => OutOfFuel.

  Fixpoint computed_chain (rootfs : res value) (chain : list N) (p : N) {struct chain} : res value :=
    match chain with
    | [] => Panic 8
    | n :: anc =>
        match node_at t n with
        | None => Panic 8
        | Some nd =>
            let parent_val := computed_chain rootfs anc in
            let is_root := is_last anc in
            let rfs := if is_root then initial_fs_value else rootfs in
            match n_kind nd with
            | KAnon => anon_pure is_root parent_val p
            | KElem =>
                let base := elem_pure nd is_root parent_val diverge_pure rfs in
                if is_base p then base p
                else elem_pure nd is_root parent_val
                       (fun q => if is_base q then base q else Panic 7) rfs p
            end
        end
    end.

  Definition root_fs_pure : res value := computed_chain (Panic 7) [0] PFontSize.

  (* the computed value of property p on node n *)
  Definition computed (n p : N) : res value := computed_chain root_fs_pure (chain_of t n) p.

End Machine.

(* ------------------------------------------------------------------ histories *)

Inductive op := OGet (n p : N) | OConstruct (n : N).

Definition step (ar : arith) (fixed : bool) (t : tree) (st : styles) (o : op) : styles * res (option value) :=
  match o with
  | OGet n p => let '(st', r) := get ar fixed t st n p in (st', res_map Some r)
  | OConstruct n => let '(st', r) := construct ar fixed t st n in (st', res_map (fun _ => None) r)
  end.

Fixpoint run_ops (ar : arith) (fixed : bool) (t : tree) (st : styles) (ops : list op) : styles * list (res (option value)) :=
  match ops with
  | [] => (st, [])
  | o :: r => let '(st', x) := step ar fixed t st o in
              let '(st'', xs) := run_ops ar fixed t st' r in (st'', x :: xs)
  end.

Definition empty_styles : styles := PositiveMap.empty sstyle.

(* all style objects constructed in index order (newStyleFor's tree order) *)
Definition init_ops (t : tree) : list op := map (fun i => OConstruct (N.of_nat i)) (seq 0 (List.length t)).
Definition init_styles (ar : arith) (fixed : bool) (t : tree) : styles := fst (run_ops ar fixed t empty_styles (init_ops t)).

(* ------------------------------------------------------------------ the ex / ch ratio cache *)

(* pr.TextRatioCache (css/properties/main.go:117-140): two Go maps fontKey -> ratio, one per
   unit; one cache per document, handed from the parent style to its children
   (newComputedStyle style.go:368-372).  A Go map as an association list: the most recent
   binding of a key is found first. *)
Record rcache := mkRcache { rc_ch : list (string * Q); rc_ex : list (string * Q) }.
Definition rc_empty : rcache := mkRcache [] [].                       (* NewTextRatioCache *)
Definition rc_get (c : rcache) (key : string) (is_ch : bool) : option Q :=    (* Get 127-134 *)
  assoc_S (if is_ch then rc_ch c else rc_ex c) key.
Definition rc_set (c : rcache) (key : string) (is_ch : bool) (f : Q) : rcache :=   (* Set 136-142 *)
  if is_ch then mkRcache ((key, f) :: rc_ch c) (rc_ex c) else mkRcache (rc_ch c) ((key, f) :: rc_ex c).

(* text.CharacterRatio (text/text.go:174-204) with a font configuration.  `measure key is_ch`:
   what is computed on a miss for the font description `key` (style.cacheKey()): width0 /
   heightx at size 1000 over 1000, rounded to 5 decimals, 0 replaced by 0.5. *)
Definition character_ratio (measure : string -> bool -> Q) (c : rcache) (key : string) (is_ch : bool)
  : rcache * Q :=
  match rc_get c key is_ch with
  | Some f => (c, f)                                                             (* 181-183 *)
  | None => let v := measure key is_ch in (rc_set c key is_ch v, v)               (* 185-203 *)
  end.
