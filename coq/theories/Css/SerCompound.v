(* Css/SerCompound.v -- C20 for parsed rules and declarations
   ("a list of component values (or a parsed rule or declaration)").

   Model of the compound serializers of /repo/css/parser/serialize.go:370-408
   (QualifiedRule / AtRule / Declaration .serializeTo, AtRule as repaired by
   the `fix:` commit 130c359) and a specification-level reading of "parses
   back": CSS Syntax 3 section 5.4.2 consume-an-at-rule, 5.4.3
   consume-a-qualified-rule, 5.4.6 consume-a-declaration over component
   values, with /repo's conventions (an at-rule WITHOUT block has no content,
   an at-rule with an EMPTY block has an empty one: `@x;` is not `@x{}`;
   the `!important` suffix is removed from the value and kept as a flag).
   NO PROOFS in this file (see Css/SerCompoundProofs.v). *)
From Verif Require Export Css.Ser Css.RetokSpec.
From Coq Require Import List NArith Bool Ascii String.
Import ListNotations.
Open Scope string_scope.
Open Scope list_scope.
Open Scope N_scope.

Inductive compound :=
| CQualified (prelude content : list token)
| CAtRule (kw : str) (prelude : list token) (content : option (list token))   (* None: Content == nil *)
| CDecl (name : str) (value : list token) (important : bool).

(* ------------------------------------------------------------------ model of serialize.go *)

(* AtRule.serializeTo :378-386: does the first prelude token fuse with the at-keyword? *)
Definition at_fuses (prelude : list token) : bool :=
  match prelude with
  | t :: _ => bad_pair (cps "at-keyword") (ser_type t)
  | [] => false
  end.

Definition ser_compound (c : compound) : res str :=
  match c with
  | CQualified p b =>                                                        (* :370-375 *)
      let* a := serialize p in
      let* s := serialize b in
      Ok (a ++ 123 :: s ++ [125])
  | CAtRule kw p b =>                                                        (* :377-399 *)
      let p' := if at_fuses p then TComment p0 [] :: p else p in
      let* k := serialize_identifier kw in
      let* a := serialize p' in
      match b with
      | None => Ok (64 :: k ++ a ++ [59])                                    (* Content == nil : ";" *)
      | Some b => let* s := serialize b in Ok (64 :: k ++ a ++ 123 :: s ++ [125])
      end
  | CDecl n v imp =>                                                         (* :401-408 *)
      let* k := serialize_identifier n in
      let* a := serialize v in
      Ok (k ++ 58 :: a ++ (if imp then cps "!important" else []))
  end.

(* the token list a compound stands for: what a parser reads it back from *)
Definition compound_tokens (c : compound) : list token :=
  match c with
  | CQualified p b => p ++ [TCurly p0 b]
  | CAtRule kw p None => TAtKeyword p0 kw :: p ++ [TLiteral p0 [59]]
  | CAtRule kw p (Some b) => TAtKeyword p0 kw :: p ++ [TCurly p0 b]
  | CDecl n v imp =>
      TIdent p0 n :: TLiteral p0 [58] :: v ++ (if imp then [TLiteral p0 [33]; TIdent p0 (cps "important")] else [])
  end.

(* ------------------------------------------------------------------ specification: reading a compound back *)

Definition is_semicolon (t : token) : bool := match t with TLiteral _ [59] => true | _ => false end.
Definition is_colon (t : token) : bool := match t with TLiteral _ [58] => true | _ => false end.
Definition is_bang (t : token) : bool := match t with TLiteral _ [33] => true | _ => false end.
Definition is_blank (t : token) : bool := match t with TWhitespace _ _ | TComment _ _ => true | _ => false end.

Fixpoint skip_blank (l : list token) : list token :=
  match l with
  | t :: r => if is_blank t then skip_blank r else l
  | [] => []
  end.

(* 5.4.2: component values up to the first top-level ";" (no block), the first
   {} block (its contents are the rule's) or the end of input (no block) *)
Fixpoint at_rule_parts (l : list token) : list token * option (list token) * list token :=
  match l with
  | [] => ([], None, [])
  | TCurly _ b :: r => ([], Some b, r)
  | t :: r => if is_semicolon t then ([], None, r)
              else let '(p, b, rest) := at_rule_parts r in (t :: p, b, rest)
  end.

(* 5.4.3: component values up to the first top-level {} block; the end of input
   before a block is a parse error (no rule) *)
Fixpoint qualified_parts (l : list token) : option (list token * list token * list token) :=
  match l with
  | [] => None
  | TCurly _ b :: r => Some ([], b, r)
  | t :: r => match qualified_parts r with
              | Some (p, b, rest) => Some (t :: p, b, rest)
              | None => None
              end
  end.

(* the text holds exactly one rule (leading / trailing blanks ignored) *)
Definition read_rule (l : list token) : option compound :=
  match skip_blank l with
  | [] => None
  | TAtKeyword _ kw :: r =>
      let '(p, b, rest) := at_rule_parts r in
      match skip_blank rest with [] => Some (CAtRule kw p b) | _ => None end
  | l' => match qualified_parts l' with
          | Some (p, b, rest) => match skip_blank rest with [] => Some (CQualified p b) | _ => None end
          | None => None
          end
  end.

Definition lower_cp (c : N) : N := if (65 <=? c) && (c <=? 90) then c + 32 else c.
Definition is_important (t : token) : bool :=
  match t with TIdent _ v => str_eqb (map lower_cp v) (cps "important") | _ => false end.

(* 5.4.6, the end of the value read backwards: blanks, `important`, blanks, `!` *)
Definition strip_important (v : list token) : list token * bool :=
  match skip_blank (rev v) with
  | t :: r => if is_important t then
                match skip_blank r with
                | b :: r' => if is_bang b then (rev r', true) else (v, false)
                | [] => (v, false)
                end
              else (v, false)
  | [] => (v, false)
  end.

(* a top-level {} block is only allowed as the whole value *)
Definition block_alone (v : list token) : bool :=
  let sig := filter (fun t => negb (is_blank t)) v in
  negb (existsb (fun t => match t with TCurly _ _ => true | _ => false end) sig) || (Nat.leb (List.length sig) 1).

Definition read_declaration (l : list token) : option compound :=
  match skip_blank l with
  | TIdent _ n :: r =>
      match skip_blank r with
      | c :: v => if is_colon c then
                    let '(v', imp) := strip_important v in
                    if block_alone v' then Some (CDecl n v' imp) else None
                  else None
      | [] => None
      end
  | _ => None
  end.

Definition read_back (c : compound) (l : list token) : option compound :=
  match c with
  | CDecl _ _ _ => read_declaration l
  | _ => read_rule l
  end.

(* compounds up to comments / positions / merged whitespace *)
Definition norm_compound (c : compound) : compound :=
  match c with
  | CQualified p b => CQualified (norm p) (norm b)
  | CAtRule kw p b => CAtRule kw (norm p) (option_map norm b)
  | CDecl n v imp => CDecl n (norm v) imp
  end.

Definition compound_error_free (c : compound) : bool :=
  match c with
  | CQualified p b => error_free p && error_free b
  | CAtRule _ p b => error_free p && match b with Some b => error_free b | None => true end
  | CDecl _ v _ => error_free v
  end.
