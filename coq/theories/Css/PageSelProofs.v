(* Css/PageSelProofs.v -- totality of the An+B parser and of the @page selector
   parser of Css/PageSel.v (C07); refutation for the code as found. *)
From Verif Require Import Base.GoSem Base.GoStrings Base.GoStringsProofs Css.PageSel.
From Coq Require Import List ZArith NArith Bool Lia ZifyBool ZifyNat ZifyN.
Import ListNotations.
Open Scope Z_scope.

(* What the tokenizer guarantees about the tokens these parsers index into:
   an identifier is never empty and the representation of a number is never
   empty (css/parser/tokenizer.go: an Ident is only started on an identifier
   start, a Number on a digit / sign / dot). *)
Fixpoint wf_tok (t : ptok) : bool :=
  match t with
  | PIdent v => match v with [] => false | _ => true end
  | PNumber _ _ repr => match repr with [] => false | _ => true end
  | PFunc _ args =>
      (fix all (l : list ptok) : bool :=
         match l with [] => true | x :: r => wf_tok x && all r end) args
  | _ => true
  end.
Definition wf_toks (l : list ptok) : bool := forallb wf_tok l.

Lemma wf_func name args : wf_tok (PFunc name args) = wf_toks args.
Proof.
  cbn [wf_tok]. unfold wf_toks.
  induction args as [|x r IH]; [reflexivity|]. cbn [forallb]. rewrite <- IH. reflexivity.
Qed.

Lemma wf_cons t l : wf_toks (t :: l) = true -> wf_tok t = true /\ wf_toks l = true.
Proof. unfold wf_toks. cbn [forallb]. intros H. apply andb_prop in H. exact H. Qed.

Lemma wf_firstn n l : wf_toks l = true -> wf_toks (firstn n l) = true.
Proof.
  unfold wf_toks. revert n. induction l as [|x l IH]; intros [|n] H; cbn; try reflexivity.
  cbn in H. apply andb_prop in H as [H1 H2]. rewrite H1. cbn. apply IH. exact H2.
Qed.

Lemma wf_skipn n l : wf_toks l = true -> wf_toks (skipn n l) = true.
Proof.
  unfold wf_toks. revert n. induction l as [|x l IH]; intros [|n] H; cbn; try reflexivity; [exact H|].
  cbn in H. apply andb_prop in H as [H1 H2]. apply IH. exact H2.
Qed.

Lemma wf_filter f l : wf_toks l = true -> wf_toks (filter f l) = true.
Proof.
  unfold wf_toks. induction l as [|x l IH]; intros H; cbn; [reflexivity|].
  cbn in H. apply andb_prop in H as [H1 H2].
  destruct (f x); cbn; [rewrite H1; cbn|]; apply IH; exact H2.
Qed.

Lemma next_significant_wf it t it' :
  wf_toks it = true -> next_significant it = (Some t, it') ->
  wf_tok t = true /\ wf_toks it' = true /\ (length it' < length it)%nat.
Proof.
  induction it as [|x r IH]; intros Hw H; cbn in H; [discriminate|].
  apply wf_cons in Hw as [Hx Hr].
  destruct (is_insignificant x).
  - destruct (IH Hr H) as [H1 [H2 H3]]. cbn [length]. repeat split; try assumption. lia.
  - injection H as <- <-. cbn [length]. repeat split; try assumption. lia.
Qed.

(* ------------------------------------------------------------------ An+B *)
Lemma slice01_ok site (repr : list N) : repr <> [] -> exists f, slice site repr 0 1 = Ok f.
Proof.
  intros H. rewrite slice_ok; [eauto|lia|lia|].
  destruct repr; [contradiction|]. rewrite len_cons. pose proof (len_nonneg repr). lia.
Qed.

Lemma parse_signless_b_total it a bsign :
  wf_toks it = true -> exists r, parse_signless_b it a bsign = Ok r.
Proof.
  intros Hw. unfold parse_signless_b.
  destruct (next_significant it) as [[tok|] it'] eqn:E; [|eauto].
  destruct (next_significant_wf _ _ _ Hw E) as [Ht _].
  destruct tok; eauto. destruct is_int; [|eauto].
  cbn [wf_tok] in Ht.
  destruct (slice01_ok 793 repr) as [f Hf]; [destruct repr; [discriminate|congruence]|].
  rewrite Hf. cbn [bind]. destruct (negb (is_sign_str f)); eauto.
Qed.

Lemma parse_b_total it a : wf_toks it = true -> exists r, parse_b it a = Ok r.
Proof.
  intros Hw. unfold parse_b.
  destruct (next_significant it) as [[tok|] it'] eqn:E; [|eauto].
  destruct (next_significant_wf _ _ _ Hw E) as [Ht [Hw' _]].
  destruct tok; eauto.
  - destruct (list_eqb v s_plus); [apply parse_signless_b_total; exact Hw'|].
    destruct (list_eqb v s_minus); [apply parse_signless_b_total; exact Hw'|eauto].
  - destruct is_int; [|eauto]. cbn [wf_tok] in Ht.
    destruct (slice01_ok 792 repr) as [f Hf]; [destruct repr; [discriminate|congruence]|].
    rewrite Hf. cbn [bind]. destruct (is_sign_str f); eauto.
Qed.

Theorem parse_nth_total input : wf_toks input = true -> exists r, parse_nth input = Ok r.
Proof.
  intros Hw. unfold parse_nth.
  destruct (next_significant input) as [[tok|] it] eqn:E; [|eauto].
  destruct (next_significant_wf _ _ _ Hw E) as [Ht [Hw' _]].
  destruct tok; eauto.
  - (* Ident *)
    destruct (list_eqb (ascii_lower v) s_even); [eauto|].
    destruct (list_eqb (ascii_lower v) s_odd); [eauto|].
    destruct (list_eqb (ascii_lower v) s_n); [apply parse_b_total; exact Hw'|].
    destruct (list_eqb (ascii_lower v) s_dash_n); [apply parse_b_total; exact Hw'|].
    destruct (list_eqb (ascii_lower v) s_n_dash); [apply parse_signless_b_total; exact Hw'|].
    destruct (list_eqb (ascii_lower v) s_dash_n_dash); [apply parse_signless_b_total; exact Hw'|].
    cbn [wf_tok] in Ht. destruct v as [|c v]; [discriminate|].
    cbn [ascii_lower map]. set (l := map lower_byte v).
    replace (index 790 (lower_byte c :: l) 0) with (Ok (lower_byte c)) by reflexivity. cbn [bind].
    destruct (lower_byte c =? 45)%N.
    + rewrite slice_from_ok by (rewrite len_cons; pose proof (len_nonneg l); lia). cbn [bind].
      destruct (match_int _); eauto.
    + destruct (match_int _); eauto.
  - (* Literal *)
    destruct (list_eqb v s_plus); [|eauto].
    destruct it as [|t2 it2]; [eauto|].
    apply wf_cons in Hw' as [_ Hw2].
    destruct t2; eauto.
    destruct (list_eqb (ascii_lower v0) s_n); [apply parse_b_total; exact Hw2|].
    destruct (list_eqb (ascii_lower v0) s_n_dash); [apply parse_signless_b_total; exact Hw2|].
    destruct (match_int _); eauto.
  - (* Number *)
    destruct is_int; eauto.
  - (* Dimension *)
    destruct is_int; [|eauto].
    destruct (list_eqb (ascii_lower unit) s_n); [apply parse_b_total; exact Hw'|].
    destruct (list_eqb (ascii_lower unit) s_n_dash); [apply parse_signless_b_total; exact Hw'|].
    destruct (match_int _); eauto.
Qed.

(* an empty identifier (which the tokenizer never produces) does reach the unguarded ident[0] *)
Example parse_nth_empty_ident_panics : parse_nth [PIdent []] = Panic 790.
Proof. reflexivity. Qed.

(* ------------------------------------------------------------------ @page selectors *)
Lemma find_of_total rest : forall pre nth group,
  wf_toks (pre ++ rest) = true -> wf_toks nth = true ->
  exists r, find_of true rest (pre ++ rest) (len pre) nth group = Ok r /\
            match r with Some (nth', _) => wf_toks nth' = true | None => True end.
Proof.
  induction rest as [|arg rest IH]; intros pre nth group Hall Hnth; cbn [find_of].
  - eexists; split; [reflexivity|exact Hnth].
  - assert (Hstep : forall nth' group', wf_toks nth' = true ->
              exists r, find_of true rest (pre ++ arg :: rest) (len pre + 1) nth' group' = Ok r /\
                        match r with Some (n, _) => wf_toks n = true | None => True end).
    { intros nth' group' Hn'.
      replace (pre ++ arg :: rest) with ((pre ++ [arg]) ++ rest) in * by (rewrite <- app_assoc; reflexivity).
      replace (len pre + 1) with (len (pre ++ [arg])) by (unfold len; rewrite app_length; cbn; lia).
      apply IH; assumption. }
    destruct arg; try (apply Hstep; exact Hnth).
    destruct (list_eqb v s_of); [|apply Hstep; exact Hnth].
    destruct (len pre =? 0) eqn:E0; cbn [andb]; [eexists; split; [reflexivity|exact I]|].
    assert (Hl : len (pre ++ PIdent v :: rest) = len pre + 1 + len rest)
      by (unfold len; rewrite app_length; cbn [length]; lia).
    pose proof (len_nonneg pre). pose proof (len_nonneg rest).
    rewrite slice_to_ok by lia. cbn [bind].
    rewrite slice_from_ok by lia. cbn [bind].
    apply Hstep. apply wf_firstn. exact Hall.
Qed.

Lemma index_cons0 {A} site (a : A) l : index site (a :: l) 0 = Ok a.
Proof. reflexivity. Qed.

Lemma slice_from_cons1 {A} site (a : A) l : slice_from site (a :: l) 1 = Ok l.
Proof.
  rewrite slice_from_ok by (rewrite len_cons; pose proof (len_nonneg l); lia). reflexivity.
Qed.

Lemma len_cons_pos {A} (a : A) l : (len (a :: l) >? 0) = true.
Proof. rewrite len_cons. pose proof (len_nonneg l). lia. Qed.

Definition inner_post (tokens : list ptok) (r : option (psel * list ptok)) : Prop :=
  match r with
  | Some (_, tk) => wf_toks tk = true /\ (length tk <= length tokens)%nat /\
                    (tokens <> [] -> (length tk < length tokens)%nat)
  | None => True
  end.

Lemma inner_post_weaken tokens tokens' r :
  inner_post tokens' r -> (length tokens' < length tokens)%nat -> inner_post tokens r.
Proof.
  unfold inner_post. destruct r as [[t tk]|]; [|auto]. intros [H1 [H2 H3]] Hl.
  repeat split; [exact H1|lia|intros _; lia].
Qed.

Lemma ps_inner_total fuel : forall tokens t,
  wf_toks tokens = true -> (length tokens < fuel)%nat ->
  exists r, ps_inner true fuel tokens t = Ok r /\ inner_post tokens r.
Proof.
  induction fuel as [|f IH]; intros tokens t Hw Hf; [lia|].
  cbn [ps_inner].
  destruct tokens as [|tok rest].
  { cbn. eexists; split; [reflexivity|]. cbn. repeat split; auto. congruence. }
  rewrite len_cons_pos, index_cons0. cbn [bind]. rewrite slice_from_cons1. cbn [bind].
  apply wf_cons in Hw as [Htok Hrest].
  cbn [length] in Hf.
  assert (Hrec : forall tk t', wf_toks tk = true -> (length tk <= length rest)%nat ->
            exists r, ps_inner true f tk t' = Ok r /\ inner_post (tok :: rest) r).
  { intros tk t' Hwtk Hltk. destruct (IH tk t' Hwtk ltac:(lia)) as [r [Hr Hp]].
    exists r. split; [exact Hr|]. eapply inner_post_weaken; [exact Hp|cbn [length]; lia]. }
  assert (Hnone : exists r, Ok (@None (psel * list ptok)) = Ok r /\ inner_post (tok :: rest) r)
    by (eexists; split; [reflexivity|exact I]).
  destruct tok; try exact Hnone.
  destruct (list_eqb v s_colon).
  - destruct rest as [|first rest2]; [exact Hnone|].
    replace (len (first :: rest2) =? 0) with false by (rewrite len_cons; pose proof (len_nonneg rest2); lia).
    rewrite index_cons0. cbn [bind].
    apply wf_cons in Hrest as [Hfirst Hrest2].
    destruct first; try exact Hnone.
    + (* :ident *)
      rewrite slice_from_cons1. cbn [bind].
      destruct (list_eqb (ascii_lower v0) s_left || list_eqb (ascii_lower v0) s_right).
      { destruct (negb (list_eqb (ps_side t) []) && negb (list_eqb (ps_side t) (ascii_lower v0)));
          [exact Hnone|]. apply Hrec; [exact Hrest2|cbn [length]; lia]. }
      destruct (list_eqb (ascii_lower v0) s_blank); [apply Hrec; [exact Hrest2|cbn [length]; lia]|].
      destruct (list_eqb (ascii_lower v0) s_first); [apply Hrec; [exact Hrest2|cbn [length]; lia]|].
      exact Hnone.
    + (* :function *)
      rewrite slice_from_cons1. cbn [bind].
      destruct (negb (list_eqb name s_nth)); [exact Hnone|].
      rewrite wf_func in Hfirst.
      destruct (find_of_total args [] args None Hfirst Hfirst) as [fo [Hfo Hwfo]].
      cbn [app len length Z.of_nat] in Hfo. rewrite Hfo. cbn [bind].
      destruct fo as [[nth group]|]; [|exact Hnone].
      destruct (parse_nth_total nth Hwfo) as [nv Hnv]. rewrite Hnv. cbn [bind].
      destruct nv as [[a b]|]; [|exact Hnone].
      destruct group as [g|].
      * destruct (negb (len (remove_whitespace g) =? 1)) eqn:E1; [exact Hnone|].
        destruct (index_ok 739 (remove_whitespace g) 0 ltac:(lia)) as [x Hx]. rewrite Hx. cbn [bind].
        exact Hnone.
      * apply Hrec; [exact Hrest2|cbn [length]; lia].
  - destruct (list_eqb v s_comma).
    + destruct ((len rest >? 0) && negb ((ps_s0 t =? 0) && (ps_s1 t =? 0) && (ps_s2 t =? 0))); [|exact Hnone].
      eexists; split; [reflexivity|]. cbn. repeat split; [exact Hrest|lia|intros _; lia].
    + apply Hrec; [exact Hrest|lia].
Qed.

Lemma ps_outer_total fuel : forall tokens out,
  wf_toks tokens = true -> (length tokens < fuel)%nat ->
  exists r, ps_outer true fuel tokens out = Ok r.
Proof.
  induction fuel as [|f IH]; intros tokens out Hw Hf; [lia|].
  cbn [ps_outer].
  destruct tokens as [|t0 rest]; [cbn; eauto|].
  rewrite len_cons_pos, index_cons0. cbn [bind].
  pose proof Hw as Hw0. apply wf_cons in Hw as [Ht0 Hrest]. cbn [length] in Hf.
  assert (Hgo : forall tokens' t, wf_toks tokens' = true -> (length tokens' <= S (length rest))%nat ->
            exists r,
              (if len tokens' =? 1 then Ok None
               else if len tokens' =? 0 then Ok (Some (rev (t :: out)))
               else let* r0 := ps_inner true (S (length tokens')) tokens' t in
                    match r0 with
                    | None => Ok None
                    | Some (t', tokens'') => ps_outer true f tokens'' (t' :: out)
                    end) = Ok r).
  { intros tokens' t Hw' Hl'.
    destruct (len tokens' =? 1); [eauto|].
    destruct (len tokens' =? 0) eqn:E0; [eauto|].
    destruct (ps_inner_total (S (length tokens')) tokens' t Hw' ltac:(lia)) as [r0 [Hr0 Hp]].
    rewrite Hr0. cbn [bind]. destruct r0 as [[t' tokens'']|]; [|eauto].
    cbn in Hp. destruct Hp as [Hw'' [_ Hlt]].
    assert (tokens' <> []) by (intros ->; cbn in E0; discriminate).
    apply IH; [exact Hw''|]. specialize (Hlt H). lia. }
  destruct t0;
    try (cbn [bind]; apply Hgo; [exact Hw0|cbn [length]; lia]).
  rewrite slice_from_cons1. cbn [bind]. apply Hgo; [exact Hrest|lia].
Qed.

Theorem parse_page_selectors_total prelude :
  wf_toks prelude = true -> exists r, parse_page_selectors prelude = Ok r.
Proof.
  intros Hw. unfold parse_page_selectors, parse_page_selectors_gen.
  destruct (len (remove_whitespace prelude) =? 0); [eauto|].
  apply ps_outer_total; [apply wf_filter; exact Hw|lia].
Qed.

(* The code as found: `@page :nth(of)` slices Arguments[:-1]. *)
Definition page_nth_of : list ptok := [PLit s_colon; PFunc s_nth [PIdent s_of]].

Theorem parse_page_selectors_unfixed_refuted :
  wf_toks page_nth_of = true /\ parse_page_selectors_unfixed page_nth_of = Panic 737.
Proof. split; reflexivity. Qed.

(* and the repaired code rejects it as an invalid selector *)
Example parse_page_selectors_nth_of : parse_page_selectors page_nth_of = Ok None.
Proof. reflexivity. Qed.

(* a few functional facts *)
Example page_sel_empty : parse_page_selectors [PWs] = Ok (Some [psel0]).
Proof. reflexivity. Qed.
Example page_sel_first_left :
  parse_page_selectors [PIdent [97]%N; PLit s_colon; PIdent s_first; PLit s_colon; PIdent s_left]
  = Ok (Some [mkPsel s_left [97]%N 0 0 1 1 1 false true]).
Proof. reflexivity. Qed.
Example page_sel_nth :
  parse_page_selectors [PLit s_colon; PFunc s_nth [PDim true 2 s_n; PNumber true 1 [43; 49]%N]]
  = Ok (Some [mkPsel [] [] 2 1 0 1 0 false false]).
Proof. reflexivity. Qed.
