(* Css/W3cDateProofs.v -- the W3C date reader (Css/W3cDate.v) never reaches the explicit panic of toInt:
   the groups the regular expression captures are short digit runs, which strconv.Atoi converts.
   Without the digit-length bound (year relaxed to \d{4,}) the panic is reachable. *)
From Verif Require Import Base.GoSem Base.GoStrings Base.GoStringsProofs Css.W3cDate.
From Coq Require Import List ZArith NArith Bool Lia ZifyBool ZifyNat ZifyN.
Import ListNotations.
Open Scope N_scope.

(* ------------------------------------------------------------------ strconv.Atoi on short digit runs *)
Lemma digits_val_bound s : forall acc, forallb is_digit s = true -> (0 <= acc)%Z ->
  exists v, digits_val s acc = Some v /\ (acc * 10 ^ Z.of_nat (length s) <= v < (acc + 1) * 10 ^ Z.of_nat (length s))%Z.
Proof.
  induction s as [|c r IH]; intros acc Hd Hacc.
  - exists acc. cbn. split; [reflexivity|lia].
  - cbn [forallb] in Hd. apply andb_prop in Hd as [Hc Hr]. cbn [digits_val]. rewrite Hc.
    assert (Hc' : (0 <= Z.of_N (c - 48) <= 9)%Z) by (unfold is_digit in Hc; lia).
    destruct (IH (acc * 10 + Z.of_N (c - 48))%Z Hr ltac:(lia)) as (v & Hv & Hb).
    exists v. split; [exact Hv|].
    cbn [length]. rewrite Nat2Z.inj_succ, Z.pow_succ_r by lia.
    set (p := (10 ^ Z.of_nat (length r))%Z) in *. assert (0 < p)%Z by (apply Z.pow_pos_nonneg; lia). nia.
Qed.

(* a digit is neither '+' nor '-' : Atoi takes the whole string as the body *)
Lemma atoi_unsigned c r : is_digit c = true ->
  atoi (c :: r) = match digits_val (c :: r) 0%Z with
                  | None => None
                  | Some v => if ((min_int64 <=? v) && (v <=? max_int64))%Z then Some v else None
                  end.
Proof.
  intros Hc. unfold atoi.
  assert (E : (match c :: r with 43 :: r0 => (false, r0) | 45 :: r0 => (true, r0) | _ => (false, c :: r) end) = (false, c :: r)).
  { unfold is_digit in Hc.
    destruct c as [|p]; [reflexivity|].
    do 6 (destruct p as [p|p|]; try reflexivity); exfalso; cbn in Hc; lia. }
  rewrite E. reflexivity.
Qed.

Theorem atoi_short s : s <> [] -> forallb is_digit s = true -> (length s <= 18)%nat ->
  exists v, atoi s = Some v /\ (0 <= v < 10 ^ Z.of_nat (length s))%Z.
Proof.
  intros Hne Hd Hlen. destruct s as [|c r]; [congruence|].
  pose proof Hd as Hd'. cbn [forallb] in Hd'. apply andb_prop in Hd' as [Hc _].
  rewrite (atoi_unsigned c r Hc).
  destruct (digits_val_bound (c :: r) 0%Z Hd ltac:(lia)) as (v & Hv & Hb). rewrite Hv.
  assert (P : (10 ^ Z.of_nat (length (c :: r)) <= 10 ^ 18)%Z) by (apply Z.pow_le_mono_r; lia).
  unfold min_int64, max_int64.
  destruct ((-9223372036854775808 <=? v)%Z && (v <=? 9223372036854775807)%Z) eqn:E; [|lia].
  exists v. split; [reflexivity|lia].
Qed.

(* ------------------------------------------------------------------ toInt *)
(* toInt cannot fail on a digit run of at most 18 digits (10^18 < 2^63) ... *)
Theorem to_int_total_bounded s default :
  forallb is_digit s = true -> (length s <= 18)%nat -> (s = [] -> default <> None) ->
  exists v, to_int s default = Ok v.
Proof.
  intros Hd Hlen Hdef. unfold to_int. destruct s as [|c r].
  - destruct default as [d|]; [eauto|]. exfalso. apply (Hdef eq_refl). reflexivity.
  - destruct (atoi_short (c :: r) ltac:(discriminate) Hd Hlen) as (v & Hv & _). rewrite Hv.
    destruct default; eauto.
Qed.

(* ... nor on a sign followed by two digits (the tzHour group) *)
Lemma to_int_signed sg a b : (sg = 43 \/ sg = 45) -> is_digit a = true -> is_digit b = true ->
  exists v, to_int [sg; a; b] None = Ok v.
Proof.
  intros Hs Ha Hb. unfold to_int.
  destruct (atoi_short [a; b] ltac:(discriminate) ltac:(cbn; rewrite Ha, Hb; reflexivity) ltac:(cbn; lia)) as (v & Hv & Hr).
  cbn [length] in Hr. change (Z.of_nat 2) with 2%Z in Hr.
  rewrite (atoi_unsigned a [b] Ha) in Hv.
  destruct (digits_val [a; b] 0%Z) as [w|] eqn:Ew; [|discriminate].
  assert (w = v) by (destruct ((min_int64 <=? w)%Z && (w <=? max_int64)%Z); congruence). subst w.
  destruct Hs as [-> | ->]; unfold atoi; rewrite Ew; unfold min_int64, max_int64.
  - destruct ((-9223372036854775808 <=? v)%Z && (v <=? 9223372036854775807)%Z) eqn:E; [eauto|lia].
  - destruct ((-9223372036854775808 <=? - v)%Z && (- v <=? 9223372036854775807)%Z) eqn:E; [eauto|lia].
Qed.

(* the explicit panic IS reachable on a digit run that overflows int64 (20 nines) *)
Example to_int_panics_on_long_run : to_int (repeat 57 20) None = Panic site_toint.
Proof. vm_compute. reflexivity. Qed.

(* ------------------------------------------------------------------ what the regular expression captures *)
Definition two_digits (f : list N) : Prop := exists a b, f = [a; b] /\ is_digit a = true /\ is_digit b = true.
Definition opt_two (f : list N) : Prop := f = [] \/ two_digits f.

Record wf_groups (g : groups) : Prop := {
  wf_year : exists a b c d, g_year g = [a; b; c; d] /\ forallb is_digit [a; b; c; d] = true;
  wf_month : opt_two (g_month g);
  wf_day : opt_two (g_day g);
  wf_hour : opt_two (g_hour g);
  wf_minute : opt_two (g_minute g);
  wf_second : opt_two (g_second g);
  wf_tzh : g_tzh g = [] \/ exists sg a b, g_tzh g = [sg; a; b] /\ (sg = 43 \/ sg = 45) /\ is_digit a = true /\ is_digit b = true;
  wf_tzm : opt_two (g_tzm g);
  (* the "impossible" error returns of parseW3cDate: hour present => minute present; tzHour present => tzMinute present *)
  wf_hm : g_hour g <> [] -> g_minute g <> [];
  wf_tz : g_tzh g <> [] -> g_tzm g <> [];
}.

Lemma two_inv p l f r : two p l = Some (f, r) -> exists a b, f = [a; b] /\ p a b = true /\ l = a :: b :: r.
Proof.
  unfold two. destruct l as [|a [|b r']]; try discriminate.
  destruct (p a b) eqn:E; [|discriminate]. intros H. inversion H; subst. eauto.
Qed.

Lemma p_digits (p : N -> N -> bool) a b :
  (p = p_month \/ p = p_day \/ p = p_hour \/ p = p_min) -> p a b = true -> is_digit a = true /\ is_digit b = true.
Proof.
  intros [-> | [-> | [-> | ->]]]; unfold p_month, p_day, p_hour, p_min, in_rng, is_digit; lia.
Qed.

Lemma two_two p l f r : (p = p_month \/ p = p_day \/ p = p_hour \/ p = p_min) -> two p l = Some (f, r) -> two_digits f.
Proof.
  intros Hp H. apply two_inv in H as (a & b & -> & Hab & _). destruct (p_digits p a b Hp Hab). exists a, b. auto.
Qed.

Lemma finish_inv g l g' : finish g l = Some g' -> g' = g.
Proof. unfold finish. destruct (drop_while is_html_ws l); congruence. Qed.

Lemma seconds_inv l s r : seconds l = Some (s, r) -> opt_two s.
Proof.
  unfold seconds. destruct l as [|c l']; [intros H; inversion H; left; reflexivity|].
  destruct (c =? 58); [|intros H; inversion H; left; reflexivity].
  destruct (two p_min l') as [[s' r']|] eqn:E; [|discriminate].
  assert (T : two_digits s') by (eapply two_two; [|exact E]; auto).
  destruct r' as [|dot r'']; [intros H; inversion H; subst; right; exact T|].
  destruct (dot =? 46); [|intros H; inversion H; subst; right; exact T].
  destruct (take_digits r'') as [d r3]. destruct d; intros H; inversion H; subst; right; exact T.
Qed.

Lemma zone_inv l tzh tzm r : zone l = Some (tzh, tzm, r) ->
  (tzh = [] /\ tzm = []) \/
  (two_digits tzm /\ exists sg a b, tzh = [sg; a; b] /\ (sg = 43 \/ sg = 45) /\ is_digit a = true /\ is_digit b = true).
Proof.
  unfold zone. destruct l as [|c l']; [discriminate|].
  destruct (c =? 90); [intros H; inversion H; left; auto|].
  destruct ((c =? 43) || (c =? 45)) eqn:Es; [|discriminate].
  destruct (two p_hour l') as [[h [|colon r1]]|] eqn:E; try discriminate.
  destruct (colon =? 58); [|discriminate].
  destruct (two p_min r1) as [[m r2]|] eqn:E2; [|discriminate].
  intros H. inversion H; subst. right.
  split; [eapply two_two; [|exact E2]; auto|].
  apply two_inv in E as (a & b & -> & Hab & _). destruct (p_digits p_hour a b ltac:(auto) Hab).
  exists c, a, b. repeat split; auto. lia.
Qed.

Lemma nonempty_two f : two_digits f -> f <> [].
Proof. intros (a & b & -> & _). discriminate. Qed.

Lemma stage_time_wf y mo d l g :
  (exists a b c e, y = [a; b; c; e] /\ forallb is_digit [a; b; c; e] = true) -> opt_two mo -> opt_two d ->
  stage_time y mo d l = Some g -> wf_groups g.
Proof.
  intros Hy Hmo Hd. unfold stage_time.
  assert (Base : forall l', finish (mkG y mo d [] [] [] [] []) l' = Some g -> wf_groups g).
  { intros l' H. apply finish_inv in H. subst g. constructor; cbn; auto; try (left; reflexivity); congruence. }
  destruct l as [|c r]; [apply Base|].
  destruct (c =? 84); [|apply Base].
  destruct (two p_hour r) as [[h [|colon r1]]|] eqn:Eh; try discriminate.
  destruct (colon =? 58); [|discriminate].
  destruct (two p_min r1) as [[mi r2]|] eqn:Em; [|discriminate].
  destruct (seconds r2) as [[s r3]|] eqn:Es; [|discriminate].
  destruct (zone r3) as [[[tzh tzm] r4]|] eqn:Ez; [|discriminate].
  intros H. apply finish_inv in H. subst g.
  assert (Th : two_digits h) by (eapply two_two; [|exact Eh]; auto).
  assert (Tm : two_digits mi) by (eapply two_two; [|exact Em]; auto).
  apply seconds_inv in Es. apply zone_inv in Ez.
  constructor; cbn; auto; try (right; assumption).
  - destruct Ez as [[-> ->]|[_ Hz]]; [left; reflexivity|right; exact Hz].
  - destruct Ez as [[-> ->]|[Hz _]]; [left; reflexivity|right; exact Hz].
  - intros _. apply nonempty_two. exact Tm.
  - destruct Ez as [[-> ->]|[Hz _]]; [congruence|intros _; apply nonempty_two; exact Hz].
Qed.

Theorem match_w3c_wf s g : match_w3c false s = Some g -> wf_groups g.
Proof.
  unfold match_w3c, year_of.
  destruct (drop_while is_html_ws s) as [|a [|b [|c [|d r]]]]; try discriminate.
  destruct (is_digit a && is_digit b && is_digit c && is_digit d) eqn:Ey; [|discriminate].
  assert (Hy : exists a0 b0 c0 e, [a; b; c; d] = [a0; b0; c0; e] /\ forallb is_digit [a0; b0; c0; e] = true).
  { exists a, b, c, d. split; [reflexivity|].
    apply andb_prop in Ey as [Ey Hd4]. apply andb_prop in Ey as [Ey Hc3]. apply andb_prop in Ey as [Ha1 Hb2].
    cbn [forallb]. rewrite Ha1, Hb2, Hc3, Hd4. reflexivity. }
  set (y := [a; b; c; d]) in *. clearbody y.
  assert (Base : forall mo dd l', opt_two mo -> opt_two dd -> mo = [] \/ True ->
            finish (mkG y mo dd [] [] [] [] []) l' = Some g -> wf_groups g).
  { intros mo dd l' Hmo Hdd _ H. apply finish_inv in H. subst g. constructor; cbn; auto; try (left; reflexivity); congruence. }
  unfold stage_month.
  assert (N0 : opt_two []) by (left; reflexivity).
  destruct r as [|c1 r1]; [apply Base; auto|].
  destruct (c1 =? 45); [|apply Base; auto].
  destruct (two p_month r1) as [[mo r2]|] eqn:Emo; [|discriminate].
  assert (Tmo : opt_two mo) by (right; eapply two_two; [|exact Emo]; auto).
  unfold stage_day.
  destruct r2 as [|c2 r3]; [apply Base; auto|].
  destruct (c2 =? 45); [|apply Base; auto].
  destruct (two p_day r3) as [[dd r4]|] eqn:Ed; [|discriminate].
  assert (Td : opt_two dd) by (right; eapply two_two; [|exact Ed]; auto).
  apply stage_time_wf; assumption.
Qed.

(* ------------------------------------------------------------------ parseW3cDate is total *)
Lemma to_int_opt_two f d : opt_two f -> exists v, to_int f (Some d) = Ok v.
Proof.
  intros [-> | (a & b & -> & Ha & Hb)]; [cbn; eauto|].
  apply to_int_total_bounded; [cbn; rewrite Ha, Hb; reflexivity|cbn; lia|discriminate].
Qed.
Lemma to_int_two f : two_digits f -> exists v, to_int f None = Ok v.
Proof.
  intros (a & b & -> & Ha & Hb).
  apply to_int_total_bounded; [cbn; rewrite Ha, Hb; reflexivity|cbn; lia|discriminate].
Qed.

Theorem parse_w3c_date_total s : exists r, parse_w3c_date false s = Ok r.
Proof.
  unfold parse_w3c_date. destruct (match_w3c false s) as [g|] eqn:E; [|eauto].
  apply match_w3c_wf in E. destruct E as [Hy Hmo Hd Hh Hmi Hs Htzh Htzm Hhm Htz].
  destruct Hy as (a & b & c & d & Ey & Dy).
  destruct (to_int_total_bounded (g_year g) None ltac:(rewrite Ey; exact Dy) ltac:(rewrite Ey; cbn; lia) ltac:(rewrite Ey; discriminate)) as [vy ->].
  destruct (to_int_opt_two _ 1%Z Hmo) as [vmo ->]. destruct (to_int_opt_two _ 1%Z Hd) as [vd ->].
  destruct (to_int_opt_two _ 0%Z Hh) as [vh ->]. destruct (to_int_opt_two _ 0%Z Hmi) as [vmi ->].
  destruct (to_int_opt_two _ 0%Z Hs) as [vs ->]. cbn [bind].
  destruct (negb (is_nil (g_hour g))); [|eauto].
  destruct (is_nil (g_minute g)); [eauto|].
  destruct (negb (is_nil (g_tzh g))) eqn:En; [|eauto].
  destruct (negb (starts_with 43 (g_tzh g) || starts_with 45 (g_tzh g))); [eauto|].
  destruct (is_nil (g_tzm g)) eqn:Em; [eauto|].
  destruct Htzh as [E0 | (sg & x & y & E1 & Hsg & Hx & Hy)]; [rewrite E0 in En; discriminate|].
  rewrite E1. destruct (to_int_signed sg x y Hsg Hx Hy) as [vt ->]. cbn [bind].
  destruct Htzm as [E0 | T]; [rewrite E0 in Em; discriminate|].
  destruct (to_int_two _ T) as [vm ->]. cbn [bind]. eauto.
Qed.

(* the regular expression with the year relaxed to \d{4,} matches 20 nines, and toInt panics *)
Theorem parse_w3c_date_long_years_refuted :
  match_w3c true (repeat 57 20) = Some (mkG (repeat 57 20) [] [] [] [] [] [] []) /\
  parse_w3c_date true (repeat 57 20) = Panic site_toint /\
  parse_w3c_date false (repeat 57 20) = Ok None.
Proof. vm_compute. repeat split; reflexivity. Qed.

(* with the relaxed year the reader is still total on years of at most 18 digits: the bound is what matters *)
Example long_year_18_digits_ok :
  exists t, parse_w3c_date true (repeat 57 18 ++ [45; 48; 49]) = Ok (Some t) /\ d_year t = 999999999999999999%Z.
Proof. eexists. vm_compute. split; reflexivity. Qed.
