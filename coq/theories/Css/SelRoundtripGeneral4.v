(* Css/SelRoundtripGeneral4.v -- general round trip, part 4: pseudo-classes and pseudo-elements. *)
From Verif Require Import Css.Sel Css.SelParse Css.SelPrint Css.SelRoundtrip
  Css.SelRoundtripGeneral Css.SelRoundtripGeneral2 Css.SelRoundtripGeneral3 Css.SelProofs.
From Coq Require Import ZArith NArith Lia List Bool Arith ZifyBool ZifyNat ZifyN.
Import ListNotations.

Section Pseudo.
Variable s : str.
Local Notation len := (length s).

(* the continuation of parsePseudoclassSelector after the name, named *)
Definition pseudo_k (f : nat) (must_pe : bool) (name : str) (i : nat) : res (pr pseudo_res) :=
  let name := to_lower name in
  if must_pe && negb (str_in name pseudo_elements) then Ok PErr else
  match rel_of name with
  | Some rn =>
      match consume_paren s i with
      | None => Ok PErr
      | Some i =>
          bindP (p_group s f false i) (fun g i =>
            match consume_closing_paren s i with
            | None => Ok PErr
            | Some i => Ok (POk (PSel (SRel rn g)) i)
            end)
      end
  | None =>
  match nth_of name with
  | Some (last, ofType) =>
      match consume_paren s i with
      | None => Ok PErr
      | Some i =>
          bindP (parse_nth s i) (fun ab i =>
            match consume_closing_paren s i with
            | None => Ok PErr
            | Some i => Ok (POk (PSel (SNth (fst ab) (snd ab) last ofType)) i)
            end)
      end
  | None =>
  if str_eqb name n_lang then
    bindP (parse_lang_arg s i) (fun x i => Ok (POk (PSel x) i))
  else
  match simple_pseudo name with
  | Some x => Ok (POk (PSel x) i)
  | None =>
      if str_in name pseudo_elements then Ok (POk (PElem name) i)
      else Ok PErr
  end
  end
  end.

Lemma p_pseudo_unfold f i : p_pseudo s (S f) i =
  if len <=? i then Ok PErr else
  let* c := at_ s 454 i in
  if negb (N.eqb c 58) then Ok PErr else
  let i := S i in
  if len <=? i then Ok PErr else
  let* c2 := at_ s 463 i in
  let must_pe := N.eqb c2 58 in
  let i := if must_pe then S i else i in
  bindP (parse_identifier s i) (pseudo_k f must_pe).
Proof. reflexivity. Qed.

Definition plain (x : str) : bool :=
  match x with [] => false | h :: _ => name_start h && forallb name_char x end.

Lemma name_loop_plain : forall x n i acc suf, skipn i s = x ++ suf -> forallb name_char x = true ->
  stops suf = true -> length x < n -> name_loop s n i acc = Ok (POk (acc ++ x) (i + length x)).
Proof.
  induction x as [|c x IH]; intros n i acc suf H Hx Hs Hn.
  - destruct n; [simpl in Hn; lia|]. cbn [app] in H. rewrite (name_loop_stop s _ _ _ _ H Hs).
    rewrite app_nil_r. cbn. do 2 f_equal. lia.
  - destruct n; [simpl in Hn; lia|]. cbn [app] in H. cbn [forallb] in Hx. apply andb_prop in Hx as [Hc Hx].
    cbn [name_loop]. rewrite (ltb_rest _ _ _ _ H), (at_rest _ _ _ _ _ H). cbn [bind]. rewrite Hc.
    rewrite (IH n (S i) _ suf (rest_S _ _ _ _ H) Hx Hs) by (simpl in Hn; lia).
    rewrite <- app_assoc. cbn [app length]. do 2 f_equal. lia.
Qed.

Lemma parse_identifier_plain i x suf : skipn i s = x ++ suf -> plain x = true -> stops suf = true ->
  parse_identifier s i = Ok (POk x (i + length x)).
Proof.
  intros H Hp Hs. destruct x as [|h t]; [discriminate|]. cbn [plain] in Hp. apply andb_prop in Hp as [Hh Hx].
  pose proof H as H'. cbn [app] in H'. unfold parse_identifier.
  rewrite (dash_run_no s _ _ _ _ H') by (unfold name_start in Hh; lia).
  rewrite (leb_rest _ _ _ _ H'), (at_rest _ _ _ _ _ H'). cbn [bind]. rewrite Hh. cbn [orb negb].
  unfold parse_name. rewrite (name_loop_plain (h :: t) (S len) i [] suf H Hx Hs).
  - rewrite Nat.sub_diag. reflexivity.
  - pose proof (rest_bound _ _ _ _ H). lia.
Qed.

Lemma id_start_not58 h : id_start h = true -> (h =? 58)%N = false.
Proof. unfold id_start, name_start. lia. Qed.

Lemma p_pseudo_plain f i name r : plain name = true ->
  skipn i s = 58%N :: name ++ r -> stops r = true ->
  p_pseudo s (S f) i = pseudo_k f false name (S i + length name).
Proof.
  intros Hn H Hs. pose proof (rest_S _ _ _ _ H) as H1.
  destruct name as [|h t]; [discriminate|]. pose proof Hn as Hn'. cbn [plain] in Hn'. apply andb_prop in Hn' as [Hh _].
  pose proof H1 as H1'. cbn [app] in H1'.
  rewrite p_pseudo_unfold. rewrite (leb_rest _ _ _ _ H), (at_rest _ _ _ _ _ H). cbn [bind].
  change (58 =? 58)%N with true. cbn [negb]. cbv zeta.
  rewrite (leb_rest _ _ _ _ H1'), (at_rest _ _ _ _ _ H1'). cbn [bind].
  replace (h =? 58)%N with false by (unfold name_start in Hh; lia).
  rewrite (parse_identifier_plain (S i) (h :: t) r H1 Hn Hs). reflexivity.
Qed.

Lemma p_pseudo_pe f i name r : plain name = true ->
  skipn i s = 58%N :: 58%N :: name ++ r -> stops r = true ->
  p_pseudo s (S f) i = pseudo_k f true name (S (S i) + length name).
Proof.
  intros Hn H Hs. pose proof (rest_S _ _ _ _ H) as H1. pose proof (rest_S _ _ _ _ H1) as H2.
  rewrite p_pseudo_unfold. rewrite (leb_rest _ _ _ _ H), (at_rest _ _ _ _ _ H). cbn [bind].
  change (58 =? 58)%N with true. cbn [negb]. cbv zeta.
  rewrite (leb_rest _ _ _ _ H1), (at_rest _ _ _ _ _ H1). cbn [bind].
  change (58 =? 58)%N with true. cbv iota.
  rewrite (parse_identifier_plain (S (S i)) name r H2 Hn Hs). reflexivity.
Qed.
Lemma p_seq_loop_colon f a i sels r : skipn i s = 58%N :: r ->
  p_seq_loop s (S f) a i sels [] =
  bindP (p_pseudo s f i) (fun r i => match r with
      | PSel ns => p_seq_loop s f a i (sels ++ [ns]) []
      | PElem name => if a then p_seq_loop s f a i sels name else Ok PErr end).
Proof. intros H. rewrite (p_seq_loop_S _ _ _ _ _ _ _ H). reflexivity. Qed.

Lemma step_simple_pseudo x name : print_sel x = 58%N :: name ->
  plain name = true -> to_lower name = name -> rel_of name = None -> nth_of name = None ->
  str_eqb name n_lang = false -> simple_pseudo name = Some x -> simple_step s x.
Proof.
  intros Hp Hn Hl Hr Ht Hg Hs f a i sels r H Hd Hf. rewrite Hp in *. cbn [app] in H.
  rewrite H in Hf. cbn [length] in Hf. destruct f as [|f]; [lia|].
  rewrite (p_seq_loop_colon _ _ _ _ _ H).
  rewrite (p_pseudo_plain f i name r Hn H (delim_stops _ Hd)).
  unfold pseudo_k. rewrite Hl, Hr, Ht, Hg, Hs. cbn [andb bindP length]. f_equal. lia.
Qed.

Lemma step_never v : normal false (SNever v) = true -> simple_step s (SNever v).
Proof.
  intros Hn. cbn [normal] in Hn. destruct v as [|c name]; [discriminate|].
  destruct (N.eqb_spec c 58) as [->|Hc].
  2:{ destruct c as [|p]; [discriminate|]. do 6 (destruct p as [p|p|]; try discriminate); congruence. }
  unfold str_in in Hn. apply existsb_exists in Hn as [n [Hin Hn]]. apply str_eqb_eq in Hn. subst n.
  cbn [never_names In] in Hin.
  repeat (destruct Hin as [<-|Hin]; [eapply step_simple_pseudo; [reflexivity|vm_compute; reflexivity..]|]).
  contradiction.
Qed.
Lemma consume_paren_at i c r : skipn i s = 40%N :: c :: r -> is_space c = false -> (c =? 47)%N = false ->
  consume_paren s i = Some (S i).
Proof.
  intros H Hs Hc. unfold consume_paren, peek_is. rewrite (peek_rest _ _ _ _ _ H). cbn [N.eqb Pos.eqb].
  rewrite (skip_ws_id _ _ _ _ (rest_S _ _ _ _ H) Hs Hc). reflexivity.
Qed.
Lemma consume_closing_at i r : skipn i s = 41%N :: r -> consume_closing_paren s i = Some (S i).
Proof.
  intros H. unfold consume_closing_paren. rewrite (skip_ws_id _ _ _ _ H) by reflexivity.
  unfold peek_is. rewrite (peek_rest _ _ _ _ _ H). reflexivity.
Qed.

Lemma nth_text_head a b : exists h t, nth_text a b = h :: t /\ is_space h = false /\ (h =? 47)%N = false.
Proof.
  rewrite nth_text_eq. destruct (a <? 0)%Z; [cbn [app]; eauto|]. cbn [app].
  destruct (n_to_dec_spec (Z.abs_N a)) as [D [Ne _]].
  destruct (n_to_dec (Z.abs_N a)) as [|d A]; [congruence|]. cbn [forallb] in D. apply andb_prop in D as [D1 _].
  destruct (digit_nospace d D1) as [A1 [A2 _]]. cbn [app]. eauto.
Qed.

Definition nth_name (l t : bool) : str :=
  tl ((if l then t_nth_last else t_nth) ++ (if t then t_of_type else t_child)).
Lemma print_nth_eq a b l t : (a =? 0)%Z && (b =? 1)%Z = false ->
  print_sel (SNth a b l t) = 58%N :: nth_name l t ++ 40%N :: nth_text a b ++ [41%N].
Proof.
  intros E. cbn [print_sel]. rewrite E. unfold nth_text, nth_name.
  destruct l, t; cbn [t_nth_last t_nth t_of_type t_child app tl]; rewrite <- ?app_assoc; reflexivity.
Qed.

Lemma step_nth a b l t : normal false (SNth a b l t) = true -> simple_step s (SNth a b l t).
Proof.
  intros Hn. cbn [normal] in Hn. apply andb_prop in Hn as [Ha Hb].
  destruct ((a =? 0)%Z && (b =? 1)%Z) eqn:E.
  - assert (a = 0%Z) by lia. assert (b = 1%Z) by lia. subst a b.
    destruct l, t; (eapply step_simple_pseudo; [reflexivity|vm_compute; reflexivity..]).
  - intros f k i sels r H Hd Hf. rewrite (print_nth_eq a b l t E) in *. cbn [app] in H.
    rewrite H in Hf. cbn [length] in Hf. destruct f as [|f]; [lia|].
    rewrite <- app_assoc in H. cbn [app] in H. rewrite <- app_assoc in H. cbn [app] in H.
    rewrite (p_seq_loop_colon _ _ _ _ _ H).
    assert (Hnn : plain (nth_name l t) = true) by (destruct l, t; reflexivity).
    rewrite (p_pseudo_plain f i (nth_name l t) _ Hnn H eq_refl).
    pose proof (rest_S _ _ _ _ H) as H1. apply rest_app in H1.
    destruct (nth_text_head a b) as [h [tt [Eh [Hsp H47]]]].
    pose proof H1 as H1'. rewrite Eh in H1'. cbn [app] in H1'.
    pose proof (rest_S _ _ _ _ H1) as H2. pose proof (rest_app _ _ _ _ H2) as H3.
    unfold pseudo_k.
    replace (to_lower (nth_name l t)) with (nth_name l t) by (destruct l, t; reflexivity).
    replace (rel_of (nth_name l t)) with (@None rel_name) by (destruct l, t; reflexivity).
    replace (nth_of (nth_name l t)) with (Some (l, t)) by (destruct l, t; reflexivity).
    cbn [andb]. rewrite (consume_paren_at _ _ _ H1' Hsp H47).
    rewrite (parse_nth_print s _ a b r H2 Ha Hb). cbn [bindP].
    rewrite (consume_closing_at _ _ H3). cbn [fst snd bindP]. f_equal.
    cbn [length]. rewrite !app_length. cbn [length]. rewrite app_length. cbn [length]. lia.
Qed.
Lemma step_lang l : normal false (SLang l) = true -> simple_step s (SLang l).
Proof.
  intros Hn f k i sels r H Hd Hf. cbn [normal] in Hn. apply andb_prop in Hn as [Hl Hlow].
  assert (Hl' : l <> []) by (destruct l; [discriminate|congruence]).
  unfold lowered in Hlow. apply str_eqb_eq in Hlow.
  change (print_sel (SLang l)) with (58%N :: n_lang ++ 40%N :: escape_identifier l ++ [41%N]) in *.
  cbn [app] in H. rewrite H in Hf. cbn [length] in Hf. destruct f as [|f]; [lia|].
  rewrite <- app_assoc in H. cbn [app] in H. rewrite <- app_assoc in H. cbn [app] in H.
  rewrite (p_seq_loop_colon _ _ _ _ _ H).
  rewrite (p_pseudo_plain f i n_lang _ eq_refl H eq_refl).
  pose proof (rest_S _ _ _ _ H) as H1. apply rest_app in H1.
  destruct (escid_head l Hl') as [h [tt [Eh Hh]]]. destruct (id_start_nospace h Hh) as [Hsp H47].
  pose proof H1 as H1'. rewrite Eh in H1'. cbn [app] in H1'.
  pose proof (rest_S _ _ _ _ H1) as H2. pose proof (rest_app _ _ _ _ H2) as H3.
  unfold pseudo_k. change (to_lower n_lang) with n_lang. change (rel_of n_lang) with (@None rel_name).
  change (nth_of n_lang) with (@None (bool * bool)). change (str_eqb n_lang n_lang) with true. cbn [andb]. cbv iota.
  unfold parse_lang_arg. rewrite (consume_paren_at _ _ _ H1' Hsp H47).
  pose proof H2 as H2'. rewrite Eh in H2'. cbn [app] in H2'.
  replace (S (S i + length n_lang) =? len) with false by (symmetry; apply Nat.eqb_neq; pose proof (rest_lt _ _ _ _ H2'); lia).
  rewrite (parse_identifier_escid s _ l (41%N :: r) H2 eq_refl Hl'). cbn [bindP]. rewrite Hlow.
  rewrite (skip_ws_id _ _ _ _ H3) by reflexivity. rewrite (leb_rest _ _ _ _ H3).
  rewrite (consume_closing_at _ _ H3). cbn [bindP]. f_equal.
  cbn [length]. rewrite !app_length. cbn [length]. rewrite app_length. cbn [length]. lia.
Qed.

Lemma step_fixed x : match x with SOnly _ | SInput | SEmpty | SRoot | SLink | SEnabled | SDisabled | SChecked => True
                     | _ => False end -> simple_step s x.
Proof.
  destruct x as [| | | | | |ot| | | | | | | | | | |]; try contradiction; intros _; try destruct ot;
    (eapply step_simple_pseudo; [reflexivity|vm_compute; reflexivity..]).
Qed.
End Pseudo.
