(* Css/Urls.v -- model of the percent-decoding and `data:` URI code of
   /repo/utils/urls.go (C07).  Strings are lists of BYTES (`list N`, each < 256).

   Ported:
     utils.Unquote                    urls.go:90-97   (= net/url.PathUnescape, ported from
                                                       GOROOT/src/net/url/url.go `unescape`, mode encodePathSegment)
     DefaultUrlFetcher, data: branch  urls.go:197-208
     dataURI.toResource               urls.go:292-313 (percent-decoding step; base64 is library code, not modelled)
     parseDataURL                     urls.go:316-361
     isHex / unhex / unescape         urls.go:363-433 (bytes.Reader.ReadRune = utf8.DecodeRune, ported)

   Every slice expression / index of the Go code is a `Panic` site of Base/GoSem.v:
     701-705 url.unescape (s[i], s[i+1], s[i+2], s[i:], s[:3])
     706-708 url.unescape second loop (s[i], s[i+1], s[i+2])
     710 url[len("data:"):]   711 data[:indexSep]   712 data[indexSep+1:]
     713/714 params[0], params[1]  715/716 propComponets[0], propComponets[1]
   NO PROOFS here (Css/UrlsProofs.v). *)
From Verif Require Import Base.GoSem Base.GoStrings.
From Coq Require Import List ZArith NArith Bool.
Import ListNotations.
Open Scope Z_scope.

(* ------------------------------------------------------------------ hex *)
(* urls.go:363-373 isHex, net/url ishex *)
Definition is_hex (c : N) : bool :=
  ((97 <=? c) && (c <=? 102) || (65 <=? c) && (c <=? 70) || (48 <=? c) && (c <=? 57))%N.
(* urls.go:376-386 unhex *)
Definition unhex (c : N) : N :=
  if ((48 <=? c) && (c <=? 57))%N then (c - 48)%N
  else if ((97 <=? c) && (c <=? 102))%N then (c - 97 + 10)%N
  else if ((65 <=? c) && (c <=? 70))%N then (c - 65 + 10)%N
  else 0%N.

(* ------------------------------------------------------------------ url.PathUnescape *)
(* first loop of net/url unescape: count '%', check they are well formed.
   Ok None = EscapeError *)
Fixpoint pu_count (fuel : nat) (s : list N) (i n : Z) : res (option Z) :=
  match fuel with
  | O => OutOfFuel
  | S f =>
    if i <? len s then
      let* c := index 701 s i in
      if (c =? 37)%N then                                   (* '%' *)
        let bad :=                                           (* s = s[i:]; if len(s) > 3 { s = s[:3] } *)
          let* s1 := slice_from 704 s i in
          let* _ := (if len s1 >? 3 then slice_to 705 s1 3 else Ok s1) in
          Ok None in
        if i + 2 >=? len s then bad
        else
          let* c1 := index 702 s (i + 1) in
          if negb (is_hex c1) then bad
          else
            let* c2 := index 703 s (i + 2) in
            if negb (is_hex c2) then bad
            else pu_count f s (i + 3) (n + 1)
      else pu_count f s (i + 1) n                            (* '+' and default: i++ *)
    else Ok (Some n)
  end.

(* second loop: build the result (acc is reversed) *)
Fixpoint pu_build (fuel : nat) (s : list N) (i : Z) (acc : list N) : res (list N) :=
  match fuel with
  | O => OutOfFuel
  | S f =>
    if i <? len s then
      let* c := index 706 s i in
      if (c =? 37)%N then
        let* c1 := index 707 s (i + 1) in
        let* c2 := index 708 s (i + 2) in
        pu_build f s (i + 3) ((unhex c1 * 16 + unhex c2)%N :: acc)   (* i += 2; i++ *)
      else pu_build f s (i + 1) (c :: acc)
    else Ok (rev acc)
  end.

Definition path_unescape (s : list N) : res (option (list N)) :=
  let* r := pu_count (S (length s)) s 0 0 in
  match r with
  | None => Ok None
  | Some n =>
      if n =? 0 then Ok (Some s)
      else let* t := pu_build (S (length s)) s 0 [] in Ok (Some t)
  end.

(* utils.Unquote, urls.go:90-97: "" on error *)
Definition unquote (s : list N) : res (list N) :=
  let* r := path_unescape s in
  match r with Some t => Ok t | None => Ok [] end.

(* ------------------------------------------------------------------ utf8.DecodeRune *)
(* GOROOT/src/unicode/utf8/utf8.go DecodeRune: (rune, size); p non-empty.
   Library code: it cannot panic (every p[k] is guarded by n < sz), so it is a
   plain function by pattern matching. *)
Definition rune_error : N := 65533.
Definition in_range (lo hi c : N) : bool := ((lo <=? c) && (c <=? hi))%N.
Definition cont (c : N) : bool := in_range 128 191 c.        (* locb..hicb *)

Definition decode_rune (p : list N) : N * Z :=
  match p with
  | [] => (rune_error, 0)
  | p0 :: r =>
    if (p0 <? 128)%N then (p0, 1)
    else if in_range 194 223 p0 then                          (* 2 bytes *)
      match r with
      | b1 :: _ => if cont b1 then (((p0 mod 32) * 64 + b1 mod 64)%N, 2) else (rune_error, 1)
      | _ => (rune_error, 1)
      end
    else if in_range 224 239 p0 then                          (* 3 bytes *)
      let lo := if (p0 =? 224)%N then 160%N else 128%N in
      let hi := if (p0 =? 237)%N then 159%N else 191%N in
      match r with
      | b1 :: b2 :: _ =>
          if negb (in_range lo hi b1) then (rune_error, 1)
          else if negb (cont b2) then (rune_error, 1)
          else (((p0 mod 16) * 4096 + (b1 mod 64) * 64 + b2 mod 64)%N, 3)
      | _ => (rune_error, 1)
      end
    else if in_range 240 244 p0 then                          (* 4 bytes *)
      let lo := if (p0 =? 240)%N then 144%N else 128%N in
      let hi := if (p0 =? 244)%N then 143%N else 191%N in
      match r with
      | b1 :: b2 :: b3 :: _ =>
          if negb (in_range lo hi b1) then (rune_error, 1)
          else if negb (cont b2) then (rune_error, 1)
          else if negb (cont b3) then (rune_error, 1)
          else (((p0 mod 8) * 262144 + (b1 mod 64) * 4096 + (b2 mod 64) * 64 + b3 mod 64)%N, 4)
      | _ => (rune_error, 1)
      end
    else (rune_error, 1)
  end.

(* ------------------------------------------------------------------ data: payload percent-decoding *)
(* urls.go:386-433 unescape.  `rest` is what the bytes.Reader has not consumed.
   Ok None = error value.  The loop is `for { ... }`: fuel = len + 1. *)
Fixpoint unescape (fuel : nat) (rest acc : list N) : res (option (list N)) :=
  match fuel with
  | O => OutOfFuel
  | S f =>
    match rest with
    | [] => Ok (Some (rev acc))                               (* io.EOF: break *)
    | _ :: rest1 =>
      let '(r, size) := decode_rune rest in
      if size >? 1 then Ok None                               (* non-ASCII char detected *)
      else if (r =? 37)%N then
        match rest1 with
        | [] => Ok None                                       (* unexpected end *)
        | eb1 :: rest2 =>
          if negb (is_hex eb1) then Ok None
          else match rest2 with
               | [] => Ok None
               | eb0 :: rest3 =>
                 if negb (is_hex eb0) then Ok None
                 else unescape f rest3 (((unhex eb0 + unhex eb1 * 16) mod 256)%N :: acc)
               end
        end
      else unescape f rest1 ((r mod 256)%N :: acc)            (* buf.WriteByte(byte(r)) *)
    end
  end.
Definition unescape_bytes (s : list N) : res (option (list N)) := unescape (S (length s)) s [].

(* ------------------------------------------------------------------ parseDataURL *)
Record data_uri := mkDataUri {
  du_mime : list N;
  du_params : list (list N * list N);   (* the Go map, as an association list without duplicate keys *)
  du_base64 : bool;
  du_data : list N }.

Fixpoint map_set (k v : list N) (m : list (list N * list N)) : list (list N * list N) :=
  match m with
  | [] => [(k, v)]
  | (k', v') :: r => if list_eqb k k' then (k, v) :: r else (k', v') :: map_set k v r
  end.

Definition s_data_colon : list N := [100; 97; 116; 97; 58]%N.                       (* "data:" *)
Definition s_text_plain : list N := [116; 101; 120; 116; 47; 112; 108; 97; 105; 110]%N.  (* "text/plain" *)
Definition s_default_param : list N :=
  [99; 104; 97; 114; 115; 101; 116; 61; 85; 83; 45; 65; 83; 67; 73; 73]%N.        (* "charset=US-ASCII" *)
Definition s_base64 : list N := [98; 97; 115; 101; 54; 52]%N.                       (* "base64" *)

(* one iteration of `for i, prop := range strings.Split(properties, ";")`, urls.go:337-358 *)
Definition data_prop (first : bool) (prop : list N) (d : data_uri) : res data_uri :=
  if first then
    if contains_byte prop 47 then                                                    (* "/" *)
      Ok (mkDataUri prop (du_params d) (du_base64 d) (du_data d))
    else
      let params := split_byte 61 s_default_param in
      let* k := index 713 params 0 in
      let* v := index 714 params 1 in
      Ok (mkDataUri s_text_plain (map_set k v (du_params d)) (du_base64 d) (du_data d))
  else if list_eqb prop s_base64 then
    Ok (mkDataUri (du_mime d) (du_params d) true (du_data d))
  else if contains_byte prop 61 then                                                 (* "=" *)
    let pc := split2_byte 61 prop in
    let* k := index 715 pc 0 in
    let* v := index 716 pc 1 in
    Ok (mkDataUri (du_mime d) (map_set k v (du_params d)) (du_base64 d) (du_data d))
  else Ok d.

Fixpoint data_props (first : bool) (props : list (list N)) (d : data_uri) : res data_uri :=
  match props with
  | [] => Ok d
  | p :: r => let* d' := data_prop first p d in data_props false r d'
  end.

(* urls.go:316-361; Ok None = error value ("data not found in Data URI") *)
Definition parse_data_url (url : list N) : res (option data_uri) :=
  let* data := slice_from 710 url 5 in                       (* url[len(dataURIPrefix):] *)
  let indexSep := index_byte data 44 in                      (* ',' *)
  if indexSep =? -1 then Ok None
  else
    let* properties := slice_to 711 data indexSep in
    let* encoded := slice_from 712 data (indexSep + 1) in
    let* d := data_props true (split_byte 59 properties) (mkDataUri [] [] false encoded) in
    Ok (Some d).

(* ------------------------------------------------------------------ DefaultUrlFetcher, data: branch *)
(* strings.HasPrefix(strings.ToLower(urlTarget), "data:"): no rune other than
   the ASCII letters lower-cases to 'd', 'a', 't', so this is an ASCII
   case-insensitive test of the first five bytes. *)
Definition is_data_url (s : list N) : bool := has_prefix (ascii_lower (firstn 5 s)) s_data_colon.
(* htmlSpacesRe.ReplaceAllString(urlTarget, ""): utils/html.go:17-20 *)
Definition is_html_space (c : N) : bool :=
  ((c =? 32) || (c =? 9) || (c =? 10) || (c =? 12) || (c =? 13))%N.
Definition strip_html_spaces (s : list N) : list N := filter (fun c => negb (is_html_space c)) s.

(* What the fetcher computes before handing the payload to encoding/base64:
   Ok None = an error value is returned. *)
Definition fetch_data_url (s : list N) : res (option (data_uri * list N)) :=
  let s' := strip_html_spaces s in
  let* d := parse_data_url s' in
  match d with
  | None => Ok None
  | Some d =>
    let* p := unescape_bytes (du_data d) in                  (* toResource, urls.go:294 *)
    match p with
    | None => Ok None
    | Some payload => Ok (Some (d, payload))
    end
  end.
