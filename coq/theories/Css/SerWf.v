(* Css/SerWf.v -- the domain of the C20 round-trip theorems, as decidable
   predicates (definitions only, NO PROOFS).

   `wf_tokens ts` describes the token lists the tokenizer can return on a
   source without parse errors ("token lists obtainable by tokenizing valid
   UTF-8 text without parse-error tokens"): non-empty identifier-like values
   without NUL, whitespace made of space/tab/newline, numeric representations
   in the number grammar with the matching integer flag, literal values from
   the tokenizer's literal set, a hash whose "unrestricted" flag is possible
   for its value, unicode ranges below 16^6, comments without "*/", a
   backslash delimiter only in front of a newline, a function named url only
   in front of a quoted string, no error flags.  Check/C20.v evaluates it on
   every token list /repo's Tokenize returned during a run.

   `follow_ok t k`: the text k may directly follow the serialization of t
   without changing how t is re-tokenised (the boundary invariant of the
   list-level theorem); `fl`: the flat token stream of a token tree, comments
   dropped and positions erased; `mergews`: consecutive whitespace tokens
   merged. *)
From Verif Require Export Css.Ser Css.RetokSpec.
From Coq Require Import List NArith Bool.
Import ListNotations.
Open Scope N_scope.

Definition nonempty {A} (l : list A) : bool := match l with [] => false | _ => true end.
Definition no_nul (v : str) : bool := forallb (fun c => negb (c =? 0)) v.
Definition head_sat (p : N -> bool) (l : list N) : bool :=
  match l with c :: _ => p c | [] => false end.

(* a representation accepted as a whole by the number grammar (4.3.12) *)
Definition number_repr (repr : str) : bool :=
  match consume_number repr with
  | Some (_, []) => true
  | _ => false
  end.

Definition name_val (v : str) : bool := nonempty v && no_nul v.

(* single code points that are delimiters *)
Definition lit1 (c : N) : bool :=
  negb (whitespace c || name_start c || digit c || is_quote c || is_open c || is_close c
        || (c =? 0) || (c =? 12) || (c =? 13)).

Definition wf_literal (v : str) : bool :=
  match v with
  | [c] => lit1 c
  | [a; b] => ((a =? 124) && (b =? 124)) || (cmp_delim a && (b =? 61))      (* ||  ~= |= ^= $= *= *)
  | [a; b; c] => (a =? 45) && (b =? 45) && (c =? 62)                         (* --> *)
  | [a; b; c; d] => (a =? 60) && (b =? 33) && (c =? 45) && (d =? 45)         (* <!-- *)
  | _ => false
  end.

(* value of a hash that is not an identifier: starts with a digit, or is "-"
   alone or followed by a digit *)
Definition hash_nonid (v : str) : bool :=
  match v with
  | c :: r => digit c || ((c =? 45) && match r with [] => true | d :: _ => digit d end)
  | [] => false
  end.

Fixpoint has_comment_end (v : str) : bool :=
  match v with
  | _ :: r => has_prefix [42; 47] v || has_comment_end r
  | [] => false
  end.
Definition clean_cp (c : N) : bool := negb ((c =? 0) || (c =? 12) || (c =? 13)).
Definition comment_ok (v : str) : bool := negb (has_comment_end v) && forallb clean_cp v.

Definition is_backslash (t : token) : bool :=
  match t with TLiteral _ [c] => c =? 92 | _ => false end.
Definition newline_ws (t : token) : bool :=
  match t with TWhitespace _ (c :: _) => c =? 10 | _ => false end.
Definition backslash_ok (t : token) (r : list token) : bool :=
  if is_backslash t then match r with n :: _ => newline_ws n | [] => false end else true.

(* arguments of a function named url: (whitespace) string ... *)
Definition url_args (l : list token) : bool :=
  match l with
  | TString _ _ _ :: _ => true
  | TWhitespace _ _ :: TString _ _ _ :: _ => true
  | _ => false
  end.

Definition pow16_6 : N := 16777216.

Fixpoint wf_tok (t : token) : bool :=
  let fix wf_seq (l : list token) : bool :=
    match l with
    | [] => true
    | x :: r => wf_tok x && backslash_ok x r && wf_seq r
    end in
  match t with
  | TLiteral _ v => wf_literal v
  | TParseError _ _ => false
  | TComment _ v => comment_ok v
  | TWhitespace _ v => nonempty v && forallb whitespace v
  | TIdent _ v | TAtKeyword _ v => name_val v
  | THash _ v id => name_val v && (id || hash_nonid v)
  | TString _ v e | TURL _ v e => negb e && no_nul v
  | TUnicodeRange _ a b => (a <? pow16_6) && (b <? pow16_6)
  | TNumber _ r i | TPercentage _ r i => number_repr r && Bool.eqb i (repr_is_int r)
  | TDimension _ r i u => number_repr r && Bool.eqb i (repr_is_int r) && name_val u
  | TParens _ l | TSquare _ l | TCurly _ l => wf_seq l
  | TFunction _ n l => name_val n && wf_seq l && (negb (is_url_name n) || url_args l)
  end.

Fixpoint wf_tokens (l : list token) : bool :=
  match l with
  | [] => true
  | x :: r => wf_tok x && backslash_ok x r && wf_tokens r
  end.

(* ------------------------------------------------------------------ the boundary invariant *)
Definition name_stop (k : list N) : bool :=
  negb (head_sat name_cp k) && negb (valid_escape k).

Definition is_e (c : N) : bool := (c =? 101) || (c =? 69).

(* what may follow a number representation without extending it *)
Definition num_stop (k : list N) : bool :=
  negb (head_sat digit k)
  && negb (head_is 46 k && head_sat digit (tl k))
  && negb (match k with e :: r => is_e e && head_sat digit (snd (take_sign r)) | [] => false end).

(* what may follow a unicode-range without extending it *)
Definition ur_stop (k : list N) : bool :=
  negb (head_sat hexdig k) && negb (head_is 63 k)
  && negb (head_is 45 k && head_sat hexdig (tl k)).

Definition is_u (v : str) : bool := match v with [c] => (c =? 117) || (c =? 85) | _ => false end.

Definition lit_follow (v : str) (k : list N) : bool :=
  match v with
  | [c] =>
      if c =? 45 then negb (starts_ident (45 :: k)) && negb (head_sat digit k)
                      && negb (head_is 46 k && head_sat digit (tl k))
      else if c =? 43 then negb (head_sat digit k) && negb (head_is 46 k && head_sat digit (tl k))
      else if c =? 46 then negb (head_sat digit k)
      else if c =? 35 then name_stop k
      else if c =? 64 then negb (starts_ident k)
      else if c =? 47 then negb (head_is 42 k)
      else if c =? 60 then negb (has_prefix [33; 45; 45] k)
      else if c =? 124 then negb (head_is 124 k) && negb (head_is 61 k)
      else if cmp_delim c then negb (head_is 61 k)
      else if c =? 92 then head_is 10 k
      else true
  | _ => true
  end.

Definition follow_ok (t : token) (k : list N) : bool :=
  match t with
  | TIdent _ v => name_stop k && negb (head_is 40 k) && negb (is_u v && starts_urange (85 :: k))
  | TAtKeyword _ _ | THash _ _ _ | TDimension _ _ _ _ => name_stop k
  | TNumber _ _ _ => num_stop k && negb (starts_ident k) && negb (head_is 37 k)
  | TUnicodeRange _ _ _ => ur_stop k
  | TLiteral _ v => lit_follow v k
  | _ => true
  end.

(* ------------------------------------------------------------------ flat streams *)
Fixpoint fl_tok (t : token) : list ftok :=
  match t with
  | TComment _ _ => []
  | TParens _ l => FOpen 40 :: flat_map fl_tok l ++ [FClose 41]
  | TSquare _ l => FOpen 91 :: flat_map fl_tok l ++ [FClose 93]
  | TCurly _ l => FOpen 123 :: flat_map fl_tok l ++ [FClose 125]
  | TFunction _ n l => FFun n :: flat_map fl_tok l ++ [FClose 41]
  | _ => [FTok (norm_tok t)]
  end.
Definition fl (l : list token) : list ftok := flat_map fl_tok l.

Fixpoint mergews (l : list ftok) : list ftok :=
  match l with
  | [] => []
  | FTok (TWhitespace _ v) :: r =>
      match mergews r with
      | FTok (TWhitespace _ w) :: r' => FTok (TWhitespace p0 (v ++ w)) :: r'
      | r' => FTok (TWhitespace p0 v) :: r'
      end
  | x :: r => x :: mergews r
  end.
