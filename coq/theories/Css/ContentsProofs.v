(* Css/ContentsProofs.v -- ParseBlocksContents (model Css/Parse.v, repaired code):
   every item ends exactly at its first ";" or {} block whatever follows
   (compositionality), and each item is the declaration of the css-syntax draft or,
   failing that, the nested qualified rule / parse error (Css/ContentsSpec.v). *)
From Verif Require Import Base.GoSem Css.Token Css.Tok Css.Parse Css.DeclSpec Css.ContentsSpec
  Css.DeclProofs Css.ParseProofs.
From Coq Require Import List NArith ZArith Bool Lia ZifyBool ZifyNat ZifyN.
Import ListNotations.
Open Scope N_scope.

Arguments N.eqb : simpl never.

Definition is_sep (t : token) : bool := is_literal t s_semicolon || is_curly t.
Definition no_sep (l : list token) : Prop := Forall (fun t => is_sep t = false) l.
Definition terminated (l : list token) : Prop := existsb is_sep l = true.

Lemma is_semicolon_spec t : is_literal t s_semicolon = is_semicolon_tok t.
Proof.
  destruct t; try reflexivity. simpl. unfold s_semicolon, is_semicolon_tok.
  destruct v as [|d [|e v]]; simpl; rewrite ?andb_true_r, ?andb_false_r; reflexivity.
Qed.

Lemma is_sep_spec t : is_sep t = ends_item t.
Proof. unfold is_sep, ends_item. rewrite is_semicolon_spec. destruct t; reflexivity. Qed.

Lemma sep_cases t : is_sep t = true ->
  (is_literal t s_semicolon = true /\ is_curly t = false) \/ (is_literal t s_semicolon = false /\ is_curly t = true).
Proof. unfold is_sep. destruct t; simpl; intros H; try discriminate; auto. rewrite orb_false_r in H. auto. Qed.

Lemma blocks_split_cons t l :
  blocks_split (t :: l) =
    if is_literal t s_semicolon then ([], [t], l)
    else if is_curly t then ([t], [], l)
    else let '(a, s, b) := blocks_split l in (t :: a, s, b).
Proof. reflexivity. Qed.

(* ------------------------------------------------------------------ the scan of consumeBlocksContent *)
Lemma blocks_split_nosep r sep b : no_sep r -> is_sep sep = true ->
  blocks_split (r ++ sep :: b) = if is_curly sep then (r ++ [sep], [], b) else (r, [sep], b).
Proof.
  intros Hr Hs. induction Hr as [|t r Ht _ IH]; cbn [app]; rewrite blocks_split_cons.
  - destruct (sep_cases _ Hs) as [[E1 E2]|[E1 E2]]; rewrite E1, E2; reflexivity.
  - unfold is_sep in Ht. apply orb_false_elim in Ht as [E1 E2]. rewrite E1, E2, IH.
    destruct (is_curly sep); reflexivity.
Qed.

Lemma blocks_split_nosep_eof r : no_sep r -> blocks_split r = (r, [], []).
Proof.
  induction 1 as [|t r Ht _ IH]; [reflexivity|]. rewrite blocks_split_cons.
  unfold is_sep in Ht. apply orb_false_elim in Ht as [E1 E2]. rewrite E1, E2, IH. reflexivity.
Qed.

Lemma blocks_split_sep r sep b : is_sep sep = true ->
  exists d sm, terminated (d ++ sm) /\
    ((blocks_split (r ++ sep :: b) = (d, sm, b) /\ blocks_split (r ++ [sep]) = (d, sm, [])) \/
     (exists s, blocks_split (r ++ sep :: b) = (d, sm, s ++ sep :: b) /\ blocks_split (r ++ [sep]) = (d, sm, s ++ [sep]))).
Proof.
  intros Hs. induction r as [|t r IH]; cbn [app]; rewrite !blocks_split_cons.
  - destruct (sep_cases _ Hs) as [[E1 E2]|[E1 E2]]; rewrite E1, ?E2.
    + exists [], [sep]. split; [unfold terminated; simpl; rewrite Hs; reflexivity|]. left. split; reflexivity.
    + exists [sep], []. split; [unfold terminated; simpl; rewrite Hs; reflexivity|]. left. split; reflexivity.
  - destruct (is_literal t s_semicolon) eqn:E1.
    { exists [], [t]. split; [unfold terminated, is_sep; simpl; rewrite E1; reflexivity|]. right. exists r. split; reflexivity. }
    destruct (is_curly t) eqn:E2.
    { exists [t], []. split; [unfold terminated, is_sep; simpl; rewrite E1, E2; reflexivity|]. right. exists r. split; reflexivity. }
    destruct IH as (d & sm & Ht & IH). exists (t :: d), sm.
    split; [unfold terminated in *; simpl; rewrite Ht; apply orb_true_r|].
    destruct IH as [[H1 H2]|(s & H1 & H2)]; rewrite H1, H2; [left|right; exists s]; split; reflexivity.
Qed.

Lemma blocks_split_length l : (length (snd (blocks_split l)) <= length l)%nat.
Proof.
  induction l as [|t r IH]; [simpl; lia|]. rewrite blocks_split_cons.
  destruct (is_literal t s_semicolon); [simpl; lia|]. destruct (is_curly t); [simpl; lia|].
  destruct (blocks_split r) as [[x y] z]. simpl in *. lia.
Qed.

(* ------------------------------------------------------------------ the qualified-rule fallback looks no further than the terminator *)
Definition qr_extend (x : qr_result) (rest : list token) : qr_result :=
  match x with
  | QRBlock p c r => QRBlock p c (r ++ rest)
  | QRStop t r => QRStop t (r ++ rest)
  | QREof p => QREof p
  end.

Lemma qualified_loop_cons stop t l :
  qualified_loop stop (t :: l) =
    if stop && is_literal t s_semicolon then QRStop t l
    else match t with
         | TCurly _ args => QRBlock [] args l
         | _ => match qualified_loop stop l with
                | QRBlock p c r' => QRBlock (t :: p) c r'
                | QREof p => QREof (t :: p)
                | x => x
                end
         end.
Proof. reflexivity. Qed.

Lemma qualified_loop_terminated l1 rest : terminated l1 ->
  qualified_loop true (l1 ++ rest) = qr_extend (qualified_loop true l1) rest /\
  (forall p, qualified_loop true l1 <> QREof p).
Proof.
  unfold terminated. induction l1 as [|t l IH]; [discriminate|]. cbn [existsb app]. intros H.
  rewrite !qualified_loop_cons. cbn [andb].
  destruct (is_literal t s_semicolon) eqn:E1; [split; [reflexivity|discriminate]|].
  destruct (is_curly t) eqn:E2.
  { destruct t; try discriminate. split; [reflexivity|discriminate]. }
  unfold is_sep in H at 1. rewrite E1, E2 in H. cbn [orb] in H. destruct (IH H) as [IH1 IH2].
  destruct t; try discriminate; rewrite IH1; destruct (qualified_loop true l) as [pp cc rr|tt rr|pp];
    (split; [reflexivity|]); try discriminate; exfalso; eapply IH2; reflexivity.
Qed.

Lemma cqr_terminated first l1 rest : terminated l1 ->
  fst (consume_qualified_rule first (l1 ++ rest) true) = fst (consume_qualified_rule first l1 true).
Proof.
  intros Ht. unfold consume_qualified_rule. destruct (true && is_literal first s_semicolon); [reflexivity|].
  destruct (qualified_loop_terminated l1 rest Ht) as [E Hne]. rewrite E.
  destruct first; try reflexivity;
    destruct (qualified_loop true l1) as [pp cc rr|tt rr|pp]; try reflexivity; exfalso; eapply Hne; reflexivity.
Qed.

(* ------------------------------------------------------------------ at-rules *)
Lemma at_rule_loop_cons t l :
  at_rule_loop (t :: l) =
    match t with
    | TCurly _ args => ([], Some args, l)
    | _ => if is_literal t s_semicolon then ([], None, l)
           else let '(p, c, r') := at_rule_loop l in (t :: p, c, r')
    end.
Proof. destruct t; reflexivity. Qed.

Lemma at_rule_loop_sep sep r b : is_sep sep = true ->
  (at_rule_loop (r ++ sep :: b) = (fst (at_rule_loop (r ++ [sep])), b) /\ snd (at_rule_loop (r ++ [sep])) = []) \/
  (exists s, at_rule_loop (r ++ sep :: b) = (fst (at_rule_loop (r ++ [sep])), s ++ sep :: b) /\
             snd (at_rule_loop (r ++ [sep])) = s ++ [sep]).
Proof.
  intros Hs. induction r as [|t r IH]; cbn [app]; rewrite !at_rule_loop_cons.
  - left. destruct (sep_cases _ Hs) as [[E1 E2]|[E1 E2]].
    + destruct sep; try discriminate. rewrite E1. split; reflexivity.
    + destruct sep; try discriminate. split; reflexivity.
  - assert (Hstep : (let '(p, c, r') := at_rule_loop (r ++ sep :: b) in (t :: p, c, r')) =
                    (fst (let '(p, c, r') := at_rule_loop (r ++ [sep]) in (t :: p, c, r')), b) /\
                    snd (let '(p, c, r') := at_rule_loop (r ++ [sep]) in (t :: p, c, r')) = [] \/
                    (exists s, (let '(p, c, r') := at_rule_loop (r ++ sep :: b) in (t :: p, c, r')) =
                      (fst (let '(p, c, r') := at_rule_loop (r ++ [sep]) in (t :: p, c, r')), s ++ sep :: b) /\
                      snd (let '(p, c, r') := at_rule_loop (r ++ [sep]) in (t :: p, c, r')) = s ++ [sep])).
    { destruct (at_rule_loop (r ++ [sep])) as [[x y] z]; cbn [fst snd] in *.
      destruct IH as [[E1 E2]|(s & E1 & E2)]; rewrite E1; [left|right; exists s]; auto. }
    destruct t; cbn [is_literal]; try exact Hstep.
    + destruct (str_eqb v s_semicolon); [|exact Hstep]. right. exists r. split; reflexivity.
    + right. exists r. split; reflexivity.
Qed.

(* ------------------------------------------------------------------ the consumer of ParseBlocksContents *)
Definition blocks_consumer (fxp : bool) := with_at (consume_blocks_content fxp).

Lemma cbc_unfold fxp first tokens :
  consume_blocks_content fxp first tokens =
    let '(decl_tokens, semi, rest) :=
      if negb (is_literal first s_semicolon) && negb (is_curly first) then blocks_split tokens
      else ([], [], tokens) in
    match parse_declaration fxp first decl_tokens true with
    | CDeclaration p n v i => (CDeclaration p n v i, rest)
    | _ => (fst (consume_qualified_rule first (decl_tokens ++ semi ++ rest) true), rest)
    end.
Proof. reflexivity. Qed.

Lemma blocks_consumer_length fxp t r : (length (snd (blocks_consumer fxp t r)) <= length r)%nat.
Proof.
  unfold blocks_consumer, with_at, consume_at_rule.
  pose proof (at_rule_loop_length r) as H1. pose proof (blocks_split_length r) as H2.
  assert (Hc : (length (snd (consume_blocks_content fxp t r)) <= length r)%nat).
  { rewrite cbc_unfold. destruct (negb (is_literal t s_semicolon) && negb (is_curly t)).
    - destruct (blocks_split r) as [[d sm] rest]. cbn [snd] in H2.
      destruct (parse_declaration fxp t d true); exact H2.
    - destruct (parse_declaration fxp t [] true); simpl; lia. }
  destruct t; try exact Hc.
  destruct (at_rule_loop r) as [[x y] z]. simpl in *. lia.
Qed.

(* the result of an item does not depend on what follows its terminator *)
Lemma cbc_sep fxp sep t r b : is_sep sep = true ->
  (consume_blocks_content fxp t (r ++ sep :: b) = (fst (consume_blocks_content fxp t (r ++ [sep])), b) /\
   snd (consume_blocks_content fxp t (r ++ [sep])) = []) \/
  (exists s, consume_blocks_content fxp t (r ++ sep :: b) = (fst (consume_blocks_content fxp t (r ++ [sep])), s ++ sep :: b) /\
             snd (consume_blocks_content fxp t (r ++ [sep])) = s ++ [sep]).
Proof.
  intros Hs. rewrite !cbc_unfold.
  destruct (negb (is_literal t s_semicolon) && negb (is_curly t)) eqn:Ehead.
  - destruct (blocks_split_sep r sep b Hs) as (d & sm & Ht & [[H1 H2]|(s & H1 & H2)]); rewrite H1, H2.
    + left. destruct (parse_declaration fxp t d true); cbn [fst snd]; (split; [|reflexivity]);
        try reflexivity; rewrite app_nil_r, app_assoc, (cqr_terminated t (d ++ sm) b Ht); reflexivity.
    + right. exists s. destruct (parse_declaration fxp t d true); cbn [fst snd]; (split; [|reflexivity]);
        try reflexivity; rewrite !(app_assoc d sm), !(cqr_terminated t (d ++ sm) _ Ht); reflexivity.
  - (* a ";" (never reached through the loop) or a {} block first: the item is that token *)
    right. exists r. cbn [app].
    assert (Hindep : forall X, fst (consume_qualified_rule t X true) = fst (consume_qualified_rule t [] true)).
    { intros X. unfold consume_qualified_rule. cbn [andb].
      destruct (is_literal t s_semicolon) eqn:E1; [reflexivity|]. cbn [negb andb] in Ehead.
      destruct t; try discriminate. reflexivity. }
    destruct (parse_declaration fxp t [] true); cbn [fst snd]; (split; [|reflexivity]);
      try reflexivity; rewrite (Hindep (r ++ sep :: b)), (Hindep (r ++ [sep])); reflexivity.
Qed.

Lemma blocks_consumer_sep fxp sep t r b : is_sep sep = true ->
  (blocks_consumer fxp t (r ++ sep :: b) = (fst (blocks_consumer fxp t (r ++ [sep])), b) /\
   snd (blocks_consumer fxp t (r ++ [sep])) = []) \/
  (exists s, blocks_consumer fxp t (r ++ sep :: b) = (fst (blocks_consumer fxp t (r ++ [sep])), s ++ sep :: b) /\
             snd (blocks_consumer fxp t (r ++ [sep])) = s ++ [sep]).
Proof.
  intros Hs. unfold blocks_consumer, with_at. pose proof (cbc_sep fxp sep t r b Hs) as X.
  destruct t; try exact X. unfold consume_at_rule.
  pose proof (at_rule_loop_sep sep r b Hs) as X1.
  destruct (at_rule_loop (r ++ [sep])) as [[x y] z]; cbn [fst snd] in *.
  destruct X1 as [[E1 E2]|(s & E1 & E2)]; rewrite E1; [left; subst z|right; exists s; subst z]; auto.
Qed.

(* ------------------------------------------------------------------ blocks_contents_compositional *)
(* A declaration, nested rule or at-rule -- valid or not -- of a block's contents ends
   exactly at its ";" / {} block: whatever token list `a` precedes the terminator and
   whatever `b` follows it, the result is the result for `a` with its terminator followed by the result for `b`. *)
Theorem blocks_contents_compositional : forall fxp (skip_ws : bool) (a b : list token) (sep : token),
  is_sep sep = true ->
  exists oa ob,
    parse_blocks_contents fxp (a ++ [sep]) skip_ws = Ok oa /\
    parse_blocks_contents fxp b skip_ws = Ok ob /\
    parse_blocks_contents fxp (a ++ sep :: b) skip_ws = Ok (oa ++ ob).
Proof.
  intros fxp sw a b sep Hs. unfold parse_blocks_contents.
  destruct (sep_cases _ Hs) as [[E1 E2]|[E1 E2]].
  - (* ";" *)
    apply (loop_sep_skipped (negb sw) true (fun v => str_eqb v s_semicolon) (with_at (consume_blocks_content fxp))
             (blocks_consumer_length fxp) sep) with (n := length a); try (rewrite ?app_length; simpl; lia).
    + destruct sep; try discriminate. repeat split. exact E1.
    + intros t r b0. apply (blocks_consumer_sep fxp sep t r b0 Hs).
  - (* {} block *)
    apply (loop_block (negb sw) true (fun v => str_eqb v s_semicolon) (with_at (consume_blocks_content fxp))
             (blocks_consumer_length fxp) sep) with (n := length a); try (rewrite ?app_length; simpl; lia).
    + destruct sep; try discriminate. repeat split.
    + intros b0. destruct sep; try discriminate. split; reflexivity.
    + intros t r b0. apply (blocks_consumer_sep fxp sep t r b0 Hs).
Qed.

Theorem parse_blocks_contents_total : forall fxp l sw, exists o, parse_blocks_contents fxp l sw = Ok o.
Proof. intros. unfold parse_blocks_contents. apply loop_ok; [apply blocks_consumer_length|lia]. Qed.

(* ------------------------------------------------------------------ one item = the draft's declaration, else nested rule / error *)
Lemma declaration_pos first rest nested p n v i :
  parse_declaration true first rest nested = CDeclaration p n v i -> p = token_pos first.
Proof.
  unfold parse_declaration. destruct first; try discriminate.
  destruct (next_significant rest) as [[c|] r]; try discriminate.
  destruct (negb (is_literal c s_colon)); try discriminate.
  destruct (block_rule _); try discriminate. intros H; inversion H; reflexivity.
Qed.

Lemma qualified_loop_nosep_block r p args : no_sep r ->
  qualified_loop true (r ++ [TCurly p args]) = QRBlock r args [].
Proof.
  induction 1 as [|t r Ht _ IH]; [reflexivity|]. cbn [app]. rewrite qualified_loop_cons.
  unfold is_sep in Ht. apply orb_false_elim in Ht as [E1 E2]. rewrite E1. cbn [andb].
  destruct t; try discriminate; rewrite IH; reflexivity.
Qed.

Lemma qualified_loop_nosep_semi r semi : no_sep r -> is_literal semi s_semicolon = true ->
  qualified_loop true (r ++ [semi]) = QRStop semi [].
Proof.
  intros Hr Hs. induction Hr as [|t r Ht _ IH]; cbn [app]; rewrite qualified_loop_cons.
  - rewrite Hs. reflexivity.
  - unfold is_sep in Ht. apply orb_false_elim in Ht as [E1 E2]. rewrite E1. cbn [andb].
    destruct t; try discriminate; rewrite IH; reflexivity.
Qed.

Lemma qualified_loop_nosep_eof r : no_sep r -> qualified_loop true r = QREof r.
Proof.
  induction 1 as [|t r Ht _ IH]; [reflexivity|]. rewrite qualified_loop_cons.
  unfold is_sep in Ht. apply orb_false_elim in Ht as [E1 E2]. rewrite E1. cbn [andb].
  destruct t; try discriminate; rewrite IH; reflexivity.
Qed.

Definition term_tokens (term : option token) : list token := match term with Some t => [t] | None => [] end.

(* what consumeBlocksContent returns for one item is spec_item *)
Theorem blocks_item_spec : forall first body term,
  is_sep first = false -> no_sep body ->
  match term with Some t => is_sep t = true | None => True end ->
  consume_blocks_content true first (body ++ term_tokens term) = (spec_item first body term, []).
Proof.
  intros first body term Hf Hb Ht. rewrite cbc_unfold.
  unfold is_sep in Hf. apply orb_false_elim in Hf as [F1 F2]. rewrite F1, F2. cbn [negb andb].
  unfold spec_item.
  assert (Hcqr : forall (P : Prop), (is_literal first s_semicolon = false -> is_curly first = false -> P) -> P) by auto.
  destruct term as [t|]; cbn [term_tokens].
  - destruct (sep_cases _ Ht) as [[E1 E2]|[E1 E2]].
    + (* ";" *)
      rewrite (blocks_split_nosep body t [] Hb Ht), E2.
      assert (Hc : is_curly_block t = false) by (rewrite <- is_curly_spec; exact E2). rewrite Hc. rewrite !app_nil_r.
      pose proof (declaration_draft_spec first body true) as Hd.
      destruct (spec_declaration_draft first body) as [n v i|].
      * destruct Hd as [p Hd]. rewrite Hd. rewrite (declaration_pos _ _ _ _ _ _ _ Hd). reflexivity.
      * destruct Hd as [p Hd]. rewrite Hd. cbn [fst]. f_equal.
        unfold consume_qualified_rule. rewrite F1. cbn [andb app].
        rewrite (qualified_loop_nosep_semi body t Hb E1).
        destruct first; try discriminate; destruct t; try discriminate; reflexivity.
    + (* {} block *)
      rewrite (blocks_split_nosep body t [] Hb Ht), E2.
      assert (Hc : is_curly_block t = true) by (rewrite <- is_curly_spec; exact E2). rewrite Hc.
      pose proof (declaration_draft_spec first (body ++ [t]) true) as Hd.
      destruct (spec_declaration_draft first (body ++ [t])) as [n v i|].
      * destruct Hd as [p Hd]. rewrite Hd. rewrite (declaration_pos _ _ _ _ _ _ _ Hd). reflexivity.
      * destruct Hd as [p Hd]. rewrite Hd. cbn [fst]. f_equal.
        unfold consume_qualified_rule. rewrite F1. cbn [andb app]. rewrite ?app_nil_r.
        destruct t; try discriminate. rewrite (qualified_loop_nosep_block body _ _ Hb).
        destruct first; try discriminate; reflexivity.
  - (* end of input *)
    rewrite !app_nil_r. rewrite (blocks_split_nosep_eof body Hb).
    pose proof (declaration_draft_spec first body true) as Hd.
    destruct (spec_declaration_draft first body) as [n v i|].
    + destruct Hd as [p Hd]. rewrite Hd. rewrite (declaration_pos _ _ _ _ _ _ _ Hd). reflexivity.
    + destruct Hd as [p Hd]. rewrite Hd. cbn [fst]. f_equal.
      unfold consume_qualified_rule. rewrite F1. cbn [andb app]. rewrite ?app_nil_r.
      rewrite (qualified_loop_nosep_eof body Hb).
      destruct first; try discriminate; reflexivity.
Qed.

(* ... and ParseBlocksContents on a single item returns exactly it *)
Theorem blocks_contents_item : forall first body term skip_ws,
  is_sep first = false -> is_ws_or_comment first = false ->
  (forall p kw, first <> TAtKeyword p kw) -> no_sep body ->
  match term with Some t => is_sep t = true | None => True end ->
  parse_blocks_contents true (first :: body ++ term_tokens term) skip_ws = Ok [spec_item first body term].
Proof.
  intros first body term sw Hf Hw Hat Hb Ht. unfold parse_blocks_contents.
  cbn [length list_loop].
  assert (W1 : is_ws first = false) by (destruct first; try reflexivity; discriminate).
  assert (W2 : is_comment first = false) by (destruct first; try reflexivity; discriminate).
  rewrite W1, W2.
  assert (W3 : match first with TLiteral _ v => str_eqb v s_semicolon | _ => false end = false).
  { unfold is_sep in Hf. apply orb_false_elim in Hf as [F1 _]. destruct first; try reflexivity. exact F1. }
  rewrite W3.
  assert (W4 : with_at (consume_blocks_content true) first (body ++ term_tokens term)
               = consume_blocks_content true first (body ++ term_tokens term)).
  { destruct first; try reflexivity. exfalso. eapply Hat. reflexivity. }
  rewrite W4, (blocks_item_spec first body term Hf Hb Ht).
  destruct (length (body ++ term_tokens term)); reflexivity.
Qed.
