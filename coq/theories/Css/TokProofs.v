(* Css/TokProofs.v -- totality of the tokenizer model (Css/Tok.v, repaired code):
   no Panic, no OutOfFuel, every iteration of consumeValueList consumes at
   least one code point. *)
From Verif Require Import Base.GoSem Css.Token Css.Tok.
From Coq Require Import List NArith ZArith Bool Lia ZifyBool ZifyNat ZifyN.
Import ListNotations.
Open Scope N_scope.

Arguments consume_escape : simpl never.
Arguments valid_escape_at : simpl never.
Arguments is_name_cp : simpl never.
Arguments is_space : simpl never.
Arguments is_hex : simpl never.
Arguments is_digit : simpl never.
Arguments is_non_printable : simpl never.
Arguments write_rune : simpl never.
Arguments N.eqb : simpl never.
Arguments has_prefix : simpl never.

(* ------------------------------------------------------------------ suffixes *)
Definition suffix (r rest : list N) : Prop := exists pre, rest = pre ++ r.
Definition psuffix (r rest : list N) : Prop := exists pre, pre <> [] /\ rest = pre ++ r.

Lemma suffix_refl r : suffix r r.
Proof. exists []; reflexivity. Qed.
Lemma suffix_cons c r rest : suffix r rest -> suffix r (c :: rest).
Proof. intros [pre ->]. exists (c :: pre); reflexivity. Qed.
Lemma suffix_tl c r : suffix r (c :: r).
Proof. apply suffix_cons, suffix_refl. Qed.
Lemma suffix_trans a b c : suffix a b -> suffix b c -> suffix a c.
Proof. intros [p ->] [q ->]. exists (q ++ p). now rewrite app_assoc. Qed.
Lemma suffix_nil r : suffix [] r.
Proof. exists r. now rewrite app_nil_r. Qed.
Lemma suffix_length r rest : suffix r rest -> (length r <= length rest)%nat.
Proof. intros [p ->]. rewrite app_length. lia. Qed.
Lemma suffix_app p r : suffix r (p ++ r).
Proof. exists p; reflexivity. Qed.
Lemma psuffix_suffix r rest : psuffix r rest -> suffix r rest.
Proof. intros [p [_ ->]]. exists p; reflexivity. Qed.
Lemma psuffix_length r rest : psuffix r rest -> (length r < length rest)%nat.
Proof. intros [p [Hp ->]]. rewrite app_length. destruct p; [congruence|simpl; lia]. Qed.
Lemma psuffix_cons c r rest : suffix r rest -> psuffix r (c :: rest).
Proof. intros [pre ->]. exists (c :: pre); split; [discriminate|reflexivity]. Qed.
Lemma psuffix_tl c r : psuffix r (c :: r).
Proof. apply psuffix_cons, suffix_refl. Qed.
Lemma suffix_psuffix_trans a b c : suffix a b -> psuffix b c -> psuffix a c.
Proof.
  intros [p ->] [q [Hq ->]]. exists (q ++ p). split.
  - destruct q; [congruence|discriminate].
  - now rewrite app_assoc.
Qed.
Lemma psuffix_suffix_trans a b c : psuffix a b -> suffix b c -> psuffix a c.
Proof.
  intros [p [Hp ->]] [q ->]. exists (q ++ p). split.
  - destruct q; simpl; [assumption|discriminate].
  - now rewrite app_assoc.
Qed.
Lemma suffix_skipn n l : suffix (skipn n l) l.
Proof. exists (firstn n l). symmetry; apply firstn_skipn. Qed.
Lemma suffix_tl' l : suffix (tl l) l.
Proof. destruct l; [apply suffix_refl|apply suffix_tl]. Qed.

#[global] Hint Resolve suffix_refl suffix_cons suffix_tl suffix_nil psuffix_suffix psuffix_cons psuffix_tl
  suffix_skipn suffix_tl' : sfx.

(* ------------------------------------------------------------------ scanners split their input *)
Lemma take_hex_split n l h r : take_hex n l = (h, r) -> l = h ++ r.
Proof.
  revert l h r; induction n as [|n IH]; intros l h r H; simpl in H.
  - inversion H; reflexivity.
  - destruct l as [|c l']; [inversion H; reflexivity|].
    destruct (is_hex c).
    + destruct (take_hex n l') as [h' r'] eqn:E. inversion H; subst.
      simpl. f_equal. now apply IH.
    + inversion H; reflexivity.
Qed.

Lemma take_while_n_split p n l h r : take_while_n p n l = (h, r) -> l = h ++ r.
Proof.
  revert l h r; induction n as [|n IH]; intros l h r H; simpl in H.
  - inversion H; reflexivity.
  - destruct l as [|c l']; [inversion H; reflexivity|].
    destruct (p c).
    + destruct (take_while_n p n l') as [h' r'] eqn:E. inversion H; subst.
      simpl. f_equal. now apply IH.
    + inversion H; reflexivity.
Qed.

Lemma span_split p l a b : span p l = (a, b) -> l = a ++ b.
Proof.
  revert a b; induction l as [|c l IH]; intros a b H; simpl in H.
  - inversion H; reflexivity.
  - destruct (p c).
    + destruct (span p l) as [a' b'] eqn:E. inversion H; subst. simpl. f_equal. now apply IH.
    + inversion H; reflexivity.
Qed.

Lemma skip_spaces_suffix l : suffix (skip_spaces l) l.
Proof.
  induction l as [|c l IH]; simpl; [apply suffix_refl|].
  destruct (is_space c); auto with sfx.
Qed.

(* ------------------------------------------------------------------ consumeEscape *)
Lemma consume_escape_suffix r : suffix (snd (consume_escape r)) r.
Proof.
  unfold consume_escape. destruct (take_hex 6 r) as [h r1] eqn:E.
  apply take_hex_split in E. destruct h as [|h0 h].
  - destruct r; simpl; auto with sfx.
  - simpl. subst r. destruct r1 as [|c r']; simpl.
    + apply suffix_nil.
    + destruct (is_space c).
      * change (h0 :: h ++ c :: r') with ((h0 :: h) ++ c :: r').
        eapply suffix_trans; [apply suffix_tl|apply suffix_app].
      * change (h0 :: h ++ c :: r') with ((h0 :: h) ++ c :: r'). apply suffix_app.
Qed.

(* a valid escape (backslash already removed) consumes nothing only at EOF *)
Lemma consume_escape_progress c r : psuffix (snd (consume_escape r)) (c :: r).
Proof. apply psuffix_cons, consume_escape_suffix. Qed.

(* ------------------------------------------------------------------ consumeIdent *)
Lemma consume_escape_suffix' r e r1 : consume_escape r = (e, r1) -> suffix r1 r.
Proof. intros E. pose proof (consume_escape_suffix r) as X. rewrite E in X. exact X. Qed.

Lemma consume_ident_suffix f : forall rest v r', consume_ident f rest = Ok (v, r') -> suffix r' rest.
Proof.
  induction f as [|f IH]; intros rest v r' H; [discriminate|].
  destruct rest as [|c r]; simpl in H.
  - inversion H; subst. apply suffix_refl.
  - destruct (is_name_cp c).
    + destruct (consume_ident f r) as [[v1 r1]| |] eqn:E; try discriminate.
      simpl in H. inversion H; subst. apply IH in E. auto with sfx.
    + destruct (valid_escape_at (c :: r)).
      * destruct (consume_escape r) as [e r1] eqn:Ee.
        destruct (consume_ident f r1) as [[v1 r2]| |] eqn:E; try discriminate.
        simpl in H. inversion H; subst. apply IH in E.
        apply consume_escape_suffix' in Ee. apply suffix_cons. eapply suffix_trans; eassumption.
      * inversion H; subst. apply suffix_refl.
Qed.

Lemma consume_ident_ok f : forall rest, (length rest < f)%nat ->
  exists v r', consume_ident f rest = Ok (v, r').
Proof.
  induction f as [|f IH]; intros rest Hf; [lia|].
  destruct rest as [|c r]; simpl.
  - eexists _, _; reflexivity.
  - destruct (is_name_cp c).
    + destruct (IH r) as (v & r' & E); [simpl in Hf; lia|].
      rewrite E. simpl. eexists _, _; reflexivity.
    + destruct (valid_escape_at (c :: r)).
      * destruct (consume_escape r) as [e r1] eqn:Ee.
        apply consume_escape_suffix' in Ee. apply suffix_length in Ee.
        destruct (IH r1) as (v & r' & E); [simpl in Hf; lia|].
        rewrite E. simpl. eexists _, _; reflexivity.
      * eexists _, _; reflexivity.
Qed.

Lemma consume_ident_progress f c r v r' :
  is_name_cp c || valid_escape_at (c :: r) = true ->
  consume_ident f (c :: r) = Ok (v, r') -> psuffix r' (c :: r) /\ v <> [].
Proof.
  intros Hc H. destruct f as [|f]; [discriminate|]. simpl in H.
  destruct (is_name_cp c).
  - destruct (consume_ident f r) as [[v1 r1]| |] eqn:E; try discriminate.
    simpl in H. inversion H; subst. split; [|discriminate].
    apply consume_ident_suffix in E. auto with sfx.
  - simpl in Hc. rewrite Hc in H.
    destruct (consume_escape r) as [e r1] eqn:Ee.
    destruct (consume_ident f r1) as [[v1 r2]| |] eqn:E; try discriminate.
    simpl in H. inversion H; subst. split; [|discriminate].
    apply consume_ident_suffix in E. apply consume_escape_suffix' in Ee.
    apply psuffix_cons. eapply suffix_trans; eassumption.
Qed.

(* ------------------------------------------------------------------ isIdentStart (repaired) never panics *)
Lemma is_ident_start_ok rest : exists b, is_ident_start true rest = Ok b.
Proof.
  unfold is_ident_start. destruct (is_name_start rest) eqn:En; [eauto|].
  destruct rest as [|c r]; [discriminate|].
  unfold index; simpl. destruct (c =? 45); [eauto|]. destruct (c =? 92); eauto.
Qed.

(* when it answers true on a non-empty input, consumeIdent makes progress *)
Lemma is_ident_start_true_progress c r :
  is_ident_start true (c :: r) = Ok true -> is_name_cp c || valid_escape_at (c :: r) = true.
Proof.
  unfold is_ident_start, is_name_start. destruct (is_name_start_cp c) eqn:En.
  - intros _. unfold is_name_start_cp, is_lower, is_upper in En. unfold is_name_cp, is_lower, is_upper, is_digit. lia.
  - unfold index; simpl. destruct (c =? 45) eqn:E45.
    + intros _. unfold is_name_cp. rewrite E45. lia.
    + destruct (c =? 92) eqn:E92; [|discriminate].
      intros H. inversion H as [H1]. unfold valid_escape_at. rewrite E92.
      apply N.eqb_eq in E92; subst c. unfold has_prefix, s_bsnl in *.
      destruct r as [|d r]; simpl in *; lia.
Qed.

(* ------------------------------------------------------------------ consumeQuotedString *)
Lemma quoted_loop_suffix f q : forall rest v a e r',
  quoted_loop f q rest = Ok (v, a, e, r') -> suffix r' rest.
Proof.
  induction f as [|f IH]; intros rest v a e r' H; [discriminate|].
  destruct rest as [|c r]; simpl in H.
  - inversion H; subst; apply suffix_refl.
  - destruct (c =? q); [inversion H; subst; auto with sfx|].
    destruct (c =? 92).
    + destruct r as [|d r2]; [inversion H; subst; auto with sfx|].
      destruct (d =? 10).
      * apply IH in H. auto with sfx.
      * destruct (consume_escape (d :: r2)) as [ch r1] eqn:Ee.
        destruct (quoted_loop f q r1) as [[[[v1 a1] e1] r3]| |] eqn:E; try discriminate.
        simpl in H. inversion H; subst. apply IH in E. apply consume_escape_suffix' in Ee.
        apply suffix_cons. eapply suffix_trans; eassumption.
    + destruct (c =? 10); [inversion H; subst; apply suffix_refl|].
      destruct (quoted_loop f q r) as [[[[v1 a1] e1] r1]| |] eqn:E; try discriminate.
      simpl in H. inversion H; subst. apply IH in E. auto with sfx.
Qed.

Lemma quoted_loop_ok f q : forall rest, (length rest < f)%nat ->
  exists x, quoted_loop f q rest = Ok x.
Proof.
  induction f as [|f IH]; intros rest Hf; [lia|].
  destruct rest as [|c r]; simpl; [eauto|].
  simpl in Hf.
  destruct (c =? q); [eauto|].
  destruct (c =? 92).
  - destruct r as [|d r2]; [eauto|]. simpl in Hf.
    destruct (d =? 10).
    + apply IH. lia.
    + destruct (consume_escape (d :: r2)) as [ch r1] eqn:Ee.
      apply consume_escape_suffix' in Ee. apply suffix_length in Ee. simpl in Ee.
      destruct (IH r1) as [[[[v1 a1] e1] r3] E]; [lia|]. rewrite E. simpl. eauto.
  - destruct (c =? 10); [eauto|].
    destruct (IH r) as [[[[v1 a1] e1] r3] E]; [lia|]. rewrite E. simpl. eauto.
Qed.

Lemma consume_quoted_string_suffix f c r v a e r' :
  consume_quoted_string f (c :: r) = Ok (v, a, e, r') -> suffix r' r.
Proof. unfold consume_quoted_string, index. simpl. apply quoted_loop_suffix. Qed.

Lemma consume_quoted_string_ok f c r : (length r < f)%nat ->
  exists x, consume_quoted_string f (c :: r) = Ok x.
Proof. intros H. unfold consume_quoted_string, index. simpl. now apply quoted_loop_ok. Qed.

(* ------------------------------------------------------------------ consumeUrl *)
Lemma bad_url_remnants_suffix f : forall rest r', bad_url_remnants true f rest = Ok r' -> suffix r' rest.
Proof.
  induction f as [|f IH]; intros rest r' H; [discriminate|].
  destruct rest as [|c r]; simpl in H; [inversion H; apply suffix_refl|].
  destruct (c =? 41); [inversion H; subst; auto with sfx|].
  destruct (valid_escape_at (c :: r)).
  - apply IH in H. apply suffix_cons. eapply suffix_trans; [exact H|apply consume_escape_suffix].
  - apply IH in H. auto with sfx.
Qed.

Lemma bad_url_remnants_ok f : forall rest, (length rest < f)%nat ->
  exists r', bad_url_remnants true f rest = Ok r'.
Proof.
  induction f as [|f IH]; intros rest Hf; [lia|].
  destruct rest as [|c r]; simpl; [eauto|]. simpl in Hf.
  destruct (c =? 41); [eauto|].
  destruct (valid_escape_at (c :: r)).
  - apply IH. pose proof (suffix_length _ _ (consume_escape_suffix r)). lia.
  - apply IH. lia.
Qed.

Definition ul_rest (x : url_loop_result) (dflt : list N) : list N :=
  match x with ULDone _ r | ULSpace _ r | ULBad r => r | ULEof _ => [] end.

Lemma url_loop_suffix f : forall rest x, url_loop true f rest = Ok x -> suffix (ul_rest x rest) rest.
Proof.
  induction f as [|f IH]; intros rest x H; [discriminate|].
  destruct rest as [|c r]; simpl in H; [inversion H; apply suffix_refl|].
  destruct (c =? 41); [inversion H; subst; simpl; auto with sfx|].
  destruct (is_space c); [inversion H; subst; simpl; auto with sfx|].
  destruct (valid_escape_at (c :: r)).
  - destruct (consume_escape r) as [ch r1] eqn:Ee.
    destruct (url_loop true f r1) as [y| |] eqn:E; try discriminate.
    simpl in H. inversion H; subst. apply IH in E. apply consume_escape_suffix' in Ee.
    assert (suffix (ul_rest y r1) (c :: r)) by (apply suffix_cons; eapply suffix_trans; eassumption).
    destruct y; simpl in *; auto with sfx.
  - destruct (is_non_printable c || _); [inversion H; subst; simpl; auto with sfx|].
    destruct (url_loop true f r) as [y| |] eqn:E; try discriminate.
    simpl in H. inversion H; subst. apply IH in E.
    assert (suffix (ul_rest y r) (c :: r)) by auto with sfx.
    destruct y; simpl in *; auto with sfx.
Qed.

Lemma url_loop_ok f : forall rest, (length rest < f)%nat -> exists x, url_loop true f rest = Ok x.
Proof.
  induction f as [|f IH]; intros rest Hf; [lia|].
  destruct rest as [|c r]; simpl; [eauto|]. simpl in Hf.
  destruct (c =? 41); [eauto|]. destruct (is_space c); [eauto|].
  destruct (valid_escape_at (c :: r)).
  - destruct (consume_escape r) as [ch r1] eqn:Ee.
    apply consume_escape_suffix' in Ee. apply suffix_length in Ee.
    destruct (IH r1) as [y E]; [lia|]. rewrite E. simpl. eauto.
  - destruct (is_non_printable c || _); [eauto|].
    destruct (IH r) as [y E]; [lia|]. rewrite E. simpl. eauto.
Qed.

Lemma consume_url_ok f p rest0 : (length rest0 < f)%nat ->
  exists v e r3, consume_url true f p rest0 = Ok (v, e, r3) /\ suffix r3 rest0.
Proof.
  intros Hf. unfold consume_url.
  pose proof (skip_spaces_suffix rest0) as S0.
  set (rest := skip_spaces rest0) in *.
  assert (Hl : (length rest < f)%nat) by (apply suffix_length in S0; lia).
  (* the three continuations *)
  assert (Bad : forall r, suffix r rest ->
    exists v e r3, (let* r' := bad_url_remnants true f r in
                    Ok (@None token, Some (TParseError p errBadURL), r')) = Ok (v, e, r3) /\ suffix r3 rest0).
  { intros r Sr. destruct (bad_url_remnants_ok f r) as [r' E].
    { apply suffix_length in Sr. lia. }
    rewrite E. simpl. eexists _, _, _; split; [reflexivity|].
    apply bad_url_remnants_suffix in E. eapply suffix_trans; [exact E|]. eapply suffix_trans; eassumption. }
  assert (Trail : forall v r, suffix r rest ->
    exists v' e r3,
      match skip_spaces r with
      | [] => Ok (Some (TURL p v true), Some (TParseError p errEofInUrl), [])
      | c :: r' => if c =? 41 then Ok (Some (TURL p v false), None, r')
                   else let* r'0 := bad_url_remnants true f (c :: r') in
                        Ok (None, Some (TParseError p errBadURL), r'0)
      end = Ok (v', e, r3) /\ suffix r3 rest0).
  { intros v r Sr. pose proof (skip_spaces_suffix r) as S1.
    destruct (skip_spaces r) as [|c r'] eqn:Es.
    - eexists _, _, _; split; [reflexivity|apply suffix_nil].
    - destruct (c =? 41).
      + eexists _, _, _; split; [reflexivity|].
        eapply suffix_trans; [apply suffix_tl|]. eapply suffix_trans; [exact S1|].
        eapply suffix_trans; eassumption.
      + apply Bad. eapply suffix_trans; eassumption. }
  destruct rest as [|c r] eqn:Er.
  - eexists _, _, _; split; [reflexivity|apply suffix_nil].
  - destruct ((c =? 34) || (c =? 39)).
    + destruct (consume_quoted_string_ok f c r) as [[[[v a] e] r1] E]; [simpl in Hl; lia|].
      rewrite E. simpl. apply consume_quoted_string_suffix in E.
      destruct (negb (e =? 0)).
      * apply Bad. auto with sfx.
      * apply Trail. auto with sfx.
    + destruct (c =? 41).
      * eexists _, _, _; split; [reflexivity|]. eapply suffix_trans; [apply suffix_tl|exact S0].
      * destruct (url_loop_ok f (c :: r)) as [x E]; [exact Hl|].
        rewrite E. simpl. apply url_loop_suffix in E.
        destruct x as [v r1|v|v r1|r1]; simpl in E.
        -- eexists _, _, _; split; [reflexivity|]. eapply suffix_trans; eassumption.
        -- eexists _, _, _; split; [reflexivity|apply suffix_nil].
        -- apply Trail. exact E.
        -- apply Bad. exact E.
Qed.

(* ------------------------------------------------------------------ numbers *)
Lemma scan_number_split rest repr r1 :
  scan_number rest = Some (repr, r1) -> rest = repr ++ r1 /\ repr <> [].
Proof.
  unfold scan_number.
  set (sr := match rest with
             | c :: r => if (c =? 43) || (c =? 45) then ([c], r) else ([], rest)
             | [] => ([], [])
             end).
  assert (Hs : rest = fst sr ++ snd sr).
  { subst sr. destruct rest as [|c r]; [reflexivity|]. destruct ((c =? 43) || (c =? 45)); reflexivity. }
  destruct sr as [sign r0]. simpl in Hs.
  destruct (span is_digit r0) as [d1 r1'] eqn:E1. apply span_split in E1.
  set (plain := match d1 with [] => None | _ :: _ => Some (d1, r1') end).
  set (mant := match r1' with
               | c :: r2 => if c =? 46 then
                     let '(d2, r3) := span is_digit r2 in
                     match d2 with [] => plain | _ :: _ => Some (d1 ++ 46 :: d2, r3) end
                   else plain
               | [] => plain end).
  assert (Hm : forall m r4, mant = Some (m, r4) -> r0 = m ++ r4 /\ m <> []).
  { intros m r4. subst mant plain.
    assert (Hp : match d1 with [] => None | _ :: _ => Some (d1, r1') end = Some (m, r4) -> r0 = m ++ r4 /\ m <> []).
    { destruct d1; [discriminate|]. intros X; injection X as <- <-. split; [exact E1|discriminate]. }
    destruct r1' as [|c r2]; [exact Hp|].
    destruct (c =? 46) eqn:Ec; [|exact Hp].
    destruct (span is_digit r2) as [d2 r3] eqn:E2. apply span_split in E2.
    destruct d2 as [|x d2]; [exact Hp|].
    intros X; inversion X; subst. apply N.eqb_eq in Ec; subst c. split.
    - rewrite <- app_assoc. reflexivity.
    - destruct d1; discriminate. }
  destruct mant as [[m r4]|]; [|discriminate].
  destruct (Hm m r4 eq_refl) as [Hr0 Hne]. clear Hm.
  set (we := match r4 with
             | e :: r5 => if (e =? 101) || (e =? 69) then
                   let '(es, r6) := match r5 with
                                    | c :: r => if (c =? 43) || (c =? 45) then ([c], r) else ([], r5)
                                    | [] => ([], []) end in
                   let '(d3, r7) := span is_digit r6 in
                   match d3 with [] => None | _ :: _ => Some (e :: es ++ d3, r7) end
                 else None
             | [] => None end).
  assert (He : forall x r7, we = Some (x, r7) -> r4 = x ++ r7).
  { intros x r7. subst we. destruct r4 as [|e r5]; [discriminate|].
    destruct ((e =? 101) || (e =? 69)); [|discriminate].
    set (er := match r5 with
               | c :: r => if (c =? 43) || (c =? 45) then ([c], r) else ([], r5)
               | [] => ([], []) end).
    assert (Her : r5 = fst er ++ snd er).
    { subst er. destruct r5 as [|c r]; [reflexivity|]. destruct ((c =? 43) || (c =? 45)); reflexivity. }
    destruct er as [es r6]. simpl in Her.
    destruct (span is_digit r6) as [d3 r7'] eqn:E3. apply span_split in E3.
    destruct d3; [discriminate|]. intros X; inversion X; subst.
    simpl. f_equal. rewrite <- app_assoc. reflexivity. }
  assert (Hne' : forall y, sign ++ m ++ y <> []).
  { intros y. destruct sign; [destruct m; [congruence|discriminate]|discriminate]. }
  destruct we as [[x r7]|].
  - intros X; injection X as <- <-. specialize (He x r7 eq_refl).
    split; [|apply Hne']. rewrite Hs, Hr0, He. now rewrite <- !app_assoc.
  - intros X; injection X as <- <-. split.
    + rewrite Hs, Hr0. now rewrite <- !app_assoc.
    + specialize (Hne' []). now rewrite app_nil_r in Hne'.
Qed.

Lemma scan_number_psuffix rest repr r1 : scan_number rest = Some (repr, r1) -> psuffix r1 rest.
Proof. intros H. apply scan_number_split in H as [-> Hne]. exists repr; auto. Qed.

Lemma is_ident_start_guard_ok r1 :
  exists b, match r1 with [] => Ok false | _ :: _ => is_ident_start true r1 end = Ok b.
Proof. destruct r1; [eauto|apply is_ident_start_ok]. Qed.

Lemma try_consume_number_ok f p rest : (length rest < f)%nat ->
  exists o, try_consume_number true f p rest = Ok o /\
            (forall t r', o = Some (t, r') -> psuffix r' rest).
Proof.
  intros Hf. unfold try_consume_number.
  destruct (scan_number rest) as [[repr r1]|] eqn:Es.
  - apply scan_number_psuffix in Es.
    destruct (is_ident_start_guard_ok r1) as [b Eb]. rewrite Eb. simpl.
    destruct b.
    + destruct (consume_ident_ok f r1) as (u & r2 & E).
      { apply psuffix_length in Es. lia. }
      rewrite E. simpl. eexists; split; [reflexivity|].
      intros t r' X; inversion X; subst. apply consume_ident_suffix in E.
      eapply suffix_psuffix_trans; eassumption.
    + destruct r1 as [|c r2].
      * eexists; split; [reflexivity|]. intros t r' X; inversion X; subst. exact Es.
      * destruct (c =? 37).
        -- eexists; split; [reflexivity|]. intros t r' X; inversion X; subst.
           eapply suffix_psuffix_trans; [apply suffix_tl|exact Es].
        -- eexists; split; [reflexivity|]. intros t r' X; inversion X; subst. exact Es.
  - eexists; split; [reflexivity|]. intros t r' X; discriminate.
Qed.

Lemma try_consume_hash_ok f p rest : (length rest < f)%nat ->
  exists o, try_consume_hash true f p rest = Ok o /\
            (forall t r', o = Some (t, r') -> suffix r' rest).
Proof.
  intros Hf. unfold try_consume_hash. destruct rest as [|c r].
  - eexists; split; [reflexivity|]. intros; discriminate.
  - match goal with |- context [if ?b then _ else _] => destruct b end.
    + destruct (is_ident_start_ok (c :: r)) as [b Eb]. rewrite Eb. simpl.
      destruct (consume_ident_ok f (c :: r)) as (v & r' & E); [exact Hf|].
      rewrite E. simpl. eexists; split; [reflexivity|].
      intros t r'' X; inversion X; subst. eapply consume_ident_suffix; eassumption.
    + eexists; split; [reflexivity|]. intros; discriminate.
Qed.

Lemma consume_delim_ok p c r : exists t r', consume_delim p (c :: r) = Ok (t, r') /\ psuffix r' (c :: r).
Proof.
  unfold consume_delim. change (index site_delim (c :: r) 0) with (Ok c). cbn [bind].
  destruct (has_prefix s_cdo (c :: r)).
  - eexists _, _; split; [reflexivity|].
    change (skipn 4 (c :: r)) with (skipn 3 r). apply psuffix_cons, suffix_skipn.
  - destruct (has_prefix [124; 124] (c :: r)).
    + eexists _, _; split; [reflexivity|].
      change (skipn 2 (c :: r)) with (skipn 1 r). apply psuffix_cons, suffix_skipn.
    + match goal with |- context [if ?b then _ else _] => destruct b end.
      * cbn [tl]. destruct (has_prefix [61] r).
        -- eexists _, _; split; [reflexivity|]. apply psuffix_cons, suffix_tl'.
        -- eexists _, _; split; [reflexivity|]. apply psuffix_tl.
      * eexists _, _; split; [reflexivity|]. apply psuffix_tl.
Qed.

Lemma consume_unicode_range_suffix rest o r' :
  consume_unicode_range rest = (o, r') -> suffix r' rest.
Proof.
  unfold consume_unicode_range.
  destruct (take_while_n is_hex 6 rest) as [h r1] eqn:E1. apply take_while_n_split in E1.
  destruct (take_while_n (fun c => c =? 63) (6 - length h) r1) as [q r2] eqn:E2. apply take_while_n_split in E2.
  assert (S2 : suffix r2 rest).
  { subst. eapply suffix_trans; apply suffix_app. }
  assert (X : forall (start_s end_s : list N) (r3 : list N), suffix r3 rest ->
     match parse_hex start_s, parse_hex end_s with
     | Some s, Some e => (Some (s, e), r3)
     | _, _ => (None, r3)
     end = (o, r') -> suffix r' rest).
  { intros ss es r3 S3. destruct (parse_hex ss), (parse_hex es); intros Y; inversion Y; subst; exact S3. }
  destruct (negb (Nat.eqb (length q) 0)); [apply X; exact S2|].
  destruct r2 as [|c0 [|c1 r'']]; try (apply X; exact S2).
  destruct ((c0 =? 45) && is_hex c1); [|apply X; exact S2].
  destruct (take_while_n is_hex 6 (c1 :: r'')) as [h2 r4] eqn:E4. apply take_while_n_split in E4.
  apply X. eapply suffix_trans; [|exact S2]. apply suffix_cons. rewrite E4. apply suffix_app.
Qed.

Lemma try_consume_unicode_range_psuffix p rest t r' :
  try_consume_unicode_range p rest = Some (t, r') -> psuffix r' rest.
Proof.
  unfold try_consume_unicode_range. destruct rest as [|c0 [|c1 [|c2 r]]]; try discriminate.
  destruct ((c1 =? 43) && (is_hex c2 || (c2 =? 63))); [|discriminate].
  destruct (consume_unicode_range (c2 :: r)) as [o r1] eqn:E.
  apply consume_unicode_range_suffix in E.
  intros X. assert (r' = r1) by (destruct o as [[s e]|]; inversion X; reflexivity). subst.
  apply psuffix_cons. auto with sfx.
Qed.

Lemma find_comment_end_suffix l a b : find_comment_end l = Some (a, b) -> suffix b l.
Proof.
  revert a b; induction l as [|c r IH]; intros a b H; simpl in H; [discriminate|].
  destruct (has_prefix [42; 47] (c :: r)).
  - inversion H; subst. auto with sfx.
  - destruct (find_comment_end r) as [[a' b']|]; [|discriminate].
    inversion H; subst. apply suffix_cons. eapply IH; reflexivity.
Qed.

(* ------------------------------------------------------------------ one iteration *)
Definition lexed_rest (lx : lexed) : list N :=
  match lx with LTok _ r | LOpen _ r | LClose r | LReturn _ r => r | LStuck => [] end.

Lemma lex1_ok skip f endc p c r : c <> 0 -> (length (c :: r) < f)%nat ->
  exists lx, lex1 true skip f endc p (c :: r) = Ok lx /\ lx <> LStuck /\ psuffix (lexed_rest lx) (c :: r).
Proof.
  intros Hc0 Hf. unfold lex1.
  assert (Hfr : (length r < f)%nat) by (simpl in Hf; lia).
  destruct (is_space c).
  { destruct (span is_space r) as [ws r'] eqn:E. apply span_split in E.
    eexists; split; [reflexivity|split; [discriminate|]]. cbn [lexed_rest]. subst r. apply psuffix_cons, suffix_app. }
  destruct (if (c =? 85) || (c =? 117) then try_consume_unicode_range p (c :: r) else None) as [[t r']|] eqn:Eu.
  { eexists; split; [reflexivity|split; [discriminate|]]. cbn [lexed_rest].
    destruct ((c =? 85) || (c =? 117)); [|discriminate].
    eapply try_consume_unicode_range_psuffix; eassumption. }
  clear Eu.
  destruct (has_prefix s_cdc (c :: r)).
  { eexists; split; [reflexivity|split; [discriminate|]]. cbn [lexed_rest].
    change (skipn 3 (c :: r)) with (skipn 2 r). apply psuffix_cons, suffix_skipn. }
  destruct (is_ident_start_ok (c :: r)) as [ids Eids]. rewrite Eids. cbn [bind].
  destruct ids.
  { apply is_ident_start_true_progress in Eids.
    unfold lex_ident_like.
    destruct (consume_ident_ok f (c :: r)) as (value & r1 & E); [exact Hf|].
    rewrite E. cbn [bind]. apply (consume_ident_progress _ _ _ _ _ Eids) in E as [P1 _].
    destruct r1 as [|c1 r2].
    - eexists; split; [reflexivity|split; [discriminate|exact P1]].
    - destruct (c1 =? 40).
      + destruct (str_eqb (ascii_lower value) s_url && url_is_unquoted r2).
        * destruct (consume_url_ok f p r2) as (v & e & r3 & E3 & S3).
          { apply psuffix_length in P1. simpl in *. lia. }
          rewrite E3. cbn [bind]. eexists; split; [reflexivity|split; [discriminate|]]. cbn [lexed_rest].
          eapply suffix_psuffix_trans; [|exact P1]. auto with sfx.
        * eexists; split; [reflexivity|split; [discriminate|]]. cbn [lexed_rest].
          eapply suffix_psuffix_trans; [|exact P1]. auto with sfx.
      + eexists; split; [reflexivity|split; [discriminate|exact P1]]. }
  clear Eids.
  destruct (try_consume_number_ok f p (c :: r) Hf) as (num & En & Pn). rewrite En. cbn [bind].
  destruct num as [[t r']|].
  { eexists; split; [reflexivity|split; [discriminate|]]. cbn [lexed_rest]. eapply Pn; reflexivity. }
  clear En Pn. unfold lex1_punct.
  destruct (c =? 64).
  { destruct (is_ident_start_guard_ok r) as [b Eb]. rewrite Eb. cbn [bind]. destruct b.
    - destruct (consume_ident_ok f r Hfr) as (v & r' & E). rewrite E. cbn [bind].
      eexists; split; [reflexivity|split; [discriminate|]]. cbn [lexed_rest].
      apply consume_ident_suffix in E. auto with sfx.
    - eexists; split; [reflexivity|split; [discriminate|]]. cbn [lexed_rest]. auto with sfx. }
  destruct (c =? 35).
  { destruct (try_consume_hash_ok f p r Hfr) as (h & Eh & Ph). rewrite Eh. cbn [bind].
    destruct h as [[t r']|].
    - eexists; split; [reflexivity|split; [discriminate|]]. cbn [lexed_rest]. apply psuffix_cons. eapply Ph; reflexivity.
    - eexists; split; [reflexivity|split; [discriminate|]]. cbn [lexed_rest]. auto with sfx. }
  destruct (c =? 123); [eexists; split; [reflexivity|split; [discriminate|cbn [lexed_rest]; auto with sfx]]|].
  destruct (c =? 91); [eexists; split; [reflexivity|split; [discriminate|cbn [lexed_rest]; auto with sfx]]|].
  destruct (c =? 40); [eexists; split; [reflexivity|split; [discriminate|cbn [lexed_rest]; auto with sfx]]|].
  destruct (c =? 0) eqn:E0; [apply N.eqb_eq in E0; contradiction|].
  destruct (c =? endc); [eexists; split; [reflexivity|split; [discriminate|cbn [lexed_rest]; auto with sfx]]|].
  destruct ((c =? 125) || (c =? 93) || (c =? 41));
    [eexists; split; [reflexivity|split; [discriminate|cbn [lexed_rest]; auto with sfx]]|].
  destruct ((c =? 39) || (c =? 34)).
  { destruct (consume_quoted_string_ok f c r Hfr) as [[[[v a] e] r'] E]. rewrite E. cbn [bind].
    eexists; split; [reflexivity|split; [discriminate|]]. cbn [lexed_rest].
    apply consume_quoted_string_suffix in E. auto with sfx. }
  destruct (has_prefix [47; 42] (c :: r)).
  { cbn [tl]. destruct (find_comment_end (tl r)) as [[txt r']|] eqn:Ec.
    - eexists; split; [reflexivity|split; [discriminate|]]. cbn [lexed_rest].
      apply find_comment_end_suffix in Ec. apply psuffix_cons.
      eapply suffix_trans; [exact Ec|apply suffix_tl'].
    - eexists; split; [reflexivity|split; [discriminate|]]. cbn [lexed_rest]. apply psuffix_cons, suffix_nil. }
  destruct (consume_delim_ok p c r) as (t & r' & E & P). rewrite E. cbn [bind].
  eexists; split; [reflexivity|split; [discriminate|exact P]].
Qed.

(* ------------------------------------------------------------------ consumeValueList *)
Definition nonul (l : list N) : Prop := Forall (fun c => c <> 0) l.

Lemma nonul_suffix r rest : suffix r rest -> nonul rest -> nonul r.
Proof. intros [pre ->] H. unfold nonul in *. apply Forall_app in H. tauto. Qed.

Lemma update_line_rest st : l_rest (snd (update_line st)) = l_rest st.
Proof. unfold update_line. destruct (after_last_nl _); reflexivity. Qed.

Lemma cvl_ok skip : forall fuel endc st,
  nonul (l_rest st) -> (length (l_rest st) + 2 <= fuel)%nat ->
  exists out st', consume_value_list true skip fuel endc st = Ok (out, st') /\
                  suffix (l_rest st') (l_rest st).
Proof.
  induction fuel as [|f IH]; intros endc st Hn Hf; [lia|].
  cbn [consume_value_list].
  destruct (l_rest st) as [|c r] eqn:Er.
  - eexists _, _; split; [reflexivity|]. rewrite Er. apply suffix_refl.
  - destruct (update_line st) as [p st1] eqn:Eu.
    assert (Hc0 : c <> 0) by (inversion Hn; assumption).
    destruct (lex1_ok skip f endc p c r Hc0) as (lx & El & Hns & Ps); [simpl in *; lia|].
    rewrite El. cbn [bind].
    assert (Hrec : forall e st2, suffix (l_rest st2) (lexed_rest lx) ->
       exists out st', consume_value_list true skip f e st2 = Ok (out, st') /\
                       suffix (l_rest st') (l_rest st2)).
    { intros e st2 S2. apply IH.
      - eapply nonul_suffix; [|exact Hn]. eapply suffix_trans; [exact S2|apply psuffix_suffix, Ps].
      - apply suffix_length in S2. apply psuffix_length in Ps. simpl in *. lia. }
    destruct lx as [ts r'|o r'|r'|ts r'|]; cbn [lexed_rest] in *.
    + destruct (Hrec endc (set_rest st1 r')) as (out & st' & E & S); [apply suffix_refl|].
      rewrite E. cbn [bind]. eexists _, _; split; [reflexivity|].
      eapply suffix_trans; [exact S|]. simpl. auto with sfx.
    + destruct (Hrec (close_of o) (set_rest st1 r')) as (args & st2 & E & S); [apply suffix_refl|].
      rewrite E. cbn [bind].
      destruct (Hrec endc st2) as (out & st3 & E3 & S3); [exact S|].
      rewrite E3. cbn [bind]. eexists _, _; split; [reflexivity|].
      eapply suffix_trans; [exact S3|]. eapply suffix_trans; [exact S|]. simpl. auto with sfx.
    + eexists _, _; split; [reflexivity|]. simpl. auto with sfx.
    + eexists _, _; split; [reflexivity|]. simpl. auto with sfx.
    + congruence.
Qed.

Lemma preprocess_nonul s : nonul (Tok.preprocess s).
Proof.
  unfold nonul.
  assert (H : forall n s, (length s <= n)%nat -> Forall (fun c => c <> 0) (Tok.preprocess s)).
  { induction n as [|n IH]; intros s0 Hl.
    - destruct s0; [constructor|simpl in Hl; lia].
    - destruct s0 as [|c r]; [constructor|]. simpl in Hl. cbn [Tok.preprocess].
      destruct (c =? 0) eqn:E0.
      + constructor; [discriminate|apply IH; lia].
      + destruct (c =? 13).
        * destruct r as [|d r']; [constructor; [discriminate|constructor]|].
          destruct (d =? 10); (constructor; [discriminate|apply IH; simpl in *; lia]).
        * destruct (c =? 12); (constructor; [|apply IH; lia]); [discriminate|].
          apply N.eqb_neq in E0. exact E0. }
  apply (H (length s)). lia.
Qed.

(* tokenize_total: the repaired tokenizer never panics and terminates, for every input *)
Theorem tokenize_total : forall (skip : bool) (s : list N),
  exists ts, tokenize true skip s = Ok ts.
Proof.
  intros skip s. unfold tokenize, tokenize_pre.
  destruct (cvl_ok skip (S (S (length (Tok.preprocess s)))) 0 (init_state (Tok.preprocess s))) as (out & st' & E & _).
  - simpl. apply preprocess_nonul.
  - simpl. lia.
  - rewrite E. simpl. eauto.
Qed.

(* the code as found panics *)
Lemma tokenize_orig_panics :
  tokenize false false [45] = Panic site_ident_esc /\
  tokenize false false [35; 45] = Panic site_ident_esc /\
  tokenize false false [64; 45] = Panic site_ident_esc /\
  tokenize false false [49; 45] = Panic site_ident_esc.
Proof. vm_compute. repeat split. Qed.
