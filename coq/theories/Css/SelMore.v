(* C05 final round: algebra of Specificity.Add and its interaction with Less and with compound selectors *)
From Verif Require Import Css.Sel.
From Coq Require Import ZArith List Lia Bool.
Import ListNotations.
Local Open Scope Z_scope.

Lemma spec_add_comm : forall x y, spec_add x y = spec_add y x.
Proof. intros [a b c] [a' b' c']. unfold spec_add. cbn [sp_a sp_b sp_c]. f_equal; lia. Qed.

Lemma spec_add_assoc : forall x y z, spec_add (spec_add x y) z = spec_add x (spec_add y z).
Proof. intros [a b c] [a' b' c'] [a2 b2 c2]. unfold spec_add. cbn [sp_a sp_b sp_c]. f_equal; lia. Qed.

Lemma spec_add_zero_l : forall x, spec_add spec_zero x = x.
Proof. intros [a b c]. unfold spec_add, spec_zero. cbn [sp_a sp_b sp_c]. f_equal; lia. Qed.

Lemma spec_add_zero_r : forall x, spec_add x spec_zero = x.
Proof. intros x. rewrite spec_add_comm. apply spec_add_zero_l. Qed.

(* Add is strictly monotone for Less: adding the same weight to both sides never changes the comparison *)
Lemma spec_less_add_r : forall x y z, spec_less (spec_add x z) (spec_add y z) = spec_less x y.
Proof.
  intros [a b c] [a' b' c'] [a2 b2 c2]. unfold spec_less, spec_add. cbn [sp_a sp_b sp_c].
  repeat match goal with |- context [(?u <? ?v)] => destruct (Z.ltb_spec u v) end;
  repeat match goal with |- context [(?u >? ?v)] => destruct (Z.gtb_spec u v) end; try reflexivity; lia.
Qed.

Lemma fold_add_shift : forall (f : sel -> spec3) l acc,
  fold_left (fun out s' => spec_add out (f s')) l acc =
  spec_add acc (fold_left (fun out s' => spec_add out (f s')) l spec_zero).
Proof.
  intros f l. induction l as [|h t IH]; intros acc; cbn [fold_left].
  - symmetry. apply spec_add_zero_r.
  - rewrite IH. rewrite (IH (spec_add spec_zero (f h))). rewrite spec_add_zero_l. apply spec_add_assoc.
Qed.

(* the specificity of a compound is the sum of its parts: concatenating two compounds adds their weights *)
Lemma compound_specificity_app : forall l1 l2,
  specificity (SCompound (l1 ++ l2) []) = spec_add (specificity (SCompound l1 [])) (specificity (SCompound l2 [])).
Proof.
  intros l1 l2. cbn [specificity]. rewrite fold_left_app. apply fold_add_shift.
Qed.

Lemma compound_specificity_cons : forall s l,
  specificity (SCompound (s :: l) []) = spec_add (specificity s) (specificity (SCompound l [])).
Proof.
  intros s l. cbn [specificity fold_left]. rewrite fold_add_shift. rewrite spec_add_zero_l. reflexivity.
Qed.
