(* C02 proof-extension: white-space processing never makes a text longer (all five modes). *)
From Verif Require Import Css.Whitespace.
From Coq Require Import List NArith Arith Lia Bool.
Import ListNotations.

Lemma tl_length_le (A : Type) (l : list A) : (length (tl l) <= length l)%nat.
Proof. destruct l as [|a l]; cbn [tl length]; lia. Qed.

Lemma norm_lf_length l : (length (norm_lf l) <= length l)%nat.
Proof.
  assert (G : forall n l, (length l <= n)%nat -> (length (norm_lf l) <= length l)%nat).
  { induction n as [|n IH]; intros [|c r] Hn; cbn [length] in Hn; try lia.
    - cbn [norm_lf length]. lia.
    - cbn [norm_lf length]. lia.
    - cbn [norm_lf]. destruct (N.eqb c CR).
      + destruct r as [|c' r'].
        * cbn [length]. lia.
        * destruct (N.eqb c' LF).
          -- assert (H : (length (norm_lf r') <= length r')%nat)
               by (apply IH; cbn [length] in Hn; lia).
             cbn [length]. lia.
          -- assert (H : (length (norm_lf (c' :: r')) <= length (c' :: r'))%nat)
               by (apply IH; lia).
             cbn [length] in *. lia.
      + assert (H : (length (norm_lf r) <= length r)%nat) by (apply IH; lia).
        cbn [length]. lia. }
  apply (G (length l)). lia.
Qed.

Lemma tab_re_from_length l : forall pend a,
  (length (tab_re_from pend a l) <= length pend + length l)%nat.
Proof.
  induction l as [|c r IH]; intros pend a; cbn [tab_re_from].
  - cbn [length]. lia.
  - destruct (N.eqb c LF).
    + pose proof (IH [] true) as H. cbn [length] in *. lia.
    + destruct (is_blank c).
      * destruct a.
        -- pose proof (IH [] true) as H. cbn [length] in *. lia.
        -- pose proof (IH (pend ++ [c]) false) as H. rewrite app_length in H.
           cbn [length] in *. lia.
      * pose proof (IH [] false) as H. rewrite app_length. cbn [length] in *. lia.
Qed.

Lemma tab_re_length l : (length (tab_re l) <= length l)%nat.
Proof. unfold tab_re. pose proof (tab_re_from_length l [] false) as H. cbn [length] in H. lia. Qed.

Lemma nl_to_space_length l : length (nl_to_space l) = length l.
Proof. unfold nl_to_space. apply map_length. Qed.

Lemma space_re_from_length l : forall b, (length (space_re_from b l) <= length l)%nat.
Proof.
  induction l as [|c r IH]; intros b; cbn [space_re_from].
  - cbn [length]. lia.
  - pose proof (IH true) as Ht. pose proof (IH false) as Hf.
    destruct (is_blank c); [destruct b|]; cbn [length]; lia.
Qed.

Lemma space_re_length l : (length (space_re l) <= length l)%nat.
Proof. unfold space_re. apply space_re_from_length. Qed.

Theorem process_text_length_le : forall m f t,
  (length (fst (process_text m f t)) <= length t)%nat.
Proof.
  intros m f [|c r].
  - cbn [process_text fst length]. lia.
  - pose proof (norm_lf_length (c :: r)) as H1.
    pose proof (tab_re_length (norm_lf (c :: r))) as H2.
    pose proof (nl_to_space_length (tab_re (norm_lf (c :: r)))) as H3.
    pose proof (space_re_length (nl_to_space (tab_re (norm_lf (c :: r))))) as H4.
    pose proof (tl_length_le _ (space_re (nl_to_space (tab_re (norm_lf (c :: r)))))) as H5.
    pose proof (space_re_length (tab_re (norm_lf (c :: r)))) as H6.
    pose proof (tl_length_le _ (space_re (tab_re (norm_lf (c :: r))))) as H7.
    destruct m;
      cbv beta match zeta delta [process_text space_collapse new_line_collapse];
      try (destruct (andb _ _)); cbv beta match delta [fst]; lia.
Qed.
