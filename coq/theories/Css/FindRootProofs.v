(* Css/FindRootProofs.v -- the repaired root discovery always returns the first
   element child (or an error when there is none) and the box builder never
   indexes an empty list on it; the unchanged code is refuted. *)
From Verif Require Import Base.GoSem Css.FindRoot.
From Coq Require Import List ZArith Lia Bool.
Import ListNotations.
Open Scope Z_scope.

Lemma find_root_from_spec : forall l i j,
  find_root_from i l = Some j ->
  i <= j < i + Z.of_nat (length l) /\
  nth (Z.to_nat (j - i)) l Other = Elem /\
  (forall k, (k < Z.to_nat (j - i))%nat -> nth k l Other <> Elem).
Proof.
  induction l as [|a l IH]; intros i j H; cbn [find_root_from] in H; [discriminate|].
  destruct a;
    try (apply IH in H; destruct H as (Hr & Hn & Hf);
         replace (Z.to_nat (j - i)) with (S (Z.to_nat (j - (i + 1)))) by lia;
         split; [cbn [length]; lia|]; split; [exact Hn|];
         intros k Hk; destruct k as [|k]; [cbn; discriminate | cbn; apply Hf; lia]).
  inversion H; subst. rewrite Z.sub_diag. cbn [length]. split; [lia|]. split; [reflexivity|].
  intros k Hk; cbn in Hk; lia.
Qed.

Lemma find_root_from_none : forall l i, find_root_from i l = None <-> ~ In Elem l.
Proof.
  induction l as [|a l IH]; intros i; cbn [find_root_from In].
  - split; [intros _ []; fail | reflexivity] || (split; [tauto|reflexivity]).
  - destruct a; try (rewrite IH; split; [intros H [E|E]; [discriminate|tauto] | tauto]).
    split; [discriminate|]. intros H. exfalso. apply H. now left.
Qed.

(* totality: root discovery never panics *)
Theorem find_root_total : forall l, exists r, find_root l = Ok r.
Proof. intros l. unfold find_root. eauto. Qed.

(* the root is an element, and the first one *)
Theorem find_root_is_element : forall l i,
  find_root l = Ok (Some i) ->
  kind_at l i = Elem /\ forall j, 0 <= j < i -> kind_at l j <> Elem.
Proof.
  intros l i H. unfold find_root in H. inversion H as [H1]. clear H.
  apply find_root_from_spec in H1. destruct H1 as (Hr & Hn & Hf).
  rewrite Z.sub_0_r in *. unfold kind_at. split.
  - destruct (Z.ltb_spec i 0); [lia|exact Hn].
  - intros j Hj. destruct (Z.ltb_spec j 0); [lia|]. apply Hf. lia.
Qed.

(* NewHTML returns an error exactly when the document has no element child
   (never the case after html.Parse, which always creates <html>) *)
Theorem find_root_error_iff : forall l, find_root l = Ok None <-> ~ In Elem l.
Proof.
  intros l. unfold find_root. rewrite <- (find_root_from_none l 0).
  split; [intros H; now inversion H | intros H; now rewrite H].
Qed.

(* with the repaired discovery, building the root box never panics *)
Theorem root_pipeline_total : forall l dn, exists b, root_pipeline find_root l dn = Ok b.
Proof.
  intros l dn. unfold root_pipeline. destruct (find_root l) as [r| |] eqn:H;
    try (unfold find_root in H; discriminate). cbn [bind].
  destruct r as [i|]; [|eauto].
  destruct (find_root_is_element _ _ H) as [Hk _]. rewrite Hk.
  unfold build_root. destruct dn; cbn; eauto.
Qed.

(* the unchanged code: a comment before <html> becomes the root ... *)
Theorem find_root_orig_refuted :
  exists l i, In Elem l /\ find_root_orig l = Ok (Some i) /\ kind_at l i <> Elem.
Proof. exists [Comment; Elem], 0. cbn. repeat split; [tauto | discriminate]. Qed.

(* ... and layout panics at build.go:112 *)
Theorem root_pipeline_orig_panics :
  exists l, In Elem l /\ root_pipeline find_root_orig l false = Panic 112.
Proof. exists [Doctype; Comment; Elem]. split; [cbn; tauto | reflexivity]. Qed.

(* on documents whose first child is the element, or a doctype followed by the
   element, both versions agree (the repair changes nothing for them) *)
Theorem find_root_orig_agrees : forall l,
  (exists r, l = Elem :: r) \/ (exists r, l = Doctype :: Elem :: r) ->
  find_root_orig l = find_root l.
Proof. intros l [[r ->]|[r ->]]; reflexivity. Qed.
