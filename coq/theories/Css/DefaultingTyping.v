(* Css/DefaultingTyping.v -- the typing hypotheses of C04_get_total, as executable
   predicates (no proofs here): what the validators of css/validation guarantee about
   declared values, and the Go type that later type assertions expect of computed values.
   Check/C04.v evaluates `wt_tree` on every document the harness produces, so the
   hypotheses of the theorem are themselves checked against the real pipeline. *)
From Verif Require Import Css.Defaulting Css.DefaultingSpec.
Open Scope N_scope.

(* ------------------------------------------------------------------ typing hypotheses *)

(* is p the `*-style` property that borderWidth reads as `name - 1`? *)
Definition is_style_prop (p : N) : bool :=
  match computer_of (N.succ p) with KBorderWidth => true | _ => false end.

(* the Go type some computation asserts on a COMPUTED value of property p *)
Definition shape_ok (p : N) (v : value) : bool :=
  if p =? PFontSize then match v with VDim _ q _ => Qle_bool 0 q | _ => false end
  else if p =? PFontWeight then match v with VIntStr _ i => existsb (Z.eqb i) css_weights | _ => false end
  else if is_style_prop p then match v with VStr _ => true | _ => false end
  else if p =? PMarks then match v with VMarks _ _ => true | _ => false end
  else if p =? PPage then match v with VStr _ => true | _ => false end
  else if p =? PTextDecorationLine then match v with VDecor _ => true | _ => false end
  else if p =? PAnchor then match v with VStr _ => true | _ => false end
  else true.

(* the Go type the computer function of property p asserts on a SPECIFIED value
   (what the validators of css/validation produce); font sizes are not negative *)
Definition wt_in (p : N) (v : value) : bool :=
  match computer_of p with
  | KNone | KOther => true
  | KFontSize => match v with VDim _ q _ => Qle_bool 0 q | VInfPx => true | _ => false end
  | KFontWeight => match v with
                   | VIntStr s i => mem_S s ["normal"; "bold"; "bolder"; "lighter"]%string || existsb (Z.eqb i) css_weights
                   | _ => false end
  | KDisplay => match v with VDisplay _ _ _ => true | _ => false end
  | KFloat | KBreak => match v with VStr _ => true | _ => false end
  | KPoint _ => match v with VPoint _ _ _ _ => true | _ => false end
  | _ => match v with VDim _ _ _ | VInfPx => true | _ => false end
  end.

(* a declared value, with the recorded result of its computer function when the model
   does not cover it *)
Definition wt_decl (nd : node) (p : N) (v : value) : bool :=
  wt_in p v &&
  match computer_of p with
  | KNone => shape_ok p v
  | k => if modelled (has_metrics nd) k v then true
         else shape_ok p (match lookup_oracle nd p with Some r => r | None => v end)
  end.

(* recorded font metrics are ratios: not negative *)
Definition wt_metrics (nd : node) : bool :=
  match n_metrics nd with
  | Some m => Qle_bool 0 (m_ex m) && Qle_bool 0 (m_ch m)
  | None => true
  end.

Definition wt_node (nd : node) : bool :=
  wt_metrics nd &&
  forallb (fun d => match d with
                    | D p (CExplicit v) | D p (CPending (PVal v)) => (1 <=? p) && (p <? nb_properties) && wt_decl nd p v
                    | D p _ => true
                    end) (n_decls nd).

Definition wt_tree (t : tree) : bool := wf_tree t && forallb wt_node t.

