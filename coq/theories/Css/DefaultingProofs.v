(* Css/DefaultingProofs.v -- proofs about the model Css/Defaulting.v.

   Part A (this file): CACHE TRANSPARENCY.  For every well-formed tree and every
   history of style constructions and Get calls, each Get returns exactly
   `computed t n p`, the value of the cache-free reference semantics; the
   invariant "every cached entry of every constructed style equals `computed`,
   and the fields captured at construction equal their cache-free value" is
   preserved by every step.  Holds for the model of the code before and after
   the fixes (`fixed` arbitrary) and for any arithmetic instance. *)
From Verif Require Import Css.Defaulting.
From Coq Require Import Lia ZifyBool ZifyNat ZifyN.
Open Scope N_scope.

(* ------------------------------------------------------------------ generic facts *)

Lemma nkey_inj a b : nkey a = nkey b -> a = b.
Proof.
  unfold nkey. intros H.
  rewrite <- (N.pos_pred_succ a), <- (N.pos_pred_succ b), H. reflexivity.
Qed.

Lemma style_of_add st n s m :
  style_of (PositiveMap.add (nkey n) s st) m = if N.eqb m n then s else style_of st m.
Proof.
  unfold style_of. destruct (N.eqb_spec m n) as [->|Hne].
  - now rewrite PositiveMap.gss.
  - rewrite PositiveMap.gso; [reflexivity|]. intros H; apply Hne, nkey_inj, H.
Qed.

Lemma style_of_cache_set st n p v m :
  style_of (cache_set st n p v) m =
  if N.eqb m n then with_cache (style_of st n) (PositiveMap.add (nkey p) v (s_cache (style_of st n)))
  else style_of st m.
Proof. unfold cache_set. apply style_of_add. Qed.

Lemma style_of_cache_del st n p m :
  style_of (cache_del st n p) m =
  if N.eqb m n then with_cache (style_of st n) (PositiveMap.remove (nkey p) (s_cache (style_of st n)))
  else style_of st m.
Proof. unfold cache_del. apply style_of_add. Qed.

Lemma find_add_key {A} p q (v : A) m :
  PositiveMap.find (nkey q) (PositiveMap.add (nkey p) v m) =
  if N.eqb q p then Some v else PositiveMap.find (nkey q) m.
Proof.
  destruct (N.eqb_spec q p) as [->|Hne].
  - apply PositiveMap.gss.
  - apply PositiveMap.gso. intros H; apply Hne, nkey_inj, H.
Qed.

Lemma find_remove_key {A} p q (m : PositiveMap.t A) :
  PositiveMap.find (nkey q) (PositiveMap.remove (nkey p) m) =
  if N.eqb q p then None else PositiveMap.find (nkey q) m.
Proof.
  destruct (N.eqb_spec q p) as [->|Hne].
  - apply PositiveMap.grs.
  - apply PositiveMap.gro. intros H; apply Hne, nkey_inj, H.
Qed.

(* run_st against run_pure.  `agrees r c`: whenever the cache-free semantics gives a
   value, the state machine returns that value.  (When the cache-free semantics
   panics nothing is claimed about the returned result: a Get that panics after the
   `Set` of style.go:484 leaves a stale entry behind, which a later Get returns.) *)
Definition agrees {A} (r c : res A) : Prop := forall a, c = Ok a -> r = Ok a.

Lemma agrees_refl {A} (r : res A) : agrees r r.
Proof. intros a H; exact H. Qed.

Lemma run_st_ok {A} (h : styles -> dep -> styles * res value) (env : dep -> res value)
      (P : styles -> Prop) (R : styles -> styles -> Prop) :
  (forall st, R st st) -> (forall a b c, R a b -> R b c -> R a c) ->
  (forall st d, P st -> agrees (snd (h st d)) (env d) /\ P (fst (h st d)) /\ R st (fst (h st d))) ->
  forall (pg : prog A) st, P st ->
    agrees (snd (run_st h st pg)) (run_pure env pg) /\ P (fst (run_st h st pg)) /\ R st (fst (run_st h st pg)).
Proof.
  intros Rrefl Rtrans Hh pg. induction pg as [a|s|d k IH]; intros st HP; cbn.
  - split; [apply agrees_refl|auto].
  - split; [apply agrees_refl|auto].
  - specialize (Hh st d HP). destruct (h st d) as [st' r]. cbn in Hh.
    destruct Hh as (Hr & HP' & HR).
    destruct r as [v| |]; cbn.
    + destruct (IH v st' HP') as (E1 & E2 & E3). split; [|split; eauto].
      intros a Ha. destruct (env d) as [v0| |] eqn:Ed; try discriminate.
      specialize (Hr v0 eq_refl). inversion Hr; subst. apply E1, Ha.
    + split; [|auto]. intros a Ha. destruct (env d) as [v0| |] eqn:Ed; try discriminate.
      specialize (Hr v0 eq_refl). discriminate.
    + split; [|auto]. intros a Ha. destruct (env d) as [v0| |] eqn:Ed; try discriminate.
      specialize (Hr v0 eq_refl). discriminate.
Qed.

(* ------------------------------------------------------------------ chains *)

Section Chains.
  Variable t : tree.

  Lemma wf_from_nth i l k nd :
    wf_from i l = true -> nth_error l k = Some nd -> wf_node (i + N.of_nat k) nd = true.
  Proof.
    revert i k. induction l as [|x r IH]; intros i k Hwf Hn.
    - destruct k; discriminate.
    - cbn in Hwf. apply andb_prop in Hwf. destruct Hwf as [H1 H2].
      destruct k as [|k]; cbn in Hn.
      + inversion Hn; subst. now replace (i + N.of_nat 0) with i by lia.
      + specialize (IH (N.succ i) k H2 Hn).
        now replace (i + N.of_nat (S k)) with (N.succ i + N.of_nat k) by lia.
  Qed.

  Hypothesis WF : wf_tree t = true.

  Lemma wf_node_at n nd : node_at t n = Some nd -> wf_node n nd = true.
  Proof.
    unfold node_at. intros H. pose proof (wf_from_nth 0 t (N.to_nat n) nd WF H) as W.
    now replace (0 + N.of_nat (N.to_nat n)) with n in W by lia.
  Qed.

  Lemma parent_lt n nd j : node_at t n = Some nd -> n_parent nd = Some j -> j < n.
  Proof.
    intros H1 H2. pose proof (wf_node_at n nd H1) as W. unfold wf_node in W. rewrite H2 in W. lia.
  Qed.

  Lemma parent_none n nd : node_at t n = Some nd -> n_parent nd = None -> n = 0 /\ n_kind nd = KElem.
  Proof.
    intros H1 H2. pose proof (wf_node_at n nd H1) as W. unfold wf_node in W. rewrite H2 in W.
    apply andb_prop in W. destruct W as [W1 W2]. split; [lia|]. destruct (n_kind nd); [reflexivity|discriminate].
  Qed.

  Lemma node_at_lt n nd : node_at t n = Some nd -> (N.to_nat n < List.length t)%nat.
  Proof. unfold node_at. intros H. apply nth_error_Some. congruence. Qed.

  (* the fuel is irrelevant once it exceeds the node index *)
  Lemma chain_fuel_indep : forall n f1 f2,
    (N.to_nat n < f1)%nat -> (N.to_nat n < f2)%nat -> chain_fuel t f1 n = chain_fuel t f2 n.
  Proof.
    intros n. induction n as [n IH] using (well_founded_induction N.lt_wf_0).
    intros f1 f2 H1 H2. destruct f1 as [|f1]; [lia|]. destruct f2 as [|f2]; [lia|]. cbn.
    destruct (node_at t n) as [nd|] eqn:En; [|reflexivity].
    destruct (n_parent nd) as [j|] eqn:Ep; [|reflexivity].
    pose proof (parent_lt n nd j En Ep). f_equal. apply IH; lia.
  Qed.

  Lemma chain_of_step n nd :
    node_at t n = Some nd ->
    chain_of t n = n :: match n_parent nd with Some j => chain_of t j | None => [] end.
  Proof.
    intros En. unfold chain_of. pose proof (node_at_lt n nd En) as Hlt.
    rewrite (chain_fuel_indep n (List.length t) (S (List.length t))) by lia.
    cbn [chain_fuel]. rewrite En. destruct (n_parent nd) as [j|] eqn:Ep; reflexivity.
  Qed.

  Lemma chain_of_le : forall n m, In m (chain_of t n) -> m <= n.
  Proof.
    intros n. induction n as [n IH] using (well_founded_induction N.lt_wf_0). intros m Hm.
    destruct (node_at t n) as [nd|] eqn:En.
    - rewrite (chain_of_step n nd En) in Hm. destruct Hm as [<-|Hm]; [lia|].
      destruct (n_parent nd) as [j|] eqn:Ep; [|contradiction].
      pose proof (parent_lt n nd j En Ep). specialize (IH j H m Hm). lia.
    - unfold chain_of in Hm. destruct (List.length t); cbn in Hm; [|rewrite En in Hm];
        destruct Hm as [<-|[]]; lia.
  Qed.

  (* the chain of a node of the tree ends at node 0 *)
  Lemma chain_of_last : forall n nd, node_at t n = Some nd -> last (chain_of t n) 0 = 0.
  Proof.
    intros n. induction n as [n IH] using (well_founded_induction N.lt_wf_0). intros nd En.
    rewrite (chain_of_step n nd En). destruct (n_parent nd) as [j|] eqn:Ep.
    - pose proof (parent_lt n nd j En Ep) as Hj.
      assert (exists ndj, node_at t j = Some ndj) as [ndj Ej].
      { unfold node_at in *. destruct (nth_error t (N.to_nat j)) eqn:E; eauto.
        apply nth_error_None in E. pose proof (node_at_lt n nd En). lia. }
      specialize (IH j Hj ndj Ej). rewrite (chain_of_step j ndj Ej) in *. exact IH.
    - destruct (parent_none n nd En Ep) as [-> _]. reflexivity.
  Qed.

  Lemma chain_of_zero nd : node_at t 0 = Some nd -> chain_of t 0 = [0].
  Proof.
    intros En. rewrite (chain_of_step 0 nd En). destruct (n_parent nd) as [j|] eqn:Ep; [|reflexivity].
    pose proof (parent_lt 0 nd j En Ep). lia.
  Qed.

  Lemma node_at_parent n nd j : node_at t n = Some nd -> n_parent nd = Some j -> exists ndj, node_at t j = Some ndj.
  Proof.
    intros En Ep. pose proof (parent_lt n nd j En Ep) as Hj. unfold node_at in *.
    destruct (nth_error t (N.to_nat j)) eqn:E; eauto.
    apply nth_error_None in E. pose proof (node_at_lt n nd En). lia.
  Qed.
End Chains.

(* ------------------------------------------------------------------ cache transparency *)

Section Transparency.
  Variable ar : arith.
  Variable fx : bool.
  Variable t : tree.
  Hypothesis WF : wf_tree t = true.

  Notation comp := (computed ar fx t).
  Notation rfs0 := (root_fs_pure ar fx t).
  Notation cchain := (computed_chain ar fx t rfs0).

  (* cache-free values of the fields captured at construction *)
  Definition cap_rootfs (n : N) : res value :=
    match chain_of t n with _ :: _ :: _ => rfs0 | _ => initial_fs_value end.
  Definition cap_spec (n q : N) : res value :=
    match node_at t n, chain_of t n with
    | Some nd, _ :: anc => specified fx nd (is_last anc) (cchain anc) q
    | _, _ => Panic 8
    end.

  (* invariant of one style object: what is cached / captured is what the cache-free
     semantics gives (whenever it gives a value) *)
  Definition SInv (n : N) (s : sstyle) : Prop :=
    (forall p v, PositiveMap.find (nkey p) (s_cache s) = Some v -> agrees (Ok v) (comp n p)) /\
    (forall nd, node_at t n = Some nd -> n_kind nd = KElem ->
       agrees (Ok (s_rootfs s)) (cap_rootfs n) /\ agrees (Ok (s_pos s)) (cap_spec n PPosition) /\
       agrees (Ok (s_disp s)) (cap_spec n PDisplay) /\ agrees (Ok (s_float s)) (cap_spec n PFloat)) /\
    (forall nd, node_at t n = Some nd -> n_kind nd = KAnon ->
       forall p, In p anon_presets -> PositiveMap.find (nkey p) (s_cache s) = Some dim_zero_null).
  Definition InvNode (st : styles) (n : N) : Prop := SInv n (style_of st n).

  Definition frame (dom : N -> Prop) (a b : styles) : Prop :=
    forall m, ~ dom m -> style_of b m = style_of a m.
  Lemma frame_refl dom a : frame dom a a. Proof. intros m _. reflexivity. Qed.
  Lemma frame_trans dom a b c : frame dom a b -> frame dom b c -> frame dom a c.
  Proof. intros H1 H2 m Hm. rewrite (H2 m Hm). apply H1, Hm. Qed.

  Definition getter_ok (g : getter) (pure : N -> res value) (dom : N -> Prop) : Prop :=
    forall st q, (forall m, dom m -> InvNode st m) ->
      agrees (snd (g st q)) (pure q) /\
      (forall m, dom m -> InvNode (fst (g st q)) m) /\
      frame dom st (fst (g st q)).

  (* the parent-only handler *)
  Lemma parent_handler_ok anc is_root parent_get parent_pure (keep : styles -> Prop) :
    getter_ok parent_get parent_pure (fun m => In m anc) ->
    (forall a b, frame (fun m => In m anc) a b -> keep a -> keep b) ->
    forall st d, ((forall m, In m anc -> InvNode st m) /\ keep st) ->
      agrees (snd (parent_handler is_root parent_get st d)) (parent_env is_root parent_pure d) /\
      ((forall m, In m anc -> InvNode (fst (parent_handler is_root parent_get st d)) m) /\ keep (fst (parent_handler is_root parent_get st d))) /\
      frame (fun m => In m anc) st (fst (parent_handler is_root parent_get st d)).
  Proof.
    intros Hg Hkeep st d [HI HK]. unfold parent_handler, parent_env.
    assert (Triv : forall r, agrees (snd (st, r : res value)) r /\
              ((forall m, In m anc -> InvNode (fst (st, r)) m) /\ keep (fst (st, r))) /\
              frame (fun m => In m anc) st (fst (st, r))).
    { intros r. cbn. split; [apply agrees_refl|]. split; [split; assumption|apply frame_refl]. }
    destruct d; try apply Triv.
    destruct is_root; [apply Triv|].
    destruct (Hg st p HI) as (E1 & E2 & E3).
    split; [exact E1|]. split; [split; [exact E2|]|exact E3].
    eapply Hkeep; [exact E3|exact HK].
  Qed.

  Lemma SInv_change n nd s s' :
    node_at t n = Some nd -> n_kind nd = KElem ->
    SInv n s -> s_rootfs s' = s_rootfs s -> s_pos s' = s_pos s -> s_disp s' = s_disp s ->
    s_float s' = s_float s ->
    (forall q w, PositiveMap.find (nkey q) (s_cache s') = Some w ->
                 PositiveMap.find (nkey q) (s_cache s) = Some w \/ agrees (Ok w) (comp n q)) ->
    SInv n s'.
  Proof.
    intros En Ek (H1 & H2 & H3) E1 E2 E3 E4 Hc. split; [|split].
    - intros q w Hq. destruct (Hc q w Hq) as [H|H]; [apply H1, H|exact H].
    - intros nd' En' Ek'. rewrite E1, E2, E3, E4. exact (H2 nd' En' Ek').
    - intros nd' En' Ek'. rewrite En in En'. inversion En'; subst. congruence.
  Qed.

  Lemma InvNode_same st st' m : style_of st' m = style_of st m -> InvNode st m -> InvNode st' m.
  Proof. unfold InvNode. intros ->. auto. Qed.

  Lemma elem_pure_inv nd isr pv ov rf p w :
    elem_pure ar fx nd isr pv ov rf p = Ok w ->
    exists v save v' del,
      run_pure (parent_env isr pv) (cascade_value fx isr nd p) = Ok (v, save) /\
      run_pure (parent_env isr pv) (special isr nd p v) = Ok (v', del) /\
      if save && negb del then w = v
      else run_pure (pure_env isr pv ov rf (specified fx nd isr pv PPosition)
                       (specified fx nd isr pv PDisplay) (specified fx nd isr pv PFloat))
                    (compute ar fx isr nd p v') = Ok w.
  Proof.
    unfold elem_pure. intros H.
    destruct (run_pure (parent_env isr pv) (cascade_value fx isr nd p)) as [[v save]| |] eqn:E1; try discriminate.
    cbn [bind] in H.
    destruct (run_pure (parent_env isr pv) (special isr nd p v)) as [[v' del]| |] eqn:E3; try discriminate.
    cbn [bind] in H. exists v, save, v', del. split; [reflexivity|]. split; [exact E3|].
    destruct (save && negb del); [now inversion H|exact H].
  Qed.

  Section Elem.
    Variables (n : N) (nd : node) (anc : list N) (parent_get own_get : getter) (own_pure : N -> res value).
    Hypothesis En : node_at t n = Some nd.
    Hypothesis Ek : n_kind nd = KElem.
    Hypothesis Ec : chain_of t n = n :: anc.
    Hypothesis Hni : ~ In n anc.
    Hypothesis Hpar : getter_ok parent_get (cchain anc) (fun m => In m anc).
    Hypothesis Hown : getter_ok own_get own_pure (fun m => m = n \/ In m anc).

    Let dom := fun m => m = n \/ In m anc.
    Let isr := is_last anc.

    Lemma handler_ok st d :
      (forall m, dom m -> InvNode st m) ->
      agrees (snd (handler n isr parent_get own_get st d))
        (pure_env isr (cchain anc) own_pure (cap_rootfs n) (cap_spec n PPosition) (cap_spec n PDisplay) (cap_spec n PFloat) d) /\
      (forall m, dom m -> InvNode (fst (handler n isr parent_get own_get st d)) m) /\
      frame dom st (fst (handler n isr parent_get own_get st d)).
    Proof.
      intros HI.
      assert (Triv : forall r r', agrees r r' -> agrees (snd (st, r : res value)) r' /\
                (forall m, dom m -> InvNode (fst (st, r)) m) /\ frame dom st (fst (st, r))).
      { intros r r' Hr. cbn. split; [exact Hr|]. split; [assumption|apply frame_refl]. }
      pose proof (proj1 (proj2 (HI n (or_introl eq_refl))) nd En Ek) as (C1 & C2 & C3 & C4).
      destruct d; cbn [handler pure_env]; try (apply Triv; assumption).
      - apply (Hown st p HI).
      - destruct isr; [apply Triv, agrees_refl|].
        destruct (Hpar st p (fun m Hm => HI m (or_intror Hm))) as (E1 & E2 & E3).
        split; [exact E1|]. split.
        + intros m [->|Hm]; [|apply E2, Hm].
          eapply InvNode_same; [apply E3, Hni|apply HI; left; reflexivity].
        + intros m Hm. apply E3. intros Hin. apply Hm. right. exact Hin.
      - apply Triv, agrees_refl.
    Qed.

    Lemma cap_spec_eq q : cap_spec n q = specified fx nd isr (cchain anc) q.
    Proof. unfold cap_spec. rewrite En, Ec. reflexivity. Qed.

    Lemma keep_frame (s0 : sstyle) a b :
      frame (fun m => In m anc) a b -> style_of a n = s0 -> style_of b n = s0.
    Proof. intros F <-. apply F, Hni. Qed.

    Lemma anc_after_set st p v : (forall m, In m anc -> InvNode st m) ->
      forall m, In m anc -> InvNode (cache_set st n p v) m.
    Proof.
      intros HI m Hm. eapply InvNode_same; [|apply HI, Hm].
      rewrite style_of_cache_set. destruct (N.eqb_spec m n) as [->|]; [contradiction|reflexivity].
    Qed.
    Lemma anc_after_del st p : (forall m, In m anc -> InvNode st m) ->
      forall m, In m anc -> InvNode (cache_del st n p) m.
    Proof.
      intros HI m Hm. eapply InvNode_same; [|apply HI, Hm].
      rewrite style_of_cache_del. destruct (N.eqb_spec m n) as [->|]; [contradiction|reflexivity].
    Qed.

    Lemma elem_get_ok p :
      comp n p = elem_pure ar fx nd isr (cchain anc) own_pure (cap_rootfs n) p ->
      forall st, (forall m, dom m -> InvNode st m) ->
        agrees (snd (elem_get ar fx n nd isr parent_get own_get st p)) (comp n p) /\
        (forall m, dom m -> InvNode (fst (elem_get ar fx n nd isr parent_get own_get st p)) m) /\
        frame dom st (fst (elem_get ar fx n nd isr parent_get own_get st p)).
    Proof.
      intros Hcomp st HI. unfold elem_get.
      assert (HIanc : forall m, In m anc -> InvNode st m) by (intros m Hm; apply HI; right; exact Hm).
      pose proof (HI n (or_introl eq_refl)) as HIn.
      destruct (cache_get st n p) as [v0|] eqn:Ecache.
      { cbn. split; [|split; [exact HI|apply frame_refl]]. apply (proj1 HIn). exact Ecache. }
      (* what a value of comp n p tells about the stages *)
      assert (Inv : forall w, comp n p = Ok w -> exists v save v' del,
                 run_pure (parent_env isr (cchain anc)) (cascade_value fx isr nd p) = Ok (v, save) /\
                 run_pure (parent_env isr (cchain anc)) (special isr nd p v) = Ok (v', del) /\
                 if save && negb del then w = v
                 else run_pure (pure_env isr (cchain anc) own_pure (cap_rootfs n) (cap_spec n PPosition)
                                  (cap_spec n PDisplay) (cap_spec n PFloat)) (compute ar fx isr nd p v') = Ok w).
      { intros w Hw. rewrite Hcomp in Hw. rewrite !cap_spec_eq. apply elem_pure_inv, Hw. }
      (* step 1: cascadeValue *)
      destruct (run_st_ok (parent_handler isr parent_get) (parent_env isr (cchain anc))
                  (fun s => (forall m, In m anc -> InvNode s m) /\ style_of s n = style_of st n)
                  (frame (fun m => In m anc)) (frame_refl _) (frame_trans _)
                  (parent_handler_ok anc isr parent_get (cchain anc) _ Hpar (keep_frame (style_of st n)))
                  (cascade_value fx isr nd p) st (conj HIanc eq_refl)) as (R1 & [I1 K1] & F1).
      destruct (run_st (parent_handler isr parent_get) st (cascade_value fx isr nd p)) as [st1 r1].
      cbn [fst snd] in R1, I1, K1, F1.
      assert (Fdom : forall a b, frame (fun m => In m anc) a b -> frame dom a b).
      { intros a b F m Hm. apply F. intros Hin. apply Hm. right. exact Hin. }
      assert (Keep : forall s', (forall m, In m anc -> InvNode s' m) -> style_of s' n = style_of st n ->
                     forall m, dom m -> InvNode s' m).
      { intros s' Ia Kn m [->|Hm]; [|apply Ia, Hm]. eapply InvNode_same; [exact Kn|exact HIn]. }
      assert (Fail1 : forall r : res value, (forall v s, r1 <> Ok (v, s)) -> agrees r (comp n p)).
      { intros r Hr w Hw. destruct (Inv w Hw) as (v & save & v' & del & A1 & _).
        exfalso. apply (Hr v save). apply R1, A1. }
      destruct r1 as [[v save]| |].
      2,3: (cbn; split; [apply Fail1; intros; discriminate|split; [apply Keep; assumption|apply Fdom, F1]]).
      (* step 2: Set if save, then the special cases *)
      set (st2 := if save then cache_set st1 n p v else st1).
      assert (I2 : forall m, In m anc -> InvNode st2 m).
      { subst st2. destruct save; [apply anc_after_set|]; exact I1. }
      destruct (run_st_ok (parent_handler isr parent_get) (parent_env isr (cchain anc))
                  (fun s => (forall m, In m anc -> InvNode s m) /\ style_of s n = style_of st2 n)
                  (frame (fun m => In m anc)) (frame_refl _) (frame_trans _)
                  (parent_handler_ok anc isr parent_get (cchain anc) _ Hpar (keep_frame (style_of st2 n)))
                  (special isr nd p v) st2 (conj I2 eq_refl)) as (R3 & [I3 K3] & F3).
      destruct (run_st (parent_handler isr parent_get) st2 (special isr nd p v)) as [st3 r3].
      cbn [fst snd] in R3, I3, K3, F3.
      assert (F02 : frame dom st st2).
      { intros m Hm. subst st2. destruct save; [|apply Fdom in F1; apply F1, Hm].
        rewrite style_of_cache_set. destruct (N.eqb_spec m n) as [->|]; [exfalso; apply Hm; left; reflexivity|].
        apply Fdom in F1. apply F1, Hm. }
      assert (F03 : frame dom st st3) by (eapply frame_trans; [exact F02|apply Fdom, F3]).
      assert (S2 : style_of st2 n = if save then with_cache (style_of st n) (PositiveMap.add (nkey p) v (s_cache (style_of st n))) else style_of st n).
      { subst st2. destruct save; [|exact K1]. rewrite style_of_cache_set, N.eqb_refl, K1. reflexivity. }
      (* stage facts under comp n p = Ok w *)
      assert (Inv3 : forall w, comp n p = Ok w -> exists v' del,
                 r3 = Ok (v', del) /\
                 if save && negb del then w = v
                 else run_pure (pure_env isr (cchain anc) own_pure (cap_rootfs n) (cap_spec n PPosition)
                                  (cap_spec n PDisplay) (cap_spec n PFloat)) (compute ar fx isr nd p v') = Ok w).
      { intros w Hw. destruct (Inv w Hw) as (v1 & save1 & v' & del & A1 & A3 & A5).
        pose proof (R1 _ A1) as E. inversion E; subst v1 save1. exists v', del. split; [apply R3, A3|exact A5]. }
      destruct r3 as [[v' del]| |].
      2,3: (cbn; split; [intros w Hw; destruct (Inv3 w Hw) as (? & ? & ? & _); discriminate|split; [|exact F03]];
            intros m [->|Hm]; [|apply I3, Hm];
            unfold InvNode; rewrite K3, S2; destruct save; [|exact HIn];
            eapply (SInv_change n nd _ _ En Ek); [exact HIn|reflexivity..|]; cbn; intros q w; rewrite find_add_key;
            destruct (N.eqb_spec q p) as [->|]; [|auto]; intros [= <-]; right;
            intros w' Hw'; destruct (Inv3 w' Hw') as (? & ? & ? & _); discriminate).
      set (st4 := if del then cache_del st3 n p else st3).
      assert (I4 : forall m, In m anc -> InvNode st4 m).
      { subst st4. destruct del; [apply anc_after_del|]; exact I3. }
      assert (F04 : frame dom st st4).
      { intros m Hm. subst st4. destruct del; [|apply F03, Hm].
        rewrite style_of_cache_del. destruct (N.eqb_spec m n) as [->|]; [exfalso; apply Hm; left; reflexivity|].
        apply F03, Hm. }
      assert (S4 : style_of st4 n = if del then with_cache (style_of st2 n) (PositiveMap.remove (nkey p) (s_cache (style_of st2 n))) else style_of st2 n).
      { subst st4. destruct del; [|exact K3]. rewrite style_of_cache_del, N.eqb_refl, K3. reflexivity. }
      assert (C4 : cache_get st4 n p = if save && negb del then Some v else None).
      { unfold cache_get. rewrite S4, S2. destruct del, save; cbn.
        - now rewrite find_remove_key, N.eqb_refl.
        - now rewrite find_remove_key, N.eqb_refl.
        - now rewrite find_add_key, N.eqb_refl.
        - exact Ecache. }
      cbv beta iota. fold st2. cbv beta iota. fold st4. rewrite C4.
      destruct (save && negb del) eqn:Esd.
      { (* saved and not deleted: the saved value is returned *)
        assert (A : agrees (Ok v) (comp n p)).
        { intros w Hw. destruct (Inv3 w Hw) as (v1 & del1 & E & A5). inversion E; subst. rewrite Esd in A5. now subst. }
        cbn. split; [exact A|]. split; [|exact F04].
        intros m [->|Hm]; [|apply I4, Hm]. unfold InvNode. rewrite S4, S2.
        destruct del, save; try discriminate. cbn.
        eapply (SInv_change n nd _ _ En Ek); [exact HIn|reflexivity..|]. cbn. intros q w. rewrite find_add_key.
        destruct (N.eqb_spec q p) as [->|]; [|auto]. intros [= <-]. right. exact A. }
      (* compute *)
      assert (In4 : InvNode st4 n).
      { unfold InvNode. rewrite S4, S2. eapply (SInv_change n nd _ _ En Ek); [exact HIn|destruct del, save; reflexivity..|].
        intros q w. destruct del, save; cbn; try discriminate;
          rewrite ?find_remove_key, ?find_add_key; destruct (N.eqb_spec q p) as [->|]; auto; discriminate. }
      assert (HI4 : forall m, dom m -> InvNode st4 m).
      { intros m [->|Hm]; [exact In4|apply I4, Hm]. }
      destruct (run_st_ok (handler n isr parent_get own_get)
                  (pure_env isr (cchain anc) own_pure (cap_rootfs n) (cap_spec n PPosition) (cap_spec n PDisplay) (cap_spec n PFloat))
                  (fun s => forall m, dom m -> InvNode s m) (frame dom) (frame_refl _) (frame_trans _)
                  handler_ok (compute ar fx isr nd p v') st4 HI4) as (R5 & I5 & F5).
      destruct (run_st (handler n isr parent_get own_get) st4 (compute ar fx isr nd p v')) as [st5 r5].
      cbn [fst snd] in R5, I5, F5.
      assert (A5 : agrees r5 (comp n p)).
      { intros w Hw. destruct (Inv3 w Hw) as (v1 & del1 & E & A5). inversion E; subst. rewrite Esd in A5. apply R5, A5. }
      destruct r5 as [out| |]; cbn.
      2,3: (split; [exact A5|split; [exact I5|eapply frame_trans; [exact F04|exact F5]]]).
      split; [exact A5|]. split.
      - intros m [->|Hm].
        + unfold InvNode. rewrite style_of_cache_set, N.eqb_refl.
          eapply (SInv_change n nd _ _ En Ek); [exact (I5 n (or_introl eq_refl))|reflexivity..|]. cbn. intros q w.
          rewrite find_add_key. destruct (N.eqb_spec q p) as [->|]; [|auto]. intros [= <-]. right. exact A5.
        + eapply InvNode_same; [|apply I5; right; exact Hm]. rewrite style_of_cache_set.
          destruct (N.eqb_spec m n) as [->|]; [contradiction|reflexivity].
      - intros m Hm. rewrite style_of_cache_set.
        destruct (N.eqb_spec m n) as [->|]; [exfalso; apply Hm; left; reflexivity|].
        eapply frame_trans; [exact F04|exact F5|exact Hm].
    Qed.
  End Elem.

  Section Anon.
    Variables (n : N) (nd : node) (anc : list N) (parent_get : getter).
    Hypothesis En : node_at t n = Some nd.
    Hypothesis Ek : n_kind nd = KAnon.
    Hypothesis Hni : ~ In n anc.
    Hypothesis Hpar : getter_ok parent_get (cchain anc) (fun m => In m anc).
    Let dom := fun m => m = n \/ In m anc.
    Let isr := is_last anc.

    Lemma SInv_add_anon s p v :
      SInv n s -> agrees (Ok v) (comp n p) -> PositiveMap.find (nkey p) (s_cache s) = None ->
      SInv n (with_cache s (PositiveMap.add (nkey p) v (s_cache s))).
    Proof.
      intros (H1 & H2 & H3) Hv Hnone. split; [|split].
      - cbn. intros q w. rewrite find_add_key. destruct (N.eqb_spec q p) as [->|]; [|apply H1].
        intros [= <-]. exact Hv.
      - intros nd' En' Ek'. rewrite En in En'. inversion En'; subst. congruence.
      - intros nd' En' Ek' q Hq. cbn. rewrite find_add_key.
        destruct (N.eqb_spec q p) as [->|]; [|apply (H3 nd' En' Ek' q Hq)].
        rewrite (H3 nd' En' Ek' p Hq) in Hnone. discriminate.
    Qed.

    Lemma anon_handler_ok (s0 : sstyle) st d :
      ((forall m, In m anc -> InvNode st m) /\ style_of st n = s0) ->
      agrees (snd (anon_handler isr parent_get st d)) (anon_env isr (cchain anc) d) /\
      ((forall m, In m anc -> InvNode (fst (anon_handler isr parent_get st d)) m) /\ style_of (fst (anon_handler isr parent_get st d)) n = s0) /\
      frame (fun m => In m anc) st (fst (anon_handler isr parent_get st d)).
    Proof.
      intros [HI HK]. unfold anon_handler, anon_env.
      assert (Triv : forall r, agrees (snd (st, r : res value)) r /\
                ((forall m, In m anc -> InvNode (fst (st, r)) m) /\ style_of (fst (st, r)) n = s0) /\
                frame (fun m => In m anc) st (fst (st, r))).
      { intros r. cbn. split; [apply agrees_refl|]. split; [split; assumption|apply frame_refl]. }
      destruct d; try apply Triv.
      destruct isr; [apply Triv|].
      destruct (Hpar st p HI) as (E1 & E2 & E3).
      split; [exact E1|]. split; [split; [exact E2|]|exact E3].
      rewrite <- HK. apply E3, Hni.
    Qed.

    Lemma anon_get_ok p :
      comp n p = anon_pure isr (cchain anc) p ->
      forall st, (forall m, dom m -> InvNode st m) ->
        agrees (snd (anon_get n isr parent_get st p)) (comp n p) /\
        (forall m, dom m -> InvNode (fst (anon_get n isr parent_get st p)) m) /\
        frame dom st (fst (anon_get n isr parent_get st p)).
    Proof.
      intros Hcomp st HI. unfold anon_get.
      assert (HIanc : forall m, In m anc -> InvNode st m) by (intros m Hm; apply HI; right; exact Hm).
      pose proof (HI n (or_introl eq_refl)) as HIn.
      destruct (cache_get st n p) as [v0|] eqn:Ecache.
      { cbn. split; [|split; [exact HI|apply frame_refl]]. apply (proj1 HIn). exact Ecache. }
      assert (Hnp : mem_N p anon_presets = false).
      { destruct (mem_N p anon_presets) eqn:E; [|reflexivity]. exfalso.
        unfold mem_N in E. apply existsb_exists in E. destruct E as (q & Hq & Eq).
        apply N.eqb_eq in Eq. subst q.
        pose proof (proj2 (proj2 HIn) nd En Ek p Hq) as Hc. unfold cache_get in Ecache. congruence. }
      destruct (run_st_ok (anon_handler isr parent_get) (anon_env isr (cchain anc))
                  (fun s => (forall m, In m anc -> InvNode s m) /\ style_of s n = style_of st n)
                  (frame (fun m => In m anc)) (frame_refl _) (frame_trans _)
                  (anon_handler_ok (style_of st n)) (anon_value p) st (conj HIanc eq_refl)) as (R1 & [I1 K1] & F1).
      destruct (run_st (anon_handler isr parent_get) st (anon_value p)) as [st1 r1].
      cbn [fst snd] in R1, I1, K1, F1.
      assert (A : agrees r1 (comp n p)).
      { rewrite Hcomp. unfold anon_pure. rewrite Hnp. exact R1. }
      assert (Fdom : frame dom st st1).
      { intros m Hm. apply F1. intros Hin. apply Hm. right. exact Hin. }
      destruct r1 as [v| |]; cbn.
      2,3: (split; [exact A|split; [|exact Fdom]]; intros m [->|Hm]; [|apply I1, Hm];
            eapply InvNode_same; [exact K1|exact HIn]).
      split; [exact A|]. split.
      - intros m [->|Hm].
        + unfold InvNode. rewrite style_of_cache_set, N.eqb_refl, K1.
          apply SInv_add_anon; [exact HIn|exact A|exact Ecache].
        + eapply InvNode_same; [|apply I1, Hm]. rewrite style_of_cache_set.
          destruct (N.eqb_spec m n) as [->|]; [contradiction|reflexivity].
      - intros m Hm. rewrite style_of_cache_set.
        destruct (N.eqb_spec m n) as [->|]; [exfalso; apply Hm; left; reflexivity|]. apply Fdom, Hm.
    Qed.
  End Anon.

  Lemma comp_unfold n nd :
    node_at t n = Some nd ->
    let anc := match n_parent nd with Some j => chain_of t j | None => [] end in
    chain_of t n = n :: anc /\ ~ In n anc /\
    (forall p, comp n p =
       match n_kind nd with
       | KAnon => anon_pure (is_last anc) (cchain anc) p
       | KElem =>
           let base := elem_pure ar fx nd (is_last anc) (cchain anc) diverge_pure (cap_rootfs n) in
           if is_base p then base p
           else elem_pure ar fx nd (is_last anc) (cchain anc)
                  (fun q => if is_base q then base q else Panic 7) (cap_rootfs n) p
       end).
  Proof.
    intros En anc. pose proof (chain_of_step t WF n nd En) as Ec. fold anc in Ec.
    split; [exact Ec|]. split.
    - subst anc. destruct (n_parent nd) as [j|] eqn:Ep; [|intros []].
      intros Hin. pose proof (chain_of_le t WF j n Hin). pose proof (parent_lt t WF n nd j En Ep). lia.
    - intros p. unfold computed, cap_rootfs. rewrite Ec. cbn [computed_chain]. rewrite En.
      destruct anc; reflexivity.
  Qed.

  Lemma diverge_ok dom : getter_ok diverge diverge_pure dom.
  Proof.
    intros st q HI. unfold diverge, diverge_pure. cbn.
    split; [apply agrees_refl|]. split; [exact HI|apply frame_refl].
  Qed.

  Lemma get_ok : forall n nd, node_at t n = Some nd ->
    getter_ok (get_chain ar fx t (chain_of t n)) (comp n) (fun m => In m (chain_of t n)).
  Proof.
    intros n. induction n as [n IH] using (well_founded_induction N.lt_wf_0). intros nd En.
    destruct (comp_unfold n nd En) as (Ec & Hni & Hcomp).
    set (anc := match n_parent nd with Some j => chain_of t j | None => [] end) in *.
    assert (Hpar : getter_ok (fun st q => get_chain ar fx t anc st q) (cchain anc) (fun m => In m anc)).
    { subst anc. destruct (n_parent nd) as [j|] eqn:Ep.
      - destruct (node_at_parent t WF n nd j En Ep) as [ndj Ej].
        apply (IH j (parent_lt t WF n nd j En Ep) ndj Ej).
      - intros st q HI. cbn. split; [apply agrees_refl|]. split; [exact HI|apply frame_refl]. }
    rewrite Ec. intros st q HI.
    assert (HI' : forall m, m = n \/ In m anc -> InvNode st m).
    { intros m [->|Hm]; apply HI; [left; reflexivity|right; exact Hm]. }
    cbn [get_chain]. rewrite En. specialize (Hcomp q).
    destruct (n_kind nd) eqn:Ek.
    - (* element *)
      cbv zeta in Hcomp.
      pose proof (elem_get_ok n nd anc (fun st q => get_chain ar fx t anc st q) diverge diverge_pure
                    En Ek Ec Hni Hpar (diverge_ok _)) as Hbase.
      destruct (is_base q) eqn:Eb.
      + destruct (Hbase q Hcomp st HI') as (A & B & C). split; [exact A|]. split;
          [intros m [<-|Hm]; apply B; [left; reflexivity|right; exact Hm]
          |intros m Hm; apply C; intros [->|H]; apply Hm; [left; reflexivity|right; exact H]].
      + assert (Hown : getter_ok
                  (fun st q => if is_base q then elem_get ar fx n nd (is_last anc) (fun st q => get_chain ar fx t anc st q) diverge st q else (st, Panic 7))
                  (fun q => if is_base q then elem_pure ar fx nd (is_last anc) (cchain anc) diverge_pure (cap_rootfs n) q else Panic 7)
                  (fun m => m = n \/ In m anc)).
        { intros st' q' HIq. destruct (is_base q') eqn:Eb'.
          - assert (Hc' : comp n q' = elem_pure ar fx nd (is_last anc) (cchain anc) diverge_pure (cap_rootfs n) q').
            { destruct (comp_unfold n nd En) as (_ & _ & Hc). rewrite (Hc q'), Ek. cbv zeta. now rewrite Eb'. }
            rewrite <- Hc'. apply (Hbase q' Hc' st' HIq).
          - cbn. split; [apply agrees_refl|]. split; [exact HIq|apply frame_refl]. }
        destruct (elem_get_ok n nd anc _ _ _ En Ek Ec Hni Hpar Hown q Hcomp st HI') as (A & B & C).
        split; [exact A|]. split;
          [intros m [<-|Hm]; apply B; [left; reflexivity|right; exact Hm]
          |intros m Hm; apply C; intros [->|H]; apply Hm; [left; reflexivity|right; exact H]].
    - (* anonymous *)
      destruct (anon_get_ok n nd anc (fun st q => get_chain ar fx t anc st q) En Ek Hni Hpar q Hcomp st HI') as (A & B & C).
split; [exact A|]. split;
          [intros m [<-|Hm]; apply B; [left; reflexivity|right; exact Hm]
          |intros m Hm; apply C; intros [->|H]; apply Hm; [left; reflexivity|right; exact H]].
  Qed.

  (* the root's own evaluation does not use the root font size parameter *)
  Lemma root_chain_param X Y q : computed_chain ar fx t X [0] q = computed_chain ar fx t Y [0] q.
  Proof. cbn [computed_chain]. destruct (node_at t 0) as [nd|]; [|reflexivity]. destruct (n_kind nd); reflexivity. Qed.

  Lemma last_In {A} (l : list A) d : l <> [] -> In (last l d) l.
  Proof.
    induction l as [|a r IH]; [congruence|]. intros _. destruct r as [|b r']; [left; reflexivity|].
    right. apply IH. congruence.
  Qed.

  Lemma InvNode_add_other st n s m : m <> n -> InvNode st m -> InvNode (PositiveMap.add (nkey n) s st) m.
  Proof.
    intros Hne. apply InvNode_same. rewrite style_of_add.
    destruct (N.eqb_spec m n); [contradiction|reflexivity].
  Qed.

  Lemma style_of_fold_set v l : forall st n m,
    style_of (fold_left (fun s p => cache_set s n p v) l st) m =
    if N.eqb m n then with_cache (style_of st n)
                        (fold_left (fun c p => PositiveMap.add (nkey p) v c) l (s_cache (style_of st n)))
    else style_of st m.
  Proof.
    induction l as [|p l IH]; intros st n m; cbn [fold_left].
    - destruct (N.eqb_spec m n) as [->|]; [|reflexivity]. now destruct (style_of st n).
    - rewrite IH, !style_of_cache_set, N.eqb_refl. destruct (N.eqb m n); reflexivity.
  Qed.

  Lemma preset_cache_find q :
    PositiveMap.find (nkey q) (fold_left (fun c p => PositiveMap.add (nkey p) dim_zero_null c) anon_presets (PositiveMap.empty value))
    = if mem_N q anon_presets then Some dim_zero_null else None.
  Proof.
    unfold anon_presets, mem_N. cbn [fold_left existsb]. rewrite !find_add_key, PositiveMap.gempty.
    repeat (match goal with |- context [N.eqb q ?x] => destruct (N.eqb q x) end); reflexivity.
  Qed.

  (* the cache-free counterparts of the steps of a construction all give a value *)
  Definition construct_pure_ok (n : N) (nd : node) : Prop :=
    match n_kind nd with
    | KElem => (exists v, cap_rootfs n = Ok v) /\ (exists v, cap_spec n PPosition = Ok v) /\
               (exists v, cap_spec n PDisplay = Ok v) /\ (exists v, cap_spec n PFloat = Ok v) /\
               (exists s, comp n PAnchor = Ok (VStr s))
    | KAnon => (exists v, comp n PDisplay = Ok v) /\ (exists v, comp n PFloat = Ok v) /\
               (exists v, comp n PPosition = Ok v)
    end.

  Lemma construct_ok n nd st st' rr :
    node_at t n = Some nd ->
    (forall m, In m (chain_of t n) -> m <> n -> InvNode st m) ->
    construct ar fx t st n = (st', rr) ->
    (rr = Ok tt -> (forall m, In m (chain_of t n) -> InvNode st' m) /\ frame (fun m => In m (chain_of t n)) st st') /\
    (construct_pure_ok n nd -> rr = Ok tt).
  Proof.
    intros En HI. destruct (comp_unfold n nd En) as (Ec & Hni & Hcomp).
    set (anc := match n_parent nd with Some j => chain_of t j | None => [] end) in *.
    assert (HIanc : forall m, In m anc -> InvNode st m).
    { intros m Hm. apply HI; [rewrite Ec; right; exact Hm|]. intros ->. contradiction. }
    assert (Hpar : getter_ok (fun st q => get_chain ar fx t anc st q) (cchain anc) (fun m => In m anc)).
    { subst anc. destruct (n_parent nd) as [j|] eqn:Ep.
      - destruct (node_at_parent t WF n nd j En Ep) as [ndj Ej]. apply (get_ok j ndj Ej).
      - intros s q H. cbn. split; [apply agrees_refl|]. split; [exact H|apply frame_refl]. }
    assert (Fdom : forall a b, frame (fun m => In m anc) a b -> frame (fun m => In m (n :: anc)) a b).
    { intros a b F m Hm. apply F. intros Hin. apply Hm. right. exact Hin. }
    unfold construct, construct_pure_ok. rewrite En, Ec. fold anc.
    destruct (n_kind nd) eqn:Ek.
    - (* element *)
      (* root font size *)
      assert (Hrfs : forall st1 rfs,
                 (if is_last anc then (st, initial_fs_value ) else get_chain ar fx t [last (n :: anc) 0] st PFontSize) = (st1, rfs) ->
                 agrees rfs (cap_rootfs n) /\ (forall m, In m anc -> InvNode st1 m) /\ frame (fun m => In m anc) st st1).
      { intros st1 rfs E. unfold cap_rootfs. rewrite Ec. destruct anc as [|a anc'] eqn:Ea.
        - cbn in E. inversion E; subst. split; [apply agrees_refl|]. split; [exact HIanc|apply frame_refl].
        - cbn [is_last] in E.
          assert (E0 : last (n :: a :: anc') 0 = 0) by (rewrite <- Ec; apply (chain_of_last t WF n nd En)).
          rewrite E0 in E.
          assert (exists nd0, node_at t 0 = Some nd0) as [nd0 En0].
          { unfold node_at in *. destruct (nth_error t (N.to_nat 0)) eqn:E'; eauto.
            apply nth_error_None in E'. pose proof (node_at_lt t n nd En). lia. }
          pose proof (get_ok 0 nd0 En0) as G. rewrite (chain_of_zero t WF nd0 En0) in G.
          assert (In0 : In 0 (a :: anc')).
          { assert (H : In (last (n :: a :: anc') 0) (a :: anc')) by (apply (last_In (a :: anc') 0); congruence).
            now rewrite E0 in H. }
          destruct (G st PFontSize) as (A & B & C).
          { intros m [<-|[]]. apply HIanc. exact In0. }
          rewrite E in A, B, C. cbn [fst snd] in A, B, C.
          split; [|split].
          + unfold root_fs_pure. unfold computed in A. rewrite (chain_of_zero t WF nd0 En0) in A.
            rewrite (root_chain_param _ rfs0). exact A.
          + intros m Hm. destruct (N.eq_dec m 0) as [->|Hne]; [apply B; left; reflexivity|].
            eapply InvNode_same; [apply C; intros [H|[]]; congruence|apply HIanc, Hm].
          + intros m Hm. apply C. intros [<-|[]]. contradiction. }
      destruct (if is_last anc then (st, initial_fs_value) else get_chain ar fx t [last (n :: anc) 0] st PFontSize) as [st1 rfs] eqn:E1.
      destruct (Hrfs st1 rfs eq_refl) as (A1 & I1 & F1).
      destruct rfs as [rf| |];
        try (intros H; inversion H; subst; split; [intros X; discriminate X|];
             intros ((w & Hw) & _); specialize (A1 _ Hw); discriminate A1).
      (* specified values *)
      assert (Hspec : forall s q, (forall m, In m anc -> InvNode s m) ->
                 let r := run_st (parent_handler (is_last anc) (fun st q => get_chain ar fx t anc st q)) s (cascade_value fx (is_last anc) nd q) in
                 (forall v b, snd r = Ok (v, b) -> agrees (Ok v) (cap_spec n q)) /\
                 (forall w, cap_spec n q = Ok w -> exists b, snd r = Ok (w, b)) /\
                 (forall m, In m anc -> InvNode (fst r) m) /\ frame (fun m => In m anc) s (fst r)).
      { intros s q Hs r.
        destruct (run_st_ok (parent_handler (is_last anc) (fun st q => get_chain ar fx t anc st q)) (parent_env (is_last anc) (cchain anc))
                    (fun s => (forall m, In m anc -> InvNode s m) /\ True)
                    (frame (fun m => In m anc)) (frame_refl _) (frame_trans _)
                    (parent_handler_ok anc _ _ (cchain anc) (fun _ => True) Hpar (fun _ _ _ _ => I))
                    (cascade_value fx (is_last anc) nd q) s (conj Hs I)) as (R & [Ia _] & F).
        fold r in R, Ia, F. split; [|split; [|split; assumption]].
        - intros v b Hr w Hw. unfold cap_spec in Hw. rewrite En, Ec in Hw. unfold specified in Hw.
          destruct (run_pure (parent_env (is_last anc) (cchain anc)) (cascade_value fx (is_last anc) nd q)) as [[v1 b1]| |] eqn:Ep; try discriminate.
          cbn in Hw. inversion Hw; subst. specialize (R _ eq_refl). rewrite Hr in R. inversion R; subst. reflexivity.
        - intros w Hw. unfold cap_spec in Hw. rewrite En, Ec in Hw. unfold specified in Hw.
          destruct (run_pure (parent_env (is_last anc) (cchain anc)) (cascade_value fx (is_last anc) nd q)) as [[v1 b1]| |] eqn:Ep; try discriminate.
          cbn in Hw. inversion Hw; subst. exists b1. apply R. reflexivity. }
      destruct (Hspec st1 PPosition I1) as (A2 & B2 & I2 & F2).
      destruct (run_st _ st1 (cascade_value fx (is_last anc) nd PPosition)) as [st2 r2]. cbn [fst snd] in A2, B2, I2, F2.
      destruct r2 as [[pos b2]| |];
        try (intros H; inversion H; subst; split; [intros X; discriminate X|];
             intros (_ & (w & Hw) & _); destruct (B2 _ Hw) as [b0 Hb0]; discriminate Hb0).
      destruct (Hspec st2 PDisplay I2) as (A3 & B3 & I3 & F3).
      destruct (run_st _ st2 (cascade_value fx (is_last anc) nd PDisplay)) as [st3 r3]. cbn [fst snd] in A3, B3, I3, F3.
      destruct r3 as [[disp b3]| |];
        try (intros H; inversion H; subst; split; [intros X; discriminate X|];
             intros (_ & _ & (w & Hw) & _); destruct (B3 _ Hw) as [b0 Hb0]; discriminate Hb0).
      destruct (Hspec st3 PFloat I3) as (A4 & B4 & I4 & F4).
      destruct (run_st _ st3 (cascade_value fx (is_last anc) nd PFloat)) as [st4 r4]. cbn [fst snd] in A4, B4, I4, F4.
      destruct r4 as [[fl b4]| |];
        try (intros H; inversion H; subst; split; [intros X; discriminate X|];
             intros (_ & _ & _ & (w & Hw) & _); destruct (B4 _ Hw) as [b0 Hb0]; discriminate Hb0).
      set (st5 := PositiveMap.add (nkey n) (mkStyle (PositiveMap.empty value) rf pos disp fl) st4).
      assert (I5 : forall m, In m (n :: anc) -> InvNode st5 m).
      { intros m [<-|Hm].
        - unfold InvNode, st5. rewrite style_of_add, N.eqb_refl. split; [|split].
          + cbn. intros q w. rewrite PositiveMap.gempty. discriminate.
          + intros nd' _ _. cbn. repeat split; [exact A1|apply (A2 _ _ eq_refl)|apply (A3 _ _ eq_refl)|apply (A4 _ _ eq_refl)].
          + intros nd' En' Ek'. rewrite En in En'. inversion En'; subst. congruence.
        - apply InvNode_add_other; [intros ->; contradiction|apply I4, Hm]. }
      pose proof (get_ok n nd En) as G. rewrite Ec in G. destruct (G st5 PAnchor I5) as (A6 & I6 & F6).
      destruct (get_chain ar fx t (n :: anc) st5 PAnchor) as [st6 r6]. cbn [fst snd] in A6, I6, F6.
      destruct r6 as [[]| |]; intros H; inversion H; subst;
        (split; [try (intros X; discriminate X)
                |try (intros (_ & _ & _ & _ & (s0 & Hs0)); specialize (A6 _ Hs0); discriminate A6)]);
        [|reflexivity].
      intros _. split; [exact I6|].
      intros m Hm. rewrite (F6 m Hm). unfold st5. rewrite style_of_add.
      destruct (N.eqb_spec m n) as [->|]; [exfalso; apply Hm; left; reflexivity|].
      assert (Hm' : ~ In m anc) by (intros Hin; apply Hm; right; exact Hin).
      rewrite (F4 m Hm'), (F3 m Hm'), (F2 m Hm'). apply F1, Hm'.
    - (* anonymous *)
      set (st1 := PositiveMap.add (nkey n) empty_style st).
      set (st2 := fold_left (fun s p => cache_set s n p dim_zero_null) anon_presets st1).
      assert (S2 : forall m, style_of st2 m = if N.eqb m n then
                  with_cache empty_style (fold_left (fun c p => PositiveMap.add (nkey p) dim_zero_null c) anon_presets (PositiveMap.empty value))
                  else style_of st m).
      { intros m. subst st2 st1. rewrite style_of_fold_set, !style_of_add, N.eqb_refl.
        destruct (N.eqb m n); reflexivity. }
      assert (I2 : forall m, In m (n :: anc) -> InvNode st2 m).
      { intros m [<-|Hm].
        - unfold InvNode. rewrite S2, N.eqb_refl. split; [|split].
          + cbn [s_cache with_cache]. intros q w. rewrite preset_cache_find.
            destruct (mem_N q anon_presets) eqn:Eq; [|discriminate]. intros [= <-].
            rewrite Hcomp. unfold anon_pure. rewrite Eq. apply agrees_refl.
          + intros nd' En' Ek'. rewrite En in En'. inversion En'; subst. congruence.
          + intros nd' _ _ q Hq. cbn [s_cache with_cache]. rewrite preset_cache_find.
            replace (mem_N q anon_presets) with true; [reflexivity|].
            symmetry. apply existsb_exists. exists q. split; [exact Hq|apply N.eqb_refl].
        - eapply InvNode_same; [|apply HIanc, Hm]. rewrite S2.
          destruct (N.eqb_spec m n) as [->|]; [contradiction|reflexivity]. }
      pose proof (get_ok n nd En) as G. rewrite Ec in G.
      destruct (G st2 PDisplay I2) as (A3 & I3 & F3).
      destruct (get_chain ar fx t (n :: anc) st2 PDisplay) as [st3 r3]. cbn [fst snd] in A3, I3, F3.
      destruct r3 as [disp| |];
        try (intros H; inversion H; subst; split; [intros X; discriminate X|];
             intros ((w & Hw) & _); specialize (A3 _ Hw); discriminate A3).
      destruct (G st3 PFloat I3) as (A4 & I4 & F4).
      destruct (get_chain ar fx t (n :: anc) st3 PFloat) as [st4 r4]. cbn [fst snd] in A4, I4, F4.
      destruct r4 as [fl| |];
        try (intros H; inversion H; subst; split; [intros X; discriminate X|];
             intros (_ & (w & Hw) & _); specialize (A4 _ Hw); discriminate A4).
      destruct (G st4 PPosition I4) as (A5 & I5 & F5).
      destruct (get_chain ar fx t (n :: anc) st4 PPosition) as [st5 r5]. cbn [fst snd] in A5, I5, F5.
      destruct r5 as [pos| |];
        try (intros H; inversion H; subst; split; [intros X; discriminate X|];
             intros (_ & _ & (w & Hw)); specialize (A5 _ Hw); discriminate A5).
      intros H. inversion H; subst. split; [|reflexivity]. intros _. split.
      + intros m [<-|Hm].
        * unfold InvNode. rewrite style_of_add, N.eqb_refl.
          destruct (I5 n (or_introl eq_refl)) as (C1 & C2 & C3). split; [exact C1|]. split; [|exact C3].
          intros nd' En' Ek'. rewrite En in En'. inversion En'; subst. congruence.
        * apply InvNode_add_other; [intros ->; contradiction|apply I5; right; exact Hm].
      + intros m Hm. rewrite style_of_add.
        destruct (N.eqb_spec m n) as [->|Hne]; [exfalso; apply Hm; left; reflexivity|].
        rewrite (F5 m Hm), (F4 m Hm), (F3 m Hm), S2.
        destruct (N.eqb_spec m n); [contradiction|reflexivity].
  Qed.

  (* ---------------------------------------------------------------- histories *)

  (* well-formed history: a style is used only after it has been constructed, and
     constructed only after the style it inherits from *)
  Fixpoint hist_ok (c : list N) (ops : list op) : Prop :=
    match ops with
    | [] => True
    | OGet n p :: r => In n c /\ hist_ok c r
    | OConstruct n :: r =>
        (exists nd, node_at t n = Some nd /\ forall j, n_parent nd = Some j -> In j c) /\ hist_ok (n :: c) r
    end.

  Definition closed (c : list N) : Prop :=
    forall m, In m c -> exists nd, node_at t m = Some nd /\ forall j, n_parent nd = Some j -> In j c.

  Lemma closed_chain c : closed c -> forall m, In m c -> forall x, In x (chain_of t m) -> In x c.
  Proof.
    intros Hc m. induction m as [m IH] using (well_founded_induction N.lt_wf_0). intros Hm x Hx.
    destruct (Hc m Hm) as (nd & En & Hp). rewrite (chain_of_step t WF m nd En) in Hx.
    destruct Hx as [<-|Hx]; [exact Hm|]. destruct (n_parent nd) as [j|] eqn:Ep; [|contradiction].
    apply (IH j (parent_lt t WF m nd j En Ep) (Hp j eq_refl) x Hx).
  Qed.

  Definition constructs_succeed (ops : list op) (rs : list (res (option value))) : Prop :=
    Forall2 (fun o r => match o with OConstruct _ => r = Ok None | OGet _ _ => True end) ops rs.

  Definition gets_agree (ops : list op) (rs : list (res (option value))) : Prop :=
    Forall2 (fun o r => match o with
                        | OGet n p => agrees r (res_map Some (comp n p))
                        | OConstruct _ => True
                        end) ops rs.

  Lemma transparent_hist : forall ops c st,
    closed c -> (forall m, In m c -> InvNode st m) -> hist_ok c ops ->
    constructs_succeed ops (snd (run_ops ar fx t st ops)) ->
    gets_agree ops (snd (run_ops ar fx t st ops)).
  Proof.
    induction ops as [|o ops IH]; intros c st Hc HI Hh Hs; cbn [run_ops].
    - constructor.
    - cbn [run_ops] in Hs. destruct o as [n p|n]; cbn [step] in *.
      + destruct Hh as [Hn Hh]. destruct (Hc n Hn) as (nd & En & _).
        pose proof (get_ok n nd En st p) as G. unfold get in *.
        destruct (get_chain ar fx t (chain_of t n) st p) as [st' r].
        destruct G as (A & B & C). { intros m Hm. apply HI. apply (closed_chain c Hc n Hn m Hm). }
        cbn [fst snd] in A, B, C.
        assert (HI' : forall m, In m c -> InvNode st' m).
        { intros m Hm. destruct (in_dec N.eq_dec m (chain_of t n)) as [Hin|Hnin]; [apply B, Hin|].
          eapply InvNode_same; [apply C, Hnin|apply HI, Hm]. }
        specialize (IH c st' Hc HI' Hh).
        destruct (run_ops ar fx t st' ops) as [st'' xs]. cbn [snd] in *.
        inversion Hs; subst. constructor; [|apply IH; assumption].
        intros a Ha. destruct (comp n p) as [v| |]; cbn in Ha; try discriminate.
        inversion Ha; subst. now rewrite (A v eq_refl).
      + destruct Hh as [(nd & En & Hp) Hh].
        pose proof (fun st' r => construct_ok n nd st st' r) as Cn.
        destruct (construct ar fx t st n) as [st' r].
        destruct (run_ops ar fx t st' ops) as [st'' xs] eqn:Er. cbn [snd] in *.
        inversion Hs; subst. constructor; [exact I|].
        destruct r as [[]| |]; cbn in H2; try discriminate.
        assert (Hc' : closed (n :: c)).
        { intros m [<-|Hm].
          - exists nd. split; [exact En|]. intros j Hj. right. apply Hp, Hj.
          - destruct (Hc m Hm) as (ndm & Em & Hpm). exists ndm. split; [exact Em|]. intros j Hj. right. apply Hpm, Hj. }
        assert (Hchain : forall m, In m (chain_of t n) -> m <> n -> In m c).
        { intros m Hm Hne. destruct (closed_chain (n :: c) Hc' n (or_introl eq_refl) m Hm) as [->|H]; [congruence|exact H]. }
        destruct (proj1 (Cn st' (Ok tt) En (fun m Hm Hne => HI m (Hchain m Hm Hne)) eq_refl) eq_refl) as [B C].
        assert (HI' : forall m, In m (n :: c) -> InvNode st' m).
        { intros m Hm. destruct (in_dec N.eq_dec m (chain_of t n)) as [Hin|Hnin]; [apply B, Hin|].
          destruct Hm as [<-|Hm].
          - exfalso. apply Hnin. rewrite (chain_of_step t WF n nd En). left. reflexivity.
          - eapply InvNode_same; [apply C, Hnin|apply HI, Hm]. }
        specialize (IH (n :: c) st' Hc' HI' Hh). rewrite Er in IH. apply IH. assumption.
  Qed.

  (* when the cache-free semantics of every construction step gives a value, constructions
     succeed as well *)
  Definition hist_agrees (ops : list op) (rs : list (res (option value))) : Prop :=
    Forall2 (fun o r => match o with
                        | OGet n p => agrees r (res_map Some (comp n p))
                        | OConstruct _ => r = Ok None
                        end) ops rs.

  Lemma transparent_hist_total :
    (forall n nd, node_at t n = Some nd -> construct_pure_ok n nd) ->
    forall ops c st,
    closed c -> (forall m, In m c -> InvNode st m) -> hist_ok c ops ->
    hist_agrees ops (snd (run_ops ar fx t st ops)).
  Proof.
    intros Hpure. induction ops as [|o ops IH]; intros c st Hc HI Hh; cbn [run_ops].
    - constructor.
    - destruct o as [n p|n]; cbn [step] in *.
      + destruct Hh as [Hn Hh]. destruct (Hc n Hn) as (nd & En & _).
        pose proof (get_ok n nd En st p) as G. unfold get in *.
        destruct (get_chain ar fx t (chain_of t n) st p) as [st' r].
        destruct G as (A & B & C). { intros m Hm. apply HI. apply (closed_chain c Hc n Hn m Hm). }
        cbn [fst snd] in A, B, C.
        assert (HI' : forall m, In m c -> InvNode st' m).
        { intros m Hm. destruct (in_dec N.eq_dec m (chain_of t n)) as [Hin|Hnin]; [apply B, Hin|].
          eapply InvNode_same; [apply C, Hnin|apply HI, Hm]. }
        specialize (IH c st' Hc HI' Hh).
        destruct (run_ops ar fx t st' ops) as [st'' xs]. cbn [snd] in *.
        constructor; [|exact IH].
        intros a Ha. destruct (comp n p) as [v| |]; cbn in Ha; try discriminate.
        inversion Ha; subst. now rewrite (A v eq_refl).
      + destruct Hh as [(nd & En & Hp) Hh].
        pose proof (fun st' r => construct_ok n nd st st' r) as Cn.
        destruct (construct ar fx t st n) as [st' r].
        assert (Hc' : closed (n :: c)).
        { intros m [<-|Hm].
          - exists nd. split; [exact En|]. intros j Hj. right. apply Hp, Hj.
          - destruct (Hc m Hm) as (ndm & Em & Hpm). exists ndm. split; [exact Em|]. intros j Hj. right. apply Hpm, Hj. }
        assert (Hchain : forall m, In m (chain_of t n) -> m <> n -> In m c).
        { intros m Hm Hne. destruct (closed_chain (n :: c) Hc' n (or_introl eq_refl) m Hm) as [->|H]; [congruence|exact H]. }
        destruct (Cn st' r En (fun m Hm Hne => HI m (Hchain m Hm Hne)) eq_refl) as [Hinv Hsucc].
        specialize (Hsucc (Hpure n nd En)). subst r. destruct (Hinv eq_refl) as [B C].
        assert (HI' : forall m, In m (n :: c) -> InvNode st' m).
        { intros m Hm. destruct (in_dec N.eq_dec m (chain_of t n)) as [Hin|Hnin]; [apply B, Hin|].
          destruct Hm as [<-|Hm].
          - exfalso. apply Hnin. rewrite (chain_of_step t WF n nd En). left. reflexivity.
          - eapply InvNode_same; [apply C, Hnin|apply HI, Hm]. }
        specialize (IH (n :: c) st' Hc' HI' Hh).
        destruct (run_ops ar fx t st' ops) as [st'' xs]. cbn [snd] in *.
        constructor; [reflexivity|exact IH].
  Qed.

  (* from the empty state *)
  Theorem cache_transparent_hist ops :
    hist_ok [] ops ->
    constructs_succeed ops (snd (run_ops ar fx t empty_styles ops)) ->
    gets_agree ops (snd (run_ops ar fx t empty_styles ops)).
  Proof.
    intros Hh Hs. apply (transparent_hist ops [] empty_styles); try assumption.
    - intros m [].
    - intros m [].
  Qed.

  Theorem cache_transparent ops :
    hist_ok [] ops ->
    constructs_succeed ops (snd (run_ops ar fx t empty_styles ops)) ->
    Forall2 (fun o r => match o with
                        | OGet n p => forall v, comp n p = Ok v -> r = Ok (Some v)
                        | OConstruct _ => True
                        end) ops (snd (run_ops ar fx t empty_styles ops)).
  Proof.
    intros Hh Hs. pose proof (cache_transparent_hist ops Hh Hs) as H. unfold gets_agree in H.
    clear Hh Hs. induction H as [|o r l l' Hor _ IH]; constructor; [|exact IH].
    destruct o as [n p|n]; [|exact I]. intros v Hv. apply (Hor (Some v)). rewrite Hv. reflexivity.
  Qed.

  (* newStyleFor's order (every style constructed in index order) followed by any
     sequence of Gets on nodes of the tree is a well-formed history *)
  Definition get_ops (l : list (N * N)) : list op := map (fun np => OGet (fst np) (snd np)) l.

  Lemma hist_ok_init_aux (gets : list (N * N)) :
    Forall (fun np => (N.to_nat (fst np) < List.length t)%nat) gets ->
    forall m k c, (k + m = List.length t)%nat -> (forall j, (j < k)%nat -> In (N.of_nat j) c) ->
    hist_ok c (map (fun i => OConstruct (N.of_nat i)) (seq k m) ++ get_ops gets).
  Proof.
    intros Hg m. induction m as [|m IH]; intros k c Hk Hc; cbn [seq map app].
    - clear Hg0 || idtac. induction gets as [|[n p] gets IHg]; cbn; [exact I|].
      inversion Hg; subst. cbn in H1. split; [|apply IHg; assumption].
      replace n with (N.of_nat (N.to_nat n)) by lia. apply Hc. lia.
    - cbn [hist_ok]. split.
      + assert (Hlt : (k < List.length t)%nat) by lia.
        destruct (nth_error t k) as [nd|] eqn:En; [|apply nth_error_None in En; lia].
        exists nd. unfold node_at. rewrite Nat2N.id. split; [exact En|].
        intros j Hj. assert (En' : node_at t (N.of_nat k) = Some nd) by (unfold node_at; now rewrite Nat2N.id).
        pose proof (parent_lt t WF _ nd j En' Hj). replace j with (N.of_nat (N.to_nat j)) by lia. apply Hc. lia.
      + apply IH; [lia|]. intros j Hj. destruct (Nat.eq_dec j k) as [->|]; [left; reflexivity|right; apply Hc; lia].
  Qed.

  Lemma hist_ok_init gets :
    Forall (fun np => (N.to_nat (fst np) < List.length t)%nat) gets ->
    hist_ok [] (init_ops t ++ get_ops gets).
  Proof.
    intros Hg. unfold init_ops. apply hist_ok_init_aux; [exact Hg|lia|]. intros j Hj. lia.
  Qed.
End Transparency.

(* ------------------------------------------------------------------ the ex / ch ratio cache is transparent *)

Lemma rc_get_set c k b v k' b' :
  rc_get (rc_set c k b v) k' b' = if Bool.eqb b b' && String.eqb k k' then Some v else rc_get c k' b'.
Proof.
  unfold rc_get, rc_set, assoc_S. destruct b, b'; cbn [Bool.eqb andb rc_ch rc_ex find fst snd]; try reflexivity;
    destruct (String.eqb k k'); reflexivity.
Qed.

(* every binding is what `measure` gives for that font description and that unit *)
Definition rc_sound (measure : string -> bool -> Q) (c : rcache) : Prop :=
  forall k b v, rc_get c k b = Some v -> v = measure k b.

Lemma rc_empty_sound measure : rc_sound measure rc_empty.
Proof. intros k b v. unfold rc_get, rc_empty. destruct b; discriminate. Qed.

(* text.CharacterRatio returns the measure of the asked unit for the asked font, whatever was
   asked before, and keeps the cache sound *)
Theorem character_ratio_transparent measure c k b :
  rc_sound measure c ->
  snd (character_ratio measure c k b) = measure k b /\ rc_sound measure (fst (character_ratio measure c k b)).
Proof.
  intros Hs. unfold character_ratio. destruct (rc_get c k b) as [f|] eqn:E; cbn [fst snd].
  - split; [apply Hs, E|exact Hs].
  - split; [reflexivity|]. intros k' b' v'. rewrite rc_get_set.
    destruct (Bool.eqb b b' && String.eqb k k') eqn:Eq; [|apply Hs].
    apply andb_prop in Eq. destruct Eq as [Eb Ek]. apply eqb_prop in Eb. apply String.eqb_eq in Ek. subst.
    intros [= <-]. reflexivity.
Qed.

(* any sequence of requests on a document's cache *)
Fixpoint character_ratios (measure : string -> bool -> Q) (c : rcache) (reqs : list (string * bool)) : list Q :=
  match reqs with
  | [] => []
  | (k, b) :: r => let '(c', v) := character_ratio measure c k b in v :: character_ratios measure c' r
  end.

Theorem character_ratios_transparent measure reqs : forall c,
  rc_sound measure c -> character_ratios measure c reqs = map (fun kb => measure (fst kb) (snd kb)) reqs.
Proof.
  induction reqs as [|[k b] r IH]; intros c Hs; cbn [character_ratios map fst snd]; [reflexivity|].
  destruct (character_ratio_transparent measure c k b Hs) as [Hv Hs'].
  destruct (character_ratio measure c k b) as [c' v]. cbn [fst snd] in Hv, Hs'. rewrite Hv, (IH c' Hs'). reflexivity.
Qed.
