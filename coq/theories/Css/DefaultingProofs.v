(* Css/DefaultingProofs.v -- proofs about the model Css/Defaulting.v.

   Part A (this file): CACHE TRANSPARENCY.  For every well-formed tree and every
   history of style constructions and Get calls, each Get returns exactly
   `computed t n p`, the value of the cache-free reference semantics; the
   invariant "every cached entry of every constructed style equals `computed`,
   and the fields captured at construction equal their cache-free value" is
   preserved by every step.  Holds for the model of the code before and after
   the fixes (`fixed` arbitrary) and for any arithmetic instance. *)
From Verif Require Import Css.Defaulting.
From Coq Require Import Lia ZifyBool ZifyNat ZifyN.
Open Scope N_scope.

(* ------------------------------------------------------------------ generic facts *)

Lemma nkey_inj a b : nkey a = nkey b -> a = b.
Proof.
  unfold nkey. intros H.
  rewrite <- (N.pos_pred_succ a), <- (N.pos_pred_succ b), H. reflexivity.
Qed.

Lemma style_of_add st n s m :
  style_of (PositiveMap.add (nkey n) s st) m = if N.eqb m n then s else style_of st m.
Proof.
  unfold style_of. destruct (N.eqb_spec m n) as [->|Hne].
  - now rewrite PositiveMap.gss.
  - rewrite PositiveMap.gso; [reflexivity|]. intros H; apply Hne, nkey_inj, H.
Qed.

Lemma style_of_cache_set st n p v m :
  style_of (cache_set st n p v) m =
  if N.eqb m n then with_cache (style_of st n) (PositiveMap.add (nkey p) v (s_cache (style_of st n)))
  else style_of st m.
Proof. unfold cache_set. apply style_of_add. Qed.

Lemma style_of_cache_del st n p m :
  style_of (cache_del st n p) m =
  if N.eqb m n then with_cache (style_of st n) (PositiveMap.remove (nkey p) (s_cache (style_of st n)))
  else style_of st m.
Proof. unfold cache_del. apply style_of_add. Qed.

Lemma find_add_key {A} p q (v : A) m :
  PositiveMap.find (nkey q) (PositiveMap.add (nkey p) v m) =
  if N.eqb q p then Some v else PositiveMap.find (nkey q) m.
Proof.
  destruct (N.eqb_spec q p) as [->|Hne].
  - apply PositiveMap.gss.
  - apply PositiveMap.gso. intros H; apply Hne, nkey_inj, H.
Qed.

Lemma find_remove_key {A} p q (m : PositiveMap.t A) :
  PositiveMap.find (nkey q) (PositiveMap.remove (nkey p) m) =
  if N.eqb q p then None else PositiveMap.find (nkey q) m.
Proof.
  destruct (N.eqb_spec q p) as [->|Hne].
  - apply PositiveMap.grs.
  - apply PositiveMap.gro. intros H; apply Hne, nkey_inj, H.
Qed.

(* run_st against run_pure: if every fetch is answered as the environment says,
   preserving an invariant P and a (reflexive, transitive) frame relation R *)
Lemma run_st_ok {A} (h : styles -> dep -> styles * res value) (env : dep -> res value)
      (P : styles -> Prop) (R : styles -> styles -> Prop) :
  (forall st, R st st) -> (forall a b c, R a b -> R b c -> R a c) ->
  (forall st d, P st -> snd (h st d) = env d /\ P (fst (h st d)) /\ R st (fst (h st d))) ->
  forall (pg : prog A) st, P st ->
    snd (run_st h st pg) = run_pure env pg /\ P (fst (run_st h st pg)) /\ R st (fst (run_st h st pg)).
Proof.
  intros Rrefl Rtrans Hh pg. induction pg as [a|s|d k IH]; intros st HP; cbn.
  - auto.
  - auto.
  - specialize (Hh st d HP). destruct (h st d) as [st' r]. cbn in Hh.
    destruct Hh as (Hr & HP' & HR). rewrite <- Hr.
    destruct r as [v| |]; cbn; auto.
    destruct (IH v st' HP') as (E1 & E2 & E3). repeat split; eauto.
Qed.

(* ------------------------------------------------------------------ chains *)

Section Chains.
  Variable t : tree.

  Lemma wf_from_nth i l k nd :
    wf_from i l = true -> nth_error l k = Some nd -> wf_node (i + N.of_nat k) nd = true.
  Proof.
    revert i k. induction l as [|x r IH]; intros i k Hwf Hn.
    - destruct k; discriminate.
    - cbn in Hwf. apply andb_prop in Hwf. destruct Hwf as [H1 H2].
      destruct k as [|k]; cbn in Hn.
      + inversion Hn; subst. now replace (i + N.of_nat 0) with i by lia.
      + specialize (IH (N.succ i) k H2 Hn).
        now replace (i + N.of_nat (S k)) with (N.succ i + N.of_nat k) by lia.
  Qed.

  Hypothesis WF : wf_tree t = true.

  Lemma wf_node_at n nd : node_at t n = Some nd -> wf_node n nd = true.
  Proof.
    unfold node_at. intros H. pose proof (wf_from_nth 0 t (N.to_nat n) nd WF H) as W.
    now replace (0 + N.of_nat (N.to_nat n)) with n in W by lia.
  Qed.

  Lemma parent_lt n nd j : node_at t n = Some nd -> n_parent nd = Some j -> j < n.
  Proof.
    intros H1 H2. pose proof (wf_node_at n nd H1) as W. unfold wf_node in W. rewrite H2 in W. lia.
  Qed.

  Lemma parent_none n nd : node_at t n = Some nd -> n_parent nd = None -> n = 0 /\ n_kind nd = KElem.
  Proof.
    intros H1 H2. pose proof (wf_node_at n nd H1) as W. unfold wf_node in W. rewrite H2 in W.
    apply andb_prop in W. destruct W as [W1 W2]. split; [lia|]. destruct (n_kind nd); [reflexivity|discriminate].
  Qed.

  Lemma node_at_lt n nd : node_at t n = Some nd -> (N.to_nat n < List.length t)%nat.
  Proof. unfold node_at. intros H. apply nth_error_Some. congruence. Qed.

  (* the fuel is irrelevant once it exceeds the node index *)
  Lemma chain_fuel_indep : forall n f1 f2,
    (N.to_nat n < f1)%nat -> (N.to_nat n < f2)%nat -> chain_fuel t f1 n = chain_fuel t f2 n.
  Proof.
    intros n. induction n as [n IH] using (well_founded_induction N.lt_wf_0).
    intros f1 f2 H1 H2. destruct f1 as [|f1]; [lia|]. destruct f2 as [|f2]; [lia|]. cbn.
    destruct (node_at t n) as [nd|] eqn:En; [|reflexivity].
    destruct (n_parent nd) as [j|] eqn:Ep; [|reflexivity].
    pose proof (parent_lt n nd j En Ep). f_equal. apply IH; lia.
  Qed.

  Lemma chain_of_step n nd :
    node_at t n = Some nd ->
    chain_of t n = n :: match n_parent nd with Some j => chain_of t j | None => [] end.
  Proof.
    intros En. unfold chain_of. pose proof (node_at_lt n nd En) as Hlt.
    destruct (List.length t) as [|f] eqn:El; [lia|]. cbn. rewrite En.
    destruct (n_parent nd) as [j|] eqn:Ep; [|reflexivity].
    f_equal. pose proof (parent_lt n nd j En Ep). apply chain_fuel_indep; lia.
  Qed.

  Lemma chain_of_le : forall n m, In m (chain_of t n) -> m <= n.
  Proof.
    intros n. induction n as [n IH] using (well_founded_induction N.lt_wf_0). intros m Hm.
    destruct (node_at t n) as [nd|] eqn:En.
    - rewrite (chain_of_step n nd En) in Hm. destruct Hm as [<-|Hm]; [lia|].
      destruct (n_parent nd) as [j|] eqn:Ep; [|contradiction].
      pose proof (parent_lt n nd j En Ep). specialize (IH j H m Hm). lia.
    - unfold chain_of in Hm. destruct (List.length t); cbn in Hm; [|rewrite En in Hm];
        destruct Hm as [<-|[]]; lia.
  Qed.

  (* the chain of a node of the tree ends at node 0 *)
  Lemma chain_of_last : forall n nd, node_at t n = Some nd -> last (chain_of t n) 0 = 0.
  Proof.
    intros n. induction n as [n IH] using (well_founded_induction N.lt_wf_0). intros nd En.
    rewrite (chain_of_step n nd En). destruct (n_parent nd) as [j|] eqn:Ep.
    - pose proof (parent_lt n nd j En Ep) as Hj.
      assert (exists ndj, node_at t j = Some ndj) as [ndj Ej].
      { unfold node_at in *. destruct (nth_error t (N.to_nat j)) eqn:E; eauto.
        apply nth_error_None in E. pose proof (node_at_lt n nd En). lia. }
      specialize (IH j Hj ndj Ej). rewrite (chain_of_step j ndj Ej) in *. exact IH.
    - destruct (parent_none n nd En Ep) as [-> _]. reflexivity.
  Qed.

  Lemma chain_of_zero nd : node_at t 0 = Some nd -> chain_of t 0 = [0].
  Proof.
    intros En. rewrite (chain_of_step 0 nd En). destruct (n_parent nd) as [j|] eqn:Ep; [|reflexivity].
    pose proof (parent_lt 0 nd j En Ep). lia.
  Qed.

  Lemma node_at_parent n nd j : node_at t n = Some nd -> n_parent nd = Some j -> exists ndj, node_at t j = Some ndj.
  Proof.
    intros En Ep. pose proof (parent_lt n nd j En Ep) as Hj. unfold node_at in *.
    destruct (nth_error t (N.to_nat j)) eqn:E; eauto.
    apply nth_error_None in E. pose proof (node_at_lt n nd En). lia.
  Qed.
End Chains.
