(* Css/W3cDate.v -- model of the W3C date reader of GetHtmlMetadata (C07):
     w3CDateRe                        /repo/utils/html.go:410-436
     toInt (explicit panic, site 830) /repo/utils/html.go:446-455
     parseW3cDate                     /repo/utils/html.go:458-499
   over BYTES (`list N`; every class of the regular expression is ASCII).

   The regular expression
     ^[ \t\n\f\r]*(?P<year>\d\d\d\d)(?:-(?P<month>0\d|1[012])(?:-(?P<day>[012]\d|3[01])
       (?:T(?P<hour>[01]\d|2[0-3]):(?P<minute>[0-5]\d)(?::(?P<second>[0-5]\d)(?:\.\d+)?)?
          (?:Z|(?P<tzHour>[+-](?:[01]\d|2[0-3])):(?P<tzMinute>[0-5]\d)))?)?)?[ \t\n\f\r]*$
   is anchored at both ends and deterministic: at each optional group the first byte of the group
   ('-', 'T', ':', '.') differs from what must follow when the group is skipped (white space or
   the end; 'Z', '+', '-' after the minutes), and the digit runs are delimited by non-digits.
   `match_w3c` is the corresponding recursive-descent recogniser; it returns the eight named
   groups ("" for a group that did not participate), which the correspondence compares with
   FindStringSubmatch on every run.

   `long = true` is the regular expression with the year relaxed to \d{4,} ("ISO 8601 expanded
   years"): NOT the code of /repo, kept to show that the explicit panic of toInt is only
   unreachable because of the digit-length bound of the groups (W3cDateProofs.v).

   time.Date / time.FixedZone are library code: the model returns the integer fields handed to
   them; `unix_seconds` is the instant they denote (proleptic Gregorian calendar; time.Date
   normalises a day beyond the end of the month by counting on, which is linear in the day).
   NO PROOFS here. *)
From Verif Require Import Base.GoSem Base.GoStrings.
From Coq Require Import List ZArith NArith Bool.
Import ListNotations.
Open Scope N_scope.

Definition is_html_ws (c : N) : bool := (c =? 32) || (c =? 9) || (c =? 10) || (c =? 12) || (c =? 13).
Definition in_rng (lo hi c : N) : bool := (lo <=? c) && (c <=? hi).

Record groups := mkG { g_year : list N; g_month : list N; g_day : list N; g_hour : list N;
                       g_minute : list N; g_second : list N; g_tzh : list N; g_tzm : list N }.

(* a two-byte field *)
Definition two (p : N -> N -> bool) (l : list N) : option (list N * list N) :=
  match l with
  | a :: b :: r => if p a b then Some ([a; b], r) else None
  | _ => None
  end.
Definition p_month (a b : N) : bool := ((a =? 48) && is_digit b) || ((a =? 49) && in_rng 48 50 b).        (* 0\d|1[012] *)
Definition p_day (a b : N) : bool := (in_rng 48 50 a && is_digit b) || ((a =? 51) && in_rng 48 49 b).      (* [012]\d|3[01] *)
Definition p_hour (a b : N) : bool := (in_rng 48 49 a && is_digit b) || ((a =? 50) && in_rng 48 51 b).     (* [01]\d|2[0-3] *)
Definition p_min (a b : N) : bool := in_rng 48 53 a && is_digit b.                                          (* [0-5]\d *)

Fixpoint take_digits (l : list N) : list N * list N :=
  match l with
  | c :: r => if is_digit c then let '(d, r') := take_digits r in (c :: d, r') else ([], l)
  | [] => ([], [])
  end.

(* (?P<year>\d\d\d\d), or \d{4,} (greedy: a shorter run would be followed by a digit) *)
Definition year_of (long : bool) (l : list N) : option (list N * list N) :=
  if long then
    let '(d, r) := take_digits l in if (4 <=? length d)%nat then Some (d, r) else None
  else
    match l with
    | a :: b :: c :: d :: r =>
        if is_digit a && is_digit b && is_digit c && is_digit d then Some ([a; b; c; d], r) else None
    | _ => None
    end.

(* [ \t\n\f\r]*$ *)
Definition finish (g : groups) (l : list N) : option groups :=
  match drop_while is_html_ws l with [] => Some g | _ => None end.

(* (?::(?P<second>[0-5]\d)(?:\.\d+)?)? : the second and what follows *)
Definition seconds (l : list N) : option (list N * list N) :=
  match l with
  | c :: r =>
      if c =? 58 then
        match two p_min r with
        | Some (s, r') =>
            match r' with
            | dot :: r'' =>
                if dot =? 46 then
                  let '(d, r3) := take_digits r'' in
                  match d with [] => Some (s, r') | _ => Some (s, r3) end    (* no digit: the fraction group is skipped *)
                else Some (s, r')
            | [] => Some (s, r')
            end
        | None => None
        end
      else Some ([], l)
  | [] => Some ([], l)
  end.

(* (?:Z|(?P<tzHour>[+-](?:[01]\d|2[0-3])):(?P<tzMinute>[0-5]\d)) *)
Definition zone (l : list N) : option (list N * list N * list N) :=
  match l with
  | c :: r =>
      if c =? 90 then Some ([], [], r)
      else if (c =? 43) || (c =? 45) then
        match two p_hour r with
        | Some (h, colon :: r1) =>
            if colon =? 58 then
              match two p_min r1 with
              | Some (m, r2) => Some (c :: h, m, r2)
              | None => None
              end
            else None
        | _ => None
        end
      else None
  | [] => None
  end.

(* (?:T hh:mm seconds? zone)? *)
Definition stage_time (y mo d : list N) (l : list N) : option groups :=
  match l with
  | c :: r =>
      if c =? 84 then
        match two p_hour r with
        | Some (h, colon :: r1) =>
            if colon =? 58 then
              match two p_min r1 with
              | Some (mi, r2) =>
                  match seconds r2 with
                  | Some (s, r3) =>
                      match zone r3 with
                      | Some (tzh, tzm, r4) => finish (mkG y mo d h mi s tzh tzm) r4
                      | None => None
                      end
                  | None => None
                  end
              | None => None
              end
            else None
        | _ => None
        end
      else finish (mkG y mo d [] [] [] [] []) l
  | [] => finish (mkG y mo d [] [] [] [] []) l
  end.

Definition stage_day (y mo : list N) (l : list N) : option groups :=
  match l with
  | c :: r =>
      if c =? 45 then
        match two p_day r with
        | Some (d, r1) => stage_time y mo d r1
        | None => None
        end
      else finish (mkG y mo [] [] [] [] [] []) l
  | [] => finish (mkG y mo [] [] [] [] [] []) l
  end.

Definition stage_month (y : list N) (l : list N) : option groups :=
  match l with
  | c :: r =>
      if c =? 45 then
        match two p_month r with
        | Some (mo, r1) => stage_day y mo r1
        | None => None
        end
      else finish (mkG y [] [] [] [] [] [] []) l
  | [] => finish (mkG y [] [] [] [] [] [] []) l
  end.

(* w3CDateRe.FindStringSubmatch: None = no match *)
Definition match_w3c (long : bool) (s : list N) : option groups :=
  match year_of long (drop_while is_html_ws s) with
  | Some (y, r) => stage_month y r
  | None => None
  end.

(* ------------------------------------------------------------------ toInt, html.go:446 *)
Definition site_toint : N := 830.     (* panic(fmt.Sprintf("unexpected string for int : %s", s)) *)
Definition to_int (s : list N) (default : option Z) : res Z :=
  match s, default with
  | [], Some d => Ok d
  | _, _ => match atoi s with Some v => Ok v | None => Panic site_toint end
  end.

(* ------------------------------------------------------------------ parseW3cDate, html.go:458 *)
Record w3c_date := mkDate { d_year : Z; d_month : Z; d_day : Z; d_hour : Z; d_minute : Z; d_second : Z;
                            d_offset : Z (* seconds east of UTC *) }.

Definition is_nil (l : list N) : bool := match l with [] => true | _ => false end.
Definition starts_with (c : N) (l : list N) : bool := match l with x :: _ => x =? c | [] => false end.

(* Ok None = the error return *)
Definition parse_w3c_date (long : bool) (s : list N) : res (option w3c_date) :=
  match match_w3c long s with
  | None => Ok None                                                        (* len(match) == 0 *)
  | Some g =>
      let* year := to_int (g_year g) None in
      let* month := to_int (g_month g) (Some 1%Z) in
      let* day := to_int (g_day g) (Some 1%Z) in
      let* hour := to_int (g_hour g) (Some 0%Z) in
      let* minute := to_int (g_minute g) (Some 0%Z) in
      let* second := to_int (g_second g) (Some 0%Z) in
      let mk := fun off => Ok (Some (mkDate year month day hour minute second off)) in
      if negb (is_nil (g_hour g)) then
        if is_nil (g_minute g) then Ok None
        else if negb (is_nil (g_tzh g)) then
          if negb (starts_with 43 (g_tzh g) || starts_with 45 (g_tzh g)) then Ok None
          else if is_nil (g_tzm g) then Ok None
          else
            let* tzh := to_int (g_tzh g) None in
            let* tzm := to_int (g_tzm g) None in
            let tzm := if starts_with 45 (g_tzh g) then (- tzm)%Z else tzm in
            mk (tzh * 3600 + tzm * 60)%Z
        else mk 0%Z
      else mk 0%Z
  end.

(* ------------------------------------------------------------------ the instant time.Date denotes *)
Open Scope Z_scope.
(* days since 1970-01-01 of the proleptic Gregorian date y-m-d, 1 <= m <= 12 (floor divisions) *)
Definition days_from_civil (y m d : Z) : Z :=
  let y' := if m <=? 2 then y - 1 else y in
  let era := y' / 400 in
  let yoe := y' - era * 400 in
  let doy := (153 * (if 2 <? m then m - 3 else m + 9) + 2) / 5 + d - 1 in
  let doe := yoe * 365 + yoe / 4 - yoe / 100 + doy in
  era * 146097 + doe - 719468.

Definition unix_seconds (t : w3c_date) : Z :=
  (days_from_civil (d_year t) (d_month t) 1 + (d_day t - 1)) * 86400
  + d_hour t * 3600 + d_minute t * 60 + d_second t - d_offset t.
