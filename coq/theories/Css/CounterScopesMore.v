(* C19, final round: laws of clampCounter (build.go:893-900) that UpdateCounters relies on. *)
From Verif Require Import Css.CounterScopes Css.CounterScopesSpec.
From Coq Require Import ZArith Lia ZifyBool.
Local Open Scope Z_scope.

Lemma pow31 : 2 ^ 31 = 2147483648. Proof. reflexivity. Qed.

(* the Go clampCounter is the spec's clamp, for every integer *)
Lemma clamp_counter_is_clamp : forall v : Z, clamp_counter v = clamp v.
Proof.
  intro v. unfold clamp_counter, clamp, max_i32, min_i32. rewrite pow31.
  destruct (Z.gtb_spec v (2147483648 - 1)); destruct (Z.ltb_spec v (- (2147483648))); lia.
Qed.

(* every stored counter value is an int32 *)
Lemma clamp_counter_bounds : forall v : Z, - 2 ^ 31 <= clamp_counter v <= 2 ^ 31 - 1.
Proof.
  intro v. unfold clamp_counter, max_i32, min_i32. rewrite pow31.
  destruct (Z.gtb_spec v (2147483648 - 1)); destruct (Z.ltb_spec v (- (2147483648))); lia.
Qed.

(* identity on int32, hence idempotent *)
Lemma clamp_counter_id : forall v : Z, - 2 ^ 31 <= v <= 2 ^ 31 - 1 -> clamp_counter v = v.
Proof.
  intros v Hv. unfold clamp_counter, max_i32, min_i32. rewrite pow31 in *.
  destruct (Z.gtb_spec v (2147483648 - 1)); destruct (Z.ltb_spec v (- (2147483648))); lia.
Qed.

Lemma clamp_counter_idem : forall v : Z, clamp_counter (clamp_counter v) = clamp_counter v.
Proof. intro v. apply clamp_counter_id, clamp_counter_bounds. Qed.

(* monotone: a larger increment never yields a smaller counter *)
Lemma clamp_counter_mono : forall a b : Z, a <= b -> clamp_counter a <= clamp_counter b.
Proof.
  intros a b Hab. rewrite !clamp_counter_is_clamp. unfold clamp. lia.
Qed.

(* counter-increment step stays in int32 and never overflows int64 in between *)
Lemma increment_step_bounds : forall old v : Z,
  - 2 ^ 31 <= old <= 2 ^ 31 - 1 ->
  - 2 ^ 32 <= old + clamp_counter v <= 2 ^ 32 - 2 /\
  - 2 ^ 31 <= clamp_counter (old + clamp_counter v) <= 2 ^ 31 - 1.
Proof.
  intros old v Hold. split; [|apply clamp_counter_bounds].
  pose proof (clamp_counter_bounds v) as Hb.
  change (2 ^ 32) with 4294967296. rewrite pow31 in *. lia.
Qed.
