(* Css/FindRoot.v -- root element discovery after html.Parse
   (/repo html/tree/tree.go NewHTML) over the list of the kinds of the children
   of the parsed document node (dumped by the harness), and what the box builder
   does with a root of each kind (html/boxes/build.go 101-113, 193-200).
   Two versions: [find_root_orig] ports the unchanged tree (6439a2e,
   tree.go 57-64), [find_root] ports the repaired code (570653b).
   No proofs in this file. *)
From Verif Require Import Base.GoSem.
From Coq Require Import List ZArith.
Import ListNotations.

(* html.NodeType of a child of the document node *)
Inductive topnode := Doctype | Comment | Elem | Text | Other.

Definition topnode_eqb (a b : topnode) : bool :=
  match a, b with
  | Doctype, Doctype | Comment, Comment | Elem, Elem | Text, Text | Other, Other => true
  | _, _ => false
  end.

(* The result is the index of the chosen root among the children, None when
   NewHTML returns an error ("invalid html input"), Panic for a nil dereference. *)

(* unchanged tree:
     if err != nil || root.FirstChild == nil { return nil, error }
     out.Root = root.FirstChild
     if out.Root.Type == html.DoctypeNode { out.Root = out.Root.NextSibling }
     out.Root.Parent = nil                      // tree.go:64 nil dereference if no sibling *)
Definition find_root_orig (l : list topnode) : res (option Z) :=
  match l with
  | [] => Ok None
  | Doctype :: [] => Panic 64
  | Doctype :: _ => Ok (Some 1%Z)
  | _ :: _ => Ok (Some 0%Z)
  end.

(* repaired tree (570653b):
     for child := root.FirstChild; child != nil; child = child.NextSibling {
       if child.Type == html.ElementNode { out.Root = child; break } }
     if out.Root == nil { return nil, error } *)
Fixpoint find_root_from (i : Z) (l : list topnode) : option Z :=
  match l with
  | [] => None
  | Elem :: _ => Some i
  | _ :: r => find_root_from (i + 1) r
  end.

Definition find_root (l : list topnode) : res (option Z) := Ok (find_root_from 0 l).

(* kind of the node at an index (Other when out of range) *)
Definition kind_at (l : list topnode) (i : Z) : topnode :=
  if (i <? 0)%Z then Other else nth (Z.to_nat i) l Other.

(* html/boxes/build.go: number of boxes elementToBox returns for a node of a
   kind: comments, doctypes and processing instructions give none (193-200);
   an element gives none when its display is none (204-207) *)
Definition element_to_box_len (k : topnode) (display_none : bool) : nat :=
  match k with
  | Elem => if display_none then 0 else 1
  | Text => 1
  | _ => 0
  end.

(* BuildFormattingStructure (build.go 101-113):
     boxList := elementToBox(root, styleFor)
     if len(boxList) > 0 { box = boxList[0] }
     else { box = elementToBox(root, rootStyleFor)[0] }   // display forced to block
   the second indexing panics (build.go:112) when the root is not an element *)
Definition build_root (k : topnode) (display_none : bool) : res unit :=
  if (0 <? element_to_box_len k display_none)%nat then Ok tt
  else
    let* _ := index 112 (repeat tt (element_to_box_len k false)) 0 in
    Ok tt.

(* NewHTML followed by BuildFormattingStructure *)
Definition root_pipeline (find : list topnode -> res (option Z)) (l : list topnode)
           (display_none : bool) : res bool :=
  let* r := find l in
  match r with
  | None => Ok false                       (* NewHTML returned an error *)
  | Some i => let* _ := build_root (kind_at l i) display_none in Ok true
  end.
