(* Css/DefaultingSpec.v -- what CSS says, transcribed independently of the code.

   * CSS Values and Units 3, section 5.2: absolute lengths by fixed ratios
       1in = 96px = 72pt = 6pc = 2.54cm = 25.4mm = 101.6q
     and section 5.1.1: em / rem are relative to the computed font size of the
     element / of the root element (on the `font-size` property itself: of the
     parent / the initial value).
   * CSS Fonts 3, section 3.5: <absolute-size> keywords as ratios of `medium`,
     percentages of the parent's font size; section 3.2: the bolder / lighter
     table.
   * CSS 2.1 section 8.5.1: a border width computes to 0 when the border style
     is none or hidden; thin / medium / thick are UA lengths (1, 3, 5 px here);
     section 9.7: display / float adjustments ("blockification");
     section 10.8.1: line-height.
   * CSS Cascade 4 section 7 (defaulting): stated as equations over `computed`
     in Properties/C04.v with the vocabulary below.

   No reference to the model's computer functions here: only values. *)
From Verif Require Import Css.DefaultingValue Generated.PropTables.
From Coq Require Import QArith ZArith NArith String List Bool.
Import ListNotations.
Open Scope N_scope.

Local Infix "==s" := String.eqb (at level 70, no associativity).

(* ------------------------------------------------------------------ units *)

(* CSS pixels per unit, from the ratios to the inch *)
Definition css_inch : Q := 96.
Definition css_px_per (u : N) : option Q :=
  if u =? U_Px then Some 1%Q
  else if u =? U_In then Some css_inch
  else if u =? U_Cm then Some (css_inch / (254 # 100))%Q      (* 1in = 2.54cm *)
  else if u =? U_Mm then Some (css_inch / (254 # 10))%Q       (* 1in = 25.4mm *)
  else if u =? U_Q then Some (css_inch / (1016 # 10))%Q       (* 1in = 101.6q *)
  else if u =? U_Pt then Some (css_inch / 72)%Q               (* 1in = 72pt *)
  else if u =? U_Pc then Some (css_inch / 6)%Q                (* 1in = 6pc *)
  else None.

(* computed value of a <length-percentage> / keyword.
   fs: the font size `em` refers to; rfs: the font size `rem` refers to;
   out: how the implementation tags a pixel length (Px, or Scalar where the
   property is stored as a bare number of pixels).
   Keywords, percentages and numbers are their own computed value; a zero of any
   unit is the zero length. *)
Definition spec_length (fs rfs : Q) (out : N) (v : value) : value :=
  match v with
  | VDim s q u =>
      if negb (s ==s "") then v
      else match css_px_per u with
           | Some r => VDim "" (q * r) out
           | None =>
               if u =? U_Em then VDim "" (q * fs) out
               else if u =? U_Rem then VDim "" (q * rfs) out
               else if Qeq_bool q 0 then VDim "" 0 out
               else v
           end
  | _ => v
  end.

(* CSS Values 3 section 5.1.1, font-relative lengths that need the font itself:
     ex  "equal to the used x-height of the first available font"
     ch  "equal to the used advance measure of the 0 (ZERO, U+0030) glyph found in the font used to render it"
   xh, zw: x-height and advance of "0" of the element's font at a font size of 1 (they scale
   linearly with the font size); fs: the font size `em` refers to for that property. *)
Definition spec_font_metric_length (fs xh zw : Q) (out : N) (v : value) : value :=
  match v with
  | VDim s q u =>
      if negb (s ==s "") then v
      else if u =? U_Ex then VDim "" (q * (fs * xh)) out
      else if u =? U_Ch then VDim "" (q * (fs * zw)) out
      else v
  | _ => v
  end.

(* the fonts of the harness (resources_test): Ahem has an x-height of 0.8 em and every glyph
   1 em wide (https://web-platform-tests.org/writing-tests/ahem.html); weasyprint.otf: x-height
   0.7998 em once rounded to 5 decimals (OS/2 sxHeight), "0" 1 em wide *)
Definition known_font_metrics : list (Q * Q) := [(8 # 10, 1); (7998 # 10000, 1)]%Q.

(* ------------------------------------------------------------------ fonts *)

(* CSS Fonts 3 section 3.5: scaling factors of the <absolute-size> keywords *)
Definition css_font_size_ratio (s : string) : option Q :=
  if s ==s "xx-small" then Some (3 # 5) else if s ==s "x-small" then Some (3 # 4)
  else if s ==s "small" then Some (8 # 9) else if s ==s "medium" then Some 1%Q
  else if s ==s "large" then Some (6 # 5) else if s ==s "x-large" then Some (3 # 2)
  else if s ==s "xx-large" then Some 2%Q else None.

Definition css_size_names : list string :=
  ["xx-small"; "x-small"; "small"; "medium"; "large"; "x-large"; "xx-large"].

(* the <absolute-size> table for a given `medium` *)
Definition css_size_table (medium : Q) : list Q :=
  map (fun s => match css_font_size_ratio s with Some r => (medium * r)%Q | None => 0%Q end) css_size_names.

Definition Qltb (a b : Q) : bool := negb (Qle_bool b a).

(* larger / smaller: the next entry of the table, else a factor 1.2 / 0.8 *)
Definition css_larger (medium pfs : Q) : Q :=
  match find (fun k => Qltb pfs k) (css_size_table medium) with
  | Some k => k | None => (pfs * (12 # 10))%Q end.
Definition css_smaller (medium pfs : Q) : Q :=
  match find (fun k => Qltb k pfs) (rev (css_size_table medium)) with
  | Some k => k | None => (pfs * (8 # 10))%Q end.

(* computed font-size (a number of px), from the specified value, the parent's
   computed font size (the initial value on the root) and the root font size *)
Definition spec_font_size (medium pfs rfs : Q) (v : value) : value :=
  match v with
  | VDim s q u =>
      match css_font_size_ratio s with
      | Some r => VDim "" (medium * r) U_Scalar
      | None =>
          if s ==s "larger" then VDim "" (css_larger medium pfs) U_Scalar
          else if s ==s "smaller" then VDim "" (css_smaller medium pfs) U_Scalar
          else if u =? U_Perc then VDim "" (q * pfs / 100) U_Scalar
          else spec_length pfs rfs U_Scalar v          (* em on font-size: the parent's font size *)
      end
  | _ => v
  end.

(* CSS Fonts 3 section 3.2 *)
Definition css_bolder (w : Z) : Z :=
  if (w <? 400)%Z then 400%Z else if (w <? 600)%Z then 700%Z else 900%Z.
Definition css_lighter (w : Z) : Z :=
  if (w <? 600)%Z then 100%Z else if (w <? 800)%Z then 400%Z else 700%Z.
Definition css_weights : list Z := [100; 200; 300; 400; 500; 600; 700; 800; 900]%Z.

Definition spec_font_weight (pfw : Z) (v : value) : value :=
  match v with
  | VIntStr s i =>
      if s ==s "normal" then VIntStr "" 400
      else if s ==s "bold" then VIntStr "" 700
      else if s ==s "bolder" then VIntStr "" (css_bolder pfw)
      else if s ==s "lighter" then VIntStr "" (css_lighter pfw)
      else VIntStr "" i
  | _ => v
  end.

(* ------------------------------------------------------------------ box properties *)

Definition css_border_keyword (s : string) : option Q :=
  if s ==s "thin" then Some 1%Q else if s ==s "medium" then Some 3%Q
  else if s ==s "thick" then Some 5%Q else None.

(* CSS 2.1 8.5.1 *)
Definition spec_border_width (style : string) (fs rfs : Q) (v : value) : value :=
  if (style ==s "none") || (style ==s "hidden") then VDim "" 0 U_Scalar
  else match v with
       | VDim s q u =>
           match css_border_keyword s with
           | Some w => VDim "" w U_Scalar
           | None => spec_length fs rfs U_Scalar v
           end
       | _ => v
       end.

(* CSS Paged Media 3 / GCPM `bleed`: "auto: computes to 6pt if marks has crop and to zero
   otherwise"; a <length> is made absolute.  crop: the `crop` flag of the computed `marks` of
   the same page context (marks: crop | cross | crop cross | none). *)
Definition spec_bleed (crop : bool) (fs rfs : Q) (v : value) : value :=
  match v with
  | VDim s q u =>
      if s ==s "auto" then VDim "" (if crop then 6 * (css_inch / 72) else 0)%Q U_Px
      else spec_length fs rfs U_Px v
  | _ => v
  end.

(* CSS 2.1 10.8.1: normal and <number> are kept, a percentage refers to the font
   size of the element, lengths are absolute *)
Definition spec_line_height (fs rfs : Q) (v : value) : value :=
  match v with
  | VDim s q u =>
      if s ==s "normal" then v
      else if u =? U_Scalar then v
      else if u =? U_Perc then VDim "" (q / 100 * fs) U_Px
      else match spec_length fs rfs U_Scalar v with
           | VDim _ px _ => VDim "" px U_Px
           | w => w
           end
  | _ => v
  end.

(* CSS 2.1 10.8.1 vertical-align: "<percentage>: raise (positive value) or lower (negative
   value) the box by this distance (a percentage of the 'line-height' value)" of the element
   itself.  The used line height of a computed line-height: the length, or the number times
   the element's font size; `normal` is left to the font (None). *)
Definition spec_used_line_height (fs : Q) (lh : value) : option Q :=
  match lh with
  | VDim s l u =>
      if s ==s "normal" then None
      else if u =? U_Scalar then Some (l * fs)%Q else Some l
  | _ => None
  end.

Definition spec_vertical_align_percent (q fs : Q) (lh : value) : option Q :=
  match spec_used_line_height fs lh with
  | Some h => Some (q / 100 * h)%Q
  | None => None
  end.

(* CSS 2.1 9.7: when the element is absolutely positioned, floated, or the root,
   `display` is set according to the table; otherwise as specified *)
Definition spec_display (abs_or_fixed floated is_root : bool) (v : value) : value :=
  if abs_or_fixed || floated || is_root then
    match v with
    | VDisplay a b c =>
        if (a ==s "inline-table") && (b ==s "") && (c ==s "") then VDisplay "block" "table" ""   (* inline-table -> table *)
        else if (b ==s "") && (c ==s "") && String.prefix "table-" a then VDisplay "block" "flow" ""  (* table-* -> block *)
        else if a ==s "inline" then                                                             (* inline ... -> block *)
          if (b ==s "list-item") || (c ==s "list-item") then VDisplay "block" "flow" "list-item"
          else VDisplay "block" "flow" ""
        else v
    | _ => v
    end
  else v.

(* CSS 2.1 9.7: `float` computes to none on absolutely positioned boxes
   (and on running() elements, which leave the flow) *)
Definition spec_float (out_of_flow : bool) (v : value) : value :=
  if out_of_flow then VStr "none" else v.

(* ------------------------------------------------------------------ which properties inherit *)

(* "Inherited: yes" in the property definition tables of CSS 2.1 (propidx), Fonts 3/4,
   Text 3/4, Lists 3, Images 3, Fragmentation 3 (orphans, widows), Writing Modes
   (direction), among the properties the implementation supports; `lang` and `link` are
   the implementation's proprietary properties (inherited like the HTML lang attribute
   and link ancestors).  KNOWN DEVIATION, not in this list: `image-orientation` is
   "Inherited: yes" in CSS Images 3 but is not inherited by the implementation (nor by
   WeasyPrint); recorded in notes/C04.md. *)
Definition css_inherited_names : list string := [
  "border-collapse"; "border-spacing"; "caption-side"; "color"; "direction"; "empty-cells";
  "font-family"; "font-feature-settings"; "font-kerning"; "font-language-override"; "font-size";
  "font-style"; "font-stretch"; "font-variant"; "font-variant-alternates"; "font-variant-caps";
  "font-variant-east-asian"; "font-variant-ligatures"; "font-variant-numeric"; "font-variant-position";
  "font-variation-settings"; "font-weight"; "hyphens"; "hyphenate-character"; "hyphenate-limit-chars";
  "hyphenate-limit-zone"; "image-rendering"; "image-resolution"; "lang"; "letter-spacing"; "line-height";
  "link"; "list-style-image"; "list-style-position"; "list-style-type"; "orphans"; "overflow-wrap";
  "quotes"; "tab-size"; "text-align-all"; "text-align-last"; "text-indent"; "text-transform";
  "visibility"; "white-space"; "widows"; "word-spacing"; "word-break"
]%string.

(* properties whose initial value has a computed value that depends on other properties
   of the element: display (9.7), border / outline / column-rule widths (their style) and
   colors (currentColor), column-gap (normal), bleed (auto: marks) *)
Definition css_context_dependent_initial : list string := [
  "display"; "column-gap"; "bleed-top"; "bleed-left"; "bleed-bottom"; "bleed-right";
  "outline-width"; "outline-color"; "column-rule-width"; "column-rule-color";
  "border-top-width"; "border-left-width"; "border-bottom-width"; "border-right-width";
  "border-top-color"; "border-left-color"; "border-bottom-color"; "border-right-color"
]%string.
